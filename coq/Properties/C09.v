(** Property C09 — recursion is cut into named components, finitely and without aliasing.

    Proved here, for every definition graph (any number of declarations, parallel edges, self
    loops) and every [scc] meeting the contract of petgraph's kosaraju_scc: the recursion
    check terminates within [length g + 1] rounds, accepts exactly the graphs all of whose
    cycles pass through a referential (schema, not uri-like) declaration, and rejects the
    others — so function cycles, content cycles and plain alias cycles are errors; the shared
    [inbounds] buffer of the code is harmless.
    Evaluator side, on the evaluator model (Model/Eval.v, tied to eval.rs on every run):
    evaluation of a stratified first-order program -- every cycle of uses passes through a
    declaration that the evaluator memoises in its reference table, which is what the check
    above guarantees of accepted programs and what the tie re-checks on each of them -- never
    runs out of an explicit amount of fuel ([C09_evaluation_is_finite]); in the resulting Spec
    every recursion point is a reference to an entry of the reference table
    ([C09_recursion_points_resolve]); a program with an uncut cycle exhausts any fuel (witness).
    Distinct instantiations get distinct components: the key of the component a [rec]
    expression creates carries the identifier of the scope on top of the evaluation stack; the
    body of every application is evaluated under a scope whose identifier is larger than every
    identifier issued before, so every recursion key created while the body runs is larger than
    every scope identifier in use and every recursion key present when the body started
    ([C09_body_keys_fresh], from the state invariant [C09_evaluation_step]); two applications of
    one function therefore never share a recursion key (witness: two components for one rec
    node). One instantiation is emitted once: the keys of the reference table of a program are
    pairwise distinct ([C09_components_distinct]).
    From the check to the evaluator: every referential declaration on a cycle is flagged
    ([C09_marks_cover]), so an accepted graph has no cycle that avoids the flagged declarations
    ([C09_flagged_cut_every_cycle]); if the graph has an edge for every use of a declaration in
    another's right-hand side and flagged declarations are the ones the evaluator memoises (how
    compile.rs builds the graph and stores the flags: two hypotheses, each observed by the tie
    on every accepted program: the real definition graph is dumped and must contain every pair
    of [EvalIO.use_edges], and no flagged declaration has parameters), the program has no cycle of uses avoiding memoised declarations
    ([C09_accepted_is_acyclic]) and, its bodies being first order, it is stratified
    ([C09_accepted_first_order_is_stratified]); [Strat.stratified] itself is exactly "first-order
    bodies and no such cycle" ([C09_stratified_iff]: the relaxation finds ranks whenever ranks
    exist). Component names are hashes of these keys in the code (sha256, distinct
    inputs are assumed to give distinct names; the relocation monitor observes them). *)
From Oal Require Import Cycles CyclesProofs.
From Oal Require Eval EvalIO Strat TermProofs ClosureProofs FreshProofs RankProofs RecursionLink.

Theorem C09_cycles_check_spec :
  forall referential scc, scc_spec scc -> forall fuel ns g marks,
  length g < fuel ->
  match cycles_check referential scc fuel ns g marks with
  | COk _ => ~ bad_cycle referential g
  | CErr _ => bad_cycle referential g
  | CFuel => False
  end.
Proof. exact cycles_check_spec. Qed.
Print Assumptions C09_cycles_check_spec.

Theorem C09_cycles_check_terminates :
  forall referential scc, scc_spec scc -> forall ns g,
  cycles_check referential scc (S (length g)) ns g [] <> CFuel.
Proof. exact cycles_check_terminates. Qed.
Print Assumptions C09_cycles_check_terminates.

Theorem C09_accepted_iff_every_cycle_cut :
  forall referential scc, scc_spec scc -> forall ns g,
  (exists m, cycles_check referential scc (S (length g)) ns g [] = COk m) <-> ~ bad_cycle referential g.
Proof. exact accepted_iff_every_cycle_cut. Qed.
Print Assumptions C09_accepted_iff_every_cycle_cut.

(** corollaries named in the property: a cycle made of functions / contents / aliases only
    (no referential declaration on it) is a bad cycle, hence rejected *)
Theorem C09_unreferential_self_loop_rejected :
  forall referential scc, scc_spec scc -> forall ns g n,
  In (n, n) g -> referential n = false ->
  forall m, cycles_check referential scc (S (length g)) ns g [] <> COk m.
Proof.
  intros referential scc H ns g n Hin Hn m E.
  apply (proj1 (accepted_iff_every_cycle_cut referential scc H ns g)); [eauto|].
  exists n. apply walkP_one; assumption.
Qed.
Print Assumptions C09_unreferential_self_loop_rejected.

(** non-vacuity of the contract: a concrete scc function meets it on a concrete graph *)
Example C09_bad_cycle_example :
  bad_cycle (fun n => N.eqb n 2) [(0, 1); (1, 0); (1, 2); (2, 2)]%N.
Proof.
  exists 0%N. eapply walkP_cons; [left; reflexivity|reflexivity|].
  apply walkP_one; [right; left; reflexivity|reflexivity].
Qed.

(** * the evaluator side *)
Theorem C09_evaluation_is_finite : forall P rk R Z rs,
  Strat.strat_okb P rk R Z rs = true ->
  forall n, TermProofs.B R Z (TermProofs.U P Eval.st0) R Z <= n -> Eval.eval_program false P n rs <> Eval.Fuel.
Proof. exact TermProofs.program_terminates. Qed.
Print Assumptions C09_evaluation_is_finite.

Theorem C09_recursion_points_resolve : forall P n rs rels table,
  Eval.eval_program false P n rs = Eval.Ok (rels, table) ->
  (forall k, In k (flat_map ClosureProofs.ks_relation rels) -> In k (map fst table)) /\
  (forall k sc, In (k, sc) table -> forall k', In k' (ClosureProofs.ks_schema sc) -> In k' (map fst table)).
Proof. exact ClosureProofs.spec_closed. Qed.
Print Assumptions C09_recursion_points_resolve.

Theorem C09_uncut_cycle_loops_refuted :
  Strat.stratified TermProofs.ex_loop TermProofs.ex_loop_rs = false /\
  Eval.eval_program false TermProofs.ex_loop 200 TermProofs.ex_loop_rs = Eval.Fuel.
Proof. exact TermProofs.ex_loop_not_stratified. Qed.
Print Assumptions C09_uncut_cycle_loops_refuted.

Example C09_recursive_program_is_stratified : Strat.stratified ClosureProofs.ex_rec_P ClosureProofs.ex_rec_rs = true.
Proof. exact TermProofs.ex_rec_stratified. Qed.

(** distinct instantiations, distinct components *)
Theorem C09_evaluation_step : forall lx P n s e a s' v,
  FreshProofs.bounded s -> Eval.eval lx P n s e a = Eval.Ok (s', v) -> FreshProofs.step_ok s s'.
Proof. exact FreshProofs.eval_step_ok. Qed.
Print Assumptions C09_evaluation_step.

Theorem C09_body_keys_fresh : forall lx P n s2 sc body a s3 r,
  FreshProofs.bounded s2 -> Eval.eval lx P n (Eval.push_scope s2 sc) body a = Eval.Ok (s3, r) ->
  forall m i k, In (Eval.KRec m i k) (FreshProofs.rkeys s3) -> ~ In (Eval.KRec m i k) (FreshProofs.rkeys s2) ->
  (Eval.seq s2 < k)%N /\
  (forall id sc', In (id, sc') (Eval.scopes s2) -> (id < k)%N) /\
  (forall m' i' k', In (Eval.KRec m' i' k') (FreshProofs.rkeys s2) -> (k' < k)%N).
Proof. exact FreshProofs.body_keys_fresh. Qed.
Print Assumptions C09_body_keys_fresh.

Theorem C09_components_distinct : forall lx P n rs rels table,
  Eval.eval_program lx P n rs = Eval.Ok (rels, table) -> NoDup (map fst table).
Proof. exact FreshProofs.program_components_distinct. Qed.
Print Assumptions C09_components_distinct.

Example C09_two_instantiations :
  exists rels s1 s2,
    Eval.eval_program false FreshProofs.ex_inst_P 50 FreshProofs.ex_inst_rs =
    Eval.Ok (rels, [(Eval.KRec 0 9 1, s1); (Eval.KRec 0 9 3, s2)]) /\ s1 <> s2.
Proof. exact FreshProofs.ex_two_instantiations. Qed.

(** from the recursion check to stratification *)
Theorem C09_marks_cover : forall referential scc, scc_spec scc -> forall fuel ns g marks marks',
  cycles_check referential scc fuel ns g marks = COk marks' ->
  (forall n, In n marks -> In n marks') /\ (forall n, walk g n n -> referential n = true -> In n marks').
Proof. exact marks_cover. Qed.
Print Assumptions C09_marks_cover.

Theorem C09_flagged_cut_every_cycle : forall referential scc, scc_spec scc -> forall ns g marks',
  cycles_check referential scc (S (length g)) ns g [] = COk marks' ->
  ~ exists n, walkP (fun x => ~ In x marks') g n n.
Proof. exact flagged_cut_every_cycle. Qed.
Print Assumptions C09_flagged_cut_every_cycle.

Theorem C09_stratified_iff : forall P rs,
  Strat.stratified P rs = true <->
  ~ RankProofs.cyclic P /\ (forall m i d, Eval.get_decl P m i = Some d -> Strat.fo P (Eval.d_rhs d) = true) /\
  (forall r, In r rs -> Strat.fo P r = true).
Proof. exact RankProofs.stratified_iff. Qed.
Print Assumptions C09_stratified_iff.

Theorem C09_accepted_is_acyclic : forall P referential scc, scc_spec scc -> forall (nu : N -> N -> N) ns g marks,
  (forall x y, RankProofs.edge P x y -> In (nu (fst x) (snd x), nu (fst y) (snd y)) g) ->
  (forall m i, In (nu m i) marks -> Strat.cutb P m i = true) ->
  cycles_check referential scc (S (length g)) ns g [] = COk marks ->
  ~ RankProofs.cyclic P.
Proof. exact RecursionLink.accepted_is_acyclic. Qed.
Print Assumptions C09_accepted_is_acyclic.

Theorem C09_accepted_first_order_is_stratified : forall P referential scc, scc_spec scc -> forall (nu : N -> N -> N) ns g marks,
  (forall x y, RankProofs.edge P x y -> In (nu (fst x) (snd x), nu (fst y) (snd y)) g) ->
  (forall m i, In (nu m i) marks -> Strat.cutb P m i = true) ->
  cycles_check referential scc (S (length g)) ns g [] = COk marks ->
  forall rs, (forall m i d, Eval.get_decl P m i = Some d -> Strat.fo P (Eval.d_rhs d) = true) -> (forall r, In r rs -> Strat.fo P r = true) ->
  Strat.stratified P rs = true.
Proof. exact RecursionLink.accepted_first_order_is_stratified. Qed.
Print Assumptions C09_accepted_first_order_is_stratified.

Theorem C09_accepted_is_acyclic_by_use_edges : forall P referential scc, scc_spec scc -> forall (nu : N -> N -> N) ns g marks,
  (forall x y, In (x, y) (EvalIO.use_edges P) -> In (nu (fst x) (snd x), nu (fst y) (snd y)) g) ->
  (forall m i, In (nu m i) marks -> Strat.cutb P m i = true) ->
  cycles_check referential scc (S (length g)) ns g [] = COk marks ->
  ~ RankProofs.cyclic P.
Proof. exact RecursionLink.accepted_is_acyclic_by_use_edges. Qed.
Print Assumptions C09_accepted_is_acyclic_by_use_edges.
