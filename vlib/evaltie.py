"""The evaluator tie (model coq/Model/Eval.v vs oal-compiler/src/eval.rs): the harness transcribes
the resolved trees the real front end produced for a program into the model's syntax and prints
the real evaluation result in the model's result format; the extracted model evaluates the
transcription; the two result lines must be identical (panic site, error kind or the whole
Spec with references printed as positions in the reference table)."""
import glob
import json
import os
from . import core

SITES = {1: "cast_schema", 2: "cast_content", 3: "cast_ranges", 4: "cast_string", 5: "cast_property", 6: "cast_http_status",
         7: "cast_object", 8: "cast_transfer", 9: "cast_relation", 10: "cast_uri", 11: "cast_lambda", 12: "lookup_binding",
         13: "unknown declaration", 14: "concat arity", 15: "Uri::append on an empty path", 16: "unexpected node", 17: "under-applied function (lexical semantics only)", 99: "other panic"}


def kind_of(result):
    if result.startswith("(0 "):
        return "spec"
    if result.startswith("(1 "):
        return "error"
    if result.startswith("(2 "):
        return "panic_" + SITES.get(int(result[3:-1]), "?")
    if result.startswith("(3"):
        return "model-out-of-fuel"
    if result.startswith("(4"):
        return "model-decode-failure"
    return "unreadable"


def repo_corpus():
    """programs of the repository itself: the example folder"""
    out = []
    root = os.path.join(core.REPO, "examples")
    mods = {}
    for f in sorted(glob.glob(os.path.join(root, "*.oal"))):
        mods["file:///ex/" + os.path.basename(f)] = open(f, encoding="utf8").read()
    if "file:///ex/main.oal" in mods:
        out.append({"mods": mods, "main": "file:///ex/main.oal"})
    # implicit references to atomic schemas (inlined by the emitter) before and after kept components
    out.append({"mods": {"file:///w/main.oal": "let self_link = /nodes/{ 'id! int } on get -> <{ 'self self_link }>;\n"
                         "let @node = { 'name str, 'parent self_link, 'r (rec x str), 'q (rec y { 'k [y], 'z (rec w int) }) };\n"
                         "res self_link;\nres /roots on get -> <[@node]>;\n"}, "main": "file:///w/main.oal"})
    out.append({"mods": {"file:///w/main.oal": "let @a = { 'p (rec x num) };\nlet @b = { 'q @a, 'r (rec y uri) };\nres /r on get -> <@b> :: <status=404, (rec z bool)>;\n"},
                "main": "file:///w/main.oal"})
    # an implicit reference whose stored schema is itself a reference (a recursive alias of an @reference)
    out.append({"mods": {"file:///w/main.oal": "let @b = { 'name str, 'next a };\nlet a = @b;\nres /items on get -> a;\nres /r on get -> <rec x @b>;\n"},
                "main": "file:///w/main.oal"})
    # concat: the query parameters of the left operand are dropped, those of the right one kept
    out.append({"mods": {"file:///w/main.oal": "let collection = /items?{ 'page int, 'sort! str };\nlet item = concat collection /{ 'id str };\nres item on get -> <{ 'name str }>;\n"
                         "res (concat collection /search?{ 'q! str }) on get -> <>;\n"}, "main": "file:///w/main.oal"})
    # user-chosen map keys spelling "$ref" (property, header, media type): objects, not references
    out.append({"mods": {"file:///w/main.oal": "let @a = { '$ref str, 'n [@a] };\nres /x on get : { '$ref int } -> <headers={ '$ref str }, media=\"$ref\", @a>;\n"},
                "main": "file:///w/main.oal"})
    return out


def known_witnesses():
    """the witnesses of every recorded finding that is a program (the panics must happen at the same cast site in the model)"""
    out = []
    for l in open(os.path.join(core.VERIF, "known_findings.jsonl"), encoding="utf8"):
        l = l.strip()
        if not l:
            continue
        k = json.loads(l)
        w = k.get("witness") or {}
        if isinstance(w.get("mods"), dict):
            out.append({"mods": w["mods"], "main": w.get("main") or sorted(w["mods"])[0]})
        elif isinstance(w.get("source"), str):
            out.append({"mods": {"file:///main.oal": w["source"]}, "main": "file:///main.oal"})
    return out


def parse_sx(t):
    """s-expression of integers -> nested python lists"""
    out, stack, i, n = None, [], 0, len(t)
    cur = None
    while i < n:
        c = t[i]
        if c == "(":
            new = []
            if cur is not None:
                cur.append(new)
                stack.append(cur)
            cur = new
            i += 1
        elif c == ")":
            if stack:
                cur = stack.pop()
            else:
                out = cur
            i += 1
        elif c == " ":
            i += 1
        else:
            j = i
            while j < n and t[j] not in " ()":
                j += 1
            cur.append(int(t[i:j]))
            i = j
    return out


def json_of_sx(x, floats):
    tag = x[0]
    if tag == 0:
        return None
    if tag == 1:
        return bool(x[1])
    if tag == 2:
        return x[1]
    if tag == 3:
        return floats[x[1]]
    if tag == 4:
        return "".join(chr(c) for c in x[1:])
    if tag == 5:
        return [json_of_sx(y, floats) for y in x[1:]]
    if tag == 6:
        return {"".join(chr(c) for c in kv[0]): json_of_sx(kv[1], floats) for kv in x[1:]}
    raise ValueError(tag)


ORDERED = ("paths", "schemas", "properties", "responses", "content", "headers", "examples")


def order_diff(a, b, path=""):
    """maps with dynamic keys must list their keys in the same order"""
    if isinstance(a, dict) and isinstance(b, dict):
        for k in a:
            if k in b:
                if k in ORDERED and isinstance(a[k], dict) and isinstance(b[k], dict) and list(a[k]) != list(b[k]):
                    return "%s/%s: %s vs %s" % (path, k, list(a[k])[:6], list(b[k])[:6])
                d = order_diff(a[k], b[k], path + "/" + k)
                if d:
                    return d
    elif isinstance(a, list) and isinstance(b, list):
        for i, (x, y) in enumerate(zip(a, b)):
            d = order_diff(x, y, "%s[%d]" % (path, i))
            if d:
                return d
    return None


def full_order_diff(a, b, path=""):
    """every map lists its keys in the same order"""
    if isinstance(a, dict) and isinstance(b, dict):
        if list(a) != list(b):
            return "%s: key order %s vs %s" % (path, list(a)[:8], list(b)[:8])
        for k in a:
            d = full_order_diff(a[k], b[k], path + "/" + k)
            if d:
                return d
    elif isinstance(a, list) and isinstance(b, list):
        for i, (x, y) in enumerate(zip(a, b)):
            d = full_order_diff(x, y, "%s[%d]" % (path, i))
            if d:
                return d
    return None


def base_order_diff(a, b):
    """merged documents: the top-level members and the members of components in the same order; what is carried
    over from the base with every map in the same order; the generated parts (paths, components.schemas) as in the
    tie without a base (dynamic maps only: the model does not claim the field order of openapiv3's structs)"""
    if list(a) != list(b):
        return "top-level member order %s vs %s" % (list(a), list(b))
    ca, cb = a.get("components"), b.get("components")
    if isinstance(ca, dict) and isinstance(cb, dict) and list(ca) != list(cb):
        return "/components member order %s vs %s" % (list(ca), list(cb))
    for k in a:
        if k == "paths":
            d = order_diff({"paths": a[k]}, {"paths": b[k]})
        elif k == "components" and isinstance(ca, dict) and isinstance(cb, dict):
            d = None
            for k2 in ca:
                d = order_diff({"schemas": ca[k2]}, {"schemas": cb[k2]}, "/components") if k2 == "schemas" else full_order_diff(ca[k2], cb[k2], "/components/" + k2)
                if d:
                    break
        else:
            d = full_order_diff(a[k], b[k], "/" + k)
        if d:
            return d
    return None


def sx_of_json(v):
    """a JSON value in the model's s-expression encoding (EvalIO.djson); floats are not representable"""
    if v is None:
        return "(0)"
    if isinstance(v, bool):
        return "(1 %d)" % (1 if v else 0)
    if isinstance(v, int):
        if abs(v) >= 2 ** 60:
            raise ValueError("integer out of the runner's range")
        return "(2 %d)" % v
    if isinstance(v, float):
        raise ValueError("float")
    if isinstance(v, str):
        return "(4%s)" % "".join(" %d" % ord(c) for c in v)
    if isinstance(v, list):
        return "(5%s)" % "".join(" " + sx_of_json(x) for x in v)
    if isinstance(v, dict):
        return "(6%s)" % "".join(" ((%s) %s)" % (" ".join(str(ord(c)) for c in k), sx_of_json(x)) for k, x in v.items())
    raise ValueError(type(v))


def first_diff(a, b, path=""):
    if type(a) != type(b) and not (isinstance(a, (int, float)) and isinstance(b, (int, float)) and not isinstance(a, bool) and not isinstance(b, bool)):
        return "%s: %r vs %r" % (path, str(a)[:80], str(b)[:80])
    if isinstance(a, dict):
        for k in sorted(set(a) | set(b)):
            if k not in a or k not in b:
                return "%s/%s: only in %s" % (path, k, "model" if k in a else "code")
            d = first_diff(a[k], b[k], path + "/" + k)
            if d:
                return d
        return None
    if isinstance(a, list):
        if len(a) != len(b):
            return "%s: lengths %d vs %d" % (path, len(a), len(b))
        for i, (x, y) in enumerate(zip(a, b)):
            d = first_diff(x, y, "%s[%d]" % (path, i))
            if d:
                return d
        return None
    return None if a == b else "%s: %r vs %r" % (path, a, b)


def run(ctx, programs, label="eval_tie"):
    """programs: list of {"mods", "main"}. Reports a violation for every disagreement; returns the list of
    (program, impl result kind) for the programs on which both sides answered."""
    lines = [json.dumps(dict({"mods": p["mods"], "main": p["main"]}, **({"base": p["base"]} if isinstance(p.get("base"), str) else {}))) for p in programs]
    ok, out = core.ensure_runner()
    if not ok:
        ctx.broken.append("runner build failed: " + out[-300:])
        return []
    outs = core.run_stateless(core.IMPL, "eval", lines)
    todo = []
    for p, o in zip(programs, outs):
        if o is None or o == "SKIPPED":
            ctx.count(label + "_skipped")
            continue
        if o.startswith("CRASH") or o.startswith("HANG") or o.startswith("SLOW"):
            ctx.count(label + "_impl_" + o.split()[0].lower())
            continue
        try:
            d = json.loads(o)
        except Exception:
            ctx.count(label + "_impl_unreadable")
            continue
        st = d.get("status")
        if st != "ok":
            ctx.count(label + "_" + str(st) + ("_" + d.get("why", "").replace(" ", "-") if st == "unsupported" else ""))
            continue
        todo.append((p, d))
    mouts = core.run_stateless(core.RUNNER, "eval", [d["prog"] for _, d in todo])
    louts = core.run_stateless(core.RUNNER, "evallex", [d["prog"] for _, d in todo])
    touts = core.run_stateless(core.RUNNER, "typing", ["(%s %s)" % (d["prog"], d["tenv"]) for _, d in todo])
    # the document tie: Model/Builder.v on the model's Spec vs oal-openapi's Builder on the real Spec
    for _, d in todo:
        if isinstance(d.get("doc"), dict) and "text" in d["doc"]:
            try:
                d["doc"] = json.loads(d["doc"]["text"])
            except Exception:
                d["doc"] = None
    dl = [(p, d) for p, d in todo if d["result"].startswith("(0 ") and isinstance(d.get("doc"), dict) and "builder_panic" not in d["doc"]]
    douts = core.run_stateless(core.RUNNER, "doc", ["(%s %s %s)" % (d["prog"], d["strs_sx"], d["names_sx"]) for _, d in dl])
    for (p, d), do in zip(dl, douts):
        if do is None or do == "SKIPPED":
            continue
        if not do.startswith("(0 "):
            ctx.broken.append("document tie: the model builds no document (%s) for %s" % (do[:30], json.dumps({"mods": p["mods"], "main": p["main"]})[:1200]))
            ctx.count(label + "_doc_disagree")
            continue
        try:
            mj = json_of_sx(parse_sx(do)[1], d.get("floats") or [])
        except Exception as ex:
            ctx.broken.append("document tie: unreadable model output %r" % (ex,))
            continue
        diff = first_diff(mj, d["doc"]) or order_diff(mj, d["doc"])
        if diff:
            ctx.broken.append("document tie: Model/Builder.v and oal-openapi disagree at %s on %s" %
                              (diff[:300], json.dumps({"mods": p["mods"], "main": p["main"]})[:1200]))
            ctx.count(label + "_doc_disagree")
        else:
            ctx.count(label + "_doc_agree")
    # the document tie with a base description: Model/BuilderBase.v on the model's Spec and the base as the code
    # re-serialises it, vs oal-openapi's Builder::with_base on the real Spec; values and the order of every map
    bl = []
    for p, d in todo:
        db = d.get("doc_base")
        if not (d["result"].startswith("(0 ") and isinstance(db, dict)):
            continue
        if "builder_panic" in db:
            ctx.violation("the document builder panics on the Spec of an accepted program and a base description",
                          {"mods": p["mods"], "main": p["main"], "base": p.get("base")}, "a document", db["builder_panic"][:200], extra={"layer": "eval"})
            continue
        if "text" not in db:
            ctx.count(label + "_base_rejected")
            continue
        try:
            bj, mj = json.loads(db["base"]), json.loads(db["text"])
            bsx = sx_of_json(bj)
        except Exception:
            ctx.count(label + "_base_unsupported")
            continue
        bl.append((p, d, mj, bsx))
    bouts = core.run_stateless(core.RUNNER, "docbase", ["(%s %s %s %s)" % (d["prog"], d["strs_sx"], d["names_sx"], bsx) for _, d, _, bsx in bl])
    for (p, d, cj, _), bo in zip(bl, bouts):
        if bo is None or bo == "SKIPPED":
            continue
        inp = json.dumps({"mods": p["mods"], "main": p["main"], "base": p.get("base")})[:1500]
        if not bo.startswith("(0 "):
            ctx.broken.append("document tie (base): the model builds no document (%s) for %s" % (bo[:30], inp))
            ctx.count(label + "_docbase_disagree")
            continue
        try:
            mj = json_of_sx(parse_sx(bo)[1], d.get("floats") or [])
        except Exception as ex:
            ctx.broken.append("document tie (base): unreadable model output %r" % (ex,))
            continue
        diff = first_diff(mj, cj) or base_order_diff(mj, cj)
        if diff:
            ctx.broken.append("document tie (base): Model/BuilderBase.v and oal-openapi disagree at %s on %s" % (diff[:300], inp))
            ctx.count(label + "_docbase_disagree")
        else:
            ctx.count(label + "_docbase_agree")
    for (p, d) in todo:
        if isinstance(d.get("doc"), dict) and "builder_panic" in d["doc"]:
            ctx.violation("the document builder panics on the Spec of an accepted program", {"mods": p["mods"], "main": p["main"]},
                          "a document", d["doc"]["builder_panic"][:200], extra={"layer": "eval"})
    # the definition graph of the recursion check contains an edge for every use among declarations (RecursionLink.H_edges)
    gl = [(p, d) for p, d in todo if isinstance(d.get("graph_edges"), list)]
    gouts = core.run_stateless(core.RUNNER, "edges", [d["prog"] for _, d in gl])
    for (p, d), go in zip(gl, gouts):
        if go is None or go == "SKIPPED":
            continue
        try:
            uses = set(tuple(x) for x in parse_sx(go))
        except Exception:
            ctx.broken.append("graph tie: unreadable model output %r" % (go[:80],))
            continue
        real = set(tuple(int(w) for w in e.strip("()").split()) for e in d["graph_edges"])
        missing = sorted(uses - real)
        if missing:
            ctx.broken.append("graph tie: the definition graph of the code has no edge for a use among declarations (RecursionLink.H_edges) %s: %s" %
                              (missing[:3], json.dumps({"mods": p["mods"], "main": p["main"]})[:1200]))
            ctx.count(label + "_graph_edge_missing")
        else:
            ctx.count(label + "_graph_edges_cover_uses")
    souts = core.run_stateless(core.RUNNER, "strat", [d["prog"] for _, d in todo])
    for (p, d), so in zip(todo, souts):
        # the hypothesis of the termination theorem: accepted programs are stratified (what cycles_check guarantees)
        if so is None or so == "SKIPPED":
            continue
        if so.endswith(" 0)"):
            ctx.broken.append("stratification tie: the recursion check flagged a declaration with parameters (RecursionLink.H_marks): %s" %
                              json.dumps({"mods": p["mods"], "main": p["main"]})[:1500])
            ctx.count(label + "_flag_on_function")
        if so.startswith("(1 1 "):
            ctx.count(label + "_stratified_first_order")
        elif so.startswith("(0 0 "):
            ctx.count(label + "_higher_order_or_alias_application")
        else:
            ctx.broken.append("stratification tie: an accepted first-order program is not stratified (%s): %s" %
                              (so[:20], json.dumps({"mods": p["mods"], "main": p["main"]})[:1500]))
            ctx.count(label + "_strat_disagree")
    for (p, d), ty in zip(todo, touts):
        # the typing discipline (Model/Typing.v): every accepted program whose tags are variable-free passes wt_progb
        if ty is None or ty == "SKIPPED":
            continue
        if ty in ("(1 1 1 1)", "(1 0 1 1)"):
            # the conclusion of C01_typed_programs_panic_only_at_known_casts, observed on the code itself
            k = kind_of(d["result"])
            if k.startswith("panic_") and k not in ("panic_cast_content", "panic_cast_object", "panic_cast_uri", "panic_cast_relation"):
                ctx.violation("a well-typed program panics in the evaluator outside the four casts of the known findings (%s)" % k,
                              {"mods": p["mods"], "main": p["main"]}, "a document, a located error or a known cast panic", k, extra={"layer": "eval"})
        if ty == "(1 1 1 1)":
            ctx.count(label + "_well_typed")
        elif ty == "(1 0 1 1)":
            ctx.count(label + "_well_typed_unused_generic_declarations")
        elif ty.startswith("(1 ") and ty.endswith(" 0 0)"):
            ctx.count(label + "_same_reference_name_with_two_tags_K5_K21")
        elif ty == "(1 0 0 1)":
            ctx.count(label + "_uses_declaration_with_tag_variable")
        else:
            ctx.broken.append("typing tie: an accepted program with variable-free tags does not pass wt_progb (%s): %s" %
                              (ty[:40], json.dumps({"mods": p["mods"], "main": p["main"]})[:1500]))
            ctx.count(label + "_typing_disagree")
    done = []
    for (p, d), m, lx in zip(todo, mouts, louts):
        ctx.cov["evaluations"] += 1
        if m is None or m == "SKIPPED":
            ctx.count(label + "_model_skipped")
            continue
        k = kind_of(d["result"])
        if m != d["result"]:
            km = kind_of(m) if not (m.startswith("CRASH") or m.startswith("ERROR") or m.startswith("HANG")) else m[:40]
            # the correspondence is broken (not by itself a violation: the property monitors look for a failing input)
            ctx.broken.append("evaluator tie: Model/Eval.v and eval.rs disagree (model: %s, code: %s) on %s" %
                              (km, k, json.dumps({"mods": p["mods"], "main": p["main"]})[:1500]))
            ctx.count(label + "_disagree")
            continue
        ctx.count(label + "_agree_" + k)
        # the hypotheses of eval_program_lexical, checked on the transcription of the real trees, and its conclusion
        if lx is not None and lx != "SKIPPED":
            if not lx.startswith("(1 "):
                ctx.violation("the resolved trees of an accepted program are not lexically closed (a binding use outside its binder)",
                              {"mods": p["mods"], "main": p["main"]}, "closed", lx[:80], extra={"layer": "eval"})
                continue
            lres = lx[3:-1]
            if lres != m:
                ctx.violation("the code evaluates an accepted program differently from the lexical reference semantics (%s)" % kind_of(lres),
                              {"mods": p["mods"], "main": p["main"]}, lres[:300], m[:300], extra={"layer": "eval"})
                continue
            ctx.count(label + "_lexical_agree")
        done.append((p, k))
    return done
