(** Property C03 — every emitted document is a closed, structurally valid OpenAPI 3
    description. Statements only; proofs in Proofs/SpecUriProofs.v.

    Proved here, for every URI / status (no size bound): path variables and required path
    parameters correspond one to one and in order; every response key is default, a code
    100-599 or 1XX-5XX; operationId uniqueness is refuted on the faithful model (K6).
    $ref closure, evaluator half, on the evaluator model (Model/Eval.v, tied to eval.rs on
    every run): in the Spec of every successful evaluation, every reference occurring in a
    relation or in a schema of the reference table names an entry of that table, and no entry
    is left pending ([C03_spec_refs_closed]; invariant: every key mentioned by a value, a scope
    or a table entry is in the table or is the variable of a recursion being evaluated). The
    emitter's half (names of components = names in $ref) and the YAML re-parse clause are
    checked on the implementation only. *)
From Oal Require Import SpecUri SpecUriProofs.
From Oal Require Eval ClosureProofs.

Theorem C03_path_params_match : forall segs,
  forallb wf_seg segs = true -> braces (pattern segs) None = path_params segs.
Proof. exact path_params_match. Qed.
Print Assumptions C03_path_params_match.

Theorem C03_number_status_valid : forall v s,
  status_of_number v = Some s -> valid_key (response_key (Some s)) = true.
Proof. exact number_status_valid. Qed.
Print Assumptions C03_number_status_valid.

Theorem C03_literal_status_valid : forall c s,
  status_of_literal c = Some s -> valid_key (response_key (Some s)) = true.
Proof. exact literal_status_valid. Qed.
Print Assumptions C03_literal_status_valid.

Theorem C03_default_key_valid : valid_key (response_key None) = true.
Proof. exact default_key_valid. Qed.
Print Assumptions C03_default_key_valid.

Theorem C03_out_of_range_rejected : forall v, v < 100 \/ 599 < v -> status_of_number v = None.
Proof. exact out_of_range_rejected. Qed.
Print Assumptions C03_out_of_range_rejected.

Theorem C03_operation_ids_refuted :
  exists m p q, pattern p <> pattern q /\ xfer_id m p = xfer_id m q.
Proof. exact operation_ids_refuted. Qed.
Print Assumptions C03_operation_ids_refuted.

Example C03_wf_inhabited :
  forallb wf_seg [SLit [97]; SVar [105; 100]; SLit []; SVar [110]] = true.
Proof. reflexivity. Qed.

(** * every reference of the evaluated Spec resolves in its reference table *)
Theorem C03_spec_refs_closed : forall P n rs rels table,
  Eval.eval_program false P n rs = Eval.Ok (rels, table) ->
  (forall k, In k (flat_map ClosureProofs.ks_relation rels) -> In k (map fst table)) /\
  (forall k sc, In (k, sc) table -> forall k', In k' (ClosureProofs.ks_schema sc) -> In k' (map fst table)).
Proof. exact ClosureProofs.spec_closed. Qed.
Print Assumptions C03_spec_refs_closed.

(** non-vacuity: two instantiations of a recursive schema, two components, both referenced *)
Example C03_two_components_referenced :
  exists rels sc1 sc2 k1 k2,
    Eval.eval_program false ClosureProofs.ex_rec_P 50 ClosureProofs.ex_rec_rs = Eval.Ok (rels, [(k1, sc1); (k2, sc2)]) /\ k1 <> k2 /\
    In k1 (flat_map ClosureProofs.ks_relation rels) /\ In k2 (flat_map ClosureProofs.ks_relation rels).
Proof. exact ClosureProofs.ex_rec_two_components. Qed.
