(** Model of the tokenizer (oal-syntax/src/lexer.rs: the logos patterns of [TokenKind]) for
    texts without lexical errors: maximal munch over the token patterns, the first pattern in
    declaration order among the longest matches. A text in which some position matches no
    pattern has a lexical error; the code then reports error spans whose extent depends on the
    generated automaton (it does not always come back to the last accepting state) and which
    are not modelled: [lex] answers [None] and the tie only checks that the code reports at
    least one lexical error for such a text, and none otherwise.
    Characters are code points; offsets are UTF-8 byte offsets. *)
From Oal Require Export Text.
Local Open Scope N_scope.

Definition is_space (c : N) : bool := N.eqb c 32 || N.eqb c 9 || N.eqb c 13 || N.eqb c 10.
Definition is_nl (c : N) : bool := N.eqb c 13 || N.eqb c 10.
Definition is_digit (c : N) : bool := N.leb 48 c && N.leb c 57.
Definition is_alpha (c : N) : bool := (N.leb 97 c && N.leb c 122) || (N.leb 65 c && N.leb c 90).
(** subpattern ident = [0-9a-zA-Z$_-] *)
Definition is_ident (c : N) : bool := is_digit c || is_alpha c || N.eqb c 36 || N.eqb c 95 || N.eqb c 45.
(** [0-9a-zA-Z%~_.-] *)
Definition is_segch (c : N) : bool := is_digit c || is_alpha c || N.eqb c 37 || N.eqb c 126 || N.eqb c 95 || N.eqb c 46 || N.eqb c 45.
(** [0-9a-zA-Z$@_-] *)
Definition is_propch (c : N) : bool := is_ident c || N.eqb c 64.

(** number of leading characters satisfying [p] *)
Fixpoint span (p : N -> bool) (t : list N) : nat :=
  match t with c :: t' => if p c then S (span p t') else O | [] => O end.

(** the index just after the first character satisfying [p], if any *)
Fixpoint until (p : N -> bool) (t : list N) : option nat :=
  match t with [] => None | c :: t' => if p c then Some 1%nat else option_map S (until p t') end.

(** "/\*([^*]|\*[^/])*\*/" after the opening "/*": length up to and including the closing "*/" *)
Fixpoint block_tail (fuel : nat) (t : list N) : option nat :=
  match fuel with
  | O => None
  | S f =>
      match t with
      | [] => None
      | c :: t' =>
          if N.eqb c 42 then
            match t' with
            | [] => None
            | d :: t'' => if N.eqb d 47 then Some 2%nat else option_map (fun n => S (S n)) (block_tail f t'')
            end
          else option_map S (block_tail f t')
      end
  end.

Definition lit (s : list N) (t : list N) : option nat :=
  if (fix pre (s t : list N) : bool :=
        match s, t with
        | [], _ => true
        | a :: s', b :: t' => N.eqb a b && pre s' t'
        | _ :: _, [] => false
        end) s t
  then Some (length s) else None.

(** the length of the match of token kind [k] at the head of [t] (0 never counts as a match) *)
Definition match_kind (k : N) (t : list N) : option nat :=
  match k, t with
  | 0, _ => match span is_space t with O => None | n => Some n end
  | 1, 47 :: 47 :: r => let n := span (fun c => negb (is_nl c)) r in Some (2 + n + span is_nl (skipn n r))%nat
  | 2, 47 :: 42 :: r => option_map (fun n => (2 + n)%nat) (block_tail (S (length r)) r)
  | 3, _ => lit [110; 117; 109] t
  | 4, _ => lit [115; 116; 114] t
  | 5, _ => lit [117; 114; 105] t
  | 6, _ => lit [98; 111; 111; 108] t
  | 7, _ => lit [105; 110; 116] t
  | 8, 47 :: _ => Some 1%nat
  | 9, 47 :: r => match span is_segch r with O => None | n => Some (S n) end
  | 10, _ => lit [103; 101; 116] t
  | 11, _ => lit [112; 117; 116] t
  | 12, _ => lit [112; 111; 115; 116] t
  | 13, _ => lit [112; 97; 116; 99; 104] t
  | 14, _ => lit [100; 101; 108; 101; 116; 101] t
  | 15, _ => lit [111; 112; 116; 105; 111; 110; 115] t
  | 16, _ => lit [104; 101; 97; 100] t
  | 17, _ => lit [109; 101; 100; 105; 97] t
  | 18, _ => lit [104; 101; 97; 100; 101; 114; 115] t
  | 19, _ => lit [115; 116; 97; 116; 117; 115] t
  | 20, _ => lit [108; 101; 116] t
  | 21, _ => lit [114; 101; 115] t
  | 22, _ => lit [117; 115; 101] t
  | 23, _ => lit [97; 115] t
  | 24, _ => lit [111; 110] t
  | 25, _ => lit [114; 101; 99] t
  | 26, c :: r => if is_alpha c || N.eqb c 95 then Some (S (span is_ident r)) else None
  | 27, 64 :: r => match span is_ident r with O => None | n => Some (S n) end
  | 28, _ => match span is_digit t with O => None | n => Some n end
  | 29, 34 :: r => option_map S (until (N.eqb 34) r)
  | 30, c :: 88 :: 88 :: _ => if N.leb 49 c && N.leb c 53 then Some 3%nat else None
  | 31, 39 :: r => match span is_propch r with O => None | n => Some (S n) end
  | 32, _ => lit [123] t | 33, _ => lit [125] t | 34, _ => lit [40] t | 35, _ => lit [41] t
  | 36, _ => lit [91] t | 37, _ => lit [93] t | 38, _ => lit [60] t | 39, _ => lit [62] t
  | 40, _ => lit [59] t | 41, _ => lit [46] t | 42, _ => lit [44] t
  | 43, _ => lit [33] t | 44, _ => lit [63] t | 45, _ => lit [38] t | 46, _ => lit [126] t | 47, _ => lit [124] t
  | 48, _ => lit [61] t | 49, _ => lit [58] t | 50, _ => lit [58; 58] t | 51, _ => lit [45; 62] t
  | 52, 35 :: r => let n := span (fun c => negb (is_nl c)) r in Some (1 + n + span is_nl (skipn n r))%nat
  | 53, 96 :: r => option_map S (until (N.eqb 96) r)
  | _, _ => None
  end.

Definition NKINDS : nat := 54.

(** the longest match, the first kind in declaration order among the longest *)
Definition best (t : list N) : option (N * nat) :=
  fold_left (fun acc k =>
               match match_kind k t with
               | Some (S n) => match acc with
                               | Some (_, m) => if Nat.ltb m (S n) then Some (k, S n) else acc
                               | None => Some (k, S n)
                               end
               | _ => acc
               end)
            (map N.of_nat (List.seq 0 NKINDS)) None.

(** tokens as (kind, number of characters); [None]: a position without a match *)
Fixpoint lex (fuel : nat) (t : list N) : option (list (N * nat)) :=
  match fuel with
  | O => match t with [] => Some [] | _ => None end
  | S f =>
      match t with
      | [] => Some []
      | _ => match best t with
             | Some (k, n) => option_map (cons (k, n)) (lex f (skipn n t))
             | None => None
             end
      end
  end.

(** tokenize(): a LiteralNumber that does not fit u64 is a lexical error (after F1) *)
Definition digits_value (ds : list N) : N := fold_left (fun acc c => acc * 10 + (c - 48)) ds 0.
Fixpoint numbers_ok (toks : list (N * nat)) (t : list N) : bool :=
  match toks with
  | [] => true
  | (k, n) :: toks' =>
      (if N.eqb k 28 then N.leb (digits_value (firstn n t)) 18446744073709551615 else true) && numbers_ok toks' (skipn n t)
  end.

Definition tokenize (t : list N) : option (list (N * nat)) :=
  match lex (length t) t with
  | Some toks => if numbers_ok toks t then Some toks else None
  | None => None
  end.

(** byte spans of the tokens *)
Fixpoint spans (toks : list (N * nat)) (t : list N) (off : N) : list (N * N * N) :=
  match toks with
  | [] => []
  | (k, n) :: toks' =>
      let e := off + len8s (firstn n t) in
      (k, off, e) :: spans toks' (skipn n t) e
  end.
