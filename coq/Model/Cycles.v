(** Model of typecheck::cycles_check: iterated elimination of strongly connected
    components of the definition graph.

    Nodes are declarations (numbered); an edge (a, b) says that the right-hand side of [a]
    mentions [b] (parallel edges allowed, as in the code). [referential n] is
    [tag.is_schema() && !tag.is_uri()] of declaration [n] after substitution.
    petgraph's kosaraju_scc is a parameter [scc] (contract in Proofs/CyclesProofs.v).
    [marks] are the declarations flagged [is_recursive]. *)
From Coq Require Export List NArith Bool.
Export ListNotations.

Definition graph := list (N * N).

Inductive cres := COk (marks : list N) | CErr (at_node : N) | CFuel.

Section Cycles.
Variable referential : N -> bool.
Variable scc : list N -> graph -> list (list N).

Definition self_loop (g : graph) (n : N) : bool :=
  existsb (fun e => N.eqb (fst e) n && N.eqb (snd e) n) g.

(** component.len() == 1 && graph.find_edge(idx, idx).is_none() *)
Definition trivial (g : graph) (c : list N) : bool :=
  match c with [n] => negb (self_loop g n) | _ => false end.

Definition incoming (g : graph) (n : N) : graph := filter (fun e => N.eqb (snd e) n) g.

(** one pass over the components; [inb] is the shared buffer of edges to remove.
    None = "ill-formed recursion" reported at the first node of the component *)
Fixpoint round (g : graph) (comps : list (list N)) (inb : graph) (marks : list N)
  : (graph * list N) + N :=
  match comps with
  | [] => inl (inb, marks)
  | c :: cs =>
      if trivial g c then round g cs inb marks
      else
        let refs := filter referential c in
        let inb' := inb ++ flat_map (incoming g) refs in
        match inb' with
        | [] => inr (hd 0%N c)
        | _ => round g cs inb' (marks ++ refs)
        end
  end.

Definition edge_eqb (a b : N * N) : bool := N.eqb (fst a) (fst b) && N.eqb (snd a) (snd b).

(** graph.remove_edge for every flagged edge id: all flagged edges are incoming edges of
    flagged nodes, parallel ones included *)
Definition remove_edges (inb g : graph) : graph :=
  filter (fun e => negb (existsb (edge_eqb e) inb)) g.

Fixpoint cycles_check (fuel : nat) (nodes : list N) (g : graph) (marks : list N) : cres :=
  match fuel with
  | O => CFuel
  | S fuel' =>
      match round g (scc nodes g) [] marks with
      | inr n => CErr n
      | inl ([], marks') => COk marks'
      | inl (inb, marks') => cycles_check fuel' nodes (remove_edges inb g) marks'
      end
  end.
End Cycles.
