(** Theorems about the evaluator model (Model/Eval.v).

    [eval_rename]: evaluation commutes with any injective renaming of the bound identifiers
    (parameters and rec binders) of the whole program: same values, same reference table,
    same errors and panics. Values never mention binder names, so this is an equation. *)
From Oal Require Import Eval.
From Coq Require Import Lia.
Local Open Scope N_scope.

Section Rename.
  Variable rho : N -> N.
  Hypothesis rho_inj : forall x y, rho x = rho y -> x = y.

  Fixpoint ren (e : expr) : expr :=
    match e with
    | ETerm anns e' => ETerm anns (ren e')
    | ESub e' => ESub (ren e')
    | EPrim p => EPrim p
    | ELitStr x => ELitStr x
    | ELitNum x => ELitNum x
    | ELitStat x => ELitStat x
    | EDecl m i => EDecl m i
    | EConcat => EConcat
    | EBind x => EBind (rho x)
    | EApp f args => EApp (ren f) (map ren args)
    | ERec m i x e' => ERec m i (rho x) (ren e')
    | EObj ps => EObj (map ren ps)
    | EProp name req e' => EProp name req (ren e')
    | EUnary b e' => EUnary b (ren e')
    | EArr e' => EArr (ren e')
    | EOp op es => EOp op (map ren es)
    | ECont body metas =>
        ECont (option_map ren body) (map (fun ke => match ke with (k, e') => (k, ren e') end) metas)
    | EXfer ms dom rg prm => EXfer ms (option_map ren dom) (ren rg) (option_map ren prm)
    | EUri segs prm =>
        EUri (map (fun sg => match sg with inl x => inl x | inr e' => inr (ren e') end) segs) (option_map ren prm)
    | ERel u xs => ERel (ren u) (map ren xs)
    end.

  Definition ren_meta (ke : N * expr) : N * expr := match ke with (k, e') => (k, ren e') end.
  Definition ren_seg (sg : str + expr) : str + expr := match sg with inl x => inl x | inr e' => inr (ren e') end.

  Definition ren_decl (d : decl) : decl :=
    mk_decl (d_ref d) (d_rec d) (d_anns d) (map rho (d_params d)) (ren (d_rhs d)).
  Definition ren_prog (P : prog) : prog := map (map ren_decl) P.

  Definition rk (kv : N * aval) : N * aval := (rho (fst kv), snd kv).
  Definition rsc (sc : scope) : scope := map rk sc.
  Definition rss (ss : list (N * scope)) : list (N * scope) := map (fun f => (fst f, rsc (snd f))) ss.
  Definition rst (s : st) : st := mk_st (refs s) (rss (scopes s)) (seq s).

  Definition rres {B} (r : res (st * B)) : res (st * B) :=
    match r with Ok (t, v) => Ok (rst t, v) | Err e => Err e | Panic p => Panic p | Fuel => Fuel end.

  Lemma eqb_rho x y : N.eqb (rho x) (rho y) = N.eqb x y.
  Proof.
    destruct (N.eqb_spec x y) as [->|Hne]; [apply N.eqb_refl|].
    apply N.eqb_neq. intros H. apply Hne, rho_inj, H.
  Qed.

  Lemma im_get_ren x sc : im_get N.eqb (rho x) (rsc sc) = im_get N.eqb x sc.
  Proof.
    induction sc as [|[k v] sc IH]; [reflexivity|].
    cbn [rsc map rk fst snd im_get]. rewrite eqb_rho. destruct (N.eqb x k); [reflexivity|exact IH].
  Qed.

  Lemma lookup_ren x ss : lookup_binding (rho x) (rss ss) = lookup_binding x ss.
  Proof.
    induction ss as [|[id sc] ss IH]; [reflexivity|].
    cbn [rss map fst snd lookup_binding]. rewrite im_get_ren.
    destruct (im_get N.eqb x sc); [reflexivity|exact IH].
  Qed.

  Lemma im_insert_ren p v sc : im_insert N.eqb (rho p) v (rsc sc) = rsc (im_insert N.eqb p v sc).
  Proof.
    induction sc as [|[k w] sc IH]; [reflexivity|].
    cbn [rsc map rk fst snd im_insert]. rewrite eqb_rho.
    destruct (N.eqb p k); cbn [map rk fst snd]; [reflexivity|]. f_equal. exact IH.
  Qed.

  Lemma get_decl_ren P m i : get_decl (ren_prog P) m i = option_map ren_decl (get_decl P m i).
  Proof.
    unfold get_decl, ren_prog. rewrite nth_error_map.
    destruct (nth_error P (N.to_nat m)) as [ds|]; cbn [option_map]; [|reflexivity].
    apply nth_error_map.
  Qed.

  Lemma push_ren s sc : push_scope (rst s) (rsc sc) = rst (push_scope s sc).
  Proof. reflexivity. Qed.
  Lemma pop_ren s : pop_scope (rst s) = rst (pop_scope s).
  Proof. unfold pop_scope, rst. cbn [refs scopes seq]. f_equal. destruct (scopes s); reflexivity. Qed.
  Lemma set_refs_ren s r : set_refs (rst s) r = rst (set_refs s r).
  Proof. reflexivity. Qed.
  Lemma top_ren s : top_scope_id (rst s) = top_scope_id s.
  Proof. unfold top_scope_id, rst. cbn [scopes]. destruct (scopes s) as [|[id sc] ss]; reflexivity. Qed.

  Section Lists.
    Context {X Y B : Type}.
    Variable g : X -> Y.
    Variables (f : st -> X -> res (st * B)) (f' : st -> Y -> res (st * B)).
    Hypothesis Hf : forall s a, f' (rst s) (g a) = rres (f s a).

    Lemma map_st_ren l : forall s, map_st f' (rst s) (map g l) = rres (map_st f s l).
    Proof.
      induction l as [|a l IH]; intros s; [reflexivity|].
      cbn [map map_st]. rewrite Hf.
      destruct (f s a) as [[s1 b]| | |]; cbn [rres bind]; try reflexivity.
      rewrite IH. destruct (map_st f s1 l) as [[s2 bs]| | |]; reflexivity.
    Qed.

    Lemma opt_st_ren o s : opt_st f' (rst s) (option_map g o) = rres (opt_st f s o).
    Proof.
      destruct o as [a|]; [|reflexivity].
      cbn [option_map opt_st]. rewrite Hf. destruct (f s a) as [[s1 b]| | |]; reflexivity.
    Qed.
  End Lists.

  Section Args.
    Variables (ev ev' : st -> expr -> res (st * aval)).
    Hypothesis Hev : forall s e, ev' (rst s) (ren e) = rres (ev s e).

    Lemma bind_args_ren args : forall s ps sc,
      bind_args ev' (rst s) (map rho ps) (map ren args) (rsc sc) =
      match bind_args ev s ps args sc with
      | Ok (t, sc2) => Ok (rst t, rsc sc2) | Err e => Err e | Panic p => Panic p | Fuel => Fuel
      end.
    Proof.
      induction args as [|a args IH]; intros s ps sc.
      - destruct ps; reflexivity.
      - destruct ps as [|p ps]; [reflexivity|].
        cbn [map bind_args]. rewrite Hev.
        destruct (ev s a) as [[s1 v]| | |]; cbn [rres bind]; try reflexivity.
        rewrite im_insert_ren. apply IH.
    Qed.

    Lemma eval_metas_ren ms : forall s acc,
      eval_metas ev' (rst s) (map ren_meta ms) acc = rres (eval_metas ev s ms acc).
    Proof.
      induction ms as [|[k rhs] ms IH]; intros s acc; [reflexivity|].
      cbn [map ren_meta eval_metas]. rewrite Hev.
      destruct (ev s rhs) as [[s1 v]| | |]; cbn [rres bind]; try reflexivity.
      destruct acc as [[status media] headers].
      destruct k as [|[p|p|]].
      - destruct (cast_string (fst v)); cbn [bind]; try reflexivity. apply IH.
      - destruct (cast_http_status (fst v)); cbn [bind]; try reflexivity. apply IH.
      - destruct (cast_http_status (fst v)); cbn [bind]; try reflexivity. apply IH.
      - destruct (cast_object (fst v)); cbn [bind]; try reflexivity. apply IH.
    Qed.
  End Args.

  (** one-step lemma shared by the list-valued cases: a cast after an evaluation *)
  Lemma then_cast {B} (ev ev' : st -> expr -> res (st * aval)) (c : aval -> res B) :
    (forall s e, ev' (rst s) (ren e) = rres (ev s e)) ->
    forall s e, (do (s', v) <- ev' (rst s) (ren e); do x <- c v; Ok (s', x)) =
                rres (do (s', v) <- ev s e; do x <- c v; Ok (s', x)).
  Proof.
    intros H s e. rewrite H. destruct (ev s e) as [[s1 v]| | |]; cbn [rres bind]; try reflexivity.
    destruct (c v); reflexivity.
  Qed.

  Theorem eval_rename P : forall n s e a,
    eval false (ren_prog P) n (rst s) (ren e) a = rres (eval false P n s e a).
  Proof.
    induction n as [|n IH]; intros s e a; [reflexivity|].
    assert (IH0 : forall s e, eval false (ren_prog P) n (rst s) (ren e) [] = rres (eval false P n s e [])) by (intros; apply IH).
    set (EV := fun s e => eval false P n s e []) in *.
    set (EV' := fun s e => eval false (ren_prog P) n s e []) in *.
    destruct e; cbn [eval ren]; fold EV EV'.
    - (* ETerm *) destruct (compose anns []); cbn [bind]; try reflexivity. apply IH.
    - (* ESub *) apply IH.
    - (* EPrim *) destruct (prim_value p a); reflexivity.
    - reflexivity.
    - reflexivity.
    - reflexivity.
    - (* EDecl *)
      rewrite get_decl_ren. destruct (get_decl P m i) as [d|]; cbn [option_map]; [|reflexivity].
      cbn [ren_decl d_params d_anns d_ref d_rec d_rhs].
      destruct (d_params d) as [|p ps]; cbn [map]; [|reflexivity].
      destruct (compose (d_anns d) []); cbn [bind]; try reflexivity.
      destruct ((match d_ref d with Some _ => true | None => false end) || d_rec d).
      + cbn [rst refs]. fold (rst s).
        destruct (rget _ (refs s)) as [[v|]|].
        * reflexivity.
        * reflexivity.
        * rewrite set_refs_ren, IH.
          destruct (eval false P n _ (d_rhs d) _) as [[s2 v]| | |]; reflexivity.
      + apply IH.
    - reflexivity.
    - (* EBind *)
      cbn [rst scopes]. rewrite lookup_ren.
      destruct (lookup_binding x (scopes s)) as [[v prev]|]; reflexivity.
    - (* EApp *)
      rewrite IH. destruct (eval false P n s e []) as [[s1 fv]| | |]; cbn [rres bind]; try reflexivity.
      destruct (cast_lambda (fst fv)) as [lam| | |]; cbn [bind]; try reflexivity.
      destruct lam; try (rewrite (map_st_ren ren EV EV' IH0); destruct (map_st _ s1 args) as [[s2 vs]| | |]; cbn [rres bind]; try reflexivity;
                         destruct vs as [|vl [|vr [|vx vs]]]; try reflexivity;
                         destruct (cast_uri (fst vr)); cbn [bind]; try reflexivity;
                         destruct (cast_uri (fst vl)); cbn [bind]; try reflexivity;
                         destruct (uri_append _ _); reflexivity).
      rewrite get_decl_ren. destruct (get_decl P m i) as [d|]; cbn [option_map]; [|reflexivity].
      cbn [ren_decl d_params d_anns d_rhs].
      change (@nil (N * aval)) with (rsc []) at 1.
      rewrite (bind_args_ren EV EV' IH0).
      destruct (bind_args _ s1 (d_params d) args []) as [[s2 sc]| | |]; cbn [bind]; try reflexivity.
      destruct (compose (d_anns d) []); cbn [bind]; try reflexivity.
      rewrite push_ren, IH.
      destruct (eval false P n (push_scope s2 sc) (d_rhs d) _) as [[s3 r]| | |]; cbn [rres bind]; try reflexivity.
      rewrite pop_ren. reflexivity.
    - (* ERec *)
      rewrite top_ren.
      change [(rho x, (VRecur (KRec m i (top_scope_id s)), @nil (str * yaml)))] with (rsc [(x, (VRecur (KRec m i (top_scope_id s)), []))]).
      rewrite push_ren, IH.
      destruct (eval false P n _ e a) as [[s1 rhs]| | |]; cbn [rres bind]; try reflexivity.
      rewrite pop_ren. reflexivity.
    - (* EObj *)
      rewrite (map_st_ren ren _ _ (then_cast EV EV' (fun v => cast_property (fst v)) IH0)).
      destruct (map_st _ s ps) as [[s1 props]| | |]; reflexivity.
    - (* EProp *)
      rewrite IH. destruct (eval false P n s e []) as [[s1 v]| | |]; cbn [rres bind]; try reflexivity.
      destruct (cast_schema v); reflexivity.
    - (* EUnary *)
      rewrite IH. destruct (eval false P n s e []) as [[s1 v]| | |]; cbn [rres bind]; try reflexivity.
      destruct (cast_property (fst v)); reflexivity.
    - (* EArr *)
      rewrite IH. destruct (eval false P n s e []) as [[s1 v]| | |]; cbn [rres bind]; try reflexivity.
      destruct (cast_schema v); reflexivity.
    - (* EOp *)
      destruct (N.eqb op 3).
      + rewrite (map_st_ren ren _ _ (then_cast EV EV' cast_ranges IH0)).
        destruct (map_st _ s es) as [[s1 rs]| | |]; reflexivity.
      + destruct (vop_of op) as [vo|]; [|reflexivity].
        rewrite (map_st_ren ren _ _ (then_cast EV EV' cast_schema IH0)).
        destruct (map_st _ s es) as [[s1 rs]| | |]; reflexivity.
    - (* ECont *)
      rewrite (opt_st_ren ren _ _ (then_cast EV EV' cast_schema IH0)).
      destruct (opt_st _ s body) as [[s1 schema]| | |]; cbn [rres bind]; try reflexivity.
      change (map (fun ke : N * expr => let (k, e') := ke in (k, ren e')) metas) with (map ren_meta metas).
      rewrite (eval_metas_ren EV EV' IH0).
      destruct (eval_metas _ s1 metas _) as [[s2 [[status media] headers]]| | |]; reflexivity.
    - (* EXfer *)
      rewrite (opt_st_ren ren _ _ (then_cast EV EV' cast_content IH0)).
      destruct (opt_st _ s domain) as [[s1 dom]| | |]; cbn [rres bind]; try reflexivity.
      rewrite IH. destruct (eval false P n s1 e []) as [[s2 rv]| | |]; cbn [rres bind]; try reflexivity.
      destruct (cast_ranges rv); cbn [bind]; try reflexivity.
      rewrite (opt_st_ren ren _ _ (then_cast EV EV' (fun v => cast_object (fst v)) IH0)).
      destruct (opt_st _ s2 params) as [[s3 prm]| | |]; reflexivity.
    - (* EUri *)
      change (map (fun sg : str + expr => match sg with inl x => inl x | inr e' => inr (ren e') end) segs) with (map ren_seg segs).
      rewrite (map_st_ren ren_seg
                 (fun s (sg : str + expr) => match sg with
                                             | inl x => Ok (s, ULit x)
                                             | inr v => do (s', pv) <- eval false P n s v []; do p <- cast_property (fst pv); Ok (s', UVar p)
                                             end)).
      + destruct (map_st _ s segs) as [[s1 path]| | |]; cbn [rres bind]; try reflexivity.
        rewrite (opt_st_ren ren _ _ (then_cast EV EV' (fun v => cast_object (fst v)) IH0)).
        destruct (opt_st _ s1 params) as [[s2 prm]| | |]; reflexivity.
      + intros s0 [x|v]; cbn [ren_seg]; [reflexivity|].
        rewrite IH0. destruct (eval false P n s0 v []) as [[s1 pv]| | |]; cbn [rres bind]; try reflexivity.
        destruct (cast_property (fst pv)); reflexivity.
    - (* ERel *)
      rewrite IH. destruct (eval false P n s e []) as [[s1 uv]| | |]; cbn [rres bind]; try reflexivity.
      destruct (cast_uri (fst uv)); cbn [bind]; try reflexivity.
      rewrite (map_st_ren ren _ _ (then_cast EV EV' (fun v => cast_transfer (fst v)) IH0)).
      destruct (map_st _ s1 xfers) as [[s2 ts]| | |]; reflexivity.
  Qed.

  (** whole programs: the emitted relations and reference table are identical *)
  Theorem eval_program_rename P n rs :
    eval_program false (ren_prog P) n (map ren rs) = eval_program false P n rs.
  Proof.
    unfold eval_program.
    change st0 with (rst st0) at 1.
    rewrite (map_st_ren ren (fun s r => do (s', v) <- eval false P n s r []; do rel <- cast_relation (fst v); Ok (s', rel))).
    - destruct (map_st _ st0 rs) as [[s1 rels]| | |]; reflexivity.
    - intros s e. rewrite eval_rename.
      destruct (eval false P n s e []) as [[s1 v]| | |]; cbn [rres bind]; try reflexivity.
      destruct (cast_relation (fst v)); reflexivity.
  Qed.
End Rename.

(** * binding is lexical

    [eval true] is the lexical reference semantics: a function body sees its own scope only.
    For a program whose declaration bodies are closed under their parameters (what name
    resolution guarantees), the stack machine of the code ([eval false]), run with any
    caller stack [o] underneath, computes exactly what the reference semantics computes,
    unless the reference semantics reports an under-applied function. *)
Definition app_outer (s : st) (o : list (N * scope)) : st := mk_st (refs s) (scopes s ++ o) (seq s).

Definition bound (xs : list N) (fr : list (N * scope)) : Prop :=
  forall x, In x xs -> lookup_binding x fr <> None.

Definition sim {B} (o fr : list (N * scope)) (r r' : res (st * B)) : Prop :=
  match r with
  | Ok (t, v) => r' = Ok (app_outer t o, v) /\ scopes t = fr
  | Err x => r' = Err x
  | Panic p => p = P_arity \/ r' = Panic p
  | Fuel => r' = Fuel
  end.

Lemma lookup_app x fr o : lookup_binding x fr <> None -> lookup_binding x (fr ++ o) = lookup_binding x fr.
Proof.
  induction fr as [|[id sc] fr IH]; cbn [lookup_binding app]; [congruence|].
  destruct (im_get N.eqb x sc); [reflexivity|exact IH].
Qed.

Lemma im_get_insert_same x (v : aval) (sc : scope) : im_get N.eqb x (im_insert N.eqb x v sc) = Some v.
Proof.
  induction sc as [|[k w] sc IH]; cbn [im_insert im_get]; [rewrite N.eqb_refl; reflexivity|].
  destruct (N.eqb x k) eqn:E; cbn [im_get]; rewrite ?E; [reflexivity|exact IH].
Qed.

Lemma im_get_insert_other x y (v : aval) (sc : scope) : x <> y -> im_get N.eqb x (im_insert N.eqb y v sc) = im_get N.eqb x sc.
Proof.
  intros Hne. induction sc as [|[k w] sc IH]; cbn [im_insert im_get].
  - destruct (N.eqb_spec x y); [contradiction|reflexivity].
  - destruct (N.eqb_spec y k) as [->|Hyk]; cbn [im_get].
    + destruct (N.eqb_spec x k); [contradiction|reflexivity].
    + destruct (N.eqb x k); [reflexivity|exact IH].
Qed.

Section LexHelpers.
  Variable o : list (N * scope).

  Section Lists.
    Context {X B : Type}.
    Variable fr : list (N * scope).
    Variable okb : X -> bool.
    Variables (f f' : st -> X -> res (st * B)).
    Hypothesis Hf : forall s a, okb a = true -> scopes s = fr -> sim o fr (f s a) (f' (app_outer s o) a).

    Lemma map_st_sim l : forallb okb l = true -> forall s, scopes s = fr ->
      sim o fr (map_st f s l) (map_st f' (app_outer s o) l).
    Proof.
      induction l as [|a l IH]; intros Hok s Hs.
      - cbn [map_st sim]. split; [reflexivity|exact Hs].
      - cbn [forallb] in Hok. apply andb_prop in Hok as [Ha Hl].
        cbn [map_st]. pose proof (Hf s a Ha Hs) as H1.
        destruct (f s a) as [[s1 b]|x|p|]; cbn [sim bind] in *.
        + destruct H1 as [-> Hs1]. cbn [bind].
          pose proof (IH Hl s1 Hs1) as H2.
          destruct (map_st f s1 l) as [[s2 bs]|x|p|]; cbn [sim bind] in *.
          * destruct H2 as [-> Hs2]. cbn [bind]. split; [reflexivity|exact Hs2].
          * rewrite H2. reflexivity.
          * destruct H2 as [-> | ->]; [left; reflexivity|right; reflexivity].
          * rewrite H2. reflexivity.
        + rewrite H1. reflexivity.
        + destruct H1 as [-> | ->]; [left; reflexivity|right; reflexivity].
        + rewrite H1. reflexivity.
    Qed.

    Lemma opt_st_sim oa : match oa with Some a => okb a = true | None => True end -> forall s, scopes s = fr ->
      sim o fr (opt_st f s oa) (opt_st f' (app_outer s o) oa).
    Proof.
      intros Hok s Hs. destruct oa as [a|]; cbn [opt_st].
      - pose proof (Hf s a Hok Hs) as H1.
        destruct (f s a) as [[s1 b]|x|p|]; cbn [sim bind] in *.
        + destruct H1 as [-> Hs1]. cbn [bind]. split; [reflexivity|exact Hs1].
        + rewrite H1. reflexivity.
        + destruct H1 as [-> | ->]; [left; reflexivity|right; reflexivity].
        + rewrite H1. reflexivity.
      - cbn [sim]. split; [reflexivity|exact Hs].
    Qed.
  End Lists.

  (** sequencing: [sim] is preserved by [bind] when the continuations agree *)
  Lemma sim_bind {B C} fr (r r' : res (st * B)) (k k' : st * B -> res (st * C)) :
    sim o fr r r' ->
    (forall t v, scopes t = fr -> sim o fr (k (t, v)) (k' (app_outer t o, v))) ->
    sim o fr (bind r k) (bind r' k').
  Proof.
    intros H1 Hk. destruct r as [[t v]|x|p|]; cbn [sim bind] in *.
    - destruct H1 as [-> Ht]. cbn [bind]. apply Hk, Ht.
    - rewrite H1. reflexivity.
    - destruct H1 as [-> | ->]; [left; reflexivity|right; reflexivity].
    - rewrite H1. reflexivity.
  Qed.

  (** a pure step (a cast) after the evaluation *)
  Lemma sim_pure {B} fr (c : res B) (k k' : B -> res (st * aval)) :
    (forall x, sim o fr (k x) (k' x)) -> sim o fr (bind c k) (bind c k').
  Proof.
    intros Hk. destruct c as [x|x|p|]; cbn [bind sim]; [apply Hk|reflexivity|right; reflexivity|reflexivity].
  Qed.

  Lemma sim_pure_gen {B C} fr (c : res B) (k k' : B -> res (st * C)) :
    (forall x, sim o fr (k x) (k' x)) -> sim o fr (bind c k) (bind c k').
  Proof.
    intros Hk. destruct c as [x|x|p|]; cbn [bind sim]; [apply Hk|reflexivity|right; reflexivity|reflexivity].
  Qed.

  Lemma sim_ok {B} fr (t : st) (v : B) : scopes t = fr -> sim o fr (Ok (t, v)) (Ok (app_outer t o, v)).
  Proof. intros H. split; [reflexivity|exact H]. Qed.

  Definition inv (fr : list (N * scope)) : Prop := fr <> [] \/ o = [].

  Lemma top_outer s : inv (scopes s) -> top_scope_id (app_outer s o) = top_scope_id s.
  Proof.
    unfold top_scope_id, app_outer. cbn [scopes]. intros [Hne| ->].
    - destruct (scopes s); [contradiction|reflexivity].
    - rewrite app_nil_r. reflexivity.
  Qed.

  Section Args.
    Variables (ev ev' : st -> expr -> res (st * aval)).
    Variable fr : list (N * scope).
    Variable xs : list N.
    Hypothesis Hev : forall s e, closed xs e = true -> scopes s = fr -> sim o fr (ev s e) (ev' (app_outer s o) e).

    Lemma bind_args_sim args : forallb (closed xs) args = true -> forall s ps sc, scopes s = fr ->
      sim o fr (bind_args ev s ps args sc) (bind_args ev' (app_outer s o) ps args sc).
    Proof.
      induction args as [|a args IH]; intros Hok s ps sc Hs.
      - destruct ps; apply sim_ok, Hs.
      - destruct ps as [|p ps]; [apply sim_ok, Hs|].
        cbn [forallb] in Hok. apply andb_prop in Hok as [Ha Hl].
        cbn [bind_args]. apply sim_bind; [apply Hev; assumption|].
        intros t v Ht. apply IH; assumption.
    Qed.

    Lemma eval_metas_sim ms : forallb (fun ke : N * expr => match ke with (_, e') => closed xs e' end) ms = true ->
      forall s acc, scopes s = fr ->
      sim o fr (eval_metas ev s ms acc) (eval_metas ev' (app_outer s o) ms acc).
    Proof.
      induction ms as [|[k rhs] ms IH]; intros Hok s acc Hs.
      - apply sim_ok, Hs.
      - cbn [forallb] in Hok. apply andb_prop in Hok as [Ha Hl].
        cbn [eval_metas]. apply sim_bind; [apply Hev; assumption|].
        intros t v Ht. destruct acc as [[status media] headers].
        destruct k as [|[p|p|]]; apply sim_pure_gen; intros x; apply IH; assumption.
    Qed.
  End Args.

  (** the scope built by [bind_args] binds every parameter when there are enough arguments *)
  Lemma bind_args_binds ev args : forall s ps sc t sc2,
    bind_args ev s ps args sc = Ok (t, sc2) -> (length ps <= length args)%nat ->
    forall x, (In x ps \/ im_get N.eqb x sc <> None) -> im_get N.eqb x sc2 <> None.
  Proof.
    induction args as [|a args IH]; intros s ps sc t sc2 H Hlen x Hx.
    - destruct ps; [|cbn in Hlen; lia]. cbn in H. injection H as _ <-. destruct Hx as [[]|Hx]; exact Hx.
    - destruct ps as [|p ps].
      + cbn in H. injection H as _ <-. destruct Hx as [[]|Hx]; exact Hx.
      + cbn [bind_args] in H. destruct (ev s a) as [[s1 v]| | |]; cbn [bind] in H; try discriminate.
        cbn [length] in Hlen. apply (IH _ _ _ _ _ H); [lia|].
        destruct (N.eq_dec x p) as [->|Hne].
        * right. rewrite im_get_insert_same. discriminate.
        * destruct Hx as [[Hx|Hx]|Hx]; [congruence|left; exact Hx|right; rewrite im_get_insert_other by exact Hne; exact Hx].
    Qed.

End LexHelpers.

Section Lexical.
  Variable P : prog.
  Hypothesis HP : closed_prog P.

  Lemma push_outer s sc o : push_scope (app_outer s o) sc = app_outer (push_scope s sc) o.
  Proof. reflexivity. Qed.

  Theorem eval_lexical : forall n o s e a xs,
    closed xs e = true -> bound xs (scopes s) -> inv o (scopes s) ->
    sim o (scopes s) (eval true P n s e a) (eval false P n (app_outer s o) e a).
  Proof.
    induction n as [|n IH]; intros o s e a xs Hc Hb Hi; [reflexivity|].
    set (fr := scopes s) in *.
    assert (IH0 : forall s e, closed xs e = true -> scopes s = fr ->
                              sim o fr (eval true P n s e []) (eval false P n (app_outer s o) e [])).
    { intros s0 e0 Hc0 Hs0. rewrite <- Hs0. apply (IH o s0 e0 [] xs Hc0); rewrite Hs0; assumption. }
    assert (IHa : forall s e a, closed xs e = true -> scopes s = fr ->
                                sim o fr (eval true P n s e a) (eval false P n (app_outer s o) e a)).
    { intros s0 e0 a0 Hc0 Hs0. rewrite <- Hs0. apply (IH o s0 e0 a0 xs Hc0); rewrite Hs0; assumption. }
    assert (Hcast : forall {B} (c : aval -> res B) s e, closed xs e = true -> scopes s = fr ->
              sim o fr (do (s', v) <- eval true P n s e []; do x <- c v; Ok (s', x))
                       (do (s', v) <- eval false P n (app_outer s o) e []; do x <- c v; Ok (s', x))).
    { intros B c s0 e0 Hc0 Hs0. apply sim_bind; [apply IH0; assumption|].
      intros t v Ht. apply sim_pure_gen. intros x. apply sim_ok, Ht. }
    set (EV := fun s e => eval true P n s e []) in *.
    set (EV' := fun s e => eval false P n s e []) in *.
    destruct e; cbn [eval closed] in *; fold EV EV'.
    - (* ETerm *) apply sim_pure. intros x. apply IHa; [exact Hc|reflexivity].
    - (* ESub *) apply IHa; [exact Hc|reflexivity].
    - (* EPrim *) apply sim_pure. intros x. apply sim_ok. reflexivity.
    - apply sim_ok; reflexivity.
    - apply sim_ok; reflexivity.
    - apply sim_ok; reflexivity.
    - (* EDecl *)
      destruct (get_decl P m i) as [d|] eqn:Hd; [|right; reflexivity].
      destruct (d_params d) as [|p ps] eqn:Hps; [|apply sim_ok; reflexivity].
      apply sim_pure. intros da.
      pose proof (HP m i d Hd) as Hcd. rewrite Hps in Hcd.
      assert (IHd : forall s0 a0, scopes s0 = fr ->
                sim o fr (eval true P n s0 (d_rhs d) a0) (eval false P n (app_outer s0 o) (d_rhs d) a0)).
      { intros s0 a0 Hs0. rewrite <- Hs0. apply (IH o s0 (d_rhs d) a0 [] Hcd); [intros x []|rewrite Hs0; exact Hi]. }
      destruct ((match d_ref d with Some _ => true | None => false end) || d_rec d).
      + cbn [app_outer refs].
        destruct (rget _ (refs s)) as [[v|]|].
        * apply sim_ok; reflexivity.
        * apply sim_ok; reflexivity.
        * apply (sim_bind o fr _ _ _ _ (IHd (set_refs s _) _ eq_refl)).
          intros t v Ht. apply sim_ok. exact Ht.
      + apply IHd. reflexivity.
    - apply sim_ok; reflexivity.
    - (* EBind *)
      cbn [app_outer scopes]. fold fr.
      apply existsb_exists in Hc as (y & Hy & Hxy). apply N.eqb_eq in Hxy. subst y.
      rewrite (lookup_app x fr o (Hb x Hy)).
      destruct (lookup_binding x fr) as [[v prev]|]; [apply sim_ok; reflexivity|right; reflexivity].
    - (* EApp *)
      apply andb_prop in Hc as [Hcf Hca].
      apply sim_bind; [apply IH0; [exact Hcf|reflexivity]|].
      intros s1 fv Hs1. apply sim_pure. intros lam.
      destruct lam as [?|?|?|?|?|?|?|?|? ?|? ? ?|?|?|?|?| |m i|?]; try (apply sim_bind; [apply (map_st_sim o fr (closed xs) EV EV' IH0); assumption|];
                         intros s2 vs Hs2; destruct vs as [|vl [|vr [|vx vs]]]; try (right; reflexivity);
                         apply sim_pure; intros zru; apply sim_pure; intros zlu; apply sim_pure; intros zu; apply sim_ok; exact Hs2).
      destruct (get_decl P m i) as [d|] eqn:Hd; [|right; reflexivity].
      pose proof (bind_args_sim o EV EV' fr xs IH0 args Hca s1 (d_params d) [] Hs1) as Hba.
      destruct (bind_args EV s1 (d_params d) args []) as [[s2 sc]|x|p|] eqn:Eba; cbn [sim bind] in *.
      + destruct Hba as [-> Hs2]. cbn [bind].
        apply sim_pure. intros da.
        destruct (Nat.ltb_spec (length args) (length (d_params d))) as [Hlt|Hge]; [left; reflexivity|].
        pose proof (HP m i d Hd) as Hcd.
        assert (Hbd : bound (d_params d) [(seq s2 + 1, sc)]).
        { intros y Hy. cbn [lookup_binding].
          pose proof (bind_args_binds EV args s1 (d_params d) [] s2 sc Eba Hge y (or_introl Hy)) as Hy2.
          destruct (im_get N.eqb y sc); [discriminate|contradiction]. }
        pose proof (IH (fr ++ o) (mk_st (refs s2) [(seq s2 + 1, sc)] (seq s2 + 1)) (d_rhs d) (extend da a) (d_params d) Hcd Hbd
                       (or_introl (fun H => nil_cons (eq_sym H)))) as Hbody.
        cbn [scopes] in Hbody.
        unfold push_scope, app_outer in *. cbn [refs scopes seq app] in *.
        rewrite Hs2.
        destruct (eval true P n _ (d_rhs d) _) as [[s3 r]|x|p|]; cbn [sim bind] in *.
        * destruct Hbody as [-> Hs3]. cbn [bind]. split; [|reflexivity].
          unfold pop_scope, app_outer. cbn [refs scopes seq]. rewrite Hs3. reflexivity.
        * rewrite Hbody. reflexivity.
        * destruct Hbody as [-> | ->]; [left; reflexivity|right; reflexivity].
        * rewrite Hbody. reflexivity.
      + rewrite Hba. reflexivity.
      + destruct Hba as [-> | ->]; [left; reflexivity|right; reflexivity].
      + rewrite Hba. reflexivity.
    - (* ERec *)
      rewrite (top_outer o s Hi). rewrite push_outer.
      set (sc := [(x, (VRecur (KRec m i (top_scope_id s)), @nil (str * yaml)))]).
      assert (Hb2 : bound (x :: xs) (scopes (push_scope s sc))).
      { intros y [<-|Hy]; cbn [push_scope scopes lookup_binding sc im_get].
        - rewrite N.eqb_refl. discriminate.
        - destruct (N.eqb y x); [discriminate|]. apply Hb, Hy. }
      pose proof (IH o (push_scope s sc) e a (x :: xs) Hc Hb2 (or_introl (fun H => nil_cons (eq_sym H)))) as Hbody.
      destruct (eval true P n (push_scope s sc) e a) as [[s1 rhs]|y|p|]; cbn [sim bind] in *.
      + destruct Hbody as [-> Hs1]. cbn [bind].
        assert (Hpop : pop_scope (app_outer s1 o) = app_outer (pop_scope s1) o).
        { unfold pop_scope, app_outer. cbn [refs scopes seq]. rewrite Hs1. reflexivity. }
        rewrite Hpop. split; [reflexivity|].
        unfold set_refs, pop_scope. cbn [scopes]. rewrite Hs1. reflexivity.
      + rewrite Hbody. reflexivity.
      + destruct Hbody as [-> | ->]; [left; reflexivity|right; reflexivity].
      + rewrite Hbody. reflexivity.
    - (* EObj *)
      apply sim_bind; [apply (map_st_sim o fr (closed xs)); [intros s0 a0 Ha0 Hs0; apply (Hcast _ (fun v => cast_property (fst v))); assumption|exact Hc|reflexivity]|].
      intros t v Ht. apply sim_ok, Ht.
    - (* EProp *)
      apply sim_bind; [apply IH0; [exact Hc|reflexivity]|].
      intros t v Ht. apply sim_pure. intros sc. apply sim_ok, Ht.
    - (* EUnary *)
      apply sim_bind; [apply IH0; [exact Hc|reflexivity]|].
      intros t v Ht. apply sim_pure. intros sc. apply sim_ok, Ht.
    - (* EArr *)
      apply sim_bind; [apply IH0; [exact Hc|reflexivity]|].
      intros t v Ht. apply sim_pure. intros sc. apply sim_ok, Ht.
    - (* EOp *)
      destruct (N.eqb op 3).
      + apply sim_bind; [apply (map_st_sim o fr (closed xs)); [intros s0 a0 Ha0 Hs0; apply (Hcast _ cast_ranges); assumption|exact Hc|reflexivity]|].
        intros t v Ht. apply sim_ok, Ht.
      + destruct (vop_of op) as [vo|]; [|right; reflexivity].
        apply sim_bind; [apply (map_st_sim o fr (closed xs)); [intros s0 a0 Ha0 Hs0; apply (Hcast _ cast_schema); assumption|exact Hc|reflexivity]|].
        intros t v Ht. apply sim_ok, Ht.
    - (* ECont *)
      apply andb_prop in Hc as [Hcb Hcm].
      apply sim_bind; [apply (opt_st_sim o fr (closed xs)); [intros s0 a0 Ha0 Hs0; apply (Hcast _ cast_schema); assumption|destruct body; [exact Hcb|exact I]|reflexivity]|].
      intros s1 schema Hs1.
      apply sim_bind; [apply (eval_metas_sim o EV EV' fr xs IH0); assumption|].
      intros s2 [[status media] headers] Hs2. apply sim_ok, Hs2.
    - (* EXfer *)
      apply andb_prop in Hc as [Hc1 Hcp]. apply andb_prop in Hc1 as [Hcd Hcr].
      apply sim_bind; [apply (opt_st_sim o fr (closed xs)); [intros s0 a0 Ha0 Hs0; apply (Hcast _ cast_content); assumption|destruct domain; [exact Hcd|exact I]|reflexivity]|].
      intros s1 dom Hs1.
      apply sim_bind; [apply IH0; assumption|].
      intros s2 rv Hs2. apply sim_pure. intros rg.
      apply sim_bind; [apply (opt_st_sim o fr (closed xs)); [intros s0 a0 Ha0 Hs0; apply (Hcast _ (fun v => cast_object (fst v))); assumption|destruct params; [exact Hcp|exact I]|exact Hs2]|].
      intros s3 prm Hs3. apply sim_ok, Hs3.
    - (* EUri *)
      apply andb_prop in Hc as [Hcs Hcp].
      apply sim_bind.
      + apply (map_st_sim o fr (fun sg : str + expr => match sg with inl _ => true | inr e' => closed xs e' end)); [|exact Hcs|reflexivity].
        intros s0 [x|v] Ha0 Hs0; [apply sim_ok, Hs0|].
        apply sim_bind; [apply IH0; assumption|]. intros t pv Ht. apply sim_pure_gen. intros p. apply sim_ok, Ht.
      + intros s1 path Hs1.
        apply sim_bind; [apply (opt_st_sim o fr (closed xs)); [intros s0 a0 Ha0 Hs0; apply (Hcast _ (fun v => cast_object (fst v))); assumption|destruct params; [exact Hcp|exact I]|exact Hs1]|].
        intros s2 prm Hs2. apply sim_ok, Hs2.
    - (* ERel *)
      apply andb_prop in Hc as [Hcu Hcx].
      apply sim_bind; [apply IH0; [exact Hcu|reflexivity]|].
      intros s1 uv Hs1. apply sim_pure. intros ur.
      apply sim_bind; [apply (map_st_sim o fr (closed xs)); [intros s0 a0 Ha0 Hs0; apply (Hcast _ (fun v => cast_transfer (fst v))); assumption|exact Hcx|exact Hs1]|].
      intros s2 ts Hs2. apply sim_ok, Hs2.
  Qed.
End Lexical.

Lemma app_outer_nil s : app_outer s [] = s.
Proof. destruct s as [r ss q]. unfold app_outer. cbn [refs scopes seq]. rewrite app_nil_r. reflexivity. Qed.

(** whole programs: the code computes the result of the lexical semantics *)
Theorem eval_program_lexical P n rs :
  closed_prog P -> forallb (closed []) rs = true ->
  match eval_program true P n rs with
  | Panic p => p = P_arity \/ eval_program false P n rs = Panic p
  | r => eval_program false P n rs = r
  end.
Proof.
  intros HP Hrs. unfold eval_program.
  pose proof (map_st_sim [] [] (closed [])
                (fun s r => do (s', v) <- eval true P n s r []; do rel <- cast_relation (fst v); Ok (s', rel))
                (fun s r => do (s', v) <- eval false P n s r []; do rel <- cast_relation (fst v); Ok (s', rel))) as H.
  specialize (H (fun s a Ha Hs =>
                   sim_bind [] [] _ _ _ _
                     (eq_ind _ (fun fr => sim [] fr _ _) (eval_lexical P HP n [] s a [] [] Ha (fun x (F : In x []) => match F with end)
                        (or_intror eq_refl)) _ Hs)
                     (fun t v Ht => sim_pure_gen [] [] _ _ _ (fun x => sim_ok [] [] t x Ht)))).
  specialize (H rs Hrs st0 eq_refl).
  rewrite app_outer_nil in H.
  destruct (map_st _ st0 rs) as [[s1 rels]|x|p|]; cbn [sim bind] in *.
  - destruct H as [-> _]. cbn [bind]. rewrite app_outer_nil.
    destruct (refs_table (refs s1)) as [t|x|p|]; cbn [bind]; try reflexivity. right; reflexivity.
  - rewrite H. reflexivity.
  - destruct H as [-> | ->]; [left; reflexivity|right; reflexivity].
  - rewrite H. reflexivity.
Qed.

Lemma closed_progb_sound P : closed_progb P = true -> closed_prog P.
Proof.
  intros H m i d Hd. unfold get_decl in Hd.
  destruct (nth_error P (N.to_nat m)) as [ds|] eqn:Hm; [|discriminate].
  apply nth_error_In in Hm. apply nth_error_In in Hd.
  unfold closed_progb in H. rewrite forallb_forall in H. specialize (H ds Hm).
  rewrite forallb_forall in H. exact (H d Hd).
Qed.

(** * witnesses *)
Definition ex_P : prog :=
  [[ mk_decl None false [] [7] (EObj [EProp 20 None (ETerm [] (EBind 7))]);        (* let f x = { 'p x }; *)
     mk_decl None false [] [7] (EApp (EDecl 0 0) [ETerm [] (EBind 7)]) ]].         (* let g x = f x;      *)
Definition ex_rs : list expr :=
  [ERel (ETerm [] (EUri [inl 30] None))
        [EXfer [0] None (ECont (Some (EApp (EDecl 0 1) [ETerm [] (EPrim 1)])) []) None]].   (* res /a on get -> <g int>; *)

(** non-vacuity: a closed program that evaluates to a document under both semantics *)
Lemma ex_closed_evaluates :
  closed_progb ex_P = true /\ forallb (closed []) ex_rs = true /\
  exists r, eval_program true ex_P 50 ex_rs = Ok r /\ eval_program false ex_P 50 ex_rs = Ok r.
Proof. split; [reflexivity|]. split; [reflexivity|]. eexists. split; vm_compute; reflexivity. Qed.

(** the hypothesis is needed: on a tree that is not lexically closed (which name resolution
    rejects) the stack machine of the code finds the caller's binding, the lexical semantics
    does not *)
Definition ex_open : prog :=
  [[ mk_decl None false [] [8] (EObj [EProp 20 None (ETerm [] (EBind 7))]);        (* let f y = { 'p x };  x is not bound *)
     mk_decl None false [] [7] (EApp (EDecl 0 0) [ETerm [] (EPrim 3)]) ]].         (* let g x = f str;     *)
Lemma open_tree_is_dynamic :
  closed_progb ex_open = false /\
  eval_program true ex_open 50 ex_rs = Panic P_binding /\
  exists r, eval_program false ex_open 50 ex_rs = Ok r.
Proof. split; [reflexivity|]. split; [vm_compute; reflexivity|]. eexists. vm_compute. reflexivity. Qed.

(** non-vacuity of the renaming theorem: a renaming that swaps the two binder names in use *)
Lemma ex_rename_changes_tree :
  let rho := fun x : N => if N.eqb x 7 then 8 else if N.eqb x 8 then 7 else x in
  ren_prog rho ex_P <> ex_P /\ eval_program false (ren_prog rho ex_P) 50 (map (ren rho) ex_rs) = eval_program false ex_P 50 ex_rs.
Proof. cbv zeta. split; [discriminate|vm_compute; reflexivity]. Qed.
