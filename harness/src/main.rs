//! `oalimpl <layer>`: runs the real oal crates (built from /repo's working tree with
//! `--cfg oal_verif`) on the cases read from stdin, one canonical result line per case.
mod l_pos;
mod l_unify;
mod l_load;
mod l_compile;
mod l_resolve;
mod l_wasm;
mod l_lspdoc;
mod l_lspdiag;
mod l_syntax;
mod l_eval;

fn main() {
    let args: Vec<String> = std::env::args().collect();
    let from_env = std::env::var("OALIMPL_LAYER").unwrap_or_default();
    let layer = args.get(1).map(|s| s.as_str()).unwrap_or(from_env.as_str());
    if layer == "lspdiag" && args.len() > 1 {
        // oal-client's Config parses the command line of the process (clap): run the layer in a child without arguments
        let exe = std::env::current_exe().expect("own path");
        let st = std::process::Command::new(exe).env("OALIMPL_LAYER", "lspdiag").status().expect("child");
        std::process::exit(st.code().unwrap_or(3));
    }
    match layer {
        "pos" => l_pos::run(),
        "unify" => l_unify::run(),
        "load" => l_load::run(),
        "compile" => l_compile::run(),
        "resolve" => l_resolve::run(),
        "wasm" => l_wasm::run(),
        "lspdoc" => l_lspdoc::run(),
        "lspdiag" => l_lspdiag::run(),
        "syntax" => l_syntax::run(),
        "eval" => l_eval::run(),
        _ => {
            eprintln!("usage: oalimpl <layer>");
            std::process::exit(2);
        }
    }
}

pub fn text_of(cps: &[&str]) -> String {
    cps.iter()
        .map(|w| char::from_u32(w.parse::<u32>().unwrap()).unwrap())
        .collect()
}
