(** Property C12 — parser memoisation is invisible and keeps parsing linear.

    Proved here: for every grammar of the embedding whose memo tags determine their bodies,
    every token list and every fuel, whatever the memoising interpreter (memo table keyed by
    (cursor, tag), failures cached too) returns is what the plain interpreter returns
    ([memo_transparent]), and for the oal grammar in particular. The model interpreters agree
    with the real parser on trees, end cursors and even on the reads / hits / cache-size
    counters (tie). The table half of "keeps parsing linear" is proved: the table never holds
    two results for one (cursor, tag) — a memoised production is evaluated at most once per
    cursor — and has at most 2 (n + 1) entries for n tokens ([C12_oal_memo_bodies_run_once]; the
    table size is one of the counters the tie compares with the real [Context]). Not proved
    (measured by the monitor, and said so): the linear bound on the token reads (it depends on
    how the unmemoised loops of this grammar interleave with the memoised productions), and that the arena-based tree of grammar.rs (where re-appending a cached node
    detaches it from its previous parent) reads back as the immutable tree of the model. *)
From Oal Require PegTerm GrammarTerm MemoBound.
From Oal Require Import Peg Grammar PegProofs GrammarProofs.
Local Open Scope nat_scope.

Theorem C12_memo_transparent :
  forall class_ok is_trivia K g toks tag_body,
  (forall nt, wf_pexp tag_body (g nt)) ->
  forall n p s acc st r st',
  wf_pexp tag_body p -> table_ok class_ok is_trivia K g toks tag_body st ->
  runm class_ok is_trivia K g toks n p s acc st = (r, st') ->
  table_ok class_ok is_trivia K g toks tag_body st' /\
  (r <> Fuel -> exists m, run class_ok is_trivia K g toks m p s acc = r).
Proof. exact memo_transparent. Qed.
Print Assumptions C12_memo_transparent.

Theorem C12_oal_memo_transparent : forall n toks r st,
  parse_memo n toks = (r, st) -> r <> Fuel -> exists m, parse_pure m toks = r.
Proof. exact oal_memo_transparent. Qed.
Print Assumptions C12_oal_memo_transparent.

Theorem C12_oal_grammar_tags_wf : forall nt, wf_pexp oal_tag_body (oal_grammar nt).
Proof. exact oal_wf. Qed.
Print Assumptions C12_oal_grammar_tags_wf.

Theorem C12_result_stable_under_fuel : forall n m toks r,
  parse_pure n toks = r -> r <> Fuel -> n <= m -> parse_pure m toks = r.
Proof. exact oal_parse_stable. Qed.
Print Assumptions C12_result_stable_under_fuel.

Theorem C12_memo_hits_example :
  let toks := [20; 0; 26; 0; 48; 0; 32; 0; 31; 0; 3; 42; 0; 33; 0; 40]%N in
  exists t st, parse_memo 200 toks = (Ok 16 [t], st) /\ 0 < hits st /\ parse_pure 200 toks = Ok 16 [t]
               /\ leaves t = [0; 2; 4; 6; 8; 10; 11; 13; 15].
Proof. exact oal_parse_example. Qed.
Print Assumptions C12_memo_hits_example.

(** the recursion depth of the parser is linear in the number of tokens: this much fuel always suffices,
    for the plain and for the memoising parser *)
Theorem C12_parser_fuel_linear : forall (toks : list N) n,
  (length toks * (S GrammarTerm.OR * S GrammarTerm.OZ) + S (GrammarTerm.orank P_PROGRAM) * S GrammarTerm.OZ + 1 <= n)%nat ->
  parse_pure n toks <> Fuel /\ fst (parse_memo n toks) <> Fuel.
Proof. exact GrammarTerm.oal_parsers_terminate. Qed.
Print Assumptions C12_parser_fuel_linear.

(** the memo table holds each (cursor, tag) at most once and is linear in the number of tokens:
    generic (any grammar with a termination certificate), then the oal grammar with the fuel that always suffices *)
Theorem C12_memo_table_bound :
  forall class_ok is_trivia K g cons rank R Z,
  (forall nt, PegTerm.prod_okb g cons rank R Z nt = true) ->
  forall toks tag_body, (forall nt, wf_pexp tag_body (g nt)) ->
  forall tags, (forall nt, incl (MemoBound.ptags (g nt)) tags) ->
  forall n p s acc r st',
  wf_pexp tag_body p -> incl (MemoBound.ptags p) tags -> s <= length toks ->
  runm class_ok is_trivia K g toks n p s acc (mk_mstate [] 0 0) = (r, st') -> r <> Fuel ->
  NoDup (MemoBound.keys st') /\ length (table st') <= S (length toks) * length tags.
Proof. exact MemoBound.memo_table_bound. Qed.
Print Assumptions C12_memo_table_bound.

Theorem C12_oal_memo_bodies_run_once : forall toks : list N,
  let n := length toks * (S GrammarTerm.OR * S GrammarTerm.OZ) + S (GrammarTerm.orank P_PROGRAM) * S GrammarTerm.OZ + 1 in
  NoDup (map fst (table (snd (parse_memo n toks)))) /\ length (table (snd (parse_memo n toks))) <= 2 * S (length toks).
Proof. exact MemoBound.oal_memo_bodies_run_once. Qed.
Print Assumptions C12_oal_memo_bodies_run_once.
