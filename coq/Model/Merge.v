(** Model of oal_openapi::Builder::into_openapi: how the generated paths and schema
    components are combined with an optional base description.

    A document is seen as serde sees the [OpenAPI] struct: an ordered list of top-level
    members. Member values are opaque (numbered) except [components], whose own members
    matter. [None] for the schemas models an empty schema map, which the serializer omits. *)
From Coq Require Export List NArith Bool.
Export ListNotations.

Definition key := N.           (* member names, numbered *)
Definition K_PATHS : key := 1%N.
Definition K_COMPONENTS : key := 2%N.
Definition K_SCHEMAS : key := 3%N.

Inductive value :=
| Opaque (id : N)
| Members (ms : list (key * N)).

Definition doc := list (key * value).

Fixpoint get {A} (k : key) (m : list (key * A)) : option A :=
  match m with
  | [] => None
  | (k', v) :: m' => if N.eqb k k' then Some v else get k m'
  end.

(** replace in place, or append (serde struct fields have a fixed position; for the frame
    property only membership matters) *)
Fixpoint set {A} (k : key) (v : A) (m : list (key * A)) : list (key * A) :=
  match m with
  | [] => [(k, v)]
  | (k', v') :: m' => if N.eqb k k' then (k, v) :: m' else (k', v') :: set k v m'
  end.

Fixpoint remove {A} (k : key) (m : list (key * A)) : list (key * A) :=
  match m with
  | [] => []
  | (k', v') :: m' => if N.eqb k k' then remove k m' else (k', v') :: remove k m'
  end.

Definition components_of (d : doc) : list (key * N) :=
  match get K_COMPONENTS d with Some (Members ms) => ms | _ => [] end.

(** definition.paths = paths;
    definition.components.get_or_insert(default).schemas = components.schemas *)
Definition into_openapi (default_base : doc) (paths : N) (schemas : option N) (base : option doc) : doc :=
  let def := match base with Some b => b | None => default_base end in
  let def1 := set K_PATHS (Opaque paths) def in
  let comps := components_of def1 in
  let comps' := match schemas with
                | Some s => set K_SCHEMAS s comps
                | None => remove K_SCHEMAS comps
                end in
  set K_COMPONENTS (Members comps') def1.
