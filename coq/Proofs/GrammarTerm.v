(** The oal grammar has a termination certificate: the parser model never runs out of a fuel
    that is linear in the number of tokens. *)
From Coq Require Import Lia Arith PeanoNat List Bool.
From Oal Require Import Peg Grammar PegProofs PegTerm.
Local Open Scope nat_scope.

Definition NP : nat := 63.

Fixpoint iter {A} (n : nat) (f : A -> A) (x : A) : A := match n with O => x | S n' => iter n' f (f x) end.

Definition tab_get {A} (d : A) (t : list A) (nt : nat) : A := nth nt t d.

(** which productions consume a token whenever they succeed: least fixed point by iteration *)
Definition cons_step (t : list bool) : list bool :=
  map (fun nt => consumes (tab_get false t) (oal_grammar nt)) (List.seq 0%nat NP).
Definition cons_tab : list bool := iter 70 cons_step (map (fun _ => false) (List.seq 0%nat NP)).
Definition ocons (nt : nat) : bool := tab_get false cons_tab nt.

(** ranks by relaxation *)
Definition rank_step (t : list nat) : list nat :=
  map (fun nt => lrank ocons (tab_get 0 t) (oal_grammar nt)) (List.seq 0%nat NP).
Definition rank_tab : list nat := iter 70 rank_step (map (fun _ => 0) (List.seq 0%nat NP)).
Definition orank (nt : nat) : nat := tab_get 0 rank_tab nt.

Definition OR : nat := S (fold_right Nat.max 0 rank_tab).
Definition OZ : nat := fold_right Nat.max 1 (map (fun nt => psize (oal_grammar nt)) (List.seq 0%nat NP)).

Lemma certificate_checks : forallb (prod_okb oal_grammar ocons orank OR OZ) (List.seq 0%nat NP) = true.
Proof. vm_compute. reflexivity. Qed.

Lemma oal_prod_ok : forall nt, prod_okb oal_grammar ocons orank OR OZ nt = true.
Proof.
  intros nt. destruct (Nat.lt_ge_cases nt NP) as [Hlt|Hge].
  - pose proof certificate_checks as H. rewrite forallb_forall in H. apply H. apply List.in_seq. unfold NP in *. lia.
  - assert (Hg : oal_grammar nt = Tok 999).
    { unfold NP in Hge. do 63 (destruct nt as [|nt]; [lia|]). reflexivity. }
    unfold prod_okb. rewrite Hg. cbn [consumes lrank crank psize].
    rewrite orb_true_r. cbn [andb Nat.leb]. reflexivity.
Qed.

(** the parser model terminates on every token list, with fuel linear in its length *)
Theorem oal_parse_terminates (toks : list N) n :
  PegTerm.B OR OZ (length toks) (S (orank P_PROGRAM)) 1 <= n -> parse_pure n toks <> Fuel.
Proof.
  intros Hn. unfold parse_pure.
  apply (run_terminates class_ok is_trivia T_IDENT_REF oal_grammar ocons orank OR OZ oal_prod_ok toks).
  - cbn [crank]. pose proof (oal_prod_ok 0) as H0. (* rank of the start production is below OR *)
    assert (orank P_PROGRAM < OR) by (vm_compute; lia). lia.
  - cbn [psize]. vm_compute. lia.
  - cbn [lrank psize]. unfold PegTerm.left.
    assert (PegTerm.B OR OZ (length toks - skip is_trivia toks 0) (S (orank P_PROGRAM)) 1 <= PegTerm.B OR OZ (length toks) (S (orank P_PROGRAM)) 1).
    { unfold PegTerm.B. apply Nat.add_le_mono_r, Nat.add_le_mono_r, Nat.mul_le_mono_r. lia. }
    lia.
Qed.

(** the bound, spelled out: fuel 1 + a * (length toks) + b suffices *)
Lemma oal_bound_is_linear (toks : list N) :
  PegTerm.B OR OZ (length toks) (S (orank P_PROGRAM)) 1 = length toks * (S OR * S OZ) + S (orank P_PROGRAM) * S OZ + 1.
Proof. reflexivity. Qed.

(** the memoising parser (the one the code runs) terminates with the same fuel *)
From Oal Require Import GrammarProofs.
Theorem oal_parse_memo_terminates (toks : list N) n :
  PegTerm.B OR OZ (length toks) (S (orank P_PROGRAM)) 1 <= n -> fst (parse_memo n toks) <> Fuel.
Proof.
  intros Hn. unfold parse_memo.
  apply (runm_terminates class_ok is_trivia T_IDENT_REF oal_grammar ocons orank OR OZ oal_prod_ok toks oal_tag_body oal_wf).
  - exact I.
  - intros s tag r H. discriminate H.
  - cbn [crank]. assert (orank P_PROGRAM < OR) by (vm_compute; lia). lia.
  - cbn [psize]. vm_compute. lia.
  - cbn [lrank psize]. unfold PegTerm.left.
    assert (PegTerm.B OR OZ (length toks - skip is_trivia toks 0) (S (orank P_PROGRAM)) 1 <= PegTerm.B OR OZ (length toks) (S (orank P_PROGRAM)) 1).
    { unfold PegTerm.B. apply Nat.add_le_mono_r, Nat.add_le_mono_r, Nat.mul_le_mono_r. lia. }
    lia.
Qed.

Theorem oal_parsers_terminate : forall (toks : list N) n,
  length toks * (S OR * S OZ) + S (orank P_PROGRAM) * S OZ + 1 <= n ->
  parse_pure n toks <> Fuel /\ fst (parse_memo n toks) <> Fuel.
Proof.
  intros toks n Hn. split; [apply oal_parse_terminates|apply oal_parse_memo_terminates]; exact Hn.
Qed.
Lemma oal_fuel_constants : (OR, OZ, orank P_PROGRAM) = (19, 26, 5).
Proof. vm_compute. reflexivity. Qed.
