From Oal Require Import Cli.

Section P.
Variable Doc Spec Base : Type.
Variable load_eval : fsys -> path -> option Spec.
Variable parse_base : bytes -> option Base.
Variable emit : Spec -> option Base -> Doc.
Variable to_yaml : Doc -> option bytes.
Variable writable : fsys -> path -> bool.

Notation run := (Cli.run Doc Spec Base load_eval parse_base emit to_yaml writable).

(** on failure nothing at all has been written *)
Theorem failure_leaves_fs cfg fs fs' : run cfg fs = (Failure, fs') -> fs' = fs.
Proof.
  unfold Cli.run. destruct (c_main cfg), (c_target cfg); try (intros H; inversion H; reflexivity).
  destruct (load_eval fs p); [|intros H; inversion H; reflexivity].
  destruct (match c_base cfg with
            | Some b => match fs b with
                        | Some raw => match parse_base raw with Some x => Some (Some x) | None => None end
                        | None => None
                        end
            | None => Some None
            end); [|intros H; inversion H; reflexivity].
  destruct (to_yaml _); [|intros H; inversion H; reflexivity].
  destruct (writable fs p0); intros H; inversion H; reflexivity.
Qed.

(** success means: exactly the target was written, with the complete serialised document of
    the program (and base) read from the file system before the write *)
Theorem success_writes_document cfg fs fs' : run cfg fs = (Success, fs') ->
  exists m t spec ob y,
    c_main cfg = Some m /\ c_target cfg = Some t /\ load_eval fs m = Some spec /\
    to_yaml (emit spec ob) = Some y /\ fs' = fs_write t y fs /\
    match c_base cfg with
    | None => ob = None
    | Some b => exists raw x, fs b = Some raw /\ parse_base raw = Some x /\ ob = Some x
    end.
Proof.
  unfold Cli.run. destruct (c_main cfg) as [m|], (c_target cfg) as [t|]; try discriminate.
  destruct (load_eval fs m) as [spec|] eqn:El; [|discriminate].
  destruct (c_base cfg) as [b|].
  - destruct (fs b) as [raw|] eqn:Eb; [|discriminate].
    destruct (parse_base raw) as [x|] eqn:Ep; [|discriminate].
    destruct (to_yaml (emit spec (Some x))) as [y|] eqn:Ey; [|discriminate].
    destruct (writable fs t); [|discriminate]. intros H. inversion H; subst.
    exists m, t, spec, (Some x), y. repeat split; try assumption. exists raw, x. auto.
  - destruct (to_yaml (emit spec None)) as [y|] eqn:Ey; [|discriminate].
    destruct (writable fs t); [|discriminate]. intros H. inversion H; subst.
    exists m, t, spec, None, y. repeat split; assumption.
Qed.

(** every other file is untouched, whatever happens *)
Theorem other_files_untouched cfg fs e fs' q : run cfg fs = (e, fs') -> c_target cfg <> Some q -> fs' q = fs q.
Proof.
  intros H Hq. destruct e.
  - destruct (success_writes_document _ _ _ H) as (m & t & spec & ob & y & _ & Ht & _ & _ & -> & _).
    unfold fs_write. destruct (N.eqb_spec q t) as [->|]; [congruence|reflexivity].
  - rewrite (failure_leaves_fs _ _ _ H). reflexivity.
Qed.

(** CLI and playground agree on import-free sources without base: both fail, or the bytes
    written are the bytes returned *)
Theorem cli_wasm_agree (load_eval1 : bytes -> option Spec) m t src fs :
  fs m = Some src -> load_eval fs m = load_eval1 src -> writable fs t = true ->
  match Cli.wasm Doc Spec Base emit to_yaml load_eval1 src with
  | None => fst (run (mk_config (Some m) (Some t) None) fs) = Failure
  | Some y => run (mk_config (Some m) (Some t) None) fs = (Success, fs_write t y fs)
  end.
Proof.
  intros Hsrc Hload Hw. unfold Cli.wasm, Cli.run. cbn [c_main c_target c_base]. rewrite Hload.
  destruct (load_eval1 src) as [spec|]; [|reflexivity].
  destruct (to_yaml (emit spec None)) as [y|]; [|reflexivity]. rewrite Hw. reflexivity.
Qed.

(** options over a configuration file: with a target given on the command line, success means
    that this target holds the document read from the main module given on the command line
    (when there is one), and the target named by the file, like every other path, is untouched *)
Theorem option_target_wins args file t fs e fs' :
  c_target args = Some t -> run (resolve args file) fs = (e, fs') ->
  (forall q, q <> t -> fs' q = fs q) /\
  (e = Success -> exists m spec ob y, orp (c_main args) (c_main file) = Some m /\ load_eval fs m = Some spec /\
                  to_yaml (emit spec ob) = Some y /\ fs' t = Some y).
Proof.
  intros Ht H. split.
  - intros q Hq. apply (other_files_untouched _ _ _ _ q H). unfold resolve; cbn [c_target]. rewrite Ht. cbn. congruence.
  - intros ->. destruct (success_writes_document _ _ _ H) as (m & t' & spec & ob & y & Hm & Ht' & Hl & Hy & -> & _).
    unfold resolve in Hm, Ht'; cbn [c_main c_target] in Hm, Ht'. rewrite Ht in Ht'. cbn in Ht'. inversion Ht'; subst t'.
    exists m, spec, ob, y. repeat split; try assumption. unfold fs_write. rewrite N.eqb_refl. reflexivity.
Qed.

Lemma resolve_no_file args : resolve args (mk_config None None None) = args.
Proof. destruct args as [[?|] [?|] [?|]]; reflexivity. Qed.
Lemma resolve_no_args file : resolve (mk_config None None None) file = file.
Proof. destruct file; reflexivity. Qed.
End P.
