(** Property C18 — rename is meaning-preserving and never crashes the server.

    Proved here (partial): over the handlers model, the edits a rename produces for the uses
    of a declaration are the identifier spans of exactly the uses bound to it (C17) and are
    pairwise disjoint; a consistent injective renaming leaves the binding relation unchanged
    (C05), so the edited program binds every use as before. On the evaluator model (tied to
    eval.rs on every run): renaming the bound identifiers of a whole program injectively
    leaves the evaluation unchanged ([C18_binder_rename_keeps_document], parameters and rec
    binders); renaming @references injectively gives the same result with the keys of the
    named components renamed and nothing else changed ([C18_reference_rename_keeps_document]:
    the same document with those components' names changed). Declarations are referred to by
    position in resolved trees, so renaming a declaration or an import qualifier does not
    change the tree the evaluator sees. That the edited sources are accepted by the front end,
    and that the server survives every offered rename (F4, fixed), is carried by monitor O18
    on the real binary. *)
From Oal Require Import Handlers HandlersProofs Resolve RewriteProofs.
From Oal Require Eval EvalProofs KeyMap.

Theorem C18_rename_use_edits_disjoint : forall us d, ordered us ->
  forall u v, In u (references_of us d) -> In v (references_of us d) -> u <> v ->
  (u_iend u <= u_istart v \/ u_iend v <= u_istart u)%N.
Proof. exact rename_use_edits_disjoint. Qed.
Print Assumptions C18_rename_use_edits_disjoint.

Theorem C18_rename_edits_are_the_bound_uses : forall us d u,
  In u (references_of us d) <-> In u us /\ u_def u = Some d.
Proof. exact refs_exact. Qed.
Print Assumptions C18_rename_edits_are_the_bound_uses.

Theorem C18_renaming_keeps_binding_partial : forall f, (forall a b, f a = f b -> a = b) ->
  forall t en, lex (ren_env f en) (ren f t) = lex en t.
Proof. exact alpha_resolution. Qed.
Print Assumptions C18_renaming_keeps_binding_partial.

(** evaluation: renaming binders, renaming @references *)
Theorem C18_binder_rename_keeps_document : forall rho : N -> N, (forall x y, rho x = rho y -> x = y) ->
  forall P n rs,
  Eval.eval_program false (EvalProofs.ren_prog rho P) n (map (EvalProofs.ren rho) rs) = Eval.eval_program false P n rs.
Proof. exact EvalProofs.eval_program_rename. Qed.
Print Assumptions C18_binder_rename_keeps_document.

Theorem C18_reference_rename_keeps_document : forall g : Eval.str -> Eval.str, (forall x y, g x = g y -> x = y) ->
  forall lx P n rs,
  Eval.eval_program lx (KeyMap.rename_refs g P) n rs = KeyMap.rmap (KeyMap.km_result g KeyMap.idp KeyMap.idp) (Eval.eval_program lx P n rs).
Proof. exact KeyMap.rename_reference_keeps_document. Qed.
Print Assumptions C18_reference_rename_keeps_document.

Example C18_reference_rename_nonvacuous :
  KeyMap.rename_refs KeyMap.swap56 KeyMap.ex_ref_P <> KeyMap.ex_ref_P /\
  exists rels sc sc',
    Eval.eval_program false KeyMap.ex_ref_P 50 KeyMap.ex_ref_rs = Eval.Ok (rels, [(Eval.KNamed 5%N, sc)]) /\
    Eval.eval_program false (KeyMap.rename_refs KeyMap.swap56 KeyMap.ex_ref_P) 50 KeyMap.ex_ref_rs =
    Eval.Ok (map (KeyMap.km_relation KeyMap.swap56 KeyMap.idp KeyMap.idp) rels, [(Eval.KNamed 6%N, sc')]).
Proof. exact KeyMap.ex_rename_reference. Qed.
