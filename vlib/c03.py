"""C03 — every emitted document is a closed, structurally valid OpenAPI 3 description.
Monitor O03: an independent validator over the implementation's output for generated
programs (with and without base documents)."""
import json
from . import core, progs, docval, evaltie
from .c14 import rand_base, named_refs


def known_opid(p, dup):
    """K6a: the derived operationId does not distinguish a path variable from a literal of the
    same spelling. K6b: one explicit `operationId` annotation is attached to every operation the
    annotated transfer yields (several methods, or a named transfer used by several resources)."""
    import re
    oid, (k1, m1), (k2, m2) = dup
    if any(('operationId: "%s"' % oid) in t or ("operationId: %s" % oid) in t for t in p["mods"].values()):
        return "K6b"
    lab = lambda k: [x.strip("{}").lower() for x in k.split("/")]
    if m1 == m2 and lab(k1) == lab(k2) and k1 != k2:
        return "K6a"
    return None


def uri_tie(ctx):
    """correspondence of Model/SpecUri.v with the emitter: path key, path parameters, derived
    operationId, numeric and NXX statuses"""
    rng = ctx.rng
    cases = []
    lits = ["a", "b", "Items", "x-y", "v1", "%7E", "a.b", ""]
    names = ["id", "Name", "k-1", "x_y", "b"]
    for _ in range(1800 if ctx.thorough else 150):
        k = rng.randint(1, 4)
        segs = []
        used = set()
        for j in range(k):
            if rng.random() < 0.4:
                nm = rng.choice([x for x in names if x not in used] or ["zz%d" % j])
                used.add(nm)
                segs.append(("V", nm))
            else:
                lit = rng.choice(lits)
                if lit == "" and (j > 0 and segs[-1] == ("L", "")):
                    lit = "a"
                segs.append(("L", lit))
        cases.append((rng.choice(["get", "put", "delete"]), segs))
    mlines, ps = [], []
    for idx, (m, segs) in enumerate(cases):
        mlines.append("U %s %s" % (m, " ".join("%s:%s" % s for s in segs)))
        # "//" would start a comment: a variable cannot directly follow the root, an empty literal is "/"
        src = ""
        for kind, s in segs:
            src += ("/" + s) if kind == "L" else ("/{ '%s%s num }" % (s, rng.choice(["", "", "?", "!"])))
        ps.append({"mods": {"file:///w/main.oal": "res %s on %s -> <>;\n" % (src, m)}, "main": "file:///w/main.oal"})
    stat = [99, 100, 101, 199, 200, 404, 599, 600, 0, 1, 65535, 65536, 70000, 4294967396] + [rng.randrange(0, 1200) for _ in range(40)]
    for n in stat:
        mlines.append("S %d" % n)
        ps.append({"mods": {"file:///w/main.oal": "let s = %d; res /s on get -> <status=s, {}>;\n" % n}, "main": "file:///w/main.oal"})
    for c in "0123456789":
        mlines.append("X %d" % ord(c))
        ps.append({"mods": {"file:///w/main.oal": "res /s on get -> <status=%sXX, {}>;\n" % c}, "main": "file:///w/main.oal"})
    model = core.run_stateless(core.RUNNER, "uri", mlines)
    impl = progs.compile_many(ps)
    for l, p, mo, r in zip(mlines, ps, model, impl):
        ctx.cov["evaluations"] += 1
        if r.get("status") == "ok":
            validate(ctx, p, r)
        if mo is None:
            ctx.broken.append("model runner gave no answer for " + l)
            continue
        if l.startswith("U"):
            if "//" in p["mods"]["file:///w/main.oal"].split(" on ")[0]:
                continue   # not expressible in the surface syntax (comment)
            if r.get("status") != "ok":
                ctx.broken.append("L6u: implementation rejects %s: %s" % (p["mods"], r.get("msg")))
                continue
            pat, params, opid = [x.strip() for x in mo.split("|")]
            paths = r["doc"]["paths"]
            key = list(paths)[0]
            item = paths[key]
            ip = ",".join(q["name"] for q in item.get("parameters", []) if q.get("in") == "path")
            op = [item[m] for m in docval.METHODS if m in item][0]
            got = "%s | %s | %s" % (key, ip, op.get("operationId"))
            if got != "%s | %s | %s" % (pat, params, opid):
                if len(ctx.broken) < 20:
                    ctx.broken.append("L6u disagreement: %s impl=[%s] model=[%s]" % (l, got, mo))
            else:
                ctx.cov["traces_validated_against_impl"] += 1
        else:
            if r.get("status") == "ok":
                keys = list(r["doc"]["paths"]["/s"]["get"]["responses"])
                got = "code:%s" % keys[0] if l.startswith("S") else "range:%s" % keys[0][0]
            elif r.get("kind") in ("InvalidLiteral", "Syntax", "InvalidType"):
                got = "none"
            else:
                got = "?" + str(r.get("kind"))
            if got != mo:
                if len(ctx.broken) < 20:
                    ctx.broken.append("L6u disagreement: %s impl=%s model=%s" % (l, got, mo))
            else:
                ctx.cov["traces_validated_against_impl"] += 1
    ctx.count("uri_tie_cases", len(mlines))


def check(ctx):
    ctx.proof = core.proof_stage("C03", thorough=ctx.thorough)
    ok, out = core.ensure_runner()
    if not ok:
        ctx.broken.append("runner build failed: " + out[-300:])
    ok, out = core.ensure_harness()
    if not ok:
        ctx.broken.append("harness build against /repo failed: " + out[-600:])
        return core.finish(ctx)
    # known findings first
    for k in core.known_findings("C03"):
        if k.get("status") == "known":
            r = progs.compile_many([{"mods": {"file:///w/main.oal": k["witness"]["source"]}, "main": "file:///w/main.oal"}])[0]
            if r.get("status") == "ok" and docval.duplicate_operation_ids(r["doc"]):
                ctx.known(k["what"])
            else:
                core.log("stale known finding: " + k["id"])
    if ctx.replay:
        v = json.load(open(ctx.replay))
        ps = [dict(v["input"]["program"], features=[], ast=None)]
        if v["input"].get("base") is not None:
            ps[0]["base"] = json.dumps(v["input"]["base"])
    else:
        n = 7500 if ctx.thorough else 500
        ps = progs.gen_programs(ctx, n)
        extra = [
            "let @price$usd = { 'amount num };\nres /p on get -> <@price$usd>;\n",
            "let @a-b_c = { 'n [@a-b_c] };\nres /q on get -> <[@a-b_c]>;\n",
            "let s = 150; res /s on get -> <status=s, {}> :: <status=599, {}> :: <status=100, {}>;\n",
            "res /v/{ 'id num }/w/{ 'name str }?{ 'q str } on get -> <>;\n",
            "let u = /base/{ 'k int }; res (concat u (/tail/{ 'j str })) on put -> <>;\n",
            "let self_link = /nodes/{ 'id! int } on get -> <{ 'self self_link }>;\nlet @node = { 'name str, 'parent self_link };\nres self_link;\nres /roots on get -> <[@node]>;\n",
            "let @a = { 'p (rec x num) };\nlet @b = { 'q @a, 'r (rec y uri) };\nres /r on get -> <@b> :: <status=404, (rec z bool)>;\n",
            # paths that differ by an empty segment only are different paths with different derived operationIds
            "res /items on get -> { 'count int };\nres /items/ on get -> { 'first str };\nres / on get -> {};\n",
            # a query (or header) property may carry the name of a path variable: still one path parameter per variable
            "res /items/{ 'id int }?{ 'id str, 'limit int } on get -> { 'name str };\nres /users/{ 'uid int }?{ 'q str } on get { 'uid str } -> { 'name str };\n",
            "res /a/{ 'id num }/b/{ 'k num }?{ 'id str, 'k int } on get, put { 'id bool } -> <headers={ 'k str }, {}>;\n",
            # chains of aliases of named references: every $ref resolves whatever the length of the chain
            "let @c = { 'n num };\nlet @b = @c;\nlet @a = @b;\nlet @z = @a;\nres /chain on get -> <@a> :: <status=404, [@z]> :: <status=500, @b>;\n",
            "let @c = { 'n [@a] };\nlet @b = @c;\nlet @a = @b;\nres /loop on get -> <@a>;\n",
            # the same templated path declared by two resources (K3: the later one replaces the earlier): still one path parameter per variable
            "let item = { 'name str };\nres /items/{ 'id str } on get -> <item>;\nres /items/{ 'id str } on put : <item> -> <item>;\nres /health on get -> <>;\n",
            # recursions cut at a list of references: components whose item is a $ref to themselves / to each other
            "let forest = [forest];\nres /forest on get -> <forest>;\n",
            "let rows = [cols];\nlet cols = [rows];\nres /grid on get -> <rows> :: <status=404, cols>;\n",
            # user-chosen map keys spelling "$ref": their values are objects, not references
            "let @a = { '$ref str, 'n [@a] };\nres /x on get : { '$ref int } -> <headers={ '$ref str }, media=\"$ref\", @a>;\n",
        ]
        for s in extra:
            ps.append({"mods": {"file:///w/main.oal": s}, "main": "file:///w/main.oal", "features": ["corpus"], "ast": None})
        # generated programs in which a query property is renamed to a path variable of the same URI
        import re
        clash = 0
        for p0 in list(ps[: (1500 if ctx.thorough else 200)]):
            src = p0["mods"][p0["main"]]
            m = re.search(r"res [^\n;]*\{ '(v\d+)[?!]? [^}]*\}[^\n;?]*\?\{ '(p\d+)", src)
            if m and len(p0["mods"]) == 1:
                s2 = src[:m.start(2)] + m.group(1) + src[m.end(2):]
                ps.append({"mods": {p0["main"]: s2}, "main": p0["main"], "features": ["query-named-like-path-variable"], "ast": None})
                clash += 1
        ctx.count("query_named_like_path_variable", clash)
        ps += progs.shared_corpus()
        for i in range(0, len(ps), 4):
            ps[i]["base"] = json.dumps(rand_base(ctx.rng, named_refs(ps[i])))
    progs.feature_stats(ctx, ps)
    if not ctx.replay:
        target_file_stage(ctx)
        uri_tie(ctx)
        # C03_spec_refs_closed is a theorem about Model/Eval.v: the evaluator tie
        evaltie.run(ctx, ps[: (2400 if ctx.thorough else 160)] + evaltie.repo_corpus())
    res = progs.compile_many(ps)
    seen = set()
    for p, r in zip(ps, res):
        ctx.cov["evaluations"] += 1
        if r.get("status") in ("crash", "panic"):
            # builder_never_panics: on every evaluated Spec the emitter is total; a panic or overflow that is not one of the recorded
            # classes of the evaluator (C01) is a document that was not produced
            from . import known
            kid = known.classify_panic(r.get("msg"), p["mods"]) if r.get("status") == "panic" else None
            if kid:
                ctx.count("known_class_" + kid)
            else:
                ctx.violation("an accepted program makes the compiler panic, overflow the stack or hang before a document is emitted",
                              {"program": progs.source_of(p), "base": json.loads(p["base"]) if "base" in p else None}, "a document", str(r.get("msg"))[:300])
                if len(ctx.violations) > 4:
                    break
            continue
        if r.get("status") != "ok":
            ctx.count("not_emitted_" + r.get("status", "?") + "_" + r.get("phase", ""))
            if "corpus" in (p.get("features") or []) and r.get("status") == "error" and not ctx.replay:
                ctx.broken.append("a corpus program of the check is rejected: %s: %s" % (str(r.get("msg"))[:120], p["mods"][p["main"]][:200]))
            continue
        validate(ctx, p, r)
        doc = r["doc"]
        key = json.dumps(p["mods"], sort_keys=True)
        if key not in seen:
            seen.add(key)
            if docval.refs_of(doc) or len(doc.get("paths") or {}) > 1:
                ctx.count("nontrivial")
        if len(ctx.cov["samples"]) < 3 and docval.refs_of(doc):
            ctx.sample({"program": p["mods"][p["main"]][:300], "refs": [x[1] for x in docval.refs_of(doc)][:4]})
    finish_cov(ctx)
    return core.finish(ctx)


def target_file_stage(ctx):
    """the YAML text of the document is what ends up in the target file, and it reads back: two revisions of a program compiled
    in turn by oal-cli into one target (the second one shorter), the file compared with the text built in memory"""
    import os
    import subprocess
    from . import lspws
    ok, out = core.ensure_repo_bins()
    if not ok:
        ctx.broken.append("build of the binaries of /repo failed: " + out[-300:])
        return
    prev = "let @c = { 'id int, 'orders [@o] };\nlet @o = { 'total num, 'lines [{ 'sku str, 'qty int }] };\n" + \
           "".join("res /customers/{ 'id int }/r%d on get -> <@c> :: <status=404, { 'why str }>;\n" % i for i in range(6))
    cur = "let @c = { 'id int };\nres /customers/{ 'id int } on get -> <@c>;\n"
    root = lspws.fresh_dir("c03_target")
    ref = progs.compile_many([{"mods": {"file://%s/main.oal" % root: cur}, "main": "file://%s/main.oal" % root}])[0]
    for src in (prev, cur):
        with open(os.path.join(root, "main.oal"), "w") as f:
            f.write(src)
        r = subprocess.run([core.CLI, "-m", "main.oal", "-t", "api.yaml"], cwd=root, capture_output=True, timeout=60)
        if r.returncode != 0:
            ctx.broken.append("oal-cli fails on the programs of the target-file stage: " + r.stderr.decode("utf8", "replace")[-200:])
            return
    ctx.cov["evaluations"] += 2
    got = open(os.path.join(root, "api.yaml"), "rb").read().decode("utf8", "replace")
    if ref.get("status") == "ok" and got != ref["yaml"]:
        ctx.violation("the target file does not hold the YAML text of the document (it does not parse back to it)",
                      {"program": {"mods": {"main.oal": cur}, "main": "main.oal"}, "earlier_revision": prev}, "%d bytes" % len(ref["yaml"]), "%d bytes" % len(got))
    else:
        ctx.count("target_file_reads_back")


def validate(ctx, p, r):
    if True:
        inp = {"program": progs.source_of(p), "base": json.loads(p["base"]) if "base" in p else None}
        doc = r["doc"]
        generated = {"paths": doc.get("paths"), "schemas": (doc.get("components") or {}).get("schemas")}
        d = docval.dangling_refs(doc, generated)
        if d:
            ctx.violation("a $ref in the generated paths/schemas does not resolve to a schema component of the document", inp, "closed", d[:3])
        pp = docval.path_param_problems(doc)
        if pp:
            ctx.violation("path template variables and required path parameters do not correspond one to one", inp, "one to one", pp[:3])
        rk = docval.response_key_problems(doc)
        if rk:
            ctx.violation("a response key is neither default, a code 100-599 nor 1XX-5XX", inp, "valid keys", rk[:3])
        dup = [d for d in docval.duplicate_operation_ids(doc) if not known_opid(p, d)]
        if dup:
            ctx.violation("operationIds are not unique", inp, "unique", dup[:3])
        elif docval.duplicate_operation_ids(doc):
            ctx.count("known_class_K6")
        if not r.get("reparsed_equal", False):
            ctx.violation("the YAML text does not parse back to the same document", inp, "equal", "different")


def finish_cov(ctx):
    ctx.cov["distinct_nontrivial"] = ctx.cov["distribution"].get("nontrivial", 0)
    ctx.cov["rule"] = ("generated accepted programs (every fourth with a random base document) + corpus programs with unusual reference names, "
                       "numeric statuses through bindings, path variables and concat; validated: $ref closure of the generated part, path variables vs "
                       "required path parameters, response keys, operationId uniqueness, YAML re-parse. distinct_nontrivial = distinct programs whose "
                       "document has a $ref or more than one path")
    ctx.assumptions = ["$refs carried by a base document's own non-schema components are outside the claim (C14 forces the schemas to come from the program)",
                       "the generator keeps variable names inside a path pairwise distinct and paths pairwise distinct"]
