(** The cast table is exact: whenever the guard of a cast site passes for a resolved tag and
    the tag admits the value form, the cast accepts the form or the pair is one of the known
    failing triples (each of which is refuted by a witness). *)
From Oal Require Import Tag Cast.

Definition resolved (t : tag) : bool := negb (is_var t).

Lemma admits_core t k : admits t k = true -> admits t (core k) = true.
Proof. induction k; cbn [admits core]; auto. intros H. apply andb_true_iff in H. apply IHk, H. Qed.

Lemma cast_object_core k : cast_object_ok k = cast_object_ok (core k).
Proof. induction k; cbn; auto. Qed.
Lemma cast_uri_core k : cast_uri_ok k = cast_uri_ok (core k).
Proof. induction k; cbn; auto. Qed.
Lemma cast_relation_core k : cast_relation_ok k = cast_relation_ok (core k).
Proof. induction k; cbn; auto. Qed.
Lemma cast_property_core k : cast_property_ok k = cast_property_ok (core k).
Proof. induction k; cbn; auto. Qed.
Lemma cast_string_core k : cast_string_ok k = cast_string_ok (core k).
Proof. induction k; cbn; auto. Qed.
Lemma cast_status_core k : cast_status_ok k = cast_status_ok (core k).
Proof. induction k; cbn; auto. Qed.
Lemma cast_transfer_core k : cast_transfer_ok k = cast_transfer_ok (core k).
Proof. induction k; cbn; auto. Qed.
Lemma cast_lambda_core k : cast_lambda_ok k = cast_lambda_ok (core k).
Proof. induction k; cbn; auto. Qed.

Lemma core_not_ref k : match core k with FRef _ => False | _ => True end.
Proof. induction k; cbn; auto. Qed.

Theorem cast_table_exact s t k :
  resolved t = true -> check s t = true -> admits t k = true ->
  cast_ok s k = true \/ known s k = true.
Proof.
  intros Hr Hc Ha.
  destruct s; cbn [cast_ok known];
    first [ (first [ rewrite cast_object_core | rewrite cast_uri_core | rewrite cast_relation_core
                   | rewrite cast_property_core | rewrite cast_string_core | rewrite cast_status_core
                   | rewrite cast_transfer_core | rewrite cast_lambda_core ];
             apply admits_core in Ha; pose proof (core_not_ref k) as Hn;
             destruct (core k); try contradiction;
             destruct t as [[| | | | | | | | | |]|?|? ?|?]; cbn in *; try discriminate; auto; fail)
          | (destruct k; destruct t as [[| | | | | | | | | |]|?|? ?|?]; cbn in *; try discriminate; auto; fail) ].
Qed.

(** each known triple is a real failure: the guard passes, the tag admits the form, the cast panics *)
Lemma K1_ranges_in_domain :
  check SDomain (TBase BContent) = true /\ admits (TBase BContent) FRanges = true /\ cast_ok SDomain FRanges = false.
Proof. repeat split. Qed.
Lemma K11_operation_as_headers :
  check SHeaders (TBase BObject) = true /\ admits (TBase BObject) FOp = true /\ cast_ok SHeaders FOp = false.
Proof. repeat split. Qed.
Lemma K10_recursion_as_headers :
  check SHeaders (TBase BObject) = true /\ admits (TBase BObject) FRecursion = true /\ cast_ok SHeaders FRecursion = false.
Proof. repeat split. Qed.
Lemma K12_operation_as_uri :
  check SRelUri (TBase BUri) = true /\ admits (TBase BUri) FOp = true /\ cast_ok SRelUri FOp = false.
Proof. repeat split. Qed.
Lemma K12_operation_as_resource :
  check SResource (TBase BRelation) = true /\ admits (TBase BRelation) FOp = true /\ cast_ok SResource FOp = false.
Proof. repeat split. Qed.
Lemma K12_operation_as_concat_argument :
  check SConcatArg (TBase BUri) = true /\ admits (TBase BUri) FOp = true /\ cast_ok SConcatArg FOp = false.
Proof. repeat split. Qed.

Lemma K16_recursion_as_resource :
  check SResource (TBase BRelation) = true /\ admits (TBase BRelation) (FRef FRecursion) = true
  /\ cast_ok SResource (FRef FRecursion) = false.
Proof. repeat split. Qed.

(** K2: an unresolved tag variable passes every guard and admits nothing we can bound — a
    value of any form may flow there across modules *)
Lemma K2_unresolved_passes_guards v :
  check SBody (TVar v) = true /\ cast_ok SBody FContent = false.
Proof. split; reflexivity. Qed.

(** outside the known triples a guarded, admitted value is never rejected *)
Corollary cast_never_panics s t k :
  resolved t = true -> check s t = true -> admits t k = true -> known s k = false -> cast_ok s k = true.
Proof.
  intros Hr Hc Ha Hk. destruct (cast_table_exact s t k Hr Hc Ha) as [H|H]; [exact H|congruence].
Qed.
