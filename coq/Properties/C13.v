(** Property C13 — front ends agree, and the CLI writes the target only on success.

    Proved here about the glue state machine of oal-cli over an abstract file system, for
    every configuration, file system, compiler pipeline, base parser, serialiser and write
    outcome (all parameters): failure leaves the file system unchanged; success means that
    exactly the target holds the complete serialised document of what was read; no other file
    is ever touched; on import-free sources without base the CLI fails iff the playground
    entry point fails and otherwise writes the bytes it returns. Carried by the monitors on
    the real binaries: exit status, diagnostic on stderr located in the sources, crash
    atomicity of std::fs::write is outside the model, and that the language server publishes
    a diagnostic exactly when the other two fail. *)
From Oal Require Import Cli CliProofs.
From Oal Require Diag DiagProofs Loop LoopProofs.

Theorem C13_failure_leaves_fs : forall Doc Spec Base load_eval parse_base emit to_yaml writable cfg fs fs',
  Cli.run Doc Spec Base load_eval parse_base emit to_yaml writable cfg fs = (Failure, fs') -> fs' = fs.
Proof. exact failure_leaves_fs. Qed.
Print Assumptions C13_failure_leaves_fs.

Theorem C13_success_writes_document : forall Doc Spec Base load_eval parse_base emit to_yaml writable cfg fs fs',
  Cli.run Doc Spec Base load_eval parse_base emit to_yaml writable cfg fs = (Success, fs') ->
  exists m t spec ob y,
    c_main cfg = Some m /\ c_target cfg = Some t /\ load_eval fs m = Some spec /\
    to_yaml (emit spec ob) = Some y /\ fs' = fs_write t y fs /\
    match c_base cfg with
    | None => ob = None
    | Some b => exists raw x, fs b = Some raw /\ parse_base raw = Some x /\ ob = Some x
    end.
Proof. exact success_writes_document. Qed.
Print Assumptions C13_success_writes_document.

Theorem C13_other_files_untouched : forall Doc Spec Base load_eval parse_base emit to_yaml writable cfg fs e fs' q,
  Cli.run Doc Spec Base load_eval parse_base emit to_yaml writable cfg fs = (e, fs') ->
  c_target cfg <> Some q -> fs' q = fs q.
Proof. exact other_files_untouched. Qed.
Print Assumptions C13_other_files_untouched.

Theorem C13_option_target_wins : forall Doc Spec Base load_eval parse_base emit to_yaml writable args file t fs e fs',
  c_target args = Some t ->
  Cli.run Doc Spec Base load_eval parse_base emit to_yaml writable (Cli.resolve args file) fs = (e, fs') ->
  (forall q, q <> t -> fs' q = fs q) /\
  (e = Success -> exists m spec ob y, Cli.orp (c_main args) (c_main file) = Some m /\ load_eval fs m = Some spec /\
                  to_yaml (emit spec ob) = Some y /\ fs' t = Some y).
Proof. exact option_target_wins. Qed.
Print Assumptions C13_option_target_wins.

Theorem C13_cli_wasm_agree : forall Doc Spec Base load_eval parse_base emit to_yaml writable
  (load_eval1 : bytes -> option Spec) m t src fs,
  fs m = Some src -> load_eval fs m = load_eval1 src -> writable fs t = true ->
  match Cli.wasm Doc Spec Base emit to_yaml load_eval1 src with
  | None => fst (Cli.run Doc Spec Base load_eval parse_base emit to_yaml writable (mk_config (Some m) (Some t) None) fs) = Failure
  | Some y => Cli.run Doc Spec Base load_eval parse_base emit to_yaml writable (mk_config (Some m) (Some t) None) fs = (Success, fs_write t y fs)
  end.
Proof. exact cli_wasm_agree. Qed.
Print Assumptions C13_cli_wasm_agree.

(** the language server shows a diagnostic exactly when the compilation reported an error
    (diagnostics bookkeeping of Model/Diag.v, whatever the history before the refresh) *)
Theorem C13_lsp_diagnostic_iff_error : forall st docs errs, DiagProofs.inv st ->
  (exists l, Diag.vget (Diag.s_view (Diag.refresh st docs errs)) l <> []) <-> errs <> [].
Proof. exact DiagProofs.diagnostic_iff_error. Qed.
Print Assumptions C13_lsp_diagnostic_iff_error.

(** ... and this after any history of notifications, requests and idle seconds (main loop, Model/Loop.v):
    once a request has been answered, the client shows a diagnostic exactly when the evaluation
    of the current texts reports an error *)
Theorem C13_lsp_loop_diagnostic_iff_error :
  forall (world fstate req ans : Type) (docs_of : world -> list Diag.loc)
         (eval_folders : world -> fstate * list (Diag.loc * Diag.diag)) (handle : fstate -> world -> req -> ans)
         (w : world) (fs0 : fstate) (h : list (Loop.event world req)) (r : req),
  (exists l, Diag.vget (Diag.s_view (Loop.l_sc (fst (Loop.run docs_of eval_folders handle (Loop.start w fs0) (h ++ [Loop.Request r]))))) l <> []) <->
  snd (eval_folders (Loop.world_after w h)) <> [].
Proof. exact LoopProofs.loop_diagnostic_iff_error. Qed.
Print Assumptions C13_lsp_loop_diagnostic_iff_error.
