(** The result of the evaluator model does not depend on the fuel: once an evaluation ends with
    anything but [Fuel], every larger amount of fuel gives the same result. Together with
    termination (TermProofs) the evaluation of a stratified program is a well-defined value. *)
From Oal Require Import Eval.
From Coq Require Import Lia.

Definition lef {A} (r r' : res A) : Prop := r = Fuel \/ r = r'.

Lemma lef_refl {A} (r : res A) : lef r r.
Proof. right. reflexivity. Qed.

Lemma bind_lef {A B} (r r' : res A) (k k' : A -> res B) :
  lef r r' -> (forall x, lef (k x) (k' x)) -> lef (bind r k) (bind r' k').
Proof.
  intros [->| ->] Hk; [left; reflexivity|].
  destruct r' as [x|e|p|]; cbn [bind]; [apply Hk|right; reflexivity|right; reflexivity|left; reflexivity].
Qed.

Lemma pure_lef {A B} (c : res A) (k k' : A -> res B) : (forall x, lef (k x) (k' x)) -> lef (bind c k) (bind c k').
Proof. intros Hk. apply bind_lef; [apply lef_refl|exact Hk]. Qed.

Section Lists.
  Context {X B : Type}.
  Variables f f' : st -> X -> res (st * B).
  Hypothesis Hf : forall s x, lef (f s x) (f' s x).

  Lemma map_st_lef l : forall s, lef (map_st f s l) (map_st f' s l).
  Proof.
    induction l as [|x l IH]; intros s; cbn [map_st]; [apply lef_refl|].
    apply bind_lef; [apply Hf|]. intros [s1 b]. apply bind_lef; [apply IH|]. intros [s2 bs]. apply lef_refl.
  Qed.

  Lemma opt_st_lef o s : lef (opt_st f s o) (opt_st f' s o).
  Proof.
    destruct o as [x|]; cbn [opt_st]; [|apply lef_refl].
    apply bind_lef; [apply Hf|]. intros [s1 b]. apply lef_refl.
  Qed.
End Lists.

Section Args.
  Variables ev ev' : st -> expr -> res (st * aval).
  Hypothesis Hev : forall s e, lef (ev s e) (ev' s e).

  Lemma bind_args_lef args : forall s ps sc, lef (bind_args ev s ps args sc) (bind_args ev' s ps args sc).
  Proof.
    induction args as [|a args IH]; intros s ps sc; [destruct ps; apply lef_refl|].
    destruct ps as [|p ps]; [apply lef_refl|]. cbn [bind_args].
    apply bind_lef; [apply Hev|]. intros [s1 v]. apply IH.
  Qed.

  Lemma eval_metas_lef ms : forall s acc, lef (eval_metas ev s ms acc) (eval_metas ev' s ms acc).
  Proof.
    induction ms as [|[k rhs] ms IH]; intros s acc; cbn [eval_metas]; [apply lef_refl|].
    apply bind_lef; [apply Hev|]. intros [s1 v]. destruct acc as [[status media] headers].
    destruct k as [|[p|p|]]; apply pure_lef; intros x; apply IH.
  Qed.

  Lemma step_lef {B} (c : aval -> res B) s e :
    lef (do (s', v) <- ev s e; do x <- c v; Ok (s', x)) (do (s', v) <- ev' s e; do x <- c v; Ok (s', x)).
  Proof. apply bind_lef; [apply Hev|]. intros [s1 v]. apply lef_refl. Qed.
End Args.

Theorem eval_fuel_step lx P : forall n s e a, lef (eval lx P n s e a) (eval lx P (S n) s e a).
Proof.
  induction n as [|n IH]; intros s e a; [left; reflexivity|].
  assert (IH0 : forall s e, lef (eval lx P n s e []) (eval lx P (S n) s e [])) by (intros; apply IH).
  set (EV := fun s e => eval lx P n s e []) in *.
  set (EV' := fun s e => eval lx P (S n) s e []) in *.
  destruct e; cbn [eval]; fold EV EV'.
  - apply pure_lef. intros x. apply IH.
  - apply IH.
  - apply lef_refl.
  - apply lef_refl.
  - apply lef_refl.
  - apply lef_refl.
  - (* EDecl *)
    destruct (get_decl P m i) as [d|]; [|apply lef_refl].
    destruct (d_params d); [|apply lef_refl].
    apply pure_lef. intros da.
    destruct ((match d_ref d with Some _ => true | None => false end) || d_rec d); [|apply IH].
    destruct (rget _ (refs s)) as [[v|]|]; try apply lef_refl.
    apply bind_lef; [apply IH|]. intros [s2 v]. apply lef_refl.
  - apply lef_refl.
  - apply lef_refl.
  - (* EApp *)
    apply bind_lef; [apply IH0|]. intros [s1 fv]. apply pure_lef. intros lam.
    destruct lam; try (apply bind_lef; [apply (map_st_lef EV EV' IH0)|]; intros [s2 vs]; apply lef_refl).
    destruct (get_decl P m i) as [d|]; [|apply lef_refl].
    apply bind_lef; [apply (bind_args_lef EV EV' IH0)|]. intros [s2 sc]. apply pure_lef. intros da.
    destruct lx.
    + destruct (Nat.ltb _ _); [apply lef_refl|]. apply bind_lef; [apply IH|]. intros [s3 r]. apply lef_refl.
    + apply bind_lef; [apply IH|]. intros [s3 r]. apply lef_refl.
  - (* ERec *)
    apply bind_lef; [apply IH|]. intros [s1 rhs]. apply lef_refl.
  - (* EObj *)
    apply bind_lef; [apply map_st_lef; intros s0 x; apply (step_lef EV EV' IH0)|]. intros [s1 props]. apply lef_refl.
  - apply bind_lef; [apply IH0|]. intros [s1 v]. apply lef_refl.
  - apply bind_lef; [apply IH0|]. intros [s1 v]. apply lef_refl.
  - apply bind_lef; [apply IH0|]. intros [s1 v]. apply lef_refl.
  - (* EOp *)
    destruct (N.eqb op 3).
    + apply bind_lef; [apply map_st_lef; intros s0 x; apply (step_lef EV EV' IH0)|]. intros [s1 rs]. apply lef_refl.
    + destruct (vop_of op) as [vo|]; [|apply lef_refl].
      apply bind_lef; [apply map_st_lef; intros s0 x; apply (step_lef EV EV' IH0)|]. intros [s1 rs]. apply lef_refl.
  - (* ECont *)
    apply bind_lef; [apply opt_st_lef; intros s0 x; apply (step_lef EV EV' IH0)|]. intros [s1 schema].
    apply bind_lef; [apply (eval_metas_lef EV EV' IH0)|]. intros [s2 [[status media] headers]]. apply lef_refl.
  - (* EXfer *)
    apply bind_lef; [apply opt_st_lef; intros s0 x; apply (step_lef EV EV' IH0)|]. intros [s1 dom].
    apply bind_lef; [apply IH0|]. intros [s2 rv]. apply pure_lef. intros rg.
    apply bind_lef; [apply opt_st_lef; intros s0 x; apply (step_lef EV EV' IH0)|]. intros [s3 prm]. apply lef_refl.
  - (* EUri *)
    apply bind_lef.
    + apply map_st_lef. intros s0 [x|v]; [apply lef_refl|]. apply bind_lef; [apply IH0|]. intros [s1 pv]. apply lef_refl.
    + intros [s1 path]. apply bind_lef; [apply opt_st_lef; intros s0 x; apply (step_lef EV EV' IH0)|]. intros [s2 prm]. apply lef_refl.
  - (* ERel *)
    apply bind_lef; [apply IH0|]. intros [s1 uv]. apply pure_lef. intros ur.
    apply bind_lef; [apply map_st_lef; intros s0 x; apply (step_lef EV EV' IH0)|]. intros [s2 ts]. apply lef_refl.
Qed.

Corollary eval_fuel_mono lx P n k s e a r : eval lx P n s e a = r -> r <> Fuel -> eval lx P (n + k) s e a = r.
Proof.
  intros H Hr. induction k as [|k IH]; [rewrite Nat.add_0_r; exact H|].
  rewrite Nat.add_succ_r. destruct (eval_fuel_step lx P (n + k) s e a) as [Hf|Hf]; [congruence|congruence].
Qed.

Theorem eval_program_fuel_step lx P n rs : lef (eval_program lx P n rs) (eval_program lx P (S n) rs).
Proof.
  unfold eval_program. apply bind_lef.
  - apply map_st_lef. intros s x. apply bind_lef; [apply eval_fuel_step|]. intros [s1 v]. apply lef_refl.
  - intros [s1 rels]. apply lef_refl.
Qed.

Corollary eval_program_fuel_mono lx P n m rs r :
  eval_program lx P n rs = r -> r <> Fuel -> n <= m -> eval_program lx P m rs = r.
Proof.
  intros H Hr Hle. replace m with (n + (m - n)) by lia. induction (m - n) as [|k IH]; [rewrite Nat.add_0_r; exact H|].
  rewrite Nat.add_succ_r. destruct (eval_program_fuel_step lx P (n + k) rs) as [Hf|Hf]; congruence.
Qed.
