#!/bin/sh
# Extract the model and build the reference runner `oalmodel` (offline).
set -e
cd "$(dirname "$0")"
rm -rf gen _build && mkdir -p gen _build
(cd gen && coqc -Q ../../coq Oal ../../coq/Extract/Extract.v >/dev/null)
cp gen/*.ml gen/*.mli conv.ml l_*.ml main.ml _build/
cd _build
ORDER=$(ocamlfind ocamldep -sort *.mli *.ml)
ocamlfind ocamlopt -O2 -w -a -o ../oalmodel $ORDER 2>/dev/null || ocamlfind ocamlopt -w -a -o ../oalmodel $ORDER
