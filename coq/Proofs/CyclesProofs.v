(** Proofs about Model/Cycles.v (property C09): the recursion check terminates and accepts
    exactly the graphs all of whose cycles pass through a referential declaration. *)
From Coq Require Import Lia Arith PeanoNat.
From Oal Require Import Cycles.

(** walks of length >= 1 *)
Inductive walk (g : graph) : N -> N -> Prop :=
| walk_one a b : In (a, b) g -> walk g a b
| walk_cons a b c : In (a, b) g -> walk g b c -> walk g a c.

(** walks whose edges all lead to nodes satisfying [P] *)
Inductive walkP (P : N -> Prop) (g : graph) : N -> N -> Prop :=
| walkP_one a b : In (a, b) g -> P b -> walkP P g a b
| walkP_cons a b c : In (a, b) g -> P b -> walkP P g b c -> walkP P g a c.

Lemma walkP_walk (P : N -> Prop) (g : graph) a b : walkP P g a b -> walk g a b.
Proof. induction 1; [apply walk_one|eapply walk_cons]; eauto. Qed.

Lemma walkP_incl (P : N -> Prop) (g g' : graph) : (forall x y, In (x, y) g -> P y -> In (x, y) g') ->
  forall a b, walkP P g a b -> walkP P g' a b.
Proof. intros H a b W. induction W; [apply walkP_one|eapply walkP_cons]; eauto. Qed.

Lemma walkP_weaken (P Q : N -> Prop) (g : graph) : (forall x, P x -> Q x) -> forall a b, walkP P g a b -> walkP Q g a b.
Proof. intros H a b W. induction W; [apply walkP_one|eapply walkP_cons]; eauto. Qed.

Section Proofs.
Variable referential : N -> bool.
Variable scc : list N -> graph -> list (list N).

Notation trivial := Cycles.trivial.
Notation round := (Cycles.round referential).
Notation cycles_check := (Cycles.cycles_check referential scc).

(** a cycle with no schema to cut at *)
Definition nonref (n : N) : Prop := referential n = false.
Definition bad_cycle (g : graph) : Prop := exists n, walkP nonref g n n.

(** contract of petgraph::algo::kosaraju_scc, as far as the check relies on it *)
Definition scc_spec : Prop :=
  forall ns g,
    (forall c, In c (scc ns g) -> c <> []) /\
    (* every node of a non-trivial component lies on a cycle that stays inside the component *)
    (forall c n, In c (scc ns g) -> trivial g c = false -> In n c -> walkP (fun x => In x c) g n n) /\
    (* every node on a cycle belongs to a non-trivial component *)
    (forall n, walk g n n -> exists c, In c (scc ns g) /\ trivial g c = false /\ In n c).

Hypothesis Hscc : scc_spec.

(** * one round *)
Lemma In_incoming g n e : In e (incoming g n) <-> In e g /\ snd e = n.
Proof. unfold incoming. rewrite filter_In, N.eqb_eq. reflexivity. Qed.

(** everything flagged in a round is an edge of the graph into a referential node that lies
    in a non-trivial component; marks are such nodes *)
Definition flagged_ok (g : graph) (comps : list (list N)) (inb : graph) : Prop :=
  forall e, In e inb -> In e g /\ referential (snd e) = true.

Lemma round_ok g comps : forall inb marks inb' marks',
  round g comps inb marks = inl (inb', marks') ->
  flagged_ok g comps inb ->
  flagged_ok g comps inb' /\
  (forall n, In n marks' -> In n marks \/ (referential n = true /\ exists c, In c comps /\ trivial g c = false /\ In n c)) /\
  (inb' = [] -> forall c, In c comps -> trivial g c = true).
Proof.
  induction comps as [|c cs IH]; intros inb marks inb' marks' H Hf; cbn [Cycles.round] in H.
  - inversion H; subst. split; [exact Hf|]. split; [auto|]. intros _ c [].
  - destruct (trivial g c) eqn:Et.
    + destruct (IH _ _ _ _ H Hf) as (A & B & C). split; [exact A|]. split.
      * intros n Hn. destruct (B n Hn) as [X|(X & c' & Y1 & Y2 & Y3)]; [left; exact X|].
        right. split; [exact X|]. exists c'. split; [right; exact Y1|]. auto.
      * intros E c' [<-|Hc']; [exact Et|apply C; assumption].
    + set (refs := filter referential c) in *.
      destruct (inb ++ flat_map (incoming g) refs) as [|e0 rest] eqn:Einb; [discriminate|].
      assert (Hf' : flagged_ok g cs (e0 :: rest)).
      { rewrite <- Einb. intros e He. apply in_app_or in He. destruct He as [He|He]; [apply Hf, He|].
        apply in_flat_map in He. destruct He as [n [Hn He]]. apply In_incoming in He. destruct He as [Hg Hs].
        split; [exact Hg|]. rewrite Hs. unfold refs in Hn. apply filter_In in Hn. apply Hn. }
      destruct (IH _ _ _ _ H Hf') as (A & B & C). split; [exact A|]. split.
      * intros n Hn. destruct (B n Hn) as [X|(X & c' & Y1 & Y2 & Y3)].
        -- apply in_app_or in X. destruct X as [X|X]; [left; exact X|].
           right. unfold refs in X. apply filter_In in X. destruct X as [X1 X2]. split; [exact X2|].
           exists c. split; [left; reflexivity|]. auto.
        -- right. split; [exact X|]. exists c'. split; [right; exact Y1|]. auto.
      * intros E. exfalso.
        (* the buffer only grows *)
        assert (Hgrow : forall cs inb marks inb' marks', round g cs inb marks = inl (inb', marks') -> inb' = [] -> inb = []).
        { clear. induction cs as [|c cs IH]; intros inb marks inb' marks' H E; cbn [Cycles.round] in H.
          - inversion H; subst. reflexivity.
          - destruct (trivial g c); [eapply IH; eassumption|].
            destruct (inb ++ flat_map (incoming g) (filter referential c)) as [|e0 rest] eqn:Ei; [discriminate|].
            pose proof (IH _ _ _ _ H E). discriminate. }
        pose proof (Hgrow _ _ _ _ _ H E). discriminate.
Qed.

Lemma round_err g comps : forall inb marks n,
  round g comps inb marks = inr n ->
  exists c, In c comps /\ trivial g c = false /\ (forall x, In x c -> referential x = true -> incoming g x = []).
Proof.
  induction comps as [|c cs IH]; intros inb marks n H; cbn [Cycles.round] in H; [discriminate|].
  destruct (trivial g c) eqn:Et.
  - destruct (IH _ _ _ H) as (c' & A & B & C). exists c'. split; [right; exact A|]. auto.
  - destruct (inb ++ flat_map (incoming g) (filter referential c)) as [|e0 rest] eqn:Ei.
    + exists c. split; [left; reflexivity|]. split; [exact Et|].
      intros x Hx Hr. apply app_eq_nil in Ei. destruct Ei as [_ Ei].
      destruct (incoming g x) as [|e es] eqn:Ex; [reflexivity|]. exfalso.
      assert (Hin : In e (flat_map (incoming g) (filter referential c))).
      { apply in_flat_map. exists x. split; [apply filter_In; auto|]. rewrite Ex. left. reflexivity. }
      rewrite Ei in Hin. destruct Hin.
    + destruct (IH _ _ _ H) as (c' & A & B & C). exists c'. split; [right; exact A|]. auto.
Qed.

(** * removing flagged edges keeps every cycle that avoids referential nodes *)
Lemma In_remove_edges inb g e : In e (remove_edges inb g) <-> In e g /\ ~ In e inb.
Proof.
  unfold remove_edges. rewrite filter_In. split; intros [A B]; split; try exact A.
  - intros C. apply negb_true_iff in B. assert (existsb (edge_eqb e) inb = true); [|congruence].
    apply existsb_exists. exists e. split; [exact C|]. unfold edge_eqb. rewrite !N.eqb_refl. reflexivity.
  - apply negb_true_iff. destruct (existsb (edge_eqb e) inb) eqn:E; [|reflexivity]. exfalso. apply B.
    apply existsb_exists in E. destruct E as [x [Hx Hex]]. unfold edge_eqb in Hex.
    apply andb_true_iff in Hex. destruct Hex as [H1 H2]. apply N.eqb_eq in H1. apply N.eqb_eq in H2.
    destruct e, x; cbn in *; subst. exact Hx.
Qed.

Lemma bad_cycle_kept g inb :
  (forall e, In e inb -> referential (snd e) = true) -> bad_cycle g -> bad_cycle (remove_edges inb g).
Proof.
  intros Hinb [n W]. exists n. eapply walkP_incl; [|exact W].
  intros x y Hxy Hy. apply In_remove_edges. split; [exact Hxy|].
  intros C. specialize (Hinb _ C). cbn in Hinb. unfold nonref in Hy. congruence.
Qed.

Lemma bad_cycle_sub g g' : (forall e, In e g' -> In e g) -> bad_cycle g' -> bad_cycle g.
Proof. intros H [n W]. exists n. eapply walkP_incl; [|exact W]. intros x y Hxy _. apply H, Hxy. Qed.

Lemma filter_len_le {A} (f : A -> bool) l : length (filter f l) <= length l.
Proof. induction l as [|x l IH]; cbn [filter length]; [lia|]. destruct (f x); cbn [length]; lia. Qed.

Lemma remove_edges_length inb g e : In e inb -> In e g -> length (remove_edges inb g) < length g.
Proof.
  intros Hi Hg. unfold remove_edges. induction g as [|x g IH]; [destruct Hg|].
  cbn [filter length]. destruct Hg as [->|Hg].
  - assert (E : existsb (edge_eqb e) inb = true).
    { apply existsb_exists. exists e. split; [exact Hi|]. unfold edge_eqb. rewrite !N.eqb_refl. reflexivity. }
    rewrite E. cbn [negb]. pose proof (filter_len_le (fun e0 => negb (existsb (edge_eqb e0) inb)) g). lia.
  - specialize (IH Hg). destruct (negb (existsb (edge_eqb x) inb)); cbn [length]; lia.
Qed.

(** * main theorem *)
Theorem cycles_check_spec : forall fuel ns g marks,
  length g < fuel ->
  match cycles_check fuel ns g marks with
  | COk _ => ~ bad_cycle g
  | CErr _ => bad_cycle g
  | CFuel => False
  end.
Proof.
  induction fuel as [|fuel IH]; intros ns g marks Hlen; [lia|].
  cbn [Cycles.cycles_check].
  destruct (Hscc ns g) as (Hne & Hin & Hon).
  destruct (round g (scc ns g) [] marks) as [[inb marks']|n] eqn:Hr.
  - destruct (round_ok g (scc ns g) [] marks inb marks' Hr) as (A & B & C); [intros e []|].
    destruct inb as [|e0 rest].
    + (* no component is non-trivial: the graph has no cycle at all *)
      intros [n W]. destruct (Hon n (walkP_walk _ _ _ _ W)) as (c & Hc & Ht & _).
      rewrite (C eq_refl c Hc) in Ht. discriminate.
    + assert (Hsub : forall e, In e (remove_edges (e0 :: rest) g) -> In e g) by (intros e He; apply In_remove_edges in He; apply He).
      assert (Hlt : length (remove_edges (e0 :: rest) g) < fuel).
      { destruct (A e0 (or_introl eq_refl)) as [Hg _].
        pose proof (remove_edges_length (e0 :: rest) g e0 (or_introl eq_refl) Hg). lia. }
      specialize (IH ns (remove_edges (e0 :: rest) g) marks' Hlt).
      destruct (cycles_check fuel ns (remove_edges (e0 :: rest) g) marks').
      * intros Hb. apply IH. apply bad_cycle_kept; [|exact Hb]. intros e He. apply (A e He).
      * eapply bad_cycle_sub; eassumption.
      * exact IH.
  - destruct (round_err _ _ _ _ _ Hr) as (c & Hc & Ht & Hnoref).
    (* no node of c is referential: a referential node on a cycle has an incoming edge *)
    assert (Hall : forall x, In x c -> referential x = false).
    { intros x Hx. destruct (referential x) eqn:E; [|reflexivity]. exfalso.
      pose proof (Hin c x Hc Ht Hx) as W.
      assert (Hlast : forall a b, walkP (fun y => In y c) g a b -> exists z, In (z, b) g).
      { clear. intros a b W. induction W as [a b H _|a b c0 _ _ _ IH]; [exists a; exact H|exact IH]. }
      destruct (Hlast _ _ W) as [z Hz].
      assert (Hi : In (z, x) (incoming g x)) by (apply In_incoming; auto).
      rewrite (Hnoref x Hx E) in Hi. destruct Hi. }
    destruct c as [|x c']; [exfalso; apply (Hne _ Hc); reflexivity|].
    exists x. eapply walkP_weaken; [|apply (Hin _ x Hc Ht); left; reflexivity].
    intros y Hy. apply Hall, Hy.
Qed.

Corollary cycles_check_terminates ns g : cycles_check (S (length g)) ns g [] <> CFuel.
Proof. pose proof (cycles_check_spec (S (length g)) ns g [] ltac:(lia)) as H. destruct (cycles_check _ _ _ _); congruence || exact (fun E => match H with end) || discriminate. Qed.

Corollary accepted_iff_every_cycle_cut ns g :
  (exists m, cycles_check (S (length g)) ns g [] = COk m) <-> ~ bad_cycle g.
Proof.
  pose proof (cycles_check_spec (S (length g)) ns g [] ltac:(lia)) as H.
  destruct (cycles_check (S (length g)) ns g []) eqn:E.
  - split; [intros _; exact H|intros _; eauto].
  - split; [intros [m Hm]; discriminate|intros Hn; contradiction].
  - destruct H.
Qed.

(** * the flagged declarations cut every cycle *)
Lemma round_marks g comps : forall inb marks inb' marks',
  round g comps inb marks = inl (inb', marks') ->
  (forall n, In n marks -> In n marks') /\
  (forall c n, In c comps -> trivial g c = false -> In n c -> referential n = true -> In n marks').
Proof.
  induction comps as [|c cs IH]; intros inb marks inb' marks' H; cbn [Cycles.round] in H.
  - inversion H; subst. split; [auto|]. intros c n [].
  - destruct (trivial g c) eqn:Et.
    + destruct (IH _ _ _ _ H) as [A B]. split; [exact A|].
      intros c' n [<-|Hc'] Ht Hn Hr; [congruence|eapply B; eassumption].
    + destruct (inb ++ flat_map (incoming g) (filter referential c)) as [|e0 rest]; [discriminate|].
      destruct (IH _ _ _ _ H) as [A B]. split.
      * intros n Hn. apply A. apply in_or_app. left. exact Hn.
      * intros c' n [<-|Hc'] Ht Hn Hr; [|eapply B; eassumption].
        apply A. apply in_or_app. right. apply filter_In. split; assumption.
Qed.

Lemma walk_sub g g' : (forall e, In e g' -> In e g) -> forall a b, walk g' a b -> walk g a b.
Proof. intros H a b W. induction W; [apply walk_one|eapply walk_cons]; eauto. Qed.

(** every referential declaration that lies on a cycle is flagged, and flags are never withdrawn *)
Theorem marks_cover : forall fuel ns g marks marks',
  cycles_check fuel ns g marks = COk marks' ->
  (forall n, In n marks -> In n marks') /\
  (forall n, walk g n n -> referential n = true -> In n marks').
Proof.
  induction fuel as [|fuel IH]; intros ns g marks marks' H; [discriminate|].
  cbn [Cycles.cycles_check] in H.
  destruct (Hscc ns g) as (_ & _ & Hon).
  destruct (round g (scc ns g) [] marks) as [[inb m1]|n] eqn:Hr; [|discriminate].
  destruct (round_marks _ _ _ _ _ _ Hr) as [A B].
  assert (Hcov : forall n, walk g n n -> referential n = true -> In n m1).
  { intros n W Hn. destruct (Hon n W) as (c & Hc & Ht & Hin). eapply B; eassumption. }
  destruct inb as [|e0 rest].
  - inversion H; subst. split; [exact A|exact Hcov].
  - destruct (IH _ _ _ _ H) as [A' _]. split; [intros n Hn; apply A', A, Hn|]. intros n W Hn. apply A', Hcov; assumption.
Qed.

Lemma walk_trans g a b c : walk g a b -> walk g b c -> walk g a c.
Proof. intros W1 W2. induction W1; [eapply walk_cons|eapply walk_cons]; eauto. Qed.

(** every node on a closed walk lies on a cycle *)
Lemma walkP_on_cycle (Q : N -> Prop) g a c : walkP Q g a c -> (c = a \/ walk g c a) ->
  walkP (fun x => Q x /\ walk g x x) g a c.
Proof.
  intros W. induction W as [a b Hab Hb|a b c Hab Hb W IH]; intros Hclose.
  - apply walkP_one; [exact Hab|]. split; [exact Hb|].
    destruct Hclose as [->|Wc]; [apply walk_one, Hab|eapply walk_trans; [exact Wc|apply walk_one, Hab]].
  - assert (Wbc : walk g b c) by (eapply walkP_walk, W).
    assert (Wca : walk g c b).
    { destruct Hclose as [->|Wc]; [apply walk_one, Hab|eapply walk_trans; [exact Wc|apply walk_one, Hab]]. }
    eapply walkP_cons; [exact Hab| |apply IH; right; exact Wca].
    split; [exact Hb|]. eapply walk_trans; eassumption.
Qed.

Theorem flagged_cut_every_cycle ns g marks' :
  cycles_check (S (length g)) ns g [] = COk marks' ->
  ~ exists n, walkP (fun x => ~ In x marks') g n n.
Proof.
  intros H [n W].
  pose proof (cycles_check_spec (S (length g)) ns g [] ltac:(lia)) as Hs. rewrite H in Hs.
  destruct (marks_cover _ _ _ _ _ H) as [_ Hcov].
  apply Hs. exists n. eapply walkP_weaken; [|apply (walkP_on_cycle _ _ _ _ W); left; reflexivity].
  intros x [Hx Wx]. unfold nonref. destruct (referential x) eqn:E; [|reflexivity]. exfalso. apply Hx, Hcov; assumption.
Qed.

End Proofs.
