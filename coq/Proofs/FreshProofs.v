(** Recursion points of different instantiations get different components (C09): the key of
    the component a [rec] expression creates carries the identifier of the scope on top of the
    evaluation stack, every function application evaluates its body under a scope whose
    identifier is larger than every identifier issued before, and nothing evaluated inside the
    body ever sees an older scope on top. Hence the recursion keys created while the body of an
    application is evaluated are larger than every scope identifier in use and every recursion
    key present when the body starts: the [rec] expressions of two applications of one function
    never share a key, and neither do those of an application and of its caller. *)
From Oal Require Import Eval ClosureProofs.
From Coq Require Import Lia.
Local Open Scope N_scope.

Definition rkeys (s : st) : list rkey := map fst (refs s).

(** every scope identifier on the stack and in a recursion key has been issued: it is at most [seq] *)
Definition bounded (s : st) : Prop :=
  (forall id sc, In (id, sc) (scopes s) -> id <= seq s) /\
  (forall m i k, In (KRec m i k) (rkeys s) -> k <= seq s).

(** what an evaluation may do to the state: the stack is restored, identifiers are only issued,
    keys are only added, and a new recursion key carries an identifier between the one on top
    of the stack at the start and the last one issued *)
Definition step_ok (s s' : st) : Prop :=
  scopes s' = scopes s /\ seq s <= seq s' /\
  (forall k, In k (rkeys s) -> In k (rkeys s')) /\
  (forall m i k, In (KRec m i k) (rkeys s') -> In (KRec m i k) (rkeys s) \/ (top_scope_id s <= k /\ k <= seq s')) /\
  (NoDup (rkeys s) -> NoDup (rkeys s')).

Lemma step_refl s : step_ok s s.
Proof. repeat split; try lia; auto. Qed.

Lemma top_eq s s' : scopes s' = scopes s -> top_scope_id s' = top_scope_id s.
Proof. unfold top_scope_id. intros ->. reflexivity. Qed.

Lemma step_trans s s1 s2 : step_ok s s1 -> step_ok s1 s2 -> step_ok s s2.
Proof.
  intros (Hs & Hq & Hk & Hn & Hd) (Hs' & Hq' & Hk' & Hn' & Hd'). repeat split.
  - congruence.
  - lia.
  - auto.
  - intros m i k H. destruct (Hn' m i k H) as [H1|[H1 H2]].
    + destruct (Hn m i k H1) as [H0|[H0 H0']]; [left; exact H0|right; lia].
    + right. rewrite (top_eq s s1 Hs) in H1. lia.
  - auto.
Qed.

Lemma top_bounded s : bounded s -> top_scope_id s <= seq s.
Proof.
  intros [Hb _]. unfold top_scope_id. destruct (scopes s) as [|[id sc] ss] eqn:E; [lia|]. apply (Hb id sc). left. reflexivity.
Qed.

Lemma step_bounded s s' : bounded s -> step_ok s s' -> bounded s'.
Proof.
  intros [Hb Hr] (Hs & Hq & Hk & Hn & _). split.
  - intros id sc H. rewrite Hs in H. specialize (Hb id sc H). lia.
  - intros m i k H. destruct (Hn m i k H) as [H0|[_ H0]]; [specialize (Hr m i k H0); lia|exact H0].
Qed.

(** inserting in the reference table *)
Lemma rinsert_keys k v r x : In x (map fst (rinsert k v r)) <-> x = k \/ In x (map fst r).
Proof.
  unfold rinsert. induction r as [|[k' v'] r IH]; cbn [im_insert map fst].
  - cbn. intuition.
  - destruct (rkey_eqb k k') eqn:E; cbn [map fst].
    + apply rkey_eqb_eq in E. subst k'. cbn. intuition.
    + cbn. rewrite IH. intuition.
Qed.

Lemma rinsert_nodup k v r : NoDup (map fst r) -> NoDup (map fst (rinsert k v r)).
Proof.
  unfold rinsert. induction r as [|[k' v'] r IH]; intros H; cbn [im_insert map fst]; [constructor; [intros []|constructor]|].
  inversion H as [|? ? Hk Hr]; subst. destruct (rkey_eqb k k') eqn:E; cbn [map fst]; [exact H|].
  constructor; [|apply IH, Hr]. intros Hin. apply (rinsert_keys k v r k') in Hin as [->|Hin]; [|exact (Hk Hin)].
  assert (rkey_eqb k k = true) by (destruct k; cbn [rkey_eqb]; rewrite ?N.eqb_refl; reflexivity). congruence.
Qed.

Lemma set_refs_step s k v (Hk : forall m i sc, k = KRec m i sc -> In k (rkeys s) \/ (top_scope_id s <= sc /\ sc <= seq s)) :
  step_ok s (set_refs s (rinsert k v (refs s))).
Proof.
  unfold step_ok, rkeys, set_refs. cbn [scopes seq refs]. repeat split; try lia.
  - intros x H. apply rinsert_keys. right. exact H.
  - intros m i sc H. apply rinsert_keys in H as [H|H]; [|left; exact H]. symmetry in H. destruct (Hk m i sc H) as [H0|H0]; [left; rewrite <- H; exact H0|right; exact H0].
  - apply rinsert_nodup.
Qed.

Lemma bind_ok {A B} (r : res A) (k : A -> res B) y : bind r k = Ok y -> exists a, r = Ok a /\ k a = Ok y.
Proof. destruct r; cbn [bind]; try discriminate. intros H. eexists. split; [reflexivity|exact H]. Qed.

Section Pres.
  Context {X B : Type}.
  Variable f : st -> X -> res (st * B).
  Hypothesis Hf : forall s x s1 b, bounded s -> f s x = Ok (s1, b) -> step_ok s s1.

  Lemma map_st_pres l : forall s s' bs, bounded s -> map_st f s l = Ok (s', bs) -> step_ok s s'.
  Proof.
    induction l as [|x l IH]; intros s s' bs Hb H; cbn [map_st] in H; [injection H as <- _; apply step_refl|].
    apply bind_ok in H as ([s1 b] & H1 & H). apply bind_ok in H as ([s2 bs'] & H2 & H). injection H as <- _.
    pose proof (Hf _ _ _ _ Hb H1) as S1. eapply step_trans; [exact S1|]. eapply IH; [eapply step_bounded; eassumption|exact H2].
  Qed.

  Lemma opt_st_pres o s s' b : bounded s -> opt_st f s o = Ok (s', b) -> step_ok s s'.
  Proof.
    destruct o as [x|]; cbn [opt_st]; intros Hb H; [|injection H as <- _; apply step_refl].
    apply bind_ok in H as ([s1 b1] & H1 & H). injection H as <- _. eapply Hf; eassumption.
  Qed.
End Pres.

Section ArgsPres.
  Variable ev : st -> expr -> res (st * aval).
  Hypothesis Hev : forall s e s1 v, bounded s -> ev s e = Ok (s1, v) -> step_ok s s1.

  Lemma bind_args_pres args : forall s ps sc s' sc', bounded s -> bind_args ev s ps args sc = Ok (s', sc') -> step_ok s s'.
  Proof.
    induction args as [|a args IH]; intros s ps sc s' sc' Hb H; [destruct ps; injection H as <- _; apply step_refl|].
    destruct ps as [|p ps]; [injection H as <- _; apply step_refl|]. cbn [bind_args] in H.
    apply bind_ok in H as ([s1 v] & H1 & H). pose proof (Hev _ _ _ _ Hb H1) as S1.
    eapply step_trans; [exact S1|]. eapply IH; [eapply step_bounded; eassumption|exact H].
  Qed.

  Lemma eval_metas_pres ms : forall s acc s' acc', bounded s -> eval_metas ev s ms acc = Ok (s', acc') -> step_ok s s'.
  Proof.
    induction ms as [|[k rhs] ms IH]; intros s acc s' acc' Hb H; cbn [eval_metas] in H; [injection H as <- _; apply step_refl|].
    apply bind_ok in H as ([s1 v] & H1 & H). pose proof (Hev _ _ _ _ Hb H1) as S1. destruct acc as [[status media] headers].
    eapply step_trans; [exact S1|]. pose proof (step_bounded _ _ Hb S1) as Hb1.
    destruct k as [|[p|p|]]; apply bind_ok in H as (x & _ & H); eapply IH; eassumption.
  Qed.

  Lemma step_pres {B} (c : aval -> res B) s e s1 b : bounded s ->
    (do (s', v) <- ev s e; do x <- c v; Ok (s', x)) = Ok (s1, b) -> step_ok s s1.
  Proof.
    intros Hb H. apply bind_ok in H as ([s' v] & H1 & H). apply bind_ok in H as (x & _ & H). injection H as <- _.
    eapply Hev; eassumption.
  Qed.
End ArgsPres.

Lemma top_push s sc : top_scope_id (push_scope s sc) = seq s + 1.
Proof. reflexivity. Qed.

Lemma push_bounded s sc : bounded s -> bounded (push_scope s sc).
Proof.
  intros [Hb Hr]. split; cbn [push_scope scopes seq refs rkeys].
  - intros id sc' [E|H]; [injection E as <- _; lia|specialize (Hb id sc' H); lia].
  - intros m i k H. specialize (Hr m i k H). lia.
Qed.

Section Main.
  Variable lx : bool.
  Variable P : prog.

  Ltac mapst Hb H1 :=
    eapply map_st_pres; [|exact Hb|exact H1]; cbv beta;
    let s0 := fresh "s0" in let x := fresh "x" in let s2 := fresh "s2" in let b := fresh "b" in let Hb0 := fresh "Hb0" in let Hx := fresh "Hx" in
    intros s0 x s2 b Hb0 Hx;
    match goal with IH0 : forall s e s1 v, bounded s -> eval _ _ ?n s e [] = Ok (s1, v) -> step_ok s s1 |- _ =>
      eapply (step_pres (fun s e => eval _ _ n s e []) IH0); [exact Hb0|exact Hx] end.
  Ltac optst Hb H1 :=
    eapply opt_st_pres; [|exact Hb|exact H1]; cbv beta;
    let s0 := fresh "s0" in let x := fresh "x" in let s2 := fresh "s2" in let b := fresh "b" in let Hb0 := fresh "Hb0" in let Hx := fresh "Hx" in
    intros s0 x s2 b Hb0 Hx;
    match goal with IH0 : forall s e s1 v, bounded s -> eval _ _ ?n s e [] = Ok (s1, v) -> step_ok s s1 |- _ =>
      eapply (step_pres (fun s e => eval _ _ n s e []) IH0); [exact Hb0|exact Hx] end.

  Theorem eval_step_ok : forall n s e a s' v, bounded s -> eval lx P n s e a = Ok (s', v) -> step_ok s s'.
  Proof.
    induction n as [|n IH]; intros s e a s' v Hb H; [discriminate|].
    assert (IH0 : forall s e s1 v, bounded s -> eval lx P n s e [] = Ok (s1, v) -> step_ok s s1) by (intros; eapply IH; eassumption).
    destruct e; cbn [eval] in H.
    - (* ETerm *) apply bind_ok in H as (x & _ & H). eapply IH; eassumption.
    - eapply IH; eassumption.
    - apply bind_ok in H as (x & _ & H). injection H as <- _. apply step_refl.
    - injection H as <- _. apply step_refl.
    - injection H as <- _. apply step_refl.
    - injection H as <- _. apply step_refl.
    - (* EDecl *)
      destruct (get_decl P m i) as [d|]; [|discriminate]. destruct (d_params d); [|injection H as <- _; apply step_refl].
      apply bind_ok in H as (da & _ & H).
      destruct ((match d_ref d with Some _ => true | None => false end) || d_rec d); [|eapply IH; eassumption].
      set (key := match d_ref d with Some x => KNamed x | None => KDecl m i end) in *.
      assert (Hnr : forall m0 i0 sc0, key <> KRec m0 i0 sc0) by (intros; unfold key; destruct (d_ref d); discriminate).
      destruct (rget key (refs s)) as [[v0|]|]; try (injection H as <- _; apply step_refl).
      apply bind_ok in H as ([s2 v2] & H2 & H). injection H as <- _.
      assert (S1 : step_ok s (set_refs s (rinsert key None (refs s)))).
      { apply set_refs_step. intros m0 i0 sc0 E. destruct (Hnr m0 i0 sc0 E). }
      pose proof (step_bounded _ _ Hb S1) as Hb1. pose proof (IH _ _ _ _ _ Hb1 H2) as S2.
      eapply step_trans; [exact S1|]. eapply step_trans; [exact S2|].
      apply set_refs_step. intros m0 i0 sc0 E. destruct (Hnr m0 i0 sc0 E).
    - injection H as <- _. apply step_refl.
    - destruct (lookup_binding x (scopes s)) as [[v0 prev]|]; [|discriminate]. injection H as <- _. apply step_refl.
    - (* EApp *)
      apply bind_ok in H as ([s1 fv] & H1 & H). pose proof (IH _ _ _ _ _ Hb H1) as S1. pose proof (step_bounded _ _ Hb S1) as Hb1.
      eapply step_trans; [exact S1|]. apply bind_ok in H as (lam & _ & H).
      assert (Hconcat : forall r, (do (s2, vs) <- map_st (fun s e => eval lx P n s e []) s1 args; r s2 vs) = Ok (s', v) ->
                                  (forall s2 vs, r s2 vs = Ok (s', v) -> s2 = s') -> step_ok s1 s').
      { intros r Hr Hs2. apply bind_ok in Hr as ([s2 vs] & Hm & Hr). rewrite <- (Hs2 s2 vs Hr).
        eapply (map_st_pres (fun s e => eval lx P n s e []) IH0); eassumption. }
      assert (Hc : forall s2 (vs : list aval),
                 match vs with
                 | [l; r] => do ru <- cast_uri (fst r); do lu <- cast_uri (fst l); do u <- uri_append lu ru; Ok (s2, (VUri u, a))
                 | _ => Panic P_concat_arity
                 end = Ok (s', v) -> s2 = s').
      { intros s2 vs Hv. destruct vs as [|l [|r [|x vs]]]; try discriminate Hv.
        apply bind_ok in Hv as (ru & _ & Hv). apply bind_ok in Hv as (lu & _ & Hv). apply bind_ok in Hv as (u & _ & Hv).
        injection Hv as <- _. reflexivity. }
      destruct lam; try (eapply Hconcat; [exact H|exact Hc]).
      destruct (get_decl P m i) as [d|]; [|discriminate].
      apply bind_ok in H as ([s2 sc] & H2 & H).
      pose proof (bind_args_pres (fun s e => eval lx P n s e []) IH0 _ _ _ _ _ _ Hb1 H2) as S2. pose proof (step_bounded _ _ Hb1 S2) as Hb2.
      eapply step_trans; [exact S2|]. apply bind_ok in H as (da & _ & H).
      assert (Hbody : forall sp s3 r, bounded sp -> seq sp = seq s2 + 1 -> top_scope_id sp = seq s2 + 1 -> refs sp = refs s2 ->
                 eval lx P n sp (d_rhs d) (extend da a) = Ok (s3, r) ->
                 forall sf, scopes sf = scopes s2 -> seq sf = seq s3 -> refs sf = refs s3 -> step_ok s2 sf).
      { intros sp s3 r Hbp Hqp Htp Hrp Hev sf Hsc Hsq Hrf.
        pose proof (IH _ _ _ _ _ Hbp Hev) as (Hs3 & Hq3 & Hk3 & Hn3 & Hd3).
        unfold step_ok, rkeys in *. rewrite Hsc, Hsq, Hrf. rewrite Hrp in Hk3, Hn3, Hd3. repeat split; try lia.
        - exact Hk3.
        - intros m0 i0 k0 Hin. destruct (Hn3 m0 i0 k0 Hin) as [H0|[H0 H0']]; [left; exact H0|]. right.
          pose proof (top_bounded s2 Hb2). lia.
        - exact Hd3. }
      destruct lx.
      + destruct (Nat.ltb _ _); [discriminate|]. apply bind_ok in H as ([s3 r] & H3 & H). injection H as <- _.
        eapply (Hbody (mk_st (refs s2) [(seq s2 + 1, sc)] (seq s2 + 1)) s3 r); try reflexivity; try exact H3.
        destruct Hb2 as [Hb2 Hr2]. split; cbn [scopes seq refs rkeys].
        * intros id sc' [E|[]]. injection E as <- _. lia.
        * intros m0 i0 k0 Hin. specialize (Hr2 m0 i0 k0 Hin). lia.
      + apply bind_ok in H as ([s3 r] & H3 & H). injection H as <- _.
        pose proof (IH _ _ _ _ _ (push_bounded s2 sc Hb2) H3) as (Hs3 & _).
        eapply (Hbody (push_scope s2 sc) s3 r (push_bounded s2 sc Hb2)); try reflexivity; try exact H3.
        unfold pop_scope. cbn [scopes]. rewrite Hs3. reflexivity.
    - (* ERec *)
      apply bind_ok in H as ([s1 rhs] & H1 & H). injection H as <- _.
      pose proof (IH _ _ _ _ _ (push_bounded s _ Hb) H1) as (Hs1 & Hq1 & Hk1 & Hn1 & Hd1).
      cbn [push_scope scopes seq refs] in *.
      assert (S1 : step_ok s (pop_scope s1)).
      { unfold step_ok, rkeys, pop_scope in *. cbn [scopes seq refs] in *. rewrite Hs1. cbn [tl]. repeat split; try lia.
        - exact Hk1.
        - intros m0 i0 k0 Hin. destruct (Hn1 m0 i0 k0 Hin) as [H0|[H0 H0']]; [left; exact H0|]. right.
          rewrite top_push in H0. pose proof (top_bounded s Hb). lia.
        - exact Hd1. }
      eapply step_trans; [exact S1|]. apply (set_refs_step (pop_scope s1) (KRec m i (top_scope_id s)) (Some rhs)). intros m0 i0 sc0 E. injection E as <- <- <-. right.
      destruct S1 as (Hsp & Hqp & _). rewrite (top_eq s (pop_scope s1) Hsp). pose proof (top_bounded s Hb). lia.
    - (* EObj *)
      apply bind_ok in H as ([s1 props] & H1 & H). injection H as <- _.
      mapst Hb H1.
    - apply bind_ok in H as ([s1 v1] & H1 & H). apply bind_ok in H as (sc & _ & H). injection H as <- _. eapply IH0; eassumption.
    - apply bind_ok in H as ([s1 v1] & H1 & H). apply bind_ok in H as (sc & _ & H). injection H as <- _. eapply IH0; eassumption.
    - apply bind_ok in H as ([s1 v1] & H1 & H). apply bind_ok in H as (sc & _ & H). injection H as <- _. eapply IH0; eassumption.
    - (* EOp *)
      destruct (N.eqb op 3).
      + apply bind_ok in H as ([s1 rs] & H1 & H). injection H as <- _.
        mapst Hb H1.
      + destruct (vop_of op); [|discriminate]. apply bind_ok in H as ([s1 rs] & H1 & H). injection H as <- _.
        mapst Hb H1.
    - (* ECont *)
      apply bind_ok in H as ([s1 schema] & H1 & H).
      assert (S1 : step_ok s s1) by optst Hb H1.
      eapply step_trans; [exact S1|]. apply bind_ok in H as ([s2 [[status media] headers]] & H2 & H). injection H as <- _.
      eapply (eval_metas_pres (fun s e => eval lx P n s e []) IH0); [eapply step_bounded; eassumption|exact H2].
    - (* EXfer *)
      apply bind_ok in H as ([s1 dom] & H1 & H).
      assert (S1 : step_ok s s1) by optst Hb H1.
      pose proof (step_bounded _ _ Hb S1) as Hb1. eapply step_trans; [exact S1|].
      apply bind_ok in H as ([s2 rv] & H2 & H). pose proof (IH0 _ _ _ _ Hb1 H2) as S2. pose proof (step_bounded _ _ Hb1 S2) as Hb2.
      eapply step_trans; [exact S2|]. apply bind_ok in H as (rg & _ & H). apply bind_ok in H as ([s3 prm] & H3 & H). injection H as <- _.
      optst Hb2 H3.
    - (* EUri *)
      apply bind_ok in H as ([s1 path] & H1 & H).
      assert (S1 : step_ok s s1).
      { eapply (map_st_pres (fun s (sg : str + expr) =>
                   match sg with
                   | inl x => Ok (s, ULit x)
                   | inr v => do (s', pv) <- eval lx P n s v []; do p <- cast_property (fst pv); Ok (s', UVar p)
                   end)); [|exact Hb|exact H1].
        intros s0 [x|v0] s2 b Hb0 Hx; [injection Hx as <- _; apply step_refl|].
        apply bind_ok in Hx as ([sx pv] & Hev & Hx). apply bind_ok in Hx as (p & _ & Hx). injection Hx as <- _.
        eapply IH0; eassumption. }
      eapply step_trans; [exact S1|]. apply bind_ok in H as ([s2 prm] & H2 & H). injection H as <- _.
      pose proof (step_bounded _ _ Hb S1) as Hb1. optst Hb1 H2.
    - (* ERel *)
      apply bind_ok in H as ([s1 uv] & H1 & H). pose proof (IH0 _ _ _ _ Hb H1) as S1. eapply step_trans; [exact S1|].
      apply bind_ok in H as (ur & _ & H). apply bind_ok in H as ([s2 ts] & H2 & H). injection H as <- _.
      pose proof (step_bounded _ _ Hb S1) as Hb1. mapst Hb1 H2.
  Qed.
End Main.


(** * what it means for instantiations *)
Lemma bounded_st0 : bounded st0.
Proof. split; intros; contradiction. Qed.

(** the body of an application, evaluated under its fresh scope: every recursion key it adds is
    larger than every scope identifier and every recursion key that existed when it started *)
Theorem body_keys_fresh lx P n s2 sc body a s3 r :
  bounded s2 -> eval lx P n (push_scope s2 sc) body a = Ok (s3, r) ->
  forall m i k, In (KRec m i k) (rkeys s3) -> ~ In (KRec m i k) (rkeys s2) ->
  seq s2 < k /\
  (forall id sc', In (id, sc') (scopes s2) -> id < k) /\
  (forall m' i' k', In (KRec m' i' k') (rkeys s2) -> k' < k).
Proof.
  intros Hb H m i k Hin Hnew.
  destruct (eval_step_ok lx P n _ _ _ _ _ (push_bounded s2 sc Hb) H) as (_ & _ & _ & Hn & _).
  destruct (Hn m i k Hin) as [H0|[H0 _]]; [contradiction|]. rewrite top_push in H0.
  destruct Hb as [Hb Hr]. split; [lia|]. split.
  - intros id sc' Hi. specialize (Hb id sc' Hi). lia.
  - intros m' i' k' Hi. specialize (Hr m' i' k' Hi). lia.
Qed.

(** the same for the lexical reference semantics, whose body sees its own scope only *)
Theorem body_keys_fresh_lexical lx P n s2 sc body a s3 r :
  bounded s2 -> eval lx P n (mk_st (refs s2) [(seq s2 + 1, sc)] (seq s2 + 1)) body a = Ok (s3, r) ->
  forall m i k, In (KRec m i k) (rkeys s3) -> ~ In (KRec m i k) (rkeys s2) ->
  seq s2 < k /\ (forall m' i' k', In (KRec m' i' k') (rkeys s2) -> k' < k).
Proof.
  intros [Hb Hr] H m i k Hin Hnew.
  assert (Hbp : bounded (mk_st (refs s2) [(seq s2 + 1, sc)] (seq s2 + 1))).
  { split; cbn [scopes seq refs rkeys].
    - intros id sc' [E|[]]. injection E as <- _. lia.
    - intros m0 i0 k0 Hi. specialize (Hr m0 i0 k0 Hi). lia. }
  destruct (eval_step_ok lx P n _ _ _ _ _ Hbp H) as (_ & _ & _ & Hn & _).
  destruct (Hn m i k Hin) as [H0|[H0 _]]; [contradiction|]. unfold top_scope_id in H0. cbn [scopes] in H0.
  split; [lia|]. intros m' i' k' Hi. specialize (Hr m' i' k' Hi). lia.
Qed.

(** a component is emitted once: the keys of the reference table of a program are pairwise distinct *)
Lemma refs_table_keys r : forall t, refs_table r = Ok t ->
  (forall k, In k (map fst t) -> In k (map fst r)) /\ (NoDup (map fst r) -> NoDup (map fst t)).
Proof.
  induction r as [|[k [v|]] r IH]; intros t H; cbn [refs_table] in H.
  - injection H as <-. split; [auto|intros _; constructor].
  - apply bind_ok in H as (sc & _ & H). apply bind_ok in H as (t' & Ht & H). injection H as <-.
    destruct (IH t' Ht) as [Hk Hd]. cbn [map fst]. split.
    + intros x [<-|Hx]; [left; reflexivity|right; apply Hk, Hx].
    + intros Hn. inversion Hn as [|? ? Hnk Hnr]; subst. constructor; [|apply Hd, Hnr]. intros Hin. apply Hnk, Hk, Hin.
  - destruct (IH t H) as [Hk Hd]. cbn [map fst]. split.
    + intros x Hx. right. apply Hk, Hx.
    + intros Hn. inversion Hn; subst. apply Hd. assumption.
Qed.

Theorem program_components_distinct lx P n rs rels table :
  eval_program lx P n rs = Ok (rels, table) -> NoDup (map fst table).
Proof.
  unfold eval_program. intros H. apply bind_ok in H as ([s1 rels'] & H1 & H). apply bind_ok in H as (t & Ht & H). injection H as _ <-.
  assert (S1 : step_ok st0 s1).
  { eapply (map_st_pres (fun s r => do (s', v) <- eval lx P n s r []; do rel <- cast_relation (fst v); Ok (s', rel))); [|exact bounded_st0|exact H1].
    intros s0 x s2 b Hb0 Hx. apply bind_ok in Hx as ([sx v] & Hev & Hx). apply bind_ok in Hx as (rel & _ & Hx). injection Hx as <- _.
    eapply eval_step_ok; eassumption. }
  destruct S1 as (_ & _ & _ & _ & Hd). apply (refs_table_keys (refs s1) t Ht). apply Hd. constructor.
Qed.

(** non-vacuity: [let f x = rec r { 'v x, 'n [r] }; res /a on get -> <{ 'p (f num), 'q (f str) }>;]
    two applications of one function: two components for the one rec node, with different scope identifiers *)
Example ex_inst_P : prog :=
  [[ mk_decl None false [] [7] (ERec 0 9 8 (EObj [EProp 20 None (ETerm [] (EBind 7)); EProp 21 None (EArr (ETerm [] (EBind 8)))])) ]].
Example ex_inst_rs : list expr :=
  [ERel (ETerm [] (EUri [inl 30] None))
        [EXfer [0] None (ECont (Some (EObj [EProp 22 None (EApp (EDecl 0 0) [ETerm [] (EPrim 2)]);
                                            EProp 23 None (EApp (EDecl 0 0) [ETerm [] (EPrim 3)])])) []) None]].
Example ex_two_instantiations :
  exists rels s1 s2, eval_program false ex_inst_P 50 ex_inst_rs = Ok (rels, [(KRec 0 9 1, s1); (KRec 0 9 3, s2)]) /\ s1 <> s2.
Proof. eexists _, _, _. split; [vm_compute; reflexivity|discriminate]. Qed.
