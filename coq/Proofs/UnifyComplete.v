(** Completeness of the unifier: a system that has a solution is never rejected, and the
    substitution the unifier builds is most general with respect to every solution (each
    solution of the system still satisfies it). With soundness and termination: a system is
    accepted exactly when it is solvable ([C07_full]). *)
From Oal Require Import Tag Unify UnifyProofs UnifyTerm.
From Coq Require Import Lia Arith.

(** simultaneous substitution by a valuation of the variables *)
Fixpoint inst (sg : N -> tag) (t : tag) : tag :=
  match t with
  | TVar v => sg v
  | TFunc bs r => TFunc (map (inst sg) bs) (inst sg r)
  | TProperty t' => TProperty (inst sg t')
  | TBase _ => t
  end.

Definition sat (sg : N -> tag) (s : subst) : Prop := forall v u, In (v, u) s -> sg v = inst sg u.

Lemma inst_apply_one sg v u : sg v = inst sg u -> forall t, inst sg (apply_one v u t) = inst sg t.
Proof.
  intros H. induction t as [x|x IH|xs x IHxs IHx|y] using tag_ind'; cbn [apply_one inst].
  - reflexivity.
  - f_equal. exact IH.
  - f_equal; [|exact IHx]. rewrite map_map. apply map_ext_in. intros b Hb. rewrite Forall_forall in IHxs. apply IHxs, Hb.
  - destruct (N.eqb_spec y v) as [->|_]; [symmetry; exact H|reflexivity].
Qed.

Lemma inst_apply sg s : sat sg s -> forall t, inst sg (apply s t) = inst sg t.
Proof.
  induction s as [|[v u] s IH]; intros Hs t; [reflexivity|].
  cbn [apply]. rewrite inst_apply_one by (apply Hs; left; reflexivity).
  apply IH. intros v0 u0 Hin. apply Hs. right. exact Hin.
Qed.

Lemma tag_eqb_refl : forall t, tag_eqb t t = true.
Proof.
  induction t as [x|x IH|xs x IHxs IHx|y] using tag_ind'.
  - destruct x; reflexivity.
  - exact IH.
  - rewrite tag_eqb_func, IHx, andb_true_r. induction IHxs as [|p xs Hp _ IH]; [reflexivity|]. cbn [forall2b]. rewrite Hp, IH. reflexivity.
  - cbn. apply N.eqb_refl.
Qed.

Lemma tsize_pos t : 1 <= tsize t.
Proof. destruct t; cbn [tsize]; lia. Qed.

(** a tag that strictly contains a variable is, under any valuation, bigger than the variable's image *)
Lemma occurs_size sg v : forall t, occurs v t = true -> t <> TVar v -> tsize (sg v) < tsize (inst sg t).
Proof.
  assert (Hle : forall t, occurs v t = true -> tsize (sg v) <= tsize (inst sg t)).
  { induction t as [x|x IH|xs x IHxs IHx|y] using tag_ind'; cbn [occurs inst tsize]; intros H.
    - discriminate.
    - specialize (IH H). lia.
    - apply orb_prop in H as [H|H]; [specialize (IHx H); lia|].
      apply existsb_exists in H as (b & Hin & Hb). rewrite Forall_forall in IHxs. specialize (IHxs b Hin Hb).
      pose proof (tsize_in (map (inst sg) xs) (inst sg b) (in_map _ _ _ Hin)). lia.
    - apply N.eqb_eq in H. subst. lia. }
  intros t Ho Hne. destruct t as [x|x|xs x|y]; cbn [occurs inst tsize] in *.
  - discriminate.
  - specialize (Hle x Ho). lia.
  - apply orb_prop in Ho as [H|H]; [specialize (Hle x H); lia|].
    apply existsb_exists in H as (b & Hin & Hb). specialize (Hle b Hb).
    pose proof (tsize_in (map (inst sg) xs) (inst sg b) (in_map _ _ _ Hin)). lia.
  - apply N.eqb_eq in Ho. subst. contradiction.
Qed.

Definition good (sg : N -> tag) (res : ures) : Prop :=
  match res with UErr _ => False | UOk s' => sat sg s' | UFuel => True end.

Lemma go_args_complete sg n :
  (forall s l r, TRI s -> sat sg s -> inst sg l = inst sg r -> good sg (unify n s l r)) ->
  forall ls rs s, TRI s -> sat sg s -> map (inst sg) ls = map (inst sg) rs -> good sg (go_args n s ls rs).
Proof.
  intros Hu. induction ls as [|a ls IH]; intros [|b rs] s T Hs Hm; cbn [go_args good]; try exact Hs; try discriminate Hm.
  cbn [map] in Hm. injection Hm as Hab Hrest.
  pose proof (Hu s a b T Hs Hab) as G. destruct (unify n s a b) as [s'|e|] eqn:E; cbn [good] in *; [|contradiction|exact I].
  apply IH; [destruct (unify_sound n s a b s' T E) as [T' _]; exact T'|exact G|exact Hrest].
Qed.

Theorem unify_complete sg : forall n s l r,
  TRI s -> sat sg s -> inst sg l = inst sg r -> good sg (unify n s l r).
Proof.
  induction n as [|n IH]; intros s l r Htri Hs Heq; [exact I|].
  rewrite unify_eq.
  destruct (reduce n s l) as [l'|] eqn:El; [|exact I]. destruct (reduce n s r) as [r'|] eqn:Er; [|exact I].
  destruct (reduce_apply s Htri _ _ _ El) as [El1 _]. destruct (reduce_apply s Htri _ _ _ Er) as [Er1 _].
  assert (Heq' : inst sg l' = inst sg r') by (rewrite El1, Er1, !inst_apply by exact Hs; exact Heq).
  clear El1 Er1.
  destruct (tag_eqb l' r') eqn:Eeq; [exact Hs|].
  assert (Hbind : forall v t, sg v = inst sg t -> sat sg ((v, t) :: s)).
  { intros v t Hv v0 u0 [[= <- <-]|Hin]; [exact Hv|apply Hs, Hin]. }
  assert (Hvar : forall v t, inst sg (TVar v) = inst sg t -> tag_eqb (TVar v) t = false -> occurs v t = true -> False).
  { intros v t Hi Hne Ho. assert (t <> TVar v) by (intros ->; rewrite tag_eqb_refl in Hne; discriminate).
    pose proof (occurs_size sg v t Ho H). cbn [inst] in Hi. rewrite Hi in H0. lia. }
  assert (HL : forall v, l' = TVar v -> good sg (if occurs v r' then UErr ERecursive else UOk ((v, r') :: s))).
  { intros v E. subst l'. destruct (occurs v r') eqn:Eo; cbn [good]; [exact (Hvar v r' Heq' Eeq Eo)|apply Hbind; exact Heq']. }
  assert (HR : forall v, r' = TVar v -> (forall w, l' <> TVar w) -> good sg (if occurs v l' then UErr ERecursive else UOk ((v, l') :: s))).
  { intros v E Hnv. subst r'. destruct (occurs v l') eqn:Eo; cbn [good].
    - apply (Hvar v l' (eq_sym Heq')); [|exact Eo]. destruct (tag_eqb (TVar v) l') eqn:E'; [|reflexivity].
      apply tag_eqb_eq in E'. exfalso. exact (Hnv v (eq_sym E')).
    - apply Hbind. symmetry. exact Heq'. }
  destruct l' as [lb|lp|lbs lr|lv]; [| | |apply (HL lv eq_refl)];
    (destruct r' as [rb|rp|rbs rr|rv]; [| | |apply (HR rv eq_refl); intros w Hw; discriminate Hw]); cbn [inst] in Heq'; cbn [good].
  - (* base / base *) injection Heq' as ->. cbn [tag_eqb] in Eeq. destruct rb; discriminate Eeq.
  - discriminate Heq'.
  - discriminate Heq'.
  - discriminate Heq'.
  - (* property / property *) injection Heq' as Hp. apply IH; assumption.
  - discriminate Heq'.
  - discriminate Heq'.
  - discriminate Heq'.
  - (* function / function *)
    injection Heq' as Hbs Hr.
    assert (Hlen : length lbs = length rbs) by (rewrite <- (map_length (inst sg) lbs), Hbs, map_length; reflexivity).
    rewrite Hlen, Nat.eqb_refl. cbn [negb].
    pose proof (IH s lr rr Htri Hs Hr) as G. destruct (unify n s lr rr) as [s1|e|] eqn:E1; cbn [good] in *; [|contradiction|exact I].
    apply (go_args_complete sg n IH); [destruct (unify_sound n s lr rr s1 Htri E1) as [T _]; exact T|exact G|exact Hbs].
Qed.

Theorem unify_all_complete sg : forall eqs n s i,
  TRI s -> sat sg s -> Forall (fun e => inst sg (fst e) = inst sg (snd e)) eqs ->
  good sg (fst (unify_all n s eqs i)).
Proof.
  unfold unify_all. induction eqs as [|[l r] eqs IH]; intros n s i Htri Hs Hall; cbn [unify_all_gen fst]; [exact Hs|].
  inversion Hall as [|? ? Hh Ht]; subst. cbn [fst snd] in Hh. fold (unify n s l r).
  pose proof (unify_complete sg n s l r Htri Hs Hh) as G.
  destruct (unify n s l r) as [s'|e|] eqn:E; cbn [good fst] in *; [|contradiction|exact I].
  apply IH; [destruct (unify_sound n s l r s' Htri E) as [T _]; exact T|exact G|exact Ht].
Qed.

(** * a triangular substitution is a valuation *)
Definition val_of (th : subst) (v : N) : tag := apply th (TVar v).

Lemma inst_val_of th : forall t, inst (val_of th) t = apply th t.
Proof.
  induction t as [x|x IH|xs x IHxs IHx|y] using tag_ind'; cbn [inst].
  - rewrite apply_base. reflexivity.
  - rewrite apply_property, IH. reflexivity.
  - rewrite apply_func, IHx. f_equal. apply map_ext_in. intros b Hb. rewrite Forall_forall in IHxs. apply IHxs, Hb.
  - reflexivity.
Qed.

(** the full statement of C07: inference terminates, and accepts exactly the solvable systems *)
Theorem inference_decides_solvability :
  (forall eqs, exists N, forall n, N <= n -> fst (unify_all n [] eqs 0) <> UFuel) /\
  (forall eqs, (exists th, solves th eqs /\ TRI th) <-> (exists n s j, unify_all n [] eqs 0 = (UOk s, j))).
Proof.
  split; [intros eqs; apply unify_all_total; exact I|].
  intros eqs. split.
  - intros (th & Hsol & Hth).
    destruct (unify_all_total eqs [] 0%N I) as [N HN]. specialize (HN N (le_n _)).
    pose proof (unify_all_complete (val_of th) eqs N [] 0%N I (fun v u (F : In (v, u) []) => match F with end)) as G.
    assert (Hall : Forall (fun e => inst (val_of th) (fst e) = inst (val_of th) (snd e)) eqs).
    { unfold solves in Hsol. rewrite Forall_forall in *. intros e He. rewrite !inst_val_of. apply Hsol, He. }
    specialize (G Hall). destruct (unify_all N [] eqs 0) as [res j] eqn:E. cbn [fst] in *.
    destruct res as [s|e|]; [exists N, s, j; exact E|contradiction|contradiction].
  - intros (n & s & j & H). destruct (unify_all_sound n eqs [] 0%N s j I H) as (T & _ & S). exists s. split; assumption.
Qed.

(** acceptance does not depend on the order of the equations *)
From Coq Require Import Permutation.
Corollary acceptance_permutation eqs eqs' : Permutation eqs eqs' ->
  (exists n s j, unify_all n [] eqs 0 = (UOk s, j)) -> exists n s j, unify_all n [] eqs' 0 = (UOk s, j).
Proof.
  intros Hp H. destruct inference_decides_solvability as [_ Hiff].
  apply Hiff. apply Hiff in H as (th & Hs & Ht). exists th. split; [|exact Ht].
  unfold solves in *. eapply Permutation_Forall; eassumption.
Qed.

(** the statement kept visible in the property file since the first version *)
Theorem C07_full_holds :
  (forall eqs, exists n, fst (unify_all n [] eqs 0) <> UFuel) /\
  (forall eqs, (exists th, solves th eqs /\ TRI th) <-> (exists n s j, unify_all n [] eqs 0 = (UOk s, j))).
Proof.
  destruct inference_decides_solvability as [H1 H2]. split; [|exact H2].
  intros eqs. destruct (H1 eqs) as [N HN]. exists N. apply HN, le_n.
Qed.
