"""C18 — rename is meaning-preserving and never crashes the server.
Monitor O18 on the real oal-lsp binary: at every identifier occurrence for which prepareRename
answers, rename to a fresh name, apply the edits client-side, check that they are disjoint,
that each replaces exactly the old name, that the edited sources are still accepted and
compile to the same document (for @references: the same document with that component renamed)."""
import json
import os
import re
from . import core, lsp, lspws, progs, canon


def compile_files(files, root):
    mods = {"file://%s/%s" % (root, n): t for n, t in files.items()}
    return progs.compile_many([{"mods": mods, "main": "file://%s/main.oal" % root}])[0]


def rename_component(doc, old, new):
    txt = json.dumps(doc)
    txt = txt.replace('"#/components/schemas/%s"' % old, '"#/components/schemas/%s"' % new)
    d = json.loads(txt)
    sch = (d.get("components") or {}).get("schemas") or {}
    if old in sch:
        sch[new] = sch.pop(old)
    return d


def occurrences(b, texts):
    occ = []
    for loc, info in b.items():
        for n, sp in info["spans"].items():
            occ.append((loc, sp["ident"][0], sp["ident"][1], sp["kind"]))
        for u in info["uses"]:
            occ.append((loc, u["is"], u["ie"], "use"))
            if u.get("qs") is not None:
                occ.append((loc, u["qs"], u["qe"], "qualifier-use"))
    return occ


def feed_back(ctx, srv, texts, changes, opened, main_uri, where):
    """the client applies the workspace edit to its documents and notifies the server (one didChange per document,
    edits bottom-up so that each range is valid when it is applied); the server must see sources it accepts"""
    for uri, edits in changes.items():
        if uri not in opened:
            srv.open(uri, texts[uri])
            opened.add(uri)
        es = sorted(edits, key=lambda e: (e["range"]["start"]["line"], e["range"]["start"]["character"]), reverse=True)
        srv.change(uri, [{"range": e["range"], "text": e["newText"]} for e in es])
    r = srv.pos_request("textDocument/prepareRename", main_uri, 0, 0)
    srv.drain(0.03)
    ctx.cov["evaluations"] += 1
    bad = {u: d for u, d in srv.diags.items() if d}
    alive = srv.alive() and "dead" not in r
    for uri in changes:
        srv.change(uri, [{"text": texts[uri]}], version=3)
    srv.pos_request("textDocument/prepareRename", main_uri, 0, 0)
    srv.drain(0.03)
    if not alive:
        ctx.violation("the server dies when the client applies the rename edits and notifies it", where, "alive", "".join(srv.stderr[-3:])[:300])
        return False
    if bad:
        ctx.violation("after the client applied the rename edits and notified the server, the server reports errors in sources the compiler accepts",
                      where, "no diagnostic", json.dumps(bad)[:400])
        return False
    ctx.count("fed_back")
    return True


def check_workspace(ctx, files, tag):
    root = lspws.fresh_dir("c18_" + tag)
    lsp.write_workspace(root, files)
    base = compile_files(files, root)
    if base.get("status") != "ok":
        ctx.count("workspace_not_accepted")
        return
    b = lspws.bindings(files, root)
    if b is None:
        return
    texts = {"file://%s/%s" % (root, n): t for n, t in files.items()}
    names = {"file://%s/%s" % (root, n): n for n in files}
    srv = lsp.Server(root)
    inp = {"files": files}
    try:
        srv.initialize()
        # a prelude that must leave no trace: a document is opened with an unsaved line on top, the server evaluates, and
        # the document is closed without saving; every answer below is about the files on disk again
        others = sorted(n for n in files if n != "main.oal")
        if others:
            n0 = others[len(files) % len(others)]
            u0 = "file://%s/%s" % (root, n0)
            srv.open(u0, "// unsaved line 😉\n" + files[n0])
            srv.pos_request("textDocument/prepareRename", "file://%s/main.oal" % root, 0, 0)
            srv.drain(0.03)
            srv.close_doc(u0)
        # the folder-level handlers model (coq/Model/Folder.v: f_rename) against the edits of the server
        from . import handlers_tie
        if not handlers_tie.run(ctx, srv, b, texts, inp, kinds=(2, 3), per_module=(60 if ctx.thorough else 30)):
            return
        k = 0
        opened = set()
        for loc, s, e, kind in occurrences(b, texts):
            text = texts[loc]
            for off in sorted(set([s, e - 1])):
                line, col = lspws.pos_of(text, off)
                where = dict(inp, file=names[loc], position=[line, col], kind=kind)
                pr = srv.pos_request("textDocument/prepareRename", loc, line, col)
                ctx.cov["evaluations"] += 1
                if "result" not in pr:
                    ctx.violation("the server does not answer prepareRename (error, exit or timeout)", where, "a result", str(pr)[:300])
                    return
                if not pr["result"]:
                    ctx.count("not_offered_" + kind)
                    continue
                rg = pr["result"]
                a = lspws.off_of(text, rg["start"]["line"], rg["start"]["character"])
                z = lspws.off_of(text, rg["end"]["line"], rg["end"]["character"])
                old = text.encode("utf8")[a:z].decode("utf8", "replace")
                k += 1
                new = ("@Zq%d" % k) if old.startswith("@") else ("zq%d" % k)
                rn = srv.pos_request("textDocument/rename", loc, line, col, {"newName": new})
                ctx.cov["evaluations"] += 1
                if "result" not in rn or not srv.alive():
                    ctx.violation("a rename request offered by prepareRename crashes the server or is not answered", where, "a workspace edit",
                                  (str(rn) + " " + "".join(srv.stderr[-3:]))[:400])
                    return
                changes = (rn["result"] or {}).get("changes") or {}
                edited = dict(texts)
                nedits = 0
                for uri, edits in changes.items():
                    if uri not in texts:
                        ctx.violation("rename edits a document outside the folder", where, list(texts), uri)
                        return
                    newtext, problems, spans = lspws.apply_edits(texts[uri], edits)
                    if problems:
                        ctx.violation("rename returns overlapping edits", where, "non-overlapping", problems)
                        return
                    for (x, y, nt) in spans:
                        was = texts[uri].encode("utf8")[x:y].decode("utf8", "replace")
                        if was != old or nt != new:
                            ctx.violation("a rename edit does not replace exactly one occurrence of the old name", dict(where, old=old), old, was)
                            return
                    nedits += len(spans)
                    edited[uri] = newtext
                if nedits == 0:
                    ctx.count("empty_edit_" + kind)
                    continue
                r2 = progs.compile_many([{"mods": edited, "main": "file://%s/main.oal" % root}])[0]
                if r2.get("status") != "ok":
                    ctx.violation("the sources edited by rename are no longer accepted", dict(where, old=old, new=new, edited={names[u]: t for u, t in edited.items()}),
                                  "accepted", {x: r2.get(x) for x in ("status", "kind", "msg")})
                    return
                want = base["doc"]
                if old.startswith("@"):
                    want = rename_component(want, old[1:], new[1:])
                if canon.canon_doc(want) != canon.canon_doc(r2["doc"]):
                    ctx.violation("rename changes the emitted document", dict(where, old=old, new=new, edited={names[u]: t for u, t in edited.items()}),
                                  "same document", "different document")
                    return
                ctx.count("renamed_" + kind)
                if not feed_back(ctx, srv, texts, changes, opened, "file://%s/main.oal" % root,
                                 dict(where, old=old, new=new, edited={names[u]: t for u, t in edited.items()})):
                    return
        ctx.count("workspaces")
        if len(files) > 1:
            ctx.count("nontrivial")
    finally:
        srv.stop()


def two_folders(ctx):
    """a module shared by the programs of two workspace folders: a rename requested from it edits both programs, each
    occurrence once"""
    root = lspws.fresh_dir("c18_two")
    files = {"orders/oal.toml": '[api]\nmain = "main.oal"\ntarget = "o.yaml"\n', "billing/oal.toml": '[api]\nmain = "main.oal"\ntarget = "b.yaml"\n',
             "orders/main.oal": 'use "../shared/types.oal" as t;\nres /orders on get -> <{ \'total t.money, \'tip t.money }>;\n',
             "billing/main.oal": 'use "../shared/types.oal";\nres /bills on get -> <[money]> :: <status=404, tagged>;\n',
             "shared/types.oal": "// é😉\nlet money = { 'amount num, 'currency str };\nlet tagged = { 'tag str, 'price money };\n"}
    for n, t in files.items():
        os.makedirs(os.path.dirname(os.path.join(root, n)), exist_ok=True)
        with open(os.path.join(root, n), "w") as f:
            f.write(t)
    progs_of = {d: {"file://%s/%s" % (root, n): t for n, t in files.items() if n.endswith(".oal") and (n.startswith(d + "/") or n.startswith("shared/"))}
                for d in ("orders", "billing")}
    base = {d: progs.compile_many([{"mods": m, "main": "file://%s/%s/main.oal" % (root, d)}])[0] for d, m in progs_of.items()}
    if any(b.get("status") != "ok" for b in base.values()):
        ctx.broken.append("the two-folder workspace of the check is not accepted")
        return
    srv = lsp.Server(root)
    try:
        srv.initialize(folders=["orders", "billing"])
        shared = "file://%s/shared/types.oal" % root
        text = files["shared/types.oal"]
        for needle, new in (("money = {", "cash"), ("price money", "coins"), ("tagged =", "labelled")):
            off = len(text[:text.find(needle) + (6 if needle.startswith("price") else 0)].encode("utf8"))
            line, col = lspws.pos_of(text, off)
            where = {"files": files, "file": "shared/types.oal", "position": [line, col], "folders": ["orders", "billing"]}
            rn = srv.pos_request("textDocument/rename", shared, line, col, {"newName": new})
            ctx.cov["evaluations"] += 1
            if "result" not in rn or not srv.alive():
                ctx.violation("a rename requested from a module shared by two workspace folders is not answered", where, "a workspace edit", str(rn)[:300])
                return
            changes = (rn["result"] or {}).get("changes") or {}
            edited = {u: t for m in progs_of.values() for u, t in m.items()}
            for uri, edits in changes.items():
                if uri not in edited:
                    ctx.violation("rename edits a document outside the folders", where, sorted(edited), uri)
                    return
                newtext, problems, spans = lspws.apply_edits(edited[uri], edits)
                if problems:
                    ctx.violation("rename returns overlapping (duplicated) edits for a module shared by two workspace folders", where, "each occurrence once", problems)
                    return
                edited[uri] = newtext
            for d, m in progs_of.items():
                r2 = progs.compile_many([{"mods": {u: edited[u] for u in m}, "main": "file://%s/%s/main.oal" % (root, d)}])[0]
                if r2.get("status") != "ok" or canon.canon_doc(r2["doc"]) != canon.canon_doc(base[d]["doc"]):
                    ctx.violation("after a rename requested from a shared module the program of a folder is rejected or compiles to another document",
                                  dict(where, folder=d, edited={u.rsplit("/", 2)[-2] + "/" + u.rsplit("/", 1)[-1]: t for u, t in edited.items()}), "same document",
                                  str(r2.get("msg") or "different document")[:200])
                    return
            ctx.count("two_folder_renames")
    finally:
        srv.stop()


def check(ctx):
    ctx.proof = core.proof_stage("C18", thorough=ctx.thorough)
    ok, out = core.ensure_harness()
    ok2, out2 = core.ensure_repo_bins()
    if not ok or not ok2:
        ctx.broken.append("build against /repo failed: " + (out + out2)[-600:])
        return core.finish(ctx)
    if ctx.replay:
        v = json.load(open(ctx.replay))
        check_workspace(ctx, v["input"]["files"], "replay")
        return core.finish(ctx)
    corpus = [
        {"main.oal": "let f x = [x];\nlet @ref = { 'a num };\nres /x on get -> <f @ref> :: <status=404, (rec r { 'k [r], 'v @ref })>;\n"},
        {"main.oal": 'use "a.oal" as c;\nuse "b.oal";\nres /m on get -> <{ \'p c.x, \'q y, \'r c.x }>;\n',
         "a.oal": 'use "lib.oal" as c;\nlet x = { \'n c.name };\n', "b.oal": 'use "lib.oal" as c;\nlet y = { \'n c.name };\n',
         "lib.oal": "// 😉\nlet name = str;\n"},
    ]
    two_folders(ctx)
    # an import qualifier that shares its name with a declaration used unqualified: two namespaces
    corpus.append({"main.oal": 'use "defs.oal" as t;\nlet t = t.item;\nlet u = { \'first t, \'rest t.@page };\nres /things on get -> <status=200, u>;\n',
                   "defs.oal": "let item = { 'n num };\nlet @page = { 'items [item] };\n"})
    n = 90 if ctx.thorough else 8
    wss = corpus + [lspws.gen_workspace(ctx.rng) for _ in range(n)]
    for i, files in enumerate(wss):
        check_workspace(ctx, files, str(i))
        if len(ctx.violations) > 3:
            break
        if i < 2:
            ctx.sample({"files": files})
    ctx.cov["distinct_nontrivial"] = ctx.cov["distribution"].get("nontrivial", 0)
    ctx.cov["traces_validated_against_impl"] = ctx.cov["distribution"].get("workspaces", 0)
    ctx.cov["rule"] = ("corpus + generated shadowing-heavy workspaces; against the real oal-lsp: prepareRename at the first and last character of every declaration "
                       "identifier, parameter / rec binding, import qualifier, use identifier and use qualifier; where offered, rename to a fresh name, apply the "
                       "edits with python UTF-16 arithmetic, recompile with the real compiler and compare documents up to implicit names. "
                       "distinct_nontrivial = multi-module accepted workspaces")
    return core.finish(ctx)
