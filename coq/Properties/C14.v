(** Property C14 — a base description is preserved; only paths and schema components
    are replaced. Statements only; proofs in Proofs/MergeProofs.v. Universal in the base
    document, the default base, and the generated paths/schemas.
    The second half of the file states the same on JSON values (Model/BuilderBase.v, the
    builder model run on a base description; tied to Builder::with_base on every run): every
    top-level member other than "paths" and "components" and every member of "components"
    other than "schemas" is carried over unchanged and in order; "paths" and the schema
    components are the generated ones, whatever the base had; without a base the document is
    the one of Model/Builder.v. *)
From Oal Require Import Merge MergeProofs.
From Oal Require Builder BuilderBase BaseClosure RefClosure.

Theorem C14_frame_top : forall db p s b k,
  k <> K_PATHS -> k <> K_COMPONENTS ->
  get k (into_openapi db p s (Some b)) = get k b.
Proof. exact frame_top. Qed.
Print Assumptions C14_frame_top.

Theorem C14_frame_components : forall db p s b k,
  k <> K_SCHEMAS ->
  get k (components_of (into_openapi db p s (Some b))) = get k (components_of b).
Proof. exact frame_components. Qed.
Print Assumptions C14_frame_components.

Theorem C14_paths_from_program : forall db p s b,
  get K_PATHS (into_openapi db p s b) = Some (Opaque p).
Proof. exact paths_from_program. Qed.
Print Assumptions C14_paths_from_program.

Theorem C14_schemas_from_program : forall db p s b,
  get K_SCHEMAS (components_of (into_openapi db p s b)) = s.
Proof. exact schemas_from_program. Qed.
Print Assumptions C14_schemas_from_program.

Theorem C14_base_independent : forall db p s b,
  get K_PATHS (into_openapi db p s (Some b)) = get K_PATHS (into_openapi db p s None) /\
  get K_SCHEMAS (components_of (into_openapi db p s (Some b))) =
  get K_SCHEMAS (components_of (into_openapi db p s None)).
Proof. exact base_independent. Qed.
Print Assumptions C14_base_independent.

Theorem C14_replace_components_breaks_frame : exists b k, k <> K_SCHEMAS /\
  get k (components_of (into_openapi_replace 0 0 b)) <> get k (components_of b).
Proof. exact replace_components_breaks_frame. Qed.
Print Assumptions C14_replace_components_breaks_frame.

(** on JSON values *)
Theorem C14_json_base_members_kept : forall base ps cs,
  BuilderBase.remove_key BuilderKeys.T_paths (BuilderBase.remove_key BuilderKeys.T_components (BuilderBase.with_base base ps cs)) =
  BuilderBase.remove_key BuilderKeys.T_paths (BuilderBase.remove_key BuilderKeys.T_components base).
Proof. exact BaseClosure.base_members_kept. Qed.
Print Assumptions C14_json_base_members_kept.

Theorem C14_json_base_components_kept : forall base ps cs cm,
  Builder.get BuilderKeys.T_components base = Some (Builder.JObj cm) ->
  exists cm', Builder.get BuilderKeys.T_components (BuilderBase.with_base base ps cs) = Some (Builder.JObj cm') /\
              BuilderBase.remove_key BuilderKeys.T_schemas cm' = BuilderBase.remove_key BuilderKeys.T_schemas cm.
Proof. exact BaseClosure.base_components_kept. Qed.
Print Assumptions C14_json_base_components_kept.

Theorem C14_json_paths_from_program : forall base ps cs,
  Builder.get BuilderKeys.T_paths (BuilderBase.with_base base ps cs) = Some ps.
Proof. exact BaseClosure.with_base_paths. Qed.
Print Assumptions C14_json_paths_from_program.

Theorem C14_json_schemas_from_program : forall base ps cs,
  RefClosure.schema_names (Builder.JObj (BuilderBase.with_base base ps cs)) = map fst cs.
Proof. exact BaseClosure.base_schemas_replaced. Qed.
Print Assumptions C14_json_schemas_from_program.

Theorem C14_json_default_base : forall strs table names rels,
  BuilderBase.document_with_base strs table names BuilderBase.default_base rels = Builder.document strs table names rels.
Proof. exact BaseClosure.document_default_base. Qed.
Print Assumptions C14_json_default_base.
