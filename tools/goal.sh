#!/bin/sh
# tools/goal.sh <file.v> <line> : show the proof state after <line> lines of the file
f="$1"; n="$2"; cd /verif/coq
head -"$n" "$f" > /tmp/goal_tmp.v; echo "Show. Abort." >> /tmp/goal_tmp.v
coqc -Q . Oal /tmp/goal_tmp.v 2>&1 | tail -${3:-40}
