(** Proofs about Model/Merge.v (property C14). *)
From Oal Require Import Merge.

Lemma get_set_same {A} k (v : A) m : get k (set k v m) = Some v.
Proof.
  induction m as [|[k' v'] m IH]; cbn [set get].
  - rewrite N.eqb_refl. reflexivity.
  - destruct (N.eqb k k') eqn:E; cbn [get]; rewrite ?N.eqb_refl, ?E; auto.
Qed.

Lemma get_set_other {A} k k' (v : A) m : k <> k' -> get k (set k' v m) = get k m.
Proof.
  intros Hne. induction m as [|[k2 v2] m IH]; cbn [set get].
  - destruct (N.eqb_spec k k'); [contradiction|reflexivity].
  - destruct (N.eqb_spec k' k2) as [->|Hn2]; cbn [get].
    + destruct (N.eqb_spec k k2); [contradiction|reflexivity].
    + destruct (N.eqb k k2); [reflexivity|exact IH].
Qed.

Lemma get_remove_same {A} k (m : list (key * A)) : get k (remove k m) = None.
Proof.
  induction m as [|[k' v'] m IH]; cbn [remove get]; [reflexivity|].
  destruct (N.eqb_spec k k') as [->|Hne]; [exact IH|]. cbn [get].
  destruct (N.eqb_spec k k'); [contradiction|exact IH].
Qed.

Lemma get_remove_other {A} k k' (m : list (key * A)) : k <> k' -> get k (remove k' m) = get k m.
Proof.
  intros Hne. induction m as [|[k2 v2] m IH]; cbn [remove get]; [reflexivity|].
  destruct (N.eqb_spec k' k2) as [->|Hn2].
  - destruct (N.eqb_spec k k2); [contradiction|exact IH].
  - cbn [get]. destruct (N.eqb k k2); [reflexivity|exact IH].
Qed.

(** every top-level member other than paths and components is the base's *)
Theorem frame_top db p s b k :
  k <> K_PATHS -> k <> K_COMPONENTS ->
  get k (into_openapi db p s (Some b)) = get k b.
Proof.
  intros H1 H2. unfold into_openapi. rewrite get_set_other by exact H2. apply get_set_other. exact H1.
Qed.

(** every member of components other than schemas is the base's (an absent
    components object counts as empty) *)
Theorem frame_components db p s b k :
  k <> K_SCHEMAS ->
  get k (components_of (into_openapi db p s (Some b))) = get k (components_of b).
Proof.
  intros H. unfold into_openapi.
  set (def1 := set K_PATHS (Opaque p) b).
  assert (Hc : components_of def1 = components_of b).
  { unfold components_of, def1. rewrite get_set_other by discriminate. reflexivity. }
  unfold components_of at 1. rewrite get_set_same. rewrite Hc.
  destruct s; [apply get_set_other|apply get_remove_other]; exact H.
Qed.

(** paths and schema components come entirely from the program *)
Theorem paths_from_program db p s b :
  get K_PATHS (into_openapi db p s b) = Some (Opaque p).
Proof.
  unfold into_openapi. rewrite get_set_other by discriminate. apply get_set_same.
Qed.

Theorem schemas_from_program db p s b :
  get K_SCHEMAS (components_of (into_openapi db p s b)) = s.
Proof.
  unfold into_openapi, components_of at 1. rewrite get_set_same.
  destruct s; [apply get_set_same|apply get_remove_same].
Qed.

Corollary base_independent db p s b :
  get K_PATHS (into_openapi db p s (Some b)) = get K_PATHS (into_openapi db p s None) /\
  get K_SCHEMAS (components_of (into_openapi db p s (Some b))) =
  get K_SCHEMAS (components_of (into_openapi db p s None)).
Proof. rewrite !paths_from_program, !schemas_from_program. split; reflexivity. Qed.

(** the mutation "replace the whole components object" is not frame-preserving *)
Definition into_openapi_replace (paths : N) (schemas : N) (b : doc) : doc :=
  set K_COMPONENTS (Members [(K_SCHEMAS, schemas)]) (set K_PATHS (Opaque paths) b).

Lemma replace_components_breaks_frame :
  exists b k, k <> K_SCHEMAS /\
    get k (components_of (into_openapi_replace 0 0 b)) <> get k (components_of b).
Proof.
  exists [(K_COMPONENTS, Members [(7%N, 9%N)])], 7%N. split; [discriminate|]. cbn. discriminate.
Qed.
