(** Property C06 — compilation is deterministic. In Gallina every function is
    deterministic, so the content of the property is that the output depends on nothing the
    model leaves open. Oracle.v gives the one iterated hash collection of the compile path
    an explicit iteration-order oracle: on the pinned tree two oracles give two documents
    (F3); after the fix the emitter is oracle free and keeps source order. The universal
    part is thin by nature; the weight is on the tie (unordered-collection inventory of the
    current source + byte comparison across fresh processes, threads and repetitions). *)
From Coq Require Import Permutation.
From Oal Require Import Oracle OracleProofs.

Theorem C06_examples_keep_order : forall ex, map fst (content_examples ex) = map fst ex.
Proof. exact examples_keep_order. Qed.
Print Assumptions C06_examples_keep_order.

Theorem C06_examples_lossless : forall ex, content_examples ex = ex.
Proof. exact examples_lossless. Qed.
Print Assumptions C06_examples_lossless.

Theorem C06_examples_order_pinned_refuted :
  exists (o1 o2 : examples -> examples) ex,
    (forall e, Permutation (o1 e) e) /\ (forall e, Permutation (o2 e) e) /\
    content_examples_pinned o1 ex <> content_examples_pinned o2 ex.
Proof. exact examples_order_pinned_refuted. Qed.
Print Assumptions C06_examples_order_pinned_refuted.

Theorem C06_scope_ids_shift : forall n k, scope_ids n k = map (fun i => (i + k)%N) (scope_ids n 0).
Proof. exact scope_ids_shift. Qed.
Print Assumptions C06_scope_ids_shift.

Theorem C06_static_counter_refuted : exists p1 p2, ids_of_second_run_static p1 p2 <> ids_of_run p2.
Proof. exact scope_ids_static_differs. Qed.
Print Assumptions C06_static_counter_refuted.
