(** Property C08 — identifiers bind lexically and evaluation honours the same binding.

    Proved here, for every syntax tree (any nesting of rec binders, any parameters, any
    global scope): the code's cursor walk with a mutable stack of scopes computes exactly
    the lexical binding relation [lex] (environment passing), leaves the stack balanced and
    fails exactly on a use without a binder; the precedence rec binder > parameter (last
    duplicate wins) > module scope, qualified imports by qualifier; duplicate declarations
    are errors. Refuted on the faithful model: a declaration does not shadow an unqualified
    import / built-in (K8), two unqualified imports make the binding order dependent (K9).
    Second half, on the evaluator model (Model/Eval.v, tied to eval.rs on every run): for
    every program whose trees are lexically closed (what the first half guarantees of
    resolved trees; re-checked on the transcription of the real trees by the tie), the
    code's evaluation -- by-name lookup through the whole dynamic stack of scopes, with any
    caller stack underneath -- computes exactly the result of the lexical reference
    semantics in which a function body sees nothing but its own scope, unless that
    semantics reports an under-applied function; for programs that pass the typing discipline
    (Model/Typing.v, what inference enforces) that case is excluded and the two semantics
    coincide outright ([C08_typed_evaluation_is_lexical]). The tie runs the lexical semantics on
    every accepted program and compares. The hypothesis is needed:
    a witness shows the code reading the caller's binding on an unresolved tree. *)
From Oal Require Import Resolve ResolveProofs.
From Oal Require Eval EvalProofs Typing TermProofs.

Theorem C08_stack_walk_is_lexical : forall t rest en acc,
  run (linearize t ++ rest) en acc =
  match lex en t with inl ds => run rest en (acc ++ ds) | inr e => inr e end.
Proof. exact run_is_lex. Qed.
Print Assumptions C08_stack_walk_is_lexical.

Theorem C08_resolve_decl_is_lexical : forall g d, resolve_decl_run g d = resolve_decl_lex g d.
Proof. exact resolve_decl_is_lexical. Qed.
Print Assumptions C08_resolve_decl_is_lexical.

Theorem C08_rec_binder_innermost : forall en bind b u,
  lex en (RRec bind b (RVar u None b)) = inl [(u, DExt bind)].
Proof. exact rec_binder_innermost. Qed.
Print Assumptions C08_rec_binder_innermost.

Theorem C08_param_shadows_global : forall g bind x ps u,
  sc_get (x, None) (param_scope ps) = Some (DExt bind) ->
  lex [param_scope ps; g] (RVar u None x) = inl [(u, DExt bind)].
Proof. exact param_shadows_global. Qed.
Print Assumptions C08_param_shadows_global.

Theorem C08_last_duplicate_param_wins : forall n1 n2 x,
  sc_get (x, None) (param_scope [(n1, x); (n2, x)]) = Some (DExt n2).
Proof. exact last_duplicate_param_wins. Qed.
Print Assumptions C08_last_duplicate_param_wins.

Theorem C08_global_when_not_local : forall g ps u q x,
  sc_get (x, q) (param_scope ps) = None ->
  lex [param_scope ps; g] (RVar u q x) =
  match sc_get (x, q) g with Some d => inl [(u, d)] | None => inr (NotInScope u) end.
Proof. exact global_when_not_local. Qed.
Print Assumptions C08_global_when_not_local.

Theorem C08_unbound_is_error : forall en u q x,
  lookup (x, q) en = None <-> lex en (RVar u q x) = inr (NotInScope u).
Proof. exact unbound_is_error. Qed.
Print Assumptions C08_unbound_is_error.

Theorem C08_duplicate_decl_is_error : forall s d1 d2 ds,
  d_name d1 = d_name d2 -> sc_get (d_name d1, None) s = None ->
  declare_all s (d1 :: d2 :: ds) = inr (DuplicateDecl (d_node d2)).
Proof. exact duplicate_decl_is_error. Qed.
Print Assumptions C08_duplicate_decl_is_error.

Theorem C08_qualifier_separates : forall s x q d,
  sc_get (x, None) (sc_insert (x, Some q) d s) = sc_get (x, None) s.
Proof. exact qualifier_separates. Qed.
Print Assumptions C08_qualifier_separates.

Theorem C08_decl_import_clash_refuted :
  exists imports d, global_scope imports [d] = inr (DuplicateDecl (d_node d)).
Proof. exact decl_import_clash_refuted. Qed.
Print Assumptions C08_decl_import_clash_refuted.

Theorem C08_import_order_refuted :
  exists i1 i2 x, (exists s, global_scope [i1; i2] [] = inl s /\ exists s', global_scope [i2; i1] [] = inl s' /\
                   sc_get (x, None) s <> sc_get (x, None) s').
Proof. exact import_order_refuted. Qed.
Print Assumptions C08_import_order_refuted.

(** * evaluation honours the same binding *)
Theorem C08_callee_cannot_see_caller : forall P, Eval.closed_prog P -> forall n o s e a xs,
  Eval.closed xs e = true -> EvalProofs.bound xs (Eval.scopes s) -> EvalProofs.inv o (Eval.scopes s) ->
  EvalProofs.sim o (Eval.scopes s) (Eval.eval true P n s e a) (Eval.eval false P n (EvalProofs.app_outer s o) e a).
Proof. exact EvalProofs.eval_lexical. Qed.
Print Assumptions C08_callee_cannot_see_caller.

Theorem C08_evaluation_is_lexical : forall P n rs,
  Eval.closed_prog P -> forallb (Eval.closed []) rs = true ->
  match Eval.eval_program true P n rs with
  | Eval.Panic p => p = Eval.P_arity \/ Eval.eval_program false P n rs = Eval.Panic p
  | r => Eval.eval_program false P n rs = r
  end.
Proof. exact EvalProofs.eval_program_lexical. Qed.
Print Assumptions C08_evaluation_is_lexical.

Theorem C08_closed_check_sound : forall P, Eval.closed_progb P = true -> Eval.closed_prog P.
Proof. exact EvalProofs.closed_progb_sound. Qed.
Print Assumptions C08_closed_check_sound.

Theorem C08_unresolved_tree_is_dynamic_refuted :
  Eval.closed_progb EvalProofs.ex_open = false /\
  Eval.eval_program true EvalProofs.ex_open 50 EvalProofs.ex_rs = Eval.Panic Eval.P_binding /\
  exists r, Eval.eval_program false EvalProofs.ex_open 50 EvalProofs.ex_rs = Eval.Ok r.
Proof. exact EvalProofs.open_tree_is_dynamic. Qed.
Print Assumptions C08_unresolved_tree_is_dynamic_refuted.

Example C08_closed_program_evaluates :
  Eval.closed_progb EvalProofs.ex_P = true /\ forallb (Eval.closed []) EvalProofs.ex_rs = true /\
  exists r, Eval.eval_program true EvalProofs.ex_P 50 EvalProofs.ex_rs = Eval.Ok r /\
            Eval.eval_program false EvalProofs.ex_P 50 EvalProofs.ex_rs = Eval.Ok r.
Proof. exact EvalProofs.ex_closed_evaluates. Qed.

Theorem C08_typed_evaluation_is_lexical : forall E P rs n,
  Typing.wt_progb E P rs = true -> Eval.closed_prog P ->
  Eval.eval_program false P n rs = Eval.eval_program true P n rs.
Proof. exact TermProofs.typed_evaluation_is_lexical. Qed.
Print Assumptions C08_typed_evaluation_is_lexical.
