"""Shared helpers for the program-level checks: generate programs, run them through the
`compile` layer of the harness, decode the answers."""
import json
import random
from . import core, gen


def gen_programs(ctx, n, multi=None, rich_ann=True, start=0):
    out = []
    for i in range(n):
        rng = random.Random((ctx.seed * 7919 + int(ctx.prop[1:])) * 100003 + start + i)
        g = gen.Gen(rng, rich_ann=rich_ann)
        mods, main, feats, ast = g.program(multi=multi)
        out.append({"mods": mods, "main": main, "features": sorted(feats), "ast": ast})
    return out


def compile_many(progs, extra=None, timeout=60):
    lines = []
    for p in progs:
        req = {"mods": p["mods"], "main": p["main"]}
        if extra:
            req.update(extra)
        for k in ("base", "repeat"):
            if k in p:
                req[k] = p[k]
        lines.append(json.dumps(req))
    outs = core.run_stateless(core.IMPL, "compile", lines, timeout=timeout)
    res = []
    for o in outs:
        if o is None:
            res.append({"status": "crash", "msg": "no answer"})
        elif o == "SKIPPED":
            res.append({"status": "skipped"})
        elif o.startswith("CRASH") or o.startswith("HANG"):
            res.append({"status": "crash", "msg": o})
        else:
            try:
                res.append(json.loads(o))
            except Exception:
                res.append({"status": "crash", "msg": o[:200]})
    return res


def source_of(p):
    return {"mods": p["mods"], "main": p["main"]}


def feature_stats(ctx, progs):
    for p in progs:
        for f in p["features"]:
            ctx.count("feature_" + f)
        ctx.count("modules_%d" % len(p["mods"]))


def shared_corpus():
    """every hand-written program of the checks that lives at module level, as program dicts: programs written to reach a
    corner for one property are also compiled by the checks that quantify over all programs (C01, C03, C04, C06)"""
    from . import cyc, c01, c02, c05, c09, c13
    out = []
    seen = set()

    def add(mods, main):
        key = json.dumps(mods, sort_keys=True)
        if key not in seen:
            seen.add(key)
            out.append({"mods": mods, "main": main, "features": ["shared"], "ast": None})
    for t in list(cyc.CORPUS) + list(c01.ARITY) + c01.concat_nests()[::7]:
        add({"file:///w/main.oal": t}, "file:///w/main.oal")
    for m in c01.MODULE_TWINS:
        add(m, "file:///w/main.oal")
    for t, _ in c02.CONCAT:
        add({"file:///w/main.oal": t}, "file:///w/main.oal")
    for _, a, b in list(c05.PAIRS) + list(c05.SYM_PAIRS):
        add({"file:///w/main.oal": a}, "file:///w/main.oal")
        add({"file:///w/main.oal": b}, "file:///w/main.oal")
    for m, _ in c09.TEMPLATES:
        add(m, "file:///w/main.oal")
    for _, t in c13.REJECTED:
        add({"file:///w/main.oal": t}, "file:///w/main.oal")
    return out
