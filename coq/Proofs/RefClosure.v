(** Reference closure stated on the JSON document itself: wherever the document the builder
    model makes has a member ["$ref": <string>], at any depth, the string is
    "#/components/schemas/" followed by a key of the document's own [components.schemas].
    The occurrence relation [jref_in] is a plain traversal of the JSON value: it knows nothing
    of the builder. User-chosen keys (property, header, media type, example names) may be the
    text "$ref", but their values are objects, never strings, and so are not references. *)
From Oal Require Import Eval Builder ClosureProofs BuilderProofs.
From Coq Require Import Lia.
Local Open Scope N_scope.

(** [t] is the string value of a "$ref" member somewhere in the JSON value *)
Inductive jref_in (t : text) : json -> Prop :=
| ri_here m : In (T_ref, JStr t) m -> jref_in t (JObj m)
| ri_obj m k v : In (k, v) m -> jref_in t v -> jref_in t (JObj m)
| ri_arr l v : In v l -> jref_in t v -> jref_in t (JArr l).

(** the keys of components.schemas of a document *)
Definition schema_names (doc : json) : list text :=
  match doc with
  | JObj m => match get T_components m with
              | Some (JObj c) => match get T_schemas c with Some (JObj s) => map fst s | _ => [] end
              | _ => []
              end
  | _ => []
  end.

Definition resolves (doc : json) (t : text) : Prop := exists n, t = T_refprefix ++ n /\ In n (schema_names doc).

Lemma oall_forall {A B} (f : A -> option B) (Q : B -> Prop) l ys :
  oall (map f l) = Some ys -> (forall x y, In x l -> f x = Some y -> Q y) -> Forall Q ys.
Proof.
  revert ys. induction l as [|x l IH]; intros ys H HQ; cbn [map oall fold_right] in H.
  - injection H as <-. constructor.
  - fold (oall (map f l)) in H. destruct (f x) as [y|] eqn:Ex; [|discriminate H].
    destruct (oall (map f l)) as [ys'|]; [|discriminate H]. injection H as <-.
    constructor; [apply (HQ x y); [left; reflexivity|exact Ex]|].
    apply IH; [reflexivity|]. intros x' y' Hin. apply HQ. right. exact Hin.
Qed.

Lemma oall_forall' {A B} (f : A -> option B) (Q : B -> Prop) l ys :
  oall (map f l) = Some ys -> Forall (fun x => forall y, f x = Some y -> Q y) l -> Forall Q ys.
Proof.
  intros H HF. apply (oall_forall f Q l ys H). intros x y Hin. rewrite Forall_forall in HF. apply (HF x Hin).
Qed.

Lemma oall_app_inv {A} (l1 l2 : list (option A)) c :
  oall (l1 ++ l2) = Some c -> exists a b, oall l1 = Some a /\ oall l2 = Some b /\ c = a ++ b.
Proof.
  revert c. induction l1 as [|x l1 IH]; intros c H; cbn [app] in H.
  - exists [], c. repeat split. exact H.
  - cbn [oall fold_right] in *. fold (oall (l1 ++ l2)) in H. fold (oall l1).
    destruct x as [x|]; [|discriminate H]. destruct (oall (l1 ++ l2)) as [c'|] eqn:E; [|discriminate H].
    injection H as <-. destruct (IH c' eq_refl) as (a & b & -> & Hb & ->). exists (x :: a), b. repeat split. exact Hb.
Qed.

Section Closure.
  Variable strs : N -> text.
  Variable table : list (rkey * schema).
  Variable names : list text.

  (** the references the builder may write: the names of the entries it keeps as components *)
  Definition R (t : text) : Prop :=
    exists k i s, key_pos k table 0 = Some (i, s) /\ kept strs k s = true /\ t = T_refprefix ++ untagged (name_at names i).

  Definition clean (j : json) : Prop := forall t, jref_in t j -> R t.
  (** a member is fine if its value is clean and, if it is a string under the key "$ref", allowed *)
  Definition okm (kv : text * json) : Prop :=
    clean (snd kv) /\ (forall t, snd kv = JStr t -> fst kv = T_ref -> R t).

  Lemma clean_obj m : Forall okm m -> clean (JObj m).
  Proof.
    intros H t Hin. rewrite Forall_forall in H. inversion Hin as [m' Hm|m' k v Hm Hv|]; subst.
    - destruct (H _ Hm) as [_ Hs]. apply (Hs t); reflexivity.
    - destruct (H _ Hm) as [Hc _]. apply Hc, Hv.
  Qed.
  Lemma clean_arr l : Forall clean l -> clean (JArr l).
  Proof. intros H t Hin. rewrite Forall_forall in H. inversion Hin as [| |l' v Hl Hv]; subst. apply (H v Hl), Hv. Qed.
  Lemma clean_str t : clean (JStr t).   Proof. intros t' H. inversion H. Qed.
  Lemma clean_int z : clean (JInt z).   Proof. intros t' H. inversion H. Qed.
  Lemma clean_flt z : clean (JFlt z).   Proof. intros t' H. inversion H. Qed.
  Lemma clean_bool b : clean (JBool b). Proof. intros t' H. inversion H. Qed.
  Lemma clean_jnum n : clean (jnum n).  Proof. destruct n; [apply clean_int|apply clean_flt]. Qed.

  (** a member whose value is not a string *)
  Lemma okm_val k v : clean v -> (forall t, v <> JStr t) -> okm (k, v).
  Proof. intros Hc Hn. split; [exact Hc|]. intros t E. destruct (Hn t E). Qed.
  (** a string member under a key that is not "$ref" *)
  Lemma okm_str k t : k <> T_ref -> okm (k, JStr t).
  Proof. intros Hk. split; [apply clean_str|]. intros t' _ E. destruct (Hk E). Qed.
  Lemma okm_key k v : k <> T_ref -> clean v -> okm (k, v).
  Proof. intros Hk Hc. split; [exact Hc|]. intros t' _ E. destruct (Hk E). Qed.

  Ltac kne := let H := fresh in intros H; vm_compute in H; discriminate H.

  Lemma okm_jopt k o : k <> T_ref -> (forall v, o = Some v -> clean v) -> Forall okm (jopt k o).
  Proof. intros Hk Hc. destruct o as [v|]; cbn [jopt]; constructor; [|constructor]. apply okm_key; [exact Hk|apply Hc; reflexivity]. Qed.

  Lemma okm_jopt_map {A} k (f : A -> json) (o : option A) : k <> T_ref -> (forall a, clean (f a)) -> Forall okm (jopt k (option_map f o)).
  Proof. intros Hk Hf. apply okm_jopt; [exact Hk|]. intros v E. destruct o as [a|]; [injection E as <-; apply Hf|discriminate E]. Qed.

  Lemma Forall_app_intro {A} (Q : A -> Prop) l1 l2 : Forall Q l1 -> Forall Q l2 -> Forall Q (l1 ++ l2).
  Proof. intros H1 H2. apply Forall_app. split; assumption. Qed.

  Lemma put_okm k v m : Forall okm m -> clean v -> (forall t, v <> JStr t) -> Forall okm (put k v m).
  Proof.
    intros Hm Hc Hn. induction m as [|[k0 v0] m IH]; cbn [put]; [constructor; [apply okm_val; assumption|constructor]|].
    inversion Hm as [|? ? H0 Hm']; subst.
    destruct (list_eq_dec N.eq_dec k k0); constructor; try assumption; [apply okm_val; assumption|apply IH, Hm'].
  Qed.

  Lemma fold_put_okm items : forall acc, Forall okm acc ->
    Forall (fun kv : text * json => clean (snd kv) /\ forall t, snd kv <> JStr t) items ->
    Forall okm (fold_left (fun m kv => put (fst kv) (snd kv) m) items acc).
  Proof.
    induction items as [|[k v] items IH]; intros acc Ha Hi; cbn [fold_left]; [exact Ha|].
    inversion Hi as [|? ? [Hc Hn] Hi']; subst. apply IH; [|exact Hi']. apply put_okm; assumption.
  Qed.

  Ltac fields :=
    repeat first
      [ apply Forall_nil
      | apply Forall_cons
      | apply Forall_app_intro
      | apply okm_jopt_map; [kne | intros ?; first [apply clean_str|apply clean_int|apply clean_jnum]]
      | apply okm_str; kne
      | apply okm_key; [kne | apply clean_bool]
      | match goal with |- Forall okm (if ?c then _ else _) => destruct c end ].

  (** ** schemas *)
  Lemma with_meta_clean fs d t : Forall okm fs -> clean (with_meta strs fs d t).
  Proof.
    intros H. unfold with_meta. apply clean_obj. repeat apply Forall_app_intro; [exact H| |];
      apply okm_jopt_map; try kne; intros a; apply clean_str.
  Qed.

  Lemma uri_fields_ok u : Forall okm (uri_fields strs u).
  Proof.
    destruct u as [path prm ex]. cbn [uri_fields]. apply Forall_app_intro.
    - repeat constructor; try (apply okm_str; kne).
    - apply okm_jopt; [kne|]. intros v E. destruct ex; [injection E as <-; apply clean_str|].
      destruct path; [discriminate E|injection E as <-; apply clean_str].
  Qed.

  Lemma atomic_fields_ok e fs : atomic_fields strs e = Some fs -> Forall okm fs.
  Proof.
    destruct e as [mn mx mo ex0|pat en fmt ex0 mnl mxl| |mn mx mo ex0|[u xs]|u|i|ps|op ss|k]; cbn [atomic_fields]; intros H;
      try discriminate H; injection H as <-.
    - fields.
    - fields.
      + apply okm_key; [kne|]. apply clean_arr.
        apply Forall_forall. intros x Hx. apply in_map_iff in Hx as (y & <- & _). apply clean_str.
      + apply okm_jopt; [kne|]. intros v E. destruct ex0; [injection E as <-; apply clean_str|].
        destruct en; [discriminate E|injection E as <-; apply clean_str].
    - fields.
    - fields.
    - apply uri_fields_ok.
    - apply uri_fields_ok.
  Qed.

  Lemma atomic_json_clean s j : atomic_json strs s = Some j -> clean j.
  Proof.
    destruct s as [e d t r x]. unfold atomic_json. destruct (atomic_fields strs e) as [fs|] eqn:E; [|discriminate].
    intros [= <-]. apply with_meta_clean, (atomic_fields_ok e fs E).
  Qed.

  Lemma atomic_json_obj s j : atomic_json strs s = Some j -> forall t, j <> JStr t.
  Proof.
    destruct s as [e d t r x]. unfold atomic_json. destruct (atomic_fields strs e); [|discriminate].
    intros [= <-] t'. unfold with_meta. discriminate.
  Qed.

  Lemma jref_clean k i s : key_pos k table 0 = Some (i, s) -> kept strs k s = true -> clean (jref names i).
  Proof.
    intros Hk Hkept. unfold jref. apply clean_obj. constructor; [|constructor]. split; [apply clean_str|].
    intros t E _. cbn [snd] in E. injection E as <-. exists k, i, s. repeat split; assumption.
  Qed.

  Lemma reference_clean k j : reference_json strs table names k = Some j -> clean j /\ forall t, j <> JStr t.
  Proof.
    unfold reference_json. destruct (key_pos k table 0) as [[i s]|] eqn:Hk; [|discriminate].
    destruct (is_named k) eqn:En.
    - intros [= <-]. split; [|unfold jref; discriminate]. apply (jref_clean k i s Hk). unfold kept. rewrite En. reflexivity.
    - destruct (atomic_json strs s) as [a|] eqn:Ea.
      + intros [= <-]. split; [apply (atomic_json_clean s a Ea)|apply (atomic_json_obj s a Ea)].
      + intros [= <-]. split; [|unfold jref; discriminate]. apply (jref_clean k i s Hk). unfold kept. rewrite En, Ea. reflexivity.
  Qed.

  Notation sj := (schema_json strs table names).

  Lemma schema_clean : forall s j, sj s = Some j -> clean j /\ forall t, j <> JStr t.
  Proof.
    fix IH 1. intros [e desc title req ex] j H.
    destruct e as [mn mx mo ex0|pat en fmt ex0 mnl mxl| |mn mx mo ex0|r|u|i|ps|op ss|k]; cbn [schema_json] in H;
      try (split; [apply (atomic_json_clean _ _ H)|apply (atomic_json_obj _ _ H)]).
    - (* SArr *)
      destruct (sj i) as [ij|] eqn:Ei; [|discriminate H]. injection H as <-. destruct (IH i ij Ei) as [Hc Hn].
      split; [|unfold with_meta; discriminate]. apply with_meta_clean.
      constructor; [apply okm_str; kne|]. constructor; [apply okm_key; [kne|exact Hc]|constructor].
    - (* SObj *)
      destruct (oall (map (fun p => match p with Prop_ n ps' _ _ => match sj ps' with Some j0 => Some (strs n, j0) | None => None end end) ps))
        as [props|] eqn:Ep; [|discriminate H]. injection H as <-.
      split; [|unfold with_meta; discriminate]. apply with_meta_clean.
      assert (Hprops : Forall okm props).
      { apply (oall_forall' _ okm ps props Ep). clear Ep. induction ps as [|[n sp d r] ps IHps]; constructor; [|exact IHps].
        intros y Ey. destruct (sj sp) as [j0|] eqn:E0; [|discriminate Ey]. injection Ey as <-.
        destruct (IH sp j0 E0) as [Hc Hn]. apply okm_val; assumption. }
      constructor; [apply okm_str; kne|]. apply Forall_app_intro.
      + destruct props; [constructor|]. constructor; [|constructor]. apply okm_key; [kne|]. apply clean_obj, Hprops.
      + destruct (map (fun p => JStr (strs (prop_name p))) (filter (prop_required) ps)) as [|r0 rq] eqn:Er; [constructor|].
        constructor; [|constructor]. apply okm_key; [kne|]. apply clean_arr. rewrite <- Er.
        apply Forall_forall. intros x Hx. apply in_map_iff in Hx as (y & <- & _). apply clean_str.
    - (* SOp *)
      destruct (oall (map sj ss)) as [js|] eqn:Es; [|discriminate H].
      assert (Hjs : Forall clean js).
      { apply (oall_forall' sj clean ss js Es). clear Es H. induction ss as [|s0 ss IHss]; constructor; [|exact IHss].
        intros y Ey. apply (IH s0 y Ey). }
      destruct op; injection H as <-; (split; [|unfold with_meta; discriminate]); apply with_meta_clean;
        (constructor; [|constructor]); (apply okm_key; [kne|apply clean_arr, Hjs]).
    - (* SRef *)
      apply (reference_clean k j H).
  Qed.

  (** ** parameters, headers, contents, responses *)
  Lemma param_clean w st rq p j : w <> T_ref -> param_json strs table names w st rq p = Some j -> clean j /\ forall t, j <> JStr t.
  Proof.
    intros _. destruct p as [n s d r]. cbn [param_json]. destruct (sj s) as [j0|] eqn:E; [|discriminate]. cbn [obind]. intros [= <-].
    destruct (schema_clean s j0 E) as [Hc Hn]. split; [|discriminate]. apply clean_obj. fields.
    apply okm_key; [kne|exact Hc].
  Qed.

  Lemma header_clean p kv : header_json strs table names p = Some kv -> clean (snd kv) /\ forall t, snd kv <> JStr t.
  Proof.
    destruct p as [n s d r]. cbn [header_json]. destruct (sj s) as [j0|] eqn:E; [|discriminate]. cbn [obind]. intros [= <-].
    destruct (schema_clean s j0 E) as [Hc Hn]. cbn [snd]. split; [|discriminate]. apply clean_obj. fields.
    apply okm_key; [kne|exact Hc].
  Qed.

  Lemma params_clean (f : property -> option json) ps js :
    (forall p j, f p = Some j -> clean j /\ forall t, j <> JStr t) -> oall (map f ps) = Some js -> Forall clean js.
  Proof. intros Hf H. apply (oall_forall f clean ps js H). intros x y _ E. apply (Hf x y E). Qed.

  Lemma path_ne : T_path <> T_ref.  Proof. kne. Qed.
  Lemma query_ne : T_query <> T_ref.  Proof. kne. Qed.
  Lemma header_ne : T_header <> T_ref.  Proof. kne. Qed.

  Lemma uri_params_clean u js : uri_params_json strs table names u = Some js -> Forall clean js.
  Proof.
    destruct u as [path prm ex]. cbn [uri_params_json]. intros H.
    apply oall_app_inv in H as (a & b & Ha & Hb & ->). apply Forall_app_intro.
    - clear Hb. revert a Ha. induction path as [|sg path IHp]; intros a Ha; cbn [flat_map] in Ha.
      + injection Ha as <-. constructor.
      + destruct sg as [l|p]; cbn [app] in Ha; [apply IHp, Ha|].
        cbn [oall fold_right] in Ha.
        fold (oall (flat_map (fun sg => match sg with UVar p0 => [path_param strs table names p0] | ULit _ => [] end) path)) in Ha.
        destruct (path_param strs table names p) as [j|] eqn:Ej; [|discriminate Ha].
        destruct (oall (flat_map (fun sg => match sg with UVar p0 => [path_param strs table names p0] | ULit _ => [] end) path)) as [a'|]; [|discriminate Ha].
        injection Ha as <-. constructor; [apply (param_clean T_path T_simple true p j path_ne Ej)|apply IHp; reflexivity].
    - apply (params_clean (query_param strs table names) (oprops prm) b); [|exact Hb].
      intros p j E. apply (param_clean T_query T_form _ p j query_ne E).
  Qed.

  Lemma content_examples_ok c : Forall okm (content_examples strs c).
  Proof.
    destruct c as [s st media hd desc ex]. cbn [content_examples].
    destruct (match ex with Some e => Some e | None => match s with Some (Schema _ _ _ _ se) => se | None => None end end) as [l|]; [|constructor].
    apply Forall_forall. intros x Hx. apply in_map_iff in Hx as (kv & <- & _).
    apply okm_val; [|discriminate]. apply clean_obj. constructor; [apply okm_str; kne|constructor].
  Qed.

  Lemma media_clean c j0 : clean j0 -> clean (media_json strs c j0).
  Proof.
    intros Hc. unfold media_json. apply clean_obj. apply Forall_app_intro.
    - constructor; [apply okm_key; [kne|exact Hc]|constructor].
    - pose proof (content_examples_ok c) as He. destruct (content_examples strs c) as [|x l]; [constructor|].
      constructor; [|constructor]. apply okm_key; [kne|apply clean_obj, He].
  Qed.

  Lemma request_clean d o : request_json strs table names d = Some o -> forall j, o = Some j -> clean j.
  Proof.
    destruct d as [[s|] st media hd desc ex]; cbn [request_json]; [|intros [= <-] j E; discriminate E].
    destruct (sj s) as [j0|] eqn:E0; [|discriminate]. cbn [obind]. intros [= <-] j [= <-].
    destruct (schema_clean s j0 E0) as [Hc _]. apply clean_obj. fields.
    apply okm_key; [kne|]. apply clean_obj. fields.
    apply okm_val; [apply media_clean, Hc|unfold media_json; discriminate].
  Qed.

  Definition resp_ok (r : resp) : Prop := Forall okm (r_content r) /\ Forall okm (r_headers r).

  Lemma add_content_ok r c r' : resp_ok r -> add_content strs table names r c = Some r' -> resp_ok r'.
  Proof.
    intros [Hrc Hrh]. destruct c as [s st media hd desc ex]. cbn [add_content].
    destruct (match s with
              | None => Some (r_content r)
              | Some sc => obind (sj sc) (fun sj0 => Some (put (media_of strs media) (media_json strs (Content s st media hd desc ex) sj0) (r_content r)))
              end) as [cont|] eqn:Ec; [|discriminate]. cbn [obind].
    destruct (oall (map (header_json strs table names) (oprops hd))) as [hs|] eqn:Eh; [|discriminate]. cbn [obind]. intros [= <-].
    split; cbn [r_content r_headers].
    - destruct s as [sc|]; [|injection Ec as <-; exact Hrc].
      destruct (sj sc) as [j0|] eqn:E0; [|discriminate Ec]. cbn [obind] in Ec. injection Ec as <-.
      destruct (schema_clean sc j0 E0) as [Hc _]. apply put_okm; [exact Hrc|apply media_clean, Hc|unfold media_json; discriminate].
    - apply fold_put_okm; [exact Hrh|]. apply (oall_forall _ _ _ _ Eh). intros p kv _ Ekv. apply (header_clean p kv Ekv).
  Qed.

  Lemma get_in {V} k (m : list (text * V)) v : get k m = Some v -> exists k', In (k', v) m.
  Proof.
    induction m as [|[k0 v0] m IH]; cbn [get]; [discriminate|].
    destruct (list_eq_dec N.eq_dec k k0); [intros [= <-]; exists k0; left; reflexivity|].
    intros H. destruct (IH H) as [k' Hk']. exists k'. right. exact Hk'.
  Qed.

  Lemma put_forall {V} (Q : V -> Prop) k v (m : list (text * V)) :
    Forall (fun kv => Q (snd kv)) m -> Q v -> Forall (fun kv => Q (snd kv)) (put k v m).
  Proof.
    intros Hm Hv. induction m as [|[k0 v0] m IH]; cbn [put]; [constructor; [exact Hv|constructor]|].
    inversion Hm as [|? ? H0 Hm']; subst. destruct (list_eq_dec N.eq_dec k k0); constructor; try assumption. apply IH, Hm'.
  Qed.

  Lemma responses_ok rg : forall acc rs, Forall (fun kr => resp_ok (snd kr)) acc ->
    responses strs table names rg acc = Some rs -> Forall (fun kr => resp_ok (snd kr)) rs.
  Proof.
    induction rg as [|[[st media] c] rg IH]; intros acc rs Ha H; cbn [responses] in H; [injection H as <-; exact Ha|].
    destruct (add_content strs table names (match get (status_key st) acc with Some r => r | None => mk_resp [] [] [] end) c) as [r'|] eqn:Ea;
      [|discriminate H]. cbn [obind] in H.
    eapply IH; [|exact H]. apply put_forall; [exact Ha|].
    eapply add_content_ok; [|exact Ea].
    destruct (get (status_key st) acc) as [r|] eqn:Eg; [|split; constructor].
    destruct (get_in _ _ _ Eg) as [k' Hk']. rewrite Forall_forall in Ha. apply (Ha _ Hk').
  Qed.

  Lemma resp_json_clean r : resp_ok r -> clean (resp_json r).
  Proof.
    intros [Hc Hh]. unfold resp_json. apply clean_obj. repeat apply Forall_app_intro.
    - constructor; [apply okm_str; kne|constructor].
    - destruct (r_headers r); [constructor|]. constructor; [|constructor]. apply okm_key; [kne|apply clean_obj, Hh].
    - destruct (r_content r); [constructor|]. constructor; [|constructor]. apply okm_key; [kne|apply clean_obj, Hc].
  Qed.

  Lemma responses_json_clean rg j : responses_json strs table names rg = Some j -> clean j.
  Proof.
    unfold responses_json. destruct (responses strs table names rg []) as [rs|] eqn:E; [|discriminate]. cbn [obind]. intros [= <-].
    pose proof (responses_ok rg [] rs (Forall_nil _) E) as Hrs. apply clean_obj.
    apply Forall_forall. intros x Hx. apply in_map_iff in Hx as (kr & <- & Hin).
    apply okm_val; [|unfold resp_json; discriminate]. apply resp_json_clean.
    rewrite Forall_forall in Hrs. apply Hrs. apply in_app_or in Hin as [Hin|Hin]; apply filter_In in Hin as [Hin _]; exact Hin.
  Qed.

  (** ** operations, path items, paths *)
  Lemma operation_clean u m t j : operation_json strs table names u m t = Some j -> clean j /\ forall t', j <> JStr t'.
  Proof.
    destruct t as [ms dom rg prm desc summ tags id]. cbn [operation_json].
    destruct (oall (map (query_param strs table names) (oprops prm) ++
                    map (header_param strs table names) (oprops (match dom with Content _ _ _ hd _ _ => hd end)))) as [params|] eqn:Ep; [|discriminate].
    cbn [obind]. destruct (request_json strs table names dom) as [rb|] eqn:Er; [|discriminate]. cbn [obind].
    destruct (responses_json strs table names rg) as [rs|] eqn:Es; [|discriminate]. cbn [obind]. intros [= <-].
    split; [|discriminate]. apply clean_obj.
    assert (Hparams : Forall clean params).
    { apply oall_app_inv in Ep as (a & b & Ha & Hb & ->). apply Forall_app_intro.
      - eapply (params_clean (query_param strs table names)); [|exact Ha]. intros p j E. apply (param_clean T_query T_form _ p j query_ne E).
      - eapply (params_clean (header_param strs table names)); [|exact Hb]. intros p j E. apply (param_clean T_header T_simple _ p j header_ne E). }
    fields.
    - apply okm_key; [kne|]. apply clean_arr.
      apply Forall_forall. intros x Hx. apply in_map_iff in Hx as (y & <- & _). apply clean_str.
    - apply okm_key; [kne|apply clean_arr, Hparams].
    - apply okm_jopt; [kne|]. intros v E. apply (request_clean dom rb Er v E).
    - apply okm_key; [kne|apply (responses_json_clean rg rs Es)].
  Qed.

  Lemma ops_clean u xs : forall m l, ops_json strs table names u xs m = Some l ->
    Forall (fun kv : text * json => clean (snd kv) /\ forall t, snd kv <> JStr t) l.
  Proof.
    induction xs as [|[t|] xs IH]; intros m l H; cbn [ops_json] in H; [injection H as <-; constructor| |apply (IH _ _ H)].
    destruct (operation_json strs table names u m t) as [oj|] eqn:Eo; [|discriminate H]. cbn [obind] in H.
    destruct (ops_json strs table names u xs (S m)) as [r|] eqn:Er; [|discriminate H]. cbn [obind] in H. injection H as <-.
    constructor; [apply (operation_clean u m t oj Eo)|apply (IH _ _ Er)].
  Qed.

  Lemma path_item_clean r kv : path_item_json strs table names r = Some kv -> clean (snd kv) /\ forall t, snd kv <> JStr t.
  Proof.
    destruct r as [u xs]. cbn [path_item_json]. destruct (uri_params_json strs table names u) as [params|] eqn:Ep; [|discriminate]. cbn [obind].
    destruct (ops_json strs table names u xs 0) as [ops|] eqn:Eo; [|discriminate]. cbn [obind]. intros [= <-]. cbn [snd].
    split; [|discriminate]. apply clean_obj. apply Forall_app_intro.
    - pose proof (ops_clean u xs _ _ Eo) as Ho. apply Forall_forall. intros [k v] Hin. rewrite Forall_forall in Ho.
      destruct (Ho _ Hin) as [Hc Hn]. apply okm_val; assumption.
    - pose proof (uri_params_clean u params Ep) as Hp. destruct params; [constructor|]. constructor; [|constructor].
      apply okm_key; [kne|]. apply clean_arr, Hp.
  Qed.

  Lemma paths_clean rels j : paths_json strs table names rels = Some j -> clean j.
  Proof.
    unfold paths_json. destruct (oall (map (path_item_json strs table names) rels)) as [items|] eqn:E; [|discriminate]. cbn [obind]. intros [= <-].
    apply clean_obj. apply fold_put_okm; [constructor|].
    apply (oall_forall _ _ _ _ E). intros r kv _ Ekv. apply (path_item_clean r kv Ekv).
  Qed.

  Lemma components_clean : forall l i acc cs, Forall okm acc -> components strs table names l i acc = Some cs -> Forall okm cs.
  Proof.
    induction l as [|[k s] l IH]; intros i acc cs Ha H; cbn [components] in H; [injection H as <-; exact Ha|].
    destruct (negb (is_named k) && match atomic_json strs s with Some _ => true | None => false end); [apply (IH _ _ _ Ha H)|].
    destruct (sj s) as [j0|] eqn:E0; [|discriminate H]. cbn [obind] in H. destruct (schema_clean s j0 E0) as [Hc Hn].
    apply (IH _ _ _ (put_okm _ _ _ Ha Hc Hn) H).
  Qed.

  (** ** the document *)
  Theorem document_refs_resolve rels doc :
    document strs table names rels = Some doc -> forall t, jref_in t doc -> resolves doc t.
  Proof.
    unfold document. destruct (paths_json strs table names rels) as [ps|] eqn:Ep; [|discriminate]. cbn [obind].
    destruct (components strs table names table 0 []) as [cs|] eqn:Ec; [|discriminate]. cbn [obind]. intros [= <-] t Hin.
    assert (HR : R t).
    { revert t Hin. apply clean_obj.
      constructor; [apply okm_str; kne|].
      constructor; [apply okm_key; [kne|]; apply clean_obj; repeat constructor; apply okm_str; kne|].
      constructor; [apply okm_key; [kne|]; apply clean_arr; repeat constructor; apply clean_obj; repeat constructor; apply okm_str; kne|].
      constructor; [apply okm_key; [kne|apply (paths_clean rels ps Ep)]|].
      constructor; [|constructor]. apply okm_key; [kne|]. apply clean_obj.
      pose proof (components_clean table 0%nat [] cs (Forall_nil _) Ec) as Hcs.
      destruct cs eqn:E; [constructor|]. rewrite <- E in *. constructor; [|constructor]. apply okm_key; [kne|apply clean_obj, Hcs]. }
    destruct HR as (k & i & s & Hk & Hkept & ->). exists (untagged (name_at names i)). split; [reflexivity|].
    pose proof (refs_name_emitted_components strs table names k i s cs Hk) as He.
    assert (Hin' : In (untagged (name_at names i)) (map fst cs)).
    { destruct (key_pos_nth k table 0 i s Hk) as (d & -> & Hd).
      exact (components_emit strs table names table 0%nat [] cs Ec d k s Hd Hkept). }
    unfold schema_names. vm_compute (get T_components _).
    destruct cs as [|c0 cs']; [destruct Hin'|]. vm_compute (get T_schemas _). exact Hin'.
  Qed.
End Closure.

(** evaluation, then the builder: the document exists and all its references resolve *)
Theorem evaluated_document_closed strs names P n rs rels table :
  eval_program false P n rs = Ok (rels, table) ->
  exists doc, document strs table names rels = Some doc /\ forall t, jref_in t doc -> resolves doc t.
Proof.
  intros H. destruct (builder_never_panics strs names P n rs rels table H) as [doc Hd].
  exists doc. split; [exact Hd|]. exact (document_refs_resolve strs table names rels doc Hd).
Qed.

(** non-vacuity: a recursive component; its document has a reference, which resolves *)
Example ex_table : list (rkey * schema) :=
  [(KNamed 1, Schema (SArr (Schema (SRef (KNamed 1)) None None None None)) None None None None)].
Example ex_doc_has_ref :
  exists doc, document (fun _ => []) ex_table [[64; 97]] [] = Some doc /\
              jref_in (T_refprefix ++ [97]) doc /\ schema_names doc = [[97]].
Proof.
  eexists. split; [vm_compute; reflexivity|]. split; [|vm_compute; reflexivity].
  eapply ri_obj; [right; right; right; right; left; reflexivity|].
  eapply ri_obj; [left; reflexivity|]. eapply ri_obj; [left; reflexivity|].
  eapply ri_obj; [right; left; reflexivity|]. apply ri_here. left. reflexivity.
Qed.
