(** Model of oal-client/src/lsp/handlers.rs over a resolved folder: [syntax_at],
    [go_to_definition], [find_definition], [find_references], and the edits of [rename].
    A use is a Variable node: its span, the span of its (unqualified) identifier, and the
    definition name resolution attached to it. Offsets are UTF-8 indices. *)
From Coq Require Export List NArith Bool.
Export ListNotations.
Open Scope N_scope.

Record use := mk_use { u_start : N; u_end : N; u_istart : N; u_iend : N; u_def : option N (* None: built-in *) }.
Record decl := mk_decl { d_id : N; d_istart : N; d_iend : N }.     (* identifier span of a declaration / binding *)

Definition contains (s e idx : N) : bool := N.leb s idx && N.ltb idx e.

(** syntax_at::<Variable>: the first Variable (document order) whose span contains the index *)
Fixpoint use_at (us : list use) (idx : N) : option use :=
  match us with
  | [] => None
  | u :: us' => if contains (u_start u) (u_end u) idx then Some u else use_at us' idx
  end.

(** go_to_definition: the definition of the use under the cursor, if external *)
Definition definition_at (us : list use) (idx : N) : option N :=
  match use_at us idx with Some u => u_def u | None => None end.

(** find_references: every use (of every module) whose definition is [d] *)
Definition references_of (us : list use) (d : N) : list use :=
  filter (fun u => match u_def u with Some x => N.eqb x d | None => false end) us.

(** find_definition on a declaration identifier *)
Fixpoint decl_at (ds : list decl) (idx : N) : option N :=
  match ds with
  | [] => None
  | d :: ds' => if contains (d_istart d) (d_iend d) idx then Some (d_id d) else decl_at ds' idx
  end.

(** rename: one edit for the declaration identifier, one per reference identifier *)
Definition rename_edits (ds : list decl) (us : list use) (d : N) : list (N * N) :=
  map (fun x => (d_istart x, d_iend x)) (filter (fun x => N.eqb (d_id x) d) ds) ++
  map (fun u => (u_istart u, u_iend u)) (references_of us d).

(** spans of distinct uses do not overlap and are in document order (C11: leaves tile the text) *)
Fixpoint ordered (us : list use) : Prop :=
  match us with
  | [] => True
  | u :: us' => u_start u < u_end u /\ u_start u <= u_istart u /\ u_istart u < u_iend u /\ u_iend u <= u_end u /\
                match us' with [] => True | v :: _ => u_end u <= u_start v end /\ ordered us'
  end.
