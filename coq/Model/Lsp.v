(** Model of the document store of oal-client/src/lsp/mod.rs ([Workspace::open], [change],
    [close]) and of [String::replace_range] with its panics made explicit. Documents are
    numbered; texts are lists of scalar values. *)
From Oal Require Export Text Position.

Definition store := list (N * text).

Fixpoint st_get (u : N) (s : store) : option text :=
  match s with [] => None | (v, t) :: s' => if N.eqb u v then Some t else st_get u s' end.
Fixpoint st_set (u : N) (t : text) (s : store) : store :=
  match s with
  | [] => [(u, t)]
  | (v, t') :: s' => if N.eqb u v then (u, t) :: s' else (v, t') :: st_set u t s'
  end.
Fixpoint st_del (u : N) (s : store) : store :=
  match s with [] => [] | (v, t) :: s' => if N.eqb u v then st_del u s' else (v, t) :: st_del u s' end.

(** String::replace_range(start..end, with): panics (None) unless start <= end and both are
    character boundaries *)
Definition replace_range (doc : text) (s e : N) (w : text) : option text :=
  match split_at8 doc s, split_at8 doc e with
  | Some (pre, _), Some (_, suf) => if N.leb s e then Some (pre ++ w ++ suf) else None
  | _, _ => None
  end.

Inductive change :=
| CFull (t : text)
| CIncr (sl sc el ec : N) (t : text).

Definition apply_change (doc : text) (c : change) : option text :=
  match c with
  | CFull t => Some t
  | CIncr sl sc el ec t =>
      replace_range doc (position_to_utf8 doc sl sc) (position_to_utf8 doc el ec) t
  end.

Fixpoint apply_changes (doc : text) (cs : list change) : option text :=
  match cs with
  | [] => Some doc
  | c :: cs' => match apply_change doc c with Some d => apply_changes d cs' | None => None end
  end.

Inductive event :=
| EOpen (u : N) (t : text)
| EChange (u : N) (cs : list change)
| EClose (u : N).

(** None: the server process died (panic in replace_range) *)
Definition step (s : store) (e : event) : option store :=
  match e with
  | EOpen u t => Some (st_set u t s)
  | EClose u => Some (st_del u s)
  | EChange u cs =>
      match st_get u s with
      | None => Some s                          (* changes to unknown documents are ignored *)
      | Some doc => match apply_changes doc cs with Some d => Some (st_set u d s) | None => None end
      end
  end.

Fixpoint run (s : store) (h : list event) : option store :=
  match h with
  | [] => Some s
  | e :: h' => match step s e with Some s' => run s' h' | None => None end
  end.

(** the pinned tree's position_to_utf8 (before the F5 fix): equality test on the column *)
Fixpoint p2u_go_pinned (t : text) (pl pc : N) (line ch idx : N) : N :=
  match t with
  | [] => idx
  | c :: t' =>
      if N.eqb line pl then
        if N.eqb ch pc || is_lf c || is_cr c then idx
        else p2u_go_pinned t' pl pc line (ch + len16 c) (idx + len8 c)
      else if is_lf c then p2u_go_pinned t' pl pc (line + 1) ch (idx + len8 c)
      else p2u_go_pinned t' pl pc line ch (idx + len8 c)
  end.
