"""Reference semantics of oal programs, computed from the generator's abstract syntax: what
document a program denotes (C02). Independent of the compiler: lexical environments,
declarations looked up by (module, name), annotations flowing top-down, references and
recursive declarations as named components. Produces the JSON view of the OpenAPI document
(paths + schema components); implicit component names are arbitrary (compared up to names)."""
import copy


class Unsupported(Exception):
    pass


def extend(a, b):
    """annotation composition: mappings merge recursively, sequences concatenate, the rest is overridden"""
    out = copy.deepcopy(a)
    for k, v in b.items():
        if k in out and isinstance(out[k], dict) and isinstance(v, dict):
            out[k] = extend(out[k], v)
        elif k in out and isinstance(out[k], list) and isinstance(v, list):
            out[k] = out[k] + copy.deepcopy(v)
        else:
            out[k] = copy.deepcopy(v)
    return out


def compose(anns):
    out = {}
    for a in anns:
        out = extend(out, a)
    return out


def a_str(ann, k):
    v = ann.get(k)
    return v if isinstance(v, str) else None


def a_bool(ann, k):
    v = ann.get(k)
    return v if isinstance(v, bool) else None


def a_num(ann, k):
    v = ann.get(k)
    return float(v) if isinstance(v, (int, float)) and not isinstance(v, bool) else None


def a_int(ann, k):
    v = ann.get(k)
    return v if isinstance(v, int) and not isinstance(v, bool) else None


def a_enum(ann, k):
    v = ann.get(k)
    return [x for x in v if isinstance(x, str)] if isinstance(v, list) else None


def a_props(ann, k):
    v = ann.get(k)
    if isinstance(v, dict):
        return {a: b for a, b in v.items() if isinstance(a, str) and isinstance(b, str)}
    return None


class Denote:
    def __init__(self, ast, main):
        self.ast = ast
        self.main = main
        self.refs = {}           # key -> None (in progress) | (value, ann)
        self.order = []          # component keys in insertion order
        self.scope = 0
        self.scope_seq = 0
        self.recursive = self.mark_recursive()

    # ---- module structure
    def module_of_use(self, mod, q):
        for path, qq in self.ast[mod]["uses"]:
            if qq == q:
                return mod.rsplit("/", 1)[0] + "/" + path
        raise Unsupported("qualifier")

    def find_decl(self, mod, name, q=None):
        if q is not None:
            m2 = self.module_of_use(mod, q)
            for d in self.ast[m2]["decls"]:
                if d["name"] == name:
                    return m2, d
            raise Unsupported("unbound qualified")
        for d in self.ast[mod]["decls"]:
            if d["name"] == name:
                return mod, d
        found = None
        for path, qq in self.ast[mod]["uses"]:
            if qq is None:
                m2 = mod.rsplit("/", 1)[0] + "/" + path
                for d in self.ast[m2]["decls"]:
                    if d["name"] == name:
                        found = (m2, d)       # a later unqualified import wins (K9)
        if found:
            return found
        if name == "concat":
            return None, "concat"
        raise Unsupported("unbound " + name)

    def free_decls(self, mod, e, bound):
        out = set()
        if isinstance(e, list) and e:
            if e[0] == "var" and len(e) == 2 and isinstance(e[1], str):
                if e[1] not in bound:
                    try:
                        m2, d = self.find_decl(mod, e[1])
                        if d != "concat":
                            out.add((m2, d["name"]))
                    except Unsupported:
                        pass
                return out
            if e[0] == "qvar":
                try:
                    m2, d = self.find_decl(mod, e[2], e[1])
                    out.add((m2, d["name"]))
                except Unsupported:
                    pass
                return out
            if e[0] == "rec":
                return self.free_decls(mod, e[2], bound | {e[1]})
            for x in e[1:]:
                out |= self.free_decls(mod, x, bound)
        elif isinstance(e, (list, tuple)):
            for x in e:
                out |= self.free_decls(mod, x, bound)
        return out

    def mark_recursive(self):
        graph = {}
        for mod, m in self.ast.items():
            for d in m["decls"]:
                graph[(mod, d["name"])] = self.free_decls(mod, d["rhs"], set(d["params"]))
        rec = set()
        for n in graph:
            # on a cycle?
            seen = set()
            stack = list(graph[n])
            while stack:
                x = stack.pop()
                if x == n:
                    rec.add(n)
                    break
                if x in seen or x not in graph:
                    continue
                seen.add(x)
                stack.extend(graph[x])
        return rec

    # ---- evaluation
    def ev(self, mod, e, env, ann):
        k = e[0]
        if k == "ann":
            return self.ev(mod, e[1], env, extend(ann, e[2]))
        if k == "paren":
            return self.ev(mod, e[1], env, ann)
        if k == "prim":
            return self.prim(e[1], ann), ann
        if k == "lit":
            t = e[1]
            if t.startswith('"'):
                return ("string", t[1:-1]), ann
            if t.endswith("XX"):
                return ("status", t), ann
            return ("number", int(t)), ann
        if k == "var":
            if e[1] in env:
                v, prev = env[e[1]]
                return v, extend(prev, ann)
            m2, d = self.find_decl(mod, e[1])
            return self.decl(m2, d, ann)
        if k == "qvar":
            m2, d = self.find_decl(mod, e[2], e[1])
            return self.decl(m2, d, ann)
        if k == "app":
            fn = e[1]
            if fn[0] == "var":
                m2, d = self.find_decl(mod, fn[1])
            else:
                m2, d = self.find_decl(mod, fn[2], fn[1])
            args = [self.ev(mod, a, env, {}) for a in e[2]]
            if d == "concat":
                left, right = copy.deepcopy(self.cast_uri(args[0])), self.cast_uri(args[1])
                if left["path"] and left["path"][-1] == ("lit", ""):
                    left["path"].pop()
                left["path"] = left["path"] + right["path"]
                left["params"] = right["params"]
                left["example"] = None
                return ("uri", left), ann
            new = {}
            for p, a in zip(d["params"], args):
                new[p] = a
            app_ann = extend(compose(d.get("anns", [])), ann)
            saved = self.scope
            self.scope_seq += 1
            self.scope = self.scope_seq
            r = self.ev(m2, d["rhs"], new, app_ann)
            self.scope = saved
            return r
        if k == "rec":
            key = ("rec", id(e), self.scope)
            saved = self.scope
            self.scope_seq += 1
            self.scope = self.scope_seq
            env2 = dict(env)
            env2[e[1]] = (("recursion", key), {})
            rhs = self.ev(mod, e[2], env2, ann)
            self.scope = saved
            self.set_ref(key, rhs)
            return ("reference", key, rhs), {}
        if k == "obj":
            return ("object", [self.cast_property(self.ev(mod, p, env, {})) for p in e[1]]), ann
        if k == "prop":
            mark = {"!": True, "?": False}.get(e[2])
            req = a_bool(ann, "required")
            req = req if req is not None else mark
            return ("property", {"name": e[1], "schema": self.cast_schema(self.ev(mod, e[3], env, {})), "desc": a_str(ann, "description"),
                                 "required": req}), ann
        if k == "unary":
            p = copy.deepcopy(self.cast_property(self.ev(mod, e[2], env, {})))
            p["required"] = e[1] == "!"
            return ("property", p), ann
        if k == "arr":
            return ("array", self.cast_schema(self.ev(mod, e[1], env, {}))), ann
        if k == "op":
            if e[1] == "::":
                rg = []
                for x in e[2]:
                    for key, c in self.cast_ranges(self.ev(mod, x, env, {})):
                        rg = [(k2, c2) for k2, c2 in rg if k2 != key] if False else rg
                        idx = [i for i, (k2, _) in enumerate(rg) if k2 == key]
                        if idx:
                            rg[idx[0]] = (key, c)
                        else:
                            rg.append((key, c))
                return ("ranges", rg), ann
            return ("op", e[1], [self.cast_schema(self.ev(mod, x, env, {})) for x in e[2]]), ann
        if k == "content":
            schema = self.cast_schema(self.ev(mod, e[2], env, {})) if e[2] is not None else None
            status = ("code", 204) if schema is None else None
            media = headers = None
            for kind, x in e[1]:
                v = self.ev(mod, x, env, {})
                if kind == "media":
                    media = self.cast_string(v)
                elif kind == "headers":
                    headers = self.cast_object(v)
                else:
                    status = self.cast_status(v)
            return ("content", {"schema": schema, "status": status, "media": media, "headers": headers, "desc": a_str(ann, "description"),
                                "examples": a_props(ann, "examples")}), ann
        if k == "xfer":
            domain = self.cast_content(self.ev(mod, e[3], env, {})) if e[3] is not None else \
                {"schema": None, "status": None, "media": None, "headers": None, "desc": None, "examples": None}
            ranges = self.cast_ranges(self.ev(mod, e[4], env, {}))
            params = self.cast_object(self.ev(mod, e[2], env, {})) if e[2] is not None else None
            return ("transfer", {"methods": list(e[1]), "domain": domain, "ranges": ranges, "params": params, "desc": a_str(ann, "description"),
                                 "summary": a_str(ann, "summary"), "tags": a_enum(ann, "tags") or [], "id": a_str(ann, "operationId")}), ann
        if k == "uri":
            path = []
            for seg in e[1]:
                if seg[0] == "lit":
                    path.append(("lit", seg[1]))
                else:
                    path.append(("var", self.cast_property(self.ev(mod, seg[1], env, {}))))
            if not e[1]:
                path.append(("lit", ""))
            params = self.cast_object(self.ev(mod, e[2], env, {})) if e[2] is not None else None
            return ("uri", {"path": path, "params": params, "example": a_str(ann, "example")}), ann
        if k == "rel":
            uri = self.cast_uri(self.ev(mod, e[1], env, {}))
            xfers = {}
            for x in e[2]:
                t = self.cast_transfer(self.ev(mod, x, env, {}))
                for m in t["methods"]:
                    xfers[m] = t
            return ("relation", {"uri": uri, "xfers": xfers}), ann
        raise Unsupported(k)

    def prim(self, p, ann):
        if p == "bool":
            return ("prim", "boolean", {})
        if p == "int":
            return ("prim", "integer", {"minimum": a_int(ann, "minimum"), "maximum": a_int(ann, "maximum"), "multipleOf": a_int(ann, "multipleOf"),
                                        "example": a_int(ann, "example")})
        if p == "num":
            return ("prim", "number", {"minimum": a_num(ann, "minimum"), "maximum": a_num(ann, "maximum"), "multipleOf": a_num(ann, "multipleOf"),
                                       "example": a_num(ann, "example")})
        if p == "str":
            en = a_enum(ann, "enum") or []
            return ("prim", "string", {"pattern": a_str(ann, "pattern"), "enum": en, "format": a_str(ann, "format"), "example": a_str(ann, "example"),
                                       "minLength": a_int(ann, "minLength"), "maxLength": a_int(ann, "maxLength")})
        return ("uri", {"path": [], "params": None, "example": a_str(ann, "example")})

    def set_ref(self, key, value):
        if key not in self.refs:
            self.order.append(key)
        self.refs[key] = value

    def decl(self, mod, d, ann):
        if d["params"]:
            raise Unsupported("function value")
        rhs_ann = extend(compose(d.get("anns", [])), ann)
        name = d["name"]
        if name.startswith("@") or (mod, name) in self.recursive:
            key = ("named", name) if name.startswith("@") else ("decl", mod, name)
            if key not in self.refs:
                self.order.append(key)
                self.refs[key] = None
                value = self.ev(mod, d["rhs"], {}, rhs_ann)
                self.refs[key] = value
                return ("reference", key, value), rhs_ann
            if self.refs[key] is None:
                return ("recursion", key), rhs_ann
            return ("reference", key, self.refs[key]), rhs_ann
        return self.ev(mod, d["rhs"], {}, rhs_ann)

    # ---- casts
    def cast_schema(self, va):
        v, ann = va
        k = v[0]
        if k in ("reference", "recursion"):
            expr = ("ref", v[1])
        elif k in ("object", "prim", "array", "uri", "op", "relation"):
            expr = v
        else:
            raise Unsupported("not a schema " + k)
        return {"expr": expr, "desc": a_str(ann, "description"), "title": a_str(ann, "title"), "required": a_bool(ann, "required"),
                "examples": a_props(ann, "examples")}

    def under(self, v):
        while v[0] == "reference":
            v = v[2][0]
        return v

    def cast_property(self, va):
        v = self.under(va[0])
        if v[0] != "property":
            raise Unsupported("not a property")
        return v[1]

    def cast_object(self, va):
        v = self.under(va[0])
        if v[0] != "object":
            raise Unsupported("not an object")
        return v[1]

    def cast_string(self, va):
        v = self.under(va[0])
        if v[0] != "string":
            raise Unsupported("not a string")
        return v[1]

    def cast_status(self, va):
        v = self.under(va[0])
        if v[0] == "status":
            return ("range", v[1][0])
        if v[0] == "number":
            return ("code", v[1])
        raise Unsupported("not a status")

    def cast_transfer(self, va):
        v = self.under(va[0])
        if v[0] != "transfer":
            raise Unsupported("not a transfer")
        return v[1]

    def cast_uri(self, va):
        v = self.under(va[0])
        if v[0] == "uri":
            return v[1]
        if v[0] == "relation":
            return v[1]["uri"]
        raise Unsupported("not a uri")

    def cast_relation(self, va):
        v = self.under(va[0])
        if v[0] == "relation":
            return v[1]
        if v[0] == "uri":
            return {"uri": v[1], "xfers": {}}
        raise Unsupported("not a relation")

    def cast_content(self, va):
        v, ann = va
        if v[0] == "content":
            return v[1]
        s = self.cast_schema(va)
        return {"schema": s, "status": None, "media": None, "headers": None, "desc": s["desc"], "examples": None}

    def cast_ranges(self, va):
        v, ann = va
        if v[0] == "ranges":
            return v[1]
        c = self.cast_content(va)
        return [((c["status"], c["media"]), c)]

    # ---- emission
    def name_of(self, key):
        if key[0] == "named":
            return key[1][1:]
        return "hash-" + "%064x" % (abs(hash(key)) % (16 ** 64))

    def inlinable(self, key):
        if key[0] == "named":
            return False
        v = self.refs[key]
        s = self.cast_schema(v)
        return s["expr"][0] in ("prim", "uri", "relation")

    def schema(self, s):
        e = s["expr"]
        if e[0] == "ref":
            if self.inlinable(e[1]):
                return self.value_schema(self.cast_schema(self.refs[e[1]]))
            return {"$ref": "#/components/schemas/" + self.name_of(e[1])}
        return self.value_schema(s)

    def value_schema(self, s):
        e = s["expr"]
        if e[0] == "ref":
            return self.schema(s)
        k = e[0]
        out = {}
        if k == "prim":
            out["type"] = e[1]
            f = e[2]
            for key in ("minimum", "maximum", "multipleOf", "pattern", "format", "minLength", "maxLength"):
                if f.get(key) is not None:
                    out[key] = f[key]
            if e[1] == "string":
                if f["enum"]:
                    out["enum"] = list(f["enum"])
                ex = f.get("example") if f.get("example") is not None else (f["enum"][0] if f["enum"] else None)
                if ex is not None:
                    out["example"] = ex
            elif f.get("example") is not None:
                out["example"] = f["example"]
        elif k == "uri":
            out = {"type": "string", "format": "uri-reference"}
            ex = e[1]["example"]
            if ex is None and e[1]["path"]:
                ex = self.pattern(e[1], lambda p: "_%s_%s_" % (p["name"], {"number": "number", "string": "string", "boolean": "boolean", "integer": "integer"}.get(
                    p["schema"]["expr"][1] if p["schema"]["expr"][0] == "prim" else "", "unknown")))
            if ex is not None:
                out["example"] = ex
        elif k == "relation":
            return self.value_schema(dict(s, expr=("uri", e[1]["uri"])))
        elif k == "object":
            out["type"] = "object"
            if e[1]:
                out["properties"] = {p["name"]: self.schema(p["schema"]) for p in e[1]}
            req = [p["name"] for p in e[1] if (p["required"] if p["required"] is not None else (p["schema"]["required"] or False))]
            if req:
                out["required"] = req
        elif k == "array":
            out = {"type": "array", "items": self.schema(e[1])}
        elif k == "op":
            key = {"&": "allOf", "|": "oneOf", "~": "anyOf"}[e[1]]
            out = {key: [self.schema(x) for x in e[2]]}
        else:
            raise Unsupported("schema " + k)
        if s["desc"] is not None:
            out["description"] = s["desc"]
        if s["title"] is not None:
            out["title"] = s["title"]
        return out

    def pattern(self, uri, f):
        out = ""
        for seg in uri["path"]:
            out += "/" + (seg[1] if seg[0] == "lit" else f(seg[1]))
        return out

    def param(self, p, where, required):
        out = {"in": where, "name": p["name"], "schema": self.schema(p["schema"]), "style": "form" if where == "query" else "simple"}
        if required:
            out["required"] = True
        if p["desc"] is not None:
            out["description"] = p["desc"]
        return out

    def examples(self, c):
        ex = c["examples"] if c["examples"] is not None else (c["schema"]["examples"] if c["schema"] is not None else None)
        return {k: {"externalValue": v} for k, v in (ex or {}).items()}

    def media_type(self, c):
        out = {"schema": self.schema(c["schema"])}
        ex = self.examples(c)
        if ex:
            out["examples"] = ex
        return out

    def status_key(self, st):
        return str(st[1]) if st[0] == "code" else st[1] + "XX"

    def operation(self, uri, method, t):
        op = {}
        label = "-".join([method] + [("root" if seg[1] == "" else seg[1].lower()) if seg[0] == "lit" else seg[1]["name"].lower() for seg in uri["path"]])
        oid = t["id"] if t["id"] is not None else label
        op["operationId"] = oid
        op["summary"] = t["summary"] if t["summary"] is not None else (t["desc"] if t["desc"] is not None else oid)
        if t["desc"] is not None:
            op["description"] = t["desc"]
        params = []
        for p in (t["params"] or []):
            params.append(self.param(p, "query", p["required"] or False))
        for p in (t["domain"]["headers"] or []):
            params.append(self.param(p, "header", p["required"] or False))
        if params:
            op["parameters"] = params
        d = t["domain"]
        if d["schema"] is not None:
            rb = {"content": {d["media"] or "application/json": self.media_type(d)}}
            if d["desc"] is not None:
                rb["description"] = d["desc"]
            op["requestBody"] = rb
        responses = {}
        for (st, media), c in t["ranges"]:
            key = self.status_key(st) if st is not None else "default"
            r = responses.setdefault(key, {"description": ""})
            if c["schema"] is not None:
                r.setdefault("content", {})[media or "application/json"] = self.media_type(c)
            for h in (c["headers"] or []):
                hh = {"schema": self.schema(h["schema"]), "style": "simple"}
                if h["required"]:
                    hh["required"] = True
                if h["desc"] is not None:
                    hh["description"] = h["desc"]
                r.setdefault("headers", {})[h["name"]] = hh
            if c["desc"] is not None:
                r["description"] = c["desc"]
        op["responses"] = responses
        if t["tags"]:
            op["tags"] = list(t["tags"])
        return op

    def document(self):
        rels = []
        for r in self.ast[self.main]["res"]:
            rels.append(self.cast_relation(self.ev(self.main, r, {}, {})))
        paths = {}
        for rel in rels:
            uri = rel["uri"]
            item = {}
            params = [self.param(seg[1], "path", True) for seg in uri["path"] if seg[0] == "var"]
            params += [self.param(p, "query", p["required"] or False) for p in (uri["params"] or [])]
            if params:
                item["parameters"] = params
            for m, t in rel["xfers"].items():
                item[m] = self.operation(uri, m, t)
            paths[self.pattern(uri, lambda p: "{%s}" % p["name"])] = item
        schemas = {}
        for key in self.order:
            if self.refs.get(key) is None:
                continue
            if not self.inlinable(key):
                schemas[self.name_of(key)] = self.schema(self.cast_schema(self.refs[key]))
        return {"paths": paths, "schemas": schemas}
