let () =
  match Array.to_list Sys.argv with
  | _ :: "pos" :: _ -> L_pos.run ()
  | _ :: "unify" :: _ -> L_unify.run ()
  | _ :: "load" :: _ -> L_load.run ()
  | _ :: "merge" :: _ -> L_merge.run ()
  | _ :: "uri" :: _ -> L_uri.run ()
  | _ :: "cast" :: _ -> L_cast.run ()
  | _ :: "cycles" :: _ -> L_cycles.run ()
  | _ :: "resolve" :: _ -> L_resolve.run ()
  | _ :: "lspdoc" :: _ -> L_lspdoc.run ()
  | _ :: "peg" :: _ -> L_peg.run ()
  | _ :: "resp" :: _ -> L_resp.run ()
  | _ :: "eval" :: _ -> L_eval.run ()
  | _ :: "evallex" :: _ -> L_eval.run_lexical ()
  | _ :: "typing" :: _ -> L_eval.run_typing ()
  | _ :: "strat" :: _ -> L_eval.run_strat ()
  | _ :: "doc" :: _ -> L_eval.run_doc ()
  | _ :: "docbase" :: _ -> L_eval.run_doc_base ()
  | _ :: "edges" :: _ -> L_eval.run_edges ()
  | _ :: "lex" :: _ -> L_lex.run ()
  | _ :: "diag" :: _ -> L_diag.run ()
  | _ :: "handlers" :: _ -> L_handlers.run ()
  | _ ->
      prerr_endline "usage: oalmodel <layer>";
      exit 2
