"""C14 — a base description is preserved; only paths and schema components are replaced.
Proof: coq/Properties/C14.v (frame theorems, universal in the base). Tie: the model's merge,
run on the member structure of each generated base, must rebuild exactly the document the
implementation emits with that base. Monitor O14: field-wise frame comparison."""
import json
from . import core, progs

NAMES = {"paths": 1, "components": 2, "schemas": 3, "openapi": 4, "info": 5, "servers": 6}


def key_id(name, table):
    if name in NAMES:
        return NAMES[name]
    if name not in table:
        table[name] = 20 + len(table)
    return table[name]


def rand_schema(rng, depth=1):
    x = rng.random()
    if x < 0.2 and depth > 0:
        return {"type": "object", "properties": {"a": rand_schema(rng, depth - 1)}}
    if x < 0.3 and depth > 0:
        return {"type": "array", "items": rand_schema(rng, depth - 1)}
    if x < 0.4:
        return {"$ref": "#/components/schemas/Legacy"}
    return {"type": rng.choice(["string", "integer", "number", "boolean"])}


def named_refs(p):
    """the names of the @references a program declares"""
    import re
    return sorted(set(re.findall(r"let @([A-Za-z0-9_$-]+)", "\n".join(p["mods"].values()))))


def path_keys(p):
    """the path patterns of the resources a program declares with literal URIs (as the document spells them)"""
    import re
    out = []
    for m in re.finditer(r"^res ((?:/(?:[\w.~%-]+|\{ '[\w$-]+[!?]? [^}]*\})?)+)", "\n".join(p["mods"].values()), flags=re.M):
        out.append(re.sub(r"\{ '([\w$-]+)[!?]? [^}]*\}", r"{\1}", m.group(1)))
    return sorted(set(out))


def rand_base(rng, names=(), paths=()):
    """names: names of schema components of the program the base will be merged with (a base may define the same names)"""
    b = {"openapi": rng.choice(["3.0.0", "3.0.1", "3.0.3"]),
         "info": {"title": "T%d" % rng.randrange(100), "version": "%d.0" % rng.randrange(9)}}
    if rng.random() < 0.5:
        b["info"]["description"] = rng.choice(["desc", " desc ", "desc\n", "Désc/", ""])
    if rng.random() < 0.3:
        b["info"]["license"] = {"name": "MIT"}
    if rng.random() < 0.6:
        # values must be carried over verbatim: trailing slashes, blanks, case, non-ASCII
        b["servers"] = [{"url": rng.choice(["https://api%d.example.com", "https://api%d.example.com/", "https://api%d.example.com/v1/",
                                            "/base%d/", "//cdn%d.example.com//", "HTTPS://API%d.Example.COM/V1", " https://api%d.example.com/é "]) % i}
                        for i in range(rng.randint(1, 2))]
    if rng.random() < 0.5:
        b["tags"] = [{"name": "t%d" % i, "description": "tag"} for i in range(rng.randint(1, 3))]
    if rng.random() < 0.4:
        b["security"] = rng.choice([[{"key": []}], [{}, {"key": []}], [{}], [], [{"key": []}, {}], [{"key": ["read", "write"]}, {"key": []}]])
    if rng.random() < 0.3:
        b["externalDocs"] = {"url": rng.choice(["https://docs.example.com", "https://docs.example.com/", "https://docs.example.com/a/../b/"])}
    if rng.random() < 0.3:
        b["x-ext"] = {"a": [1, 2]}
    if rng.random() < 0.6:
        b["paths"] = {"/legacy": {"get": {"responses": {"200": {"description": "ok"}}}}}
    else:
        b["paths"] = {}
    for pk in paths:
        if rng.random() < 0.4:      # the same path as a resource of the program: nothing of the base's item survives
            b["paths"][pk] = {"summary": "stale summary of %s" % pk, "description": "stale", "servers": [{"url": "https://stale.example.com"}],
                              "parameters": [{"name": "stale", "in": "query", "schema": {"type": "string"}}],
                              "trace": {"responses": {"200": {"description": "stale operation"}}}}
    if rng.random() < 0.3:          # a specification extension of the Paths Object itself: replaced with the paths
        b["paths"]["x-paths-ext"] = {"owner": "legacy"}
    legacy_ref = "/legacy" in b["paths"] and rng.random() < 0.5
    if rng.random() < 0.8:
        c = {}
        if rng.random() < 0.6:
            c["schemas"] = {"Legacy": rand_schema(rng, 0) if rng.random() < 0.5 else {"type": "string"},
                            "Other": {"type": "integer"}}
            for nm in names:
                if rng.random() < 0.5:      # the same name as a component of the program: the program's definition wins
                    c["schemas"][nm] = {"type": "string", "description": "stale definition of %s from the base" % nm}
            if legacy_ref:      # a closed base: its own path refers to its own schema (both are replaced by the program's)
                b["paths"]["/legacy"]["get"]["responses"]["200"]["content"] = {"application/json": {"schema": {"$ref": "#/components/schemas/Legacy"}}}
        if rng.random() < 0.6:
            c["securitySchemes"] = {"key": {"type": "apiKey", "name": "X-Key", "in": "header"}}
        if rng.random() < 0.4:
            c["responses"] = {"NotFound": {"description": "nf"}}
        if rng.random() < 0.4:
            c["parameters"] = {"page": {"name": "page", "in": "query", "schema": {"type": "integer"}}}
        if rng.random() < 0.3:
            c["headers"] = {"X-Rate": {"schema": {"type": "integer"}}}
        if rng.random() < 0.3:
            c["examples"] = {"e": {"value": {"a": 1}}}
        if rng.random() < 0.2:
            c["requestBodies"] = {"rb": {"content": {"application/json": {"schema": {"type": "string"}}}}}
        if rng.random() < 0.3:
            c["links"] = {"GetById": {"operationId": "getThing", "parameters": {"id": "$response.body#/id"}, "description": "link"}}
        if rng.random() < 0.2:
            c["callbacks"] = {"onEvent": {"{$request.body#/url}": {"post": {"responses": {"200": {"description": "ok"}}}}}}
        if rng.random() < 0.2:
            c["x-comp-ext"] = {"k": "v"}
        b["components"] = c
    return b


FULL_BASE = {
    "openapi": "3.0.3",
    "info": {"title": "Full", "version": "9.9", "description": "every field", "termsOfService": "https://example.com/tos",
             "contact": {"name": "N", "url": "https://example.com", "email": "a@example.com"},
             "license": {"name": "MIT", "url": "https://example.com/mit"}, "x-info-ext": 1},
    "servers": [{"url": "https://{env}.example.com", "description": "s", "variables": {"env": {"default": "prod", "enum": ["prod", "dev"]}}},
                {"url": "https://api.example.com/v1/", "description": " trailing slash and blanks "}],
    "security": [{"key": []}, {"oauth": ["read"]}],
    "tags": [{"name": "t0", "description": "tag", "externalDocs": {"url": "https://docs.example.com/t0"}}],
    "externalDocs": {"url": "https://docs.example.com", "description": "docs"},
    "x-top-ext": {"a": [1, 2]},
    "paths": {"/legacy": {"get": {"responses": {"200": {"description": "ok"}}}}, "x-paths-ext": {"owner": "legacy"}},
    "components": {
        "schemas": {"Legacy": {"type": "string"}},
        "responses": {"NotFound": {"description": "nf"}},
        "parameters": {"page": {"name": "page", "in": "query", "schema": {"type": "integer"}}},
        "examples": {"e": {"value": {"a": 1}}},
        "requestBodies": {"rb": {"content": {"application/json": {"schema": {"type": "string"}}}}},
        "headers": {"X-Rate": {"schema": {"type": "integer"}}},
        "securitySchemes": {"key": {"type": "apiKey", "name": "X-Key", "in": "header"},
                            "oauth": {"type": "oauth2", "flows": {"implicit": {"authorizationUrl": "https://example.com/auth", "scopes": {"read": "r"}}}}},
        "links": {"GetById": {"operationId": "getThing", "parameters": {"id": "$response.body#/id"}}},
        "callbacks": {"onEvent": {"{$request.body#/url}": {"post": {"responses": {"200": {"description": "ok"}}}}}},
        "x-comp-ext": {"k": "v"},
    },
}


def check(ctx):
    ctx.proof = core.proof_stage("C14", thorough=ctx.thorough)
    ok, out = core.ensure_runner()
    if not ok:
        ctx.broken.append("runner build failed: " + out[-300:])
    ok, out = core.ensure_harness()
    if not ok:
        ctx.broken.append("harness build against /repo failed: " + out[-600:])
        return core.finish(ctx)
    if ctx.replay:
        v = json.load(open(ctx.replay))
        ps = [dict(v["input"]["program"], features=[], ast=None)]
        bases = [v["input"]["base"]]
    else:
        n = 4500 if ctx.thorough else 250
        ps = progs.gen_programs(ctx, n)
        # programs without any component, to meet bases that carry schemas
        for i in range(0, n, 10):
            ps[i] = {"mods": {"file:///w/main.oal": "res /plain%d on get -> <{ 'a num }>;\n" % i}, "main": "file:///w/main.oal",
                     "features": ["no-components"], "ast": None}
        for i in range(5, n, 25):
            ps[i] = {"mods": {"file:///w/main.oal": "# tags: [t1, extra]\nlet o = get -> <{}>;\nres /tagged%d on o;\n" % i},
                     "main": "file:///w/main.oal", "features": ["op-tags"], "ast": None}
        bases = [rand_base(ctx.rng, named_refs(p), path_keys(p)) for p in ps]
        for i in (0, 1, 5, 10, 11):        # a base with every section of the format, against each kind of program
            if i < len(bases):
                bases[i] = json.loads(json.dumps(FULL_BASE))
    progs.feature_stats(ctx, ps)
    if not ctx.replay:
        # the JSON-level theorems are about Model/BuilderBase.v: tie it to Builder::with_base (identical merged documents)
        from . import evaltie
        k = 1800 if ctx.thorough else 120
        evaltie.run(ctx, [dict({"mods": p["mods"], "main": p["main"]}, base=json.dumps(b)) for p, b in list(zip(ps, bases))[:k]])
    plain = progs.compile_many(ps)
    with_base = progs.compile_many([dict(p, base=json.dumps(b)) for p, b in zip(ps, bases)])
    mlines = []
    tables = []
    for p, b, r0, r1 in zip(ps, bases, plain, with_base):
        if r1.get("status") != "ok" or r0.get("status") != "ok":
            mlines.append("?")
            tables.append(None)
            continue
        bn = r1["base_norm"]
        names = {}
        vals = {}

        def vid(v):
            vals[len(vals) + 1000] = v
            return len(vals) + 999
        members = []
        for k, v in bn.items():
            if k == "components":
                members.append("%d=m:%s" % (key_id(k, names), ",".join("%d:%d" % (key_id(ck, names), vid(cv)) for ck, cv in v.items())))
            else:
                members.append("%d=o:%d" % (key_id(k, names), vid(v)))
        pid = vid(r0["doc"]["paths"])
        sch = r0["doc"].get("components", {}).get("schemas")
        sid = str(vid(sch)) if sch else "-"
        mlines.append("M %d %s | B %s" % (pid, sid, " ".join(members)))
        tables.append((names, vals))
    model = core.run_stateless(core.RUNNER, "merge", mlines) if not ctx.broken else None
    for i, (p, b, r0, r1) in enumerate(zip(ps, bases, plain, with_base)):
        ctx.cov["evaluations"] += 1
        inp = {"program": progs.source_of(p), "base": b}
        if r0.get("status") != "ok":
            ctx.count("rejected_" + r0.get("status", "?"))
            continue
        if r1.get("status") != "ok":
            if r1.get("phase") == "base":
                ctx.count("base_not_deserialisable")
                continue
            ctx.violation("compiling with a base description fails although the program alone compiles", inp, "ok", r1)
            continue
        doc, bn, d0 = r1["doc"], r1["base_norm"], r0["doc"]
        # O14: frame
        for k in set(doc) | set(bn):
            if k in ("paths", "components"):
                continue
            if doc.get(k) != bn.get(k):
                ctx.violation("a top-level member other than paths/components differs from the base", dict(inp, member=k), bn.get(k), doc.get(k))
        bc = bn.get("components", {}) or {}
        dc = doc.get("components", {}) or {}
        for k in set(bc) | set(dc):
            if k == "schemas":
                continue
            if bc.get(k) != dc.get(k):
                ctx.violation("a component section other than schemas differs from the base", dict(inp, member="components." + k), bc.get(k), dc.get(k))
        if doc.get("paths") != d0.get("paths"):
            ctx.violation("paths do not come entirely from the program when a base is supplied", inp, d0.get("paths"), doc.get("paths"))
        if dc.get("schemas") != (d0.get("components", {}) or {}).get("schemas"):
            ctx.violation("schema components do not come entirely from the program when a base is supplied", inp,
                          (d0.get("components", {}) or {}).get("schemas"), dc.get("schemas"))
        # tie: rebuild the document from the model's answer
        if model is not None and tables[i] is not None and model[i] and not model[i].startswith("?"):
            names, vals = tables[i]
            inv = {v: k for k, v in list(NAMES.items()) + list(names.items())}
            exp = {}
            for w in model[i].split():
                k, v = w.split("=", 1)
                if v.startswith("o:"):
                    exp[inv[int(k)]] = vals[int(v[2:])]
                else:
                    body = v[2:]
                    exp[inv[int(k)]] = {inv[int(a)]: vals[int(c)] for a, c in (x.split(":") for x in body.split(",") if x)}
            if exp != doc:
                ctx.count("tie_disagreements")
                if len(ctx.broken) < 10:
                    diff = [k for k in set(exp) | set(doc) if exp.get(k) != doc.get(k)]
                    ctx.broken.append("L6m disagreement on members %s for base %s" % (diff, json.dumps(b)[:200]))
            else:
                ctx.cov["traces_validated_against_impl"] += 1
        if len(bn) > 4 and "components" in bn:
            ctx.count("nontrivial")
        if i in (1, 7, 30):
            ctx.sample({"base_members": list(bn), "base_components": list(bc), "program": p["mods"][p["main"]][:200]})
    ctx.cov["distinct_nontrivial"] = ctx.cov["distribution"].get("nontrivial", 0)
    ctx.cov["rule"] = ("generated programs (type-directed generator, plus component-free and tag-annotated programs) x random base documents over the "
                       "OpenAPI 3.0 object model (info, servers, tags, security, externalDocs, extensions, paths, 7 component kinds); the base is deserialised "
                       "exactly as oal-cli does (serde_yaml into openapiv3::OpenAPI); distinct_nontrivial = cases whose base has >4 members incl. components")
    ctx.assumptions = ["what openapiv3 cannot represent in a base is outside the claim (compared after deserialisation)",
                       "member values are opaque in the model; their equality is checked by the monitor on the implementation's output"]
    return core.finish(ctx)
