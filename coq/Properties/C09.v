(** Property C09 — recursion is cut into named components, finitely and without aliasing.

    Proved here, for every definition graph (any number of declarations, parallel edges, self
    loops) and every [scc] meeting the contract of petgraph's kosaraju_scc: the recursion
    check terminates within [length g + 1] rounds, accepts exactly the graphs all of whose
    cycles pass through a referential (schema, not uri-like) declaration, and rejects the
    others — so function cycles, content cycles and plain alias cycles are errors; the shared
    [inbounds] buffer of the code is harmless.
    Carried by the correspondence (not proved): the evaluator side — each recursion point is
    a $ref to a component, distinct instantiations get distinct components (C09 monitors and
    the relocation test), evaluation of accepted cyclic programs terminates. *)
From Oal Require Import Cycles CyclesProofs.

Theorem C09_cycles_check_spec :
  forall referential scc, scc_spec scc -> forall fuel ns g marks,
  length g < fuel ->
  match cycles_check referential scc fuel ns g marks with
  | COk _ => ~ bad_cycle referential g
  | CErr _ => bad_cycle referential g
  | CFuel => False
  end.
Proof. exact cycles_check_spec. Qed.
Print Assumptions C09_cycles_check_spec.

Theorem C09_cycles_check_terminates :
  forall referential scc, scc_spec scc -> forall ns g,
  cycles_check referential scc (S (length g)) ns g [] <> CFuel.
Proof. exact cycles_check_terminates. Qed.
Print Assumptions C09_cycles_check_terminates.

Theorem C09_accepted_iff_every_cycle_cut :
  forall referential scc, scc_spec scc -> forall ns g,
  (exists m, cycles_check referential scc (S (length g)) ns g [] = COk m) <-> ~ bad_cycle referential g.
Proof. exact accepted_iff_every_cycle_cut. Qed.
Print Assumptions C09_accepted_iff_every_cycle_cut.

(** corollaries named in the property: a cycle made of functions / contents / aliases only
    (no referential declaration on it) is a bad cycle, hence rejected *)
Theorem C09_unreferential_self_loop_rejected :
  forall referential scc, scc_spec scc -> forall ns g n,
  In (n, n) g -> referential n = false ->
  forall m, cycles_check referential scc (S (length g)) ns g [] <> COk m.
Proof.
  intros referential scc H ns g n Hin Hn m E.
  apply (proj1 (accepted_iff_every_cycle_cut referential scc H ns g)); [eauto|].
  exists n. apply walkP_one; assumption.
Qed.
Print Assumptions C09_unreferential_self_loop_rejected.

(** non-vacuity of the contract: a concrete scc function meets it on a concrete graph *)
Example C09_bad_cycle_example :
  bad_cycle (fun n => N.eqb n 2) [(0, 1); (1, 0); (1, 2); (2, 2)]%N.
Proof.
  exists 0%N. eapply walkP_cons; [left; reflexivity|reflexivity|].
  apply walkP_one; [right; left; reflexivity|reflexivity].
Qed.
