"""C17 — go-to-definition and find-references mirror the compiler's binding relation.
Monitor O17 on the real oal-lsp binary: every cursor position inside every identifier use of
generated multi-module programs (definition must be the construct the compiler bound),
positions that are not identifiers (empty), references of every declaration (exactly the
uses bound to it across the folder, as a set), and the inverse law."""
import json
import os
from . import core, lsp, lspws


def loc_key(l):
    r = l["range"]
    return (l["uri"], r["start"]["line"], r["start"]["character"], r["end"]["line"], r["end"]["character"])


def check_workspace(ctx, files, tag):
    root = lspws.fresh_dir("c17_" + tag)
    lsp.write_workspace(root, files)
    from . import progs
    acc = progs.compile_many([{"mods": {"file://%s/%s" % (root, n): t for n, t in files.items()}, "main": "file://%s/main.oal" % root}])[0]
    if acc.get("status") != "ok":
        ctx.count("workspace_not_accepted")      # the server only answers for folders whose program is accepted
        return
    b = lspws.bindings(files, root)
    if b is None:
        ctx.count("workspace_not_resolvable")
        return
    texts = {"file://%s/%s" % (root, n): t for n, t in files.items()}
    # the binding relation the answers are compared with is the compiler's own; that it is the lexical one is C08, whose
    # tie (real resolve = Resolve.resolve_module) is run on every module of the workspace as well
    from . import c08
    c08.resolve_tie(ctx, [{"mods": texts, "main": u} for u in sorted(texts)])
    if ctx.violations:
        return
    srv = lsp.Server(root)
    inp = {"files": files}
    try:
        srv.initialize()
        main_uri = "file://%s/main.oal" % root
        srv.open(main_uri, texts[main_uri])
        # definition at every position of every use
        for loc, info in b.items():
            text = texts[loc]
            for u in info["uses"]:
                tgt = lspws.def_target(b, loc, u)
                if tgt is None:
                    exp = []
                else:
                    f, n = tgt
                    sp = b[f]["spans"].get(n)
                    if sp is None:
                        continue
                    exp = {"uri": f, "range": lspws.rng_of(texts[f], sp["span"][0], sp["span"][1])}
                offs = sorted(set([u["s"], (u["s"] + u["e"]) // 2, u["e"] - 1, u["is"], u["ie"] - 1]))
                for off in offs:
                    line, col = lspws.pos_of(text, off)
                    r = srv.pos_request("textDocument/definition", loc, line, col)
                    ctx.cov["evaluations"] += 1
                    if "result" not in r:
                        ctx.violation("the server does not answer a definition request (error, exit or timeout)",
                                      dict(inp, file=loc, position=[line, col]), "a result", str(r)[:300])
                        return
                    got = r["result"]
                    ok = (got == exp) or (exp != [] and isinstance(got, dict) and loc_key(got) == loc_key(exp))
                    if not ok:
                        ctx.violation("go-to-definition on an identifier use does not return the location of the construct that binds it",
                                      dict(inp, file=loc, position=[line, col], use=u["x"]), exp, got)
                        return
            # non-identifier positions: start of file, whitespace after `let`, punctuation
            for probe in [" = ", ";", "{ ", "let "]:
                k = text.find(probe)
                if k >= 0:
                    off = k + (len(probe) - 1 if probe != "let " else 1)
                    inside = any(u["s"] <= off < u["e"] for u in info["uses"])
                    if inside:
                        continue
                    line, col = lspws.pos_of(text, off)
                    r = srv.pos_request("textDocument/definition", loc, line, col)
                    ctx.cov["evaluations"] += 1
                    if r.get("result") not in ([], None):
                        ctx.violation("a definition request at a position that is not an identifier use returns a location",
                                      dict(inp, file=loc, position=[line, col]), [], r.get("result"))
                        return
        # references of every declaration
        for loc, info in b.items():
            text = texts[loc]
            for n, sp in info["spans"].items():
                if sp["kind"] != "decl":
                    continue
                exp = set()
                for l2, i2 in b.items():
                    for u in i2["uses"]:
                        if lspws.def_target(b, l2, u) == (loc, n):
                            rr = lspws.rng_of(texts[l2], u["is"], u["ie"])
                            exp.add((l2, rr["start"]["line"], rr["start"]["character"], rr["end"]["line"], rr["end"]["character"]))
                line, col = lspws.pos_of(text, sp["ident"][0])
                r = srv.pos_request("textDocument/references", loc, line, col, {"context": {"includeDeclaration": False}})
                ctx.cov["evaluations"] += 1
                if "result" not in r:
                    ctx.violation("the server does not answer a references request", dict(inp, file=loc, position=[line, col]), "a result", str(r)[:300])
                    return
                got = r["result"] or []
                gset = set(loc_key(x) for x in got)
                if gset != exp or len(got) != len(gset):
                    ctx.violation("find-references on a declaration does not return exactly the uses bound to it across the folder",
                                  dict(inp, file=loc, declaration=sp["name"]), sorted(exp), sorted(gset) if len(got) == len(gset) else got)
                    return
                # inverse: every reference goes back to the declaration
                for x in got[:3]:
                    r2 = srv.pos_request("textDocument/definition", x["uri"], x["range"]["start"]["line"], x["range"]["start"]["character"])
                    ctx.cov["evaluations"] += 1
                    want = {"uri": loc, "range": lspws.rng_of(text, sp["span"][0], sp["span"][1])}
                    g2 = r2.get("result")
                    if not (isinstance(g2, dict) and loc_key(g2) == loc_key(want)):
                        ctx.violation("a reference returned for a declaration does not go back to that declaration", dict(inp, reference=x), want, g2)
                        return
                if exp:
                    ctx.count("declarations_with_references")
        # the folder-level handlers model (coq/Model/Folder.v) on the compiler's binding relation, against the server
        from . import handlers_tie
        if not handlers_tie.run(ctx, srv, b, texts, inp, kinds=(0, 1), per_module=(60 if ctx.thorough else 30)):
            return
        if not srv.alive():
            ctx.violation("the language server exited during definition/references requests", inp, "alive", "".join(srv.stderr[-5:]))
        ctx.count("workspaces")
        if len(files) > 1:
            ctx.count("nontrivial")
    finally:
        srv.stop()


def check(ctx):
    ctx.proof = core.proof_stage("C17", thorough=ctx.thorough)
    ok, out = core.ensure_harness()
    ok2, out2 = core.ensure_repo_bins()
    if not ok or not ok2:
        ctx.broken.append("build against /repo failed: " + (out + out2)[-600:])
        return core.finish(ctx)
    if ctx.replay:
        v = json.load(open(ctx.replay))
        check_workspace(ctx, v["input"]["files"], "replay")
        return core.finish(ctx)
    # corpus first
    corpus = [
        {"main.oal": 'use "lib.oal";\nlet id = num;\nlet f name = { \'a name, \'b id };\nres /x on get -> <f name>;\n',
         "lib.oal": "// é😉 comment line\n\nlet ident = num;\nlet name = str;\n"},
        {"main.oal": 'use "a.oal" as l;\nuse "b.oal" as k;\nres /m on get -> <{ \'p l.name, \'q k.other, \'r l.name }>;\n',
         "a.oal": "let name = str;\nlet x = { 'n name };\n", "b.oal": "let other = { 'n [other] };\n"},
    ]
    corpus.append({"main.oal": 'use "a.oal" as a;\nuse "b.oal" as b;\nuse "lib.oal" as l;\nres /m on get -> <{ \'p a.x, \'q b.x, \'r l.name, \'s l.name }>;\n',
                   "a.oal": 'use "lib.oal" as l;\nlet x = { \'n l.name };\n', "b.oal": 'use "lib.oal" as l;\nlet x = { \'n l.name };\n',
                   "lib.oal": "let name = str;\n"})
    corpus.append({"main.oal": 'use "lib/types.oal" as t;\nuse "lib/paths.oal";\nlet item = num;\nlet wrap item = { \'v item, \'id t.item };\nres /items on get -> <wrap str>;\nres /boxed on get -> <{ \'b boxed, \'i t.item }>;\n',
                   "lib/types.oal": "let item = str;\n", "lib/paths.oal": 'use "types.oal" as ty;\nuse "../top.oal" as up;\nlet boxed = { \'x ty.item, \'y up.z };\n',
                   "top.oal": "let z = int;\n"})
    # a rec binder that reuses the name of a parameter, used again after the recursion
    corpus.append({"main.oal": 'use "mod.oal" as m;\nlet node x = { \'label m.name, \'sub rec x { \'id m.x, \'kids [x] }, \'payload x };\nres /n on get -> <node num>;\n',
                   "mod.oal": "let name = str;\nlet x = int;\n"})
    # one scope receiving a name twice: the later binder wins (repeated parameter; two modules under one qualifier)
    corpus.append({"main.oal": 'use "lib_c.oal" as m;\nuse "lib_d.oal" as m;\nlet f p p = { \'a p };\nlet w = m.v;\nres /x on get -> <f num str> :: <status=404, w>;\n',
                   "lib_c.oal": "let v = bool;\n", "lib_d.oal": "let v = int;\n"})
    n = 120 if ctx.thorough else 10
    wss = corpus + [lspws.gen_workspace(ctx.rng) for _ in range(n)]
    for i, files in enumerate(wss):
        check_workspace(ctx, files, str(i))
        if len(ctx.violations) > 3:
            break
        if i < 2:
            ctx.sample({"files": files})
    ctx.cov["distinct_nontrivial"] = ctx.cov["distribution"].get("nontrivial", 0)
    ctx.cov["traces_validated_against_impl"] = ctx.cov["distribution"].get("workspaces", 0)
    ctx.cov["rule"] = ("corpus + generated shadowing-heavy workspaces (1-3 modules in the same or in nested directories with relative import paths incl. `../`, qualified and unqualified imports, comments with multi-byte characters so "
                       "that byte and UTF-16 columns and line numbers differ between files); against the real oal-lsp: definition at start/middle/end of every "
                       "use and of its identifier part, probes at non-identifier positions, references of every declaration with the inverse law; expected "
                       "answers from the compiler's own resolve (harness) and python position arithmetic. distinct_nontrivial = multi-module workspaces")
    ctx.assumptions = ["result order of references follows a HashMap iteration in the server and is compared as a set",
                       "the binding relation used as oracle is the compiler's resolve, itself tied to the Coq model in C08"]
    return core.finish(ctx)
