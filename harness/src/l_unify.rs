//! Layer L4u: the unifier (same protocol as runner/l_unify.ml).
use oal_compiler::verif::{reduce, FuncTag, InferenceSet, Seq, Tag, TagId};
use oal_model::locator::Locator;
use oal_model::span::Span;
use std::io::{BufRead, Write};

const BASES: [Tag; 11] = [
    Tag::Text,
    Tag::Number,
    Tag::Status,
    Tag::Primitive,
    Tag::Relation,
    Tag::Object,
    Tag::Content,
    Tag::Transfer,
    Tag::Array,
    Tag::Uri,
    Tag::Any,
];

/// Variables come from two modules alternately, as in the inference of a module that imports
/// declarations whose tags still have variables: V0 and V1 (V2 and V3, ...) have the same
/// sequence number and differ by their module only.
pub struct Vars {
    seq: Seq,
    seq2: Seq,
    ids: Vec<TagId>,
}

impl Vars {
    pub fn new(loc: Locator) -> Self {
        let other = Locator::try_from("file:///imported.oal").unwrap();
        Vars { seq: Seq::new(loc), seq2: Seq::new(other), ids: Vec::new() }
    }
    pub fn get(&mut self, i: usize) -> TagId {
        while self.ids.len() <= i {
            let id = if self.ids.len() % 2 == 0 { self.seq.next() } else { self.seq2.next() };
            self.ids.push(id);
        }
        self.ids[i].clone()
    }
    pub fn index(&self, id: &TagId) -> Option<usize> {
        self.ids.iter().position(|x| x == id)
    }
    pub fn len(&self) -> usize {
        self.ids.len()
    }
}

fn parse_tag<'a>(ws: &mut std::slice::Iter<'a, &'a str>, vars: &mut Vars) -> Tag {
    let w = *ws.next().expect("tag");
    match w {
        "P" => Tag::Property(Box::new(parse_tag(ws, vars))),
        "F" => {
            let n: usize = ws.next().unwrap().parse().unwrap();
            let bindings = (0..n).map(|_| parse_tag(ws, vars)).collect();
            let range = Box::new(parse_tag(ws, vars));
            Tag::Func(FuncTag { bindings, range })
        }
        "V" => {
            let i: usize = ws.next().unwrap().parse().unwrap();
            Tag::Var(vars.get(i))
        }
        _ => BASES[w[1..].parse::<usize>().unwrap()].clone(),
    }
}

pub fn show_tag(t: &Tag, vars: &Vars) -> String {
    match t {
        Tag::Property(p) => format!("P {}", show_tag(p, vars)),
        Tag::Func(f) => {
            let mut s = format!("F {} ", f.bindings.len());
            for b in f.bindings.iter() {
                s.push_str(&show_tag(b, vars));
                s.push(' ');
            }
            s.push_str(&show_tag(&f.range, vars));
            s
        }
        Tag::Var(id) => match vars.index(id) {
            Some(i) => format!("V {}", i),
            None => "V ?".to_owned(),
        },
        b => format!("B{}", BASES.iter().position(|x| x == b).unwrap()),
    }
}

pub fn run() {
    let stdin = std::io::stdin();
    let stdout = std::io::stdout();
    let mut out = stdout.lock();
    let loc = Locator::try_from("file:///t.oal").unwrap();
    for line in stdin.lock().lines() {
        let line = line.unwrap();
        let ws: Vec<&str> = line.split_whitespace().collect();
        if ws.first() != Some(&"E") {
            writeln!(out, "?").unwrap();
            continue;
        }
        let k: usize = ws[1].parse().unwrap();
        let mut it = ws[2..].iter();
        let mut vars = Vars::new(loc.clone());
        let mut set = InferenceSet::new();
        for i in 0..k {
            let l = parse_tag(&mut it, &mut vars);
            let r = parse_tag(&mut it, &mut vars);
            set.push(l, r, Some(Span::new(loc.clone(), i..i)));
        }
        let res = std::panic::catch_unwind(std::panic::AssertUnwindSafe(|| set.unify()));
        match res {
            Err(_) => writeln!(out, "panic").unwrap(),
            Ok(Ok(sets)) => {
                let n = vars.len();
                let outs: Vec<String> = (0..n)
                    .map(|i| {
                        let v = Tag::Var(vars.get(i));
                        show_tag(&reduce(&sets, &v), &vars)
                    })
                    .collect();
                writeln!(out, "ok {}", outs.join(";")).unwrap();
            }
            Ok(Err(e)) => {
                let msg = e.to_string();
                let kind = if msg.contains("recursive type") {
                    "recursive"
                } else if msg.contains("arity") {
                    "arity"
                } else if msg.contains("does not match") {
                    "mismatch"
                } else {
                    "other"
                };
                let idx = e.span().map(|s| s.start() as i64).unwrap_or(-1);
                writeln!(out, "err {} {}", kind, idx).unwrap();
            }
        }
        out.flush().unwrap();
    }
}
