(** Property C15 — language-server answers depend only on current texts, not on edit history.

    Proved here, for every history of any length over any number of documents: after any
    sequence of open / (multi-)change / close notifications whose incremental changes denote
    text spans of the client's own document (positions computed by the client, texts with
    LF / CRLF line ends, no range end inside a CRLF pair), the server has not died and its
    store equals the client's ([docs_track_client]); an ordered change range (start position not after the end
    position, same line or not) never panics whatever the positions, hence the server survives
    every history of ordered changes ([server_survives]; F5 fixed; the pinned conversion is
    refuted by a witness). Since every answer and every diagnostic is computed by a refresh
    from the store (and, for files not open, from disk), equality of stores is the core of
    history independence. The diagnostics bookkeeping is modelled (Model/Diag.v: what
    Workspace::diagnostics publishes given the documents of the store, the locators whose last
    diagnostics were not empty and the errors of the compilation; tied to the real Workspace on
    every run): after every refresh the client shows, for every locator, exactly the errors of
    the compilation just made, whatever came before ([C15_diagnostics_track_current_errors]),
    hence the same as the client of a fresh server after one refresh on the same store and errors
    ([C15_diagnostics_history_independent]); the pinned bookkeeping (before F7) is refuted by a
    witness. That the errors of a compilation depend only on the store and the disk is the
    determinism of the compiler (C06). The main loop itself is modelled too (Model/Loop.v:
    notifications change the texts and mark the state stale; a request or an idle second
    refreshes first — every folder evaluated again on the current texts, diagnostics
    published — and a request is answered from that evaluation; texts, evaluation and handlers
    are parameters): after any history of notifications, requests and idle seconds, a request is
    answered, and the client shows diagnostics, exactly as with a server just started on the
    current texts ([C15_loop_history_independent]); a notification that does not mark the state
    stale breaks this (witness). The loop model has no executable counterpart in the harness
    (the loop lives in the binary): its conclusion is what the history-against-fresh-server
    monitor checks on the real oal-lsp. Liveness on failing requests (F6) and the timing of
    refreshes are carried by the monitors on the real binary. *)
From Oal Require Import Text Position PositionProofs Lsp LspProofs.
From Oal Require Diag DiagProofs Loop LoopProofs.

Theorem C15_docs_track_client : forall h s,
  wf_history s h -> run s (map ev_to_server h) = Some (client_run s h).
Proof. exact docs_track_client. Qed.
Print Assumptions C15_docs_track_client.

Theorem C15_edit_applies_exactly : forall a b c w,
  crlf_wf (a ++ b ++ c) = true ->
  inside_crlf a (b ++ c) = false -> inside_crlf (a ++ b) c = false ->
  apply_change (a ++ b ++ c)
    (CIncr (fst (client_pos a)) (snd (client_pos a)) (fst (client_pos (a ++ b))) (snd (client_pos (a ++ b))) w)
  = Some (a ++ w ++ c).
Proof. exact edit_applies_exactly. Qed.
Print Assumptions C15_edit_applies_exactly.

Theorem C15_change_never_panics : forall doc sl sc el ec w,
  pos_le sl sc el ec -> apply_change doc (CIncr sl sc el ec w) <> None.
Proof. exact change_never_panics. Qed.
Print Assumptions C15_change_never_panics.

(** the server process stays alive: any history of any length whose incremental changes are
    ordered ranges (start not after end, as the protocol requires) -- at arbitrary positions,
    beyond the line, beyond the text, inside surrogate or CRLF pairs, on any store -- never
    reaches the panic state *)
Theorem C15_server_survives : forall h, Forall ordered_event h -> forall s, run s h <> None.
Proof. exact server_survives. Qed.
Print Assumptions C15_server_survives.

Theorem C15_mid_surrogate_crash_pinned_refuted :
  let doc := [128521; 97; 98; 99]%N in
  replace_range doc (p2u_go_pinned doc 0 1 0 0 0) (p2u_go_pinned doc 0 3 0 0 0) [122%N] = None
  /\ apply_change doc (CIncr 0 1 0 3 [122%N]) = Some [128521; 122; 98; 99]%N.
Proof. exact mid_surrogate_crash_pinned. Qed.
Print Assumptions C15_mid_surrogate_crash_pinned_refuted.

(** non-vacuity: a two-change notification on a document with an astral character and CRLF *)
Example C15_wf_history_inhabited :
  wf_history [] [COpen 1 [97; 128521; CR; LF; 98];
                 CChange 1 [KSpan [97] [128521] [CR; LF; 98] [120; 121]; KSpan [97; 120; 121; CR; LF] [98] [] []];
                 CClose 1].
Proof.
  cbn. repeat split; reflexivity.
Qed.

(** diagnostics bookkeeping: nothing stale survives a refresh *)
Theorem C15_refresh_exact : forall st docs errs, DiagProofs.inv st ->
  (forall l, Diag.vget (Diag.s_view (Diag.refresh st docs errs)) l = Diag.errs_of l errs) /\ DiagProofs.inv (Diag.refresh st docs errs).
Proof. exact DiagProofs.refresh_exact. Qed.
Print Assumptions C15_refresh_exact.

Theorem C15_diagnostics_track_current_errors : forall h docs errs l,
  Diag.vget (Diag.s_view (DiagProofs.run DiagProofs.fresh (h ++ [(docs, errs)]))) l = Diag.errs_of l errs.
Proof. exact DiagProofs.diagnostics_track_current_errors. Qed.
Print Assumptions C15_diagnostics_track_current_errors.

Theorem C15_diagnostics_history_independent : forall h docs errs l,
  Diag.vget (Diag.s_view (DiagProofs.run DiagProofs.fresh (h ++ [(docs, errs)]))) l =
  Diag.vget (Diag.s_view (DiagProofs.run DiagProofs.fresh [(docs, errs)])) l.
Proof. exact DiagProofs.diagnostics_history_independent. Qed.
Print Assumptions C15_diagnostics_history_independent.

Theorem C15_stale_diagnostics_pinned_refuted :
  exists docs1 errs1 docs2 errs2 l,
    Diag.vget (Diag.apply_batch (Diag.apply_batch [] (Diag.diagnostics_pinned docs1 errs1)) (Diag.diagnostics_pinned docs2 errs2)) l <> Diag.errs_of l errs2.
Proof. exact DiagProofs.pinned_keeps_stale_diagnostics. Qed.
Print Assumptions C15_stale_diagnostics_pinned_refuted.

Example C15_refresh_clears :
  let st1 := Diag.refresh DiagProofs.fresh [1%N; 2%N] [(2%N, 7%N); (3%N, 8%N)] in
  let st2 := Diag.refresh st1 [1%N] [] in
  (Diag.vget (Diag.s_view st1) 2%N, Diag.vget (Diag.s_view st1) 3%N, Diag.s_reported st1) = ([7%N], [8%N], [2%N; 3%N]) /\
  (Diag.vget (Diag.s_view st2) 2%N, Diag.vget (Diag.s_view st2) 3%N, Diag.s_reported st2) = ([], [], []).
Proof. exact DiagProofs.ex_refresh_clears. Qed.

(** the main loop: answers and diagnostics after any history = those of a server just started on the current texts *)
Theorem C15_loop_request_after_history :
  forall (world fstate req ans : Type) (docs_of : world -> list Diag.loc)
         (eval_folders : world -> fstate * list (Diag.loc * Diag.diag)) (handle : fstate -> world -> req -> ans)
         (w : world) (fs0 : fstate) (h : list (Loop.event world req)) (r : req),
  let w' := Loop.world_after w h in
  let '(s, answers) := Loop.run docs_of eval_folders handle (Loop.start w fs0) (h ++ [Loop.Request r]) in
  last answers (handle fs0 w r) = handle (fst (eval_folders w')) w' r /\
  (forall l, Diag.vget (Diag.s_view (Loop.l_sc s)) l = Diag.errs_of l (snd (eval_folders w'))) /\
  Loop.l_world s = w'.
Proof. exact LoopProofs.request_after_history. Qed.
Print Assumptions C15_loop_request_after_history.

Theorem C15_loop_history_independent :
  forall (world fstate req ans : Type) (docs_of : world -> list Diag.loc)
         (eval_folders : world -> fstate * list (Diag.loc * Diag.diag)) (handle : fstate -> world -> req -> ans)
         (w : world) (fs0 fs1 : fstate) (h : list (Loop.event world req)) (r : req),
  let w' := Loop.world_after w h in
  let '(s, answers) := Loop.run docs_of eval_folders handle (Loop.start w fs0) (h ++ [Loop.Request r]) in
  let '(s', answers') := Loop.run docs_of eval_folders handle (Loop.start w' fs1) [Loop.Request r] in
  last answers (handle fs0 w r) = last answers' (handle fs1 w' r) /\
  forall l, Diag.vget (Diag.s_view (Loop.l_sc s)) l = Diag.vget (Diag.s_view (Loop.l_sc s')) l.
Proof. exact LoopProofs.loop_history_independent. Qed.
Print Assumptions C15_loop_history_independent.

Theorem C15_loop_idle_publishes_current_errors :
  forall (world fstate req ans : Type) (docs_of : world -> list Diag.loc)
         (eval_folders : world -> fstate * list (Diag.loc * Diag.diag)) (handle : fstate -> world -> req -> ans)
         (w : world) (fs0 : fstate) (h : list (Loop.event world req)),
  let w' := Loop.world_after w h in
  forall l, Diag.vget (Diag.s_view (Loop.l_sc (fst (Loop.run docs_of eval_folders handle (Loop.start w fs0) (h ++ [Loop.Idle]))))) l
            = Diag.errs_of l (snd (eval_folders w')).
Proof. exact LoopProofs.idle_after_history. Qed.
Print Assumptions C15_loop_idle_publishes_current_errors.

Example C15_lazy_notification_refuted :
  let docs_of (w : N) := [1%N] in
  let eval_folders (w : N) := (w, [(1%N, w)]) in
  let handle (fs w r : N) := fs in
  let s0 : Loop.lstate N N := Loop.start 5%N 0%N in
  let s1 := fst (Loop.step docs_of eval_folders handle s0 (Loop.Request 0%N)) in
  let s2 := fst (Loop.step_lazy docs_of eval_folders handle s1 (Loop.Notify (fun _ => 6%N))) in
  let '(s3, a) := Loop.step docs_of eval_folders handle s2 (Loop.Request 0%N) in
  a = Some 5%N /\ Diag.vget (Diag.s_view (Loop.l_sc s3)) 1%N = [5%N] /\ Loop.l_world s3 = 6%N.
Proof. exact LoopProofs.lazy_notification_is_stale. Qed.
