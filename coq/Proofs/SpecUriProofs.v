(** Proofs about Model/SpecUri.v (property C03). *)
From Coq Require Import Lia.
From Oal Require Import SpecUri.

Lemma braces_lit l : forall r, no_char LB l = true -> braces (l ++ r) None = braces r None.
Proof.
  induction l as [|c l IH]; intros r H; [reflexivity|].
  cbn [no_char forallb] in H. apply andb_true_iff in H. destruct H as [Hc Hl].
  cbn [app braces]. apply negb_true_iff in Hc. rewrite Hc. apply IH. exact Hl.
Qed.

Lemma braces_name n : forall acc r, no_char RB n = true ->
  braces (n ++ RB :: r) (Some acc) = rev (rev n ++ acc) :: braces r None.
Proof.
  induction n as [|c n IH]; intros acc r H.
  - cbn [app braces rev]. rewrite N.eqb_refl. reflexivity.
  - cbn [no_char forallb] in H. apply andb_true_iff in H. destruct H as [Hc Hn].
    cbn [app braces]. apply negb_true_iff in Hc. rewrite Hc. rewrite IH by exact Hn.
    cbn [rev]. rewrite <- app_assoc. reflexivity.
Qed.

(** the {variables} readable in the path key are exactly the path parameters, in order *)
Theorem path_params_match segs :
  forallb wf_seg segs = true -> braces (pattern segs) None = path_params segs.
Proof.
  induction segs as [|s segs IH]; intros H; [reflexivity|].
  cbn [forallb] in H. apply andb_true_iff in H. destruct H as [Hs Hr].
  destruct s as [l|n]; cbn [pattern path_params braces].
  - assert (E : N.eqb SLASH LB = false) by reflexivity. rewrite E.
    rewrite braces_lit by exact Hs. apply IH, Hr.
  - assert (E : N.eqb SLASH LB = false) by reflexivity. rewrite E.
    rewrite N.eqb_refl. rewrite braces_name by exact Hs. rewrite app_nil_r, rev_involutive.
    f_equal. apply IH, Hr.
Qed.

(** response keys *)
Theorem number_status_valid v s : status_of_number v = Some s -> valid_key (response_key (Some s)) = true.
Proof.
  unfold status_of_number. destruct (N.leb 100 v && N.leb v 599) eqn:E; [|discriminate].
  intros H. inversion H; subst. exact E.
Qed.

Theorem literal_status_valid c s : status_of_literal c = Some s -> valid_key (response_key (Some s)) = true.
Proof.
  unfold status_of_literal. destruct (N.leb 49 c && N.leb c 53) eqn:E; [|discriminate].
  intros H. inversion H; subst. cbn. apply andb_true_iff in E. destruct E as [A B].
  apply N.leb_le in A. apply N.leb_le in B. apply andb_true_iff. split; apply N.leb_le; lia.
Qed.

Theorem default_key_valid : valid_key (response_key None) = true.
Proof. reflexivity. Qed.

Theorem out_of_range_rejected v : v < 100 \/ 599 < v -> status_of_number v = None.
Proof.
  intros H. unfold status_of_number.
  destruct (N.leb_spec 100 v); destruct (N.leb_spec v 599); cbn; try reflexivity; lia.
Qed.

(** K6: a path variable and a literal of the same spelling give the same derived operationId
    although the paths differ *)
Lemma operation_ids_refuted :
  exists m p q, pattern p <> pattern q /\ xfer_id m p = xfer_id m q.
Proof.
  exists [103; 101; 116], [SLit [97]; SVar [98]], [SLit [97]; SLit [98]].
  split; [discriminate|reflexivity].
Qed.
