(** Model of the evaluator, oal-compiler/src/{eval,annotation,spec,stdlib}.rs.

    The input is the resolved syntax tree of every module of a program as the front end
    leaves it (typed AST accessors of oal-syntax, [Core::definition], [Core::is_recursive]),
    transcribed by the harness; strings are interned numbers. [eval] is eval_any with its
    mutable Context made explicit: the table of references (insertion ordered), the stack of
    scopes with their identifiers, the scope counter. Every panic of the code (the cast_*
    functions, lookup of a binding, [Uri::append] on an empty path) is a [Panic] result,
    every evaluation error an [Err] result. Recursion is on explicit fuel ([Fuel] when
    exhausted: excluded by the statements). *)
From Coq Require Export List NArith ZArith Bool.
Export ListNotations.
Local Open Scope N_scope.

Definition str := N.

(** * annotations: serde_yaml values with string keys *)
Inductive yaml :=
| YNull
| YBool (b : bool)
| YInt (z : Z)
| YFlt (exact : option Z) (id : N)      (* a float; [exact] when it is integral *)
| YStr (s : str)
| YSeq (l : list yaml)
| YMap (m : list (str * yaml)).

Definition ymap := list (str * yaml).

(** annotation.rs deep_extend_value / deep_extend_mapping / deep_extend_sequence *)
Fixpoint ext_val (prev other : yaml) {struct other} : yaml :=
  match prev, other with
  | YMap pm, YMap om =>
      YMap ((fix go (om : list (str * yaml)) (pm : ymap) {struct om} : ymap :=
               match om with
               | [] => pm
               | (k, ov) :: om' =>
                   go om' ((fix up (pm : ymap) : ymap :=
                              match pm with
                              | [] => [(k, ov)]
                              | (k', pv) :: pm' =>
                                  if N.eqb k k' then (k', ext_val pv ov) :: pm' else (k', pv) :: up pm'
                              end) pm)
               end) om pm)
  | YSeq ps, YSeq os => YSeq (ps ++ os)
  | _, _ => other
  end.

Fixpoint ext_upd (k : str) (ov : yaml) (pm : ymap) : ymap :=
  match pm with
  | [] => [(k, ov)]
  | (k', pv) :: pm' => if N.eqb k k' then (k', ext_val pv ov) :: pm' else (k', pv) :: ext_upd k ov pm'
  end.

(** Annotation::extend *)
Fixpoint extend (pm om : ymap) : ymap :=
  match om with
  | [] => pm
  | (k, ov) :: om' => extend (ext_upd k ov pm) om'
  end.

Fixpoint yget (k : str) (m : ymap) : option yaml :=
  match m with [] => None | (k', v) :: m' => if N.eqb k k' then Some v else yget k m' end.

Inductive num := NumI (z : Z) | NumF (id : N).

Definition get_string (m : ymap) (k : str) : option str :=
  match yget k m with Some (YStr s) => Some s | _ => None end.
Definition get_bool (m : ymap) (k : str) : option bool :=
  match yget k m with Some (YBool b) => Some b | _ => None end.
Definition get_num (m : ymap) (k : str) : option num :=
  match yget k m with
  | Some (YInt z) => Some (NumI z)
  | Some (YFlt (Some z) _) => Some (NumI z)
  | Some (YFlt None id) => Some (NumF id)
  | _ => None
  end.
Definition get_int (m : ymap) (k : str) : option Z :=
  match yget k m with Some (YInt z) => if Z.leb z 9223372036854775807 then Some z else None | _ => None end.
Definition get_size (m : ymap) (k : str) : option Z :=
  match yget k m with Some (YInt z) => if Z.leb 0 z then Some z else None | _ => None end.
Fixpoint strs_of (l : list yaml) : list str :=
  match l with [] => [] | YStr s :: l' => s :: strs_of l' | _ :: l' => strs_of l' end.
Definition get_enum (m : ymap) (k : str) : option (list str) :=
  match yget k m with Some (YSeq l) => Some (strs_of l) | _ => None end.
Fixpoint props_of (l : list (str * yaml)) : list (str * str) :=
  match l with [] => [] | (k, YStr s) :: l' => (k, s) :: props_of l' | _ :: l' => props_of l' end.
Definition get_props (m : ymap) (k : str) : option (list (str * str)) :=
  match yget k m with Some (YMap l) => Some (props_of l) | _ => None end.

(** interned annotation keys (the harness interns them first, in this order) *)
Definition K_description : str := 1.  Definition K_title : str := 2.  Definition K_required : str := 3.
Definition K_examples : str := 4.     Definition K_summary : str := 5. Definition K_tags : str := 6.
Definition K_operationId : str := 7.  Definition K_example : str := 8. Definition K_minimum : str := 9.
Definition K_maximum : str := 10.     Definition K_multipleOf : str := 11. Definition K_pattern : str := 12.
Definition K_enum : str := 13.        Definition K_format : str := 14. Definition K_minLength : str := 15.
Definition K_maxLength : str := 16.
Definition S_empty : str := 0.        (* the empty string *)

(** * spec.rs *)
Inductive rkey := KNamed (s : str) | KDecl (m i : N) | KRec (m i sc : N).
Definition rkey_eqb (a b : rkey) : bool :=
  match a, b with
  | KNamed s, KNamed t => N.eqb s t
  | KDecl m i, KDecl m' i' => N.eqb m m' && N.eqb i i'
  | KRec m i s, KRec m' i' s' => N.eqb m m' && N.eqb i i' && N.eqb s s'
  | _, _ => false
  end.

Inductive status := StCode (n : N) | StRange (c : N).

(** the variadic operators a schema can be built with (VariadicOperator without Range: eval.rs builds a
    VariadicOp value only in the branch where the operator is not Range) *)
Inductive vop := OJoin | OAny | OSum.
Definition vop_of (op : N) : option vop :=
  match op with 0 => Some OJoin | 1 => Some OAny | 2 => Some OSum | _ => None end.
Definition status_eqb (a b : status) : bool :=
  match a, b with StCode n, StCode m => N.eqb n m | StRange c, StRange d => N.eqb c d | _, _ => false end.

Definition examples := option (list (str * str)).

Inductive schema :=
| Schema (e : sexpr) (desc title : option str) (req : option bool) (ex : examples)
with sexpr :=
| SNum (mn mx mo ex : option num)
| SStr (pattern : option str) (enum : list str) (format example : option str) (minl maxl : option Z)
| SBool
| SInt (mn mx mo ex : option Z)
| SRel (r : relation)
| SUri (u : uri)
| SArr (item : schema)
| SObj (ps : list property)
| SOp (op : vop) (ss : list schema)
| SRef (k : rkey)
with property := Prop_ (name : str) (s : schema) (desc : option str) (req : option bool)
with uri := Uri (path : list useg) (params : option (list property)) (example : option str)
with useg := ULit (s : str) | UVar (p : property)
with relation := Rel (u : uri) (xfers : list (option transfer))
with transfer :=
| Xfer (methods : list bool) (domain : content)
       (ranges : list ((option status * option str) * content))
       (params : option (list property)) (desc summary : option str) (tags : list str) (id : option str)
with content :=
| Content (s : option schema) (st : option status) (media : option str)
          (headers : option (list property)) (desc : option str) (ex : examples).

Definition rgkey := (option status * option str)%type.
Definition ranges := list (rgkey * content).

Definition opt_eqb {A} (f : A -> A -> bool) (a b : option A) : bool :=
  match a, b with None, None => true | Some x, Some y => f x y | _, _ => false end.
Definition rgkey_eqb (a b : rgkey) : bool :=
  opt_eqb status_eqb (fst a) (fst b) && opt_eqb N.eqb (snd a) (snd b).

(** IndexMap::insert: replaces the value in place, or appends *)
Section IndexMap.
  Context {K V : Type}.
  Variable eqb : K -> K -> bool.
  Fixpoint im_insert (k : K) (v : V) (m : list (K * V)) : list (K * V) :=
    match m with
    | [] => [(k, v)]
    | (k', v') :: m' => if eqb k k' then (k', v) :: m' else (k', v') :: im_insert k v m'
    end.
  Fixpoint im_get (k : K) (m : list (K * V)) : option V :=
    match m with [] => None | (k', v) :: m' => if eqb k k' then Some v else im_get k m' end.
  Definition im_extend (m o : list (K * V)) : list (K * V) :=
    fold_left (fun m kv => im_insert (fst kv) (snd kv) m) o m.
End IndexMap.

(** * eval.rs: values *)
Inductive value :=
| VUri (u : uri)
| VRel (r : relation)
| VXfer (t : transfer)
| VCont (c : content)
| VObj (ps : list property)
| VRanges (r : ranges)
| VProp (p : property)
| VPrim (e : sexpr)                          (* PrimInteger / PrimNumber / PrimString / PrimBoolean *)
| VOp (op : vop) (ss : list schema)
| VRef (k : rkey) (v : value) (a : ymap)     (* Expr::Reference(ident, Box<(Expr, AnnRef)>) *)
| VArr (item : schema)
| VStr (s : str)
| VNum (n : N)
| VStat (s : status)
| VLamInt                                     (* the built-in concat *)
| VLamExt (m i : N)
| VRecur (k : rkey).

Definition aval := (value * ymap)%type.

(** * the resolved syntax *)
Inductive expr :=
| ETerm (anns : list (option ymap)) (e : expr)      (* Terminal; None: annotation that is not valid YAML *)
| ESub (e : expr)
| EPrim (p : N)                                     (* 0 bool, 1 int, 2 num, 3 str, 4 uri *)
| ELitStr (s : str)
| ELitNum (n : N)
| ELitStat (s : status)
| EDecl (m i : N)                                   (* Variable defined by declaration [i] of module [m] *)
| EConcat                                           (* Variable defined by the built-in *)
| EBind (x : N)                                     (* Variable defined by a Binding node *)
| EApp (f : expr) (args : list expr)
| ERec (m i : N) (x : N) (e : expr)                 (* Recursion node [i] of module [m] *)
| EObj (ps : list expr)
| EProp (name : str) (req : option bool) (e : expr)
| EUnary (required : bool) (e : expr)
| EArr (e : expr)
| EOp (op : N) (es : list expr)                     (* 0 join, 1 any, 2 sum, 3 range *)
| ECont (body : option expr) (metas : list (N * expr))   (* 0 media, 1 headers, 2 status *)
| EXfer (methods : list N) (domain : option expr) (range : expr) (params : option expr)
| EUri (segs : list (str + expr)) (params : option expr)
| ERel (u : expr) (xfers : list expr).

Record decl := mk_decl {
  d_ref : option str;              (* Some s: the identifier is the reference @s *)
  d_rec : bool;                    (* Core::is_recursive *)
  d_anns : list (option ymap);
  d_params : list N;
  d_rhs : expr }.

Definition prog := list (list decl).

Definition get_decl (P : prog) (m i : N) : option decl :=
  match nth_error P (N.to_nat m) with Some ds => nth_error ds (N.to_nat i) | None => None end.

(** * results *)
Inductive res (A : Type) :=
| Ok (a : A)
| Err (e : N)        (* 1: not a valid HTTP status; 2: annotation is not valid YAML *)
| Panic (site : N)
| Fuel.
Arguments Ok {A}. Arguments Err {A}. Arguments Panic {A}. Arguments Fuel {A}.

Definition bind {A B} (r : res A) (f : A -> res B) : res B :=
  match r with Ok a => f a | Err e => Err e | Panic s => Panic s | Fuel => Fuel end.
Notation "'do' x <- r ; k" := (bind r (fun x => k)) (at level 200, x pattern, r at level 100, k at level 200).

(** panic sites *)
Definition P_schema : N := 1.   Definition P_content : N := 2.  Definition P_ranges : N := 3.
Definition P_string : N := 4.   Definition P_property : N := 5. Definition P_status : N := 6.
Definition P_object : N := 7.   Definition P_transfer : N := 8. Definition P_relation : N := 9.
Definition P_uri : N := 10.     Definition P_lambda : N := 11.  Definition P_binding : N := 12.
Definition P_decl : N := 13.    Definition P_concat_arity : N := 14. Definition P_append : N := 15.
Definition P_node : N := 16.
Definition P_arity : N := 17.      (* only in the lexical reference semantics: an under-applied function *)

(** * casts *)
Definition is_schema_like (v : value) : bool :=
  match v with
  | VObj _ | VPrim _ | VArr _ | VUri _ | VOp _ _ | VRef _ _ _ | VRel _ | VRecur _ => true
  | _ => false
  end.
Definition is_content_like (v : value) : bool := match v with VCont _ => true | _ => is_schema_like v end.

Definition cast_schema (va : aval) : res schema :=
  let '(v, ann) := va in
  let mk e := Ok (Schema e (get_string ann K_description) (get_string ann K_title)
                         (get_bool ann K_required) (get_props ann K_examples)) in
  match v with
  | VObj ps => mk (SObj ps)
  | VPrim e => mk e
  | VArr i => mk (SArr i)
  | VUri u => mk (SUri u)
  | VOp o ss => mk (SOp o ss)
  | VRef k _ _ => mk (SRef k)
  | VRel r => mk (SRel r)
  | VRecur k => mk (SRef k)
  | _ => Panic P_schema
  end.

Definition content_of_schema (s : schema) : content :=
  match s with Schema _ desc _ _ _ => Content (Some s) None None None desc None end.

Definition cast_content (va : aval) : res content :=
  match fst va with
  | VCont c => Ok c
  | v => if is_schema_like v then do s <- cast_schema va; Ok (content_of_schema s) else Panic P_content
  end.

Definition content_key (c : content) : rgkey := match c with Content _ st media _ _ _ => (st, media) end.

Definition cast_ranges (va : aval) : res ranges :=
  match fst va with
  | VRanges r => Ok r
  | v => if is_content_like v then do c <- cast_content va; Ok [(content_key c, c)] else Panic P_ranges
  end.

Fixpoint cast_string (v : value) : res str :=
  match v with VStr s => Ok s | VRef _ v' _ => cast_string v' | _ => Panic P_string end.
Fixpoint cast_property (v : value) : res property :=
  match v with VProp p => Ok p | VRef _ v' _ => cast_property v' | _ => Panic P_property end.
Fixpoint cast_http_status (v : value) : res status :=
  match v with
  | VStat s => Ok s
  | VNum n => if N.leb 100 n && N.leb n 599 then Ok (StCode n) else Err 1
  | VRef _ v' _ => cast_http_status v'
  | _ => Panic P_status
  end.
Fixpoint cast_object (v : value) : res (list property) :=
  match v with VObj ps => Ok ps | VRef _ v' _ => cast_object v' | _ => Panic P_object end.
Fixpoint cast_transfer (v : value) : res transfer :=
  match v with VXfer t => Ok t | VRef _ v' _ => cast_transfer v' | _ => Panic P_transfer end.
Fixpoint cast_uri (v : value) : res uri :=
  match v with
  | VUri u => Ok u
  | VRel (Rel u _) => Ok u
  | VRef _ v' _ => cast_uri v'
  | _ => Panic P_uri
  end.
Definition no_xfers : list (option transfer) := [None; None; None; None; None; None; None].
Fixpoint cast_relation (v : value) : res relation :=
  match v with
  | VRel r => Ok r
  | VUri u => Ok (Rel u no_xfers)
  | VRef _ v' _ => cast_relation v'
  | _ => Panic P_relation
  end.
Fixpoint cast_lambda (v : value) : res value :=
  match v with
  | VLamInt => Ok VLamInt
  | VLamExt m i => Ok (VLamExt m i)
  | VRef _ v' _ => cast_lambda v'
  | _ => Panic P_lambda
  end.

(** * the context *)
Definition scope := list (N * aval).
Record st := mk_st {
  refs : list (rkey * option aval);
  scopes : list (N * scope);           (* top of the stack first *)
  seq : N }.

Definition st0 : st := mk_st [] [] 0.

Definition set_refs (s : st) r := mk_st r (scopes s) (seq s).
Definition push_scope (s : st) (sc : scope) : st := mk_st (refs s) ((seq s + 1, sc) :: scopes s) (seq s + 1).
Definition pop_scope (s : st) : st := mk_st (refs s) (tl (scopes s)) (seq s).

(** Context::lookup_binding: the innermost scope of the whole stack that has the identifier *)
Fixpoint lookup_binding (x : N) (ss : list (N * scope)) : option aval :=
  match ss with
  | [] => None
  | (_, sc) :: ss' => match im_get N.eqb x sc with Some v => Some v | None => lookup_binding x ss' end
  end.

Definition top_scope_id (s : st) : N := match scopes s with [] => 0 | (id, _) :: _ => id end.

(** compose_annotations *)
Fixpoint compose (anns : list (option ymap)) (acc : ymap) : res ymap :=
  match anns with
  | [] => Ok acc
  | None :: _ => Err 2
  | Some a :: anns' => compose anns' (extend acc a)
  end.

Section MapSt.
  Context {A B : Type}.
  Variable f : st -> A -> res (st * B).
  Fixpoint map_st (s : st) (l : list A) : res (st * list B) :=
    match l with
    | [] => Ok (s, [])
    | a :: l' => do (s1, b) <- f s a; do (s2, bs) <- map_st s1 l'; Ok (s2, b :: bs)
    end.
End MapSt.

Definition opt_st {A B} (f : st -> A -> res (st * B)) (s : st) (o : option A) : res (st * option B) :=
  match o with None => Ok (s, None) | Some a => do (s1, b) <- f s a; Ok (s1, Some b) end.

Definition set_required (p : property) (b : bool) : property :=
  match p with Prop_ name s desc _ => Prop_ name s desc (Some b) end.

Definition useg_is_empty (u : useg) : bool := match u with ULit s => N.eqb s S_empty | UVar _ => false end.

(** Uri::append *)
Definition uri_append (l r : uri) : res uri :=
  match l, r with
  | Uri lp _ _, Uri rp rparams _ =>
      match rev lp with
      | [] => Panic P_append                              (* self.path.last().unwrap() *)
      | lastseg :: before => Ok (Uri ((if useg_is_empty lastseg then rev before else lp) ++ rp) rparams None)
      end
  end.

Fixpoint set_nth {A} (n : nat) (a : A) (l : list A) : list A :=
  match l, n with
  | [], _ => []
  | _ :: l', O => a :: l'
  | x :: l', S n' => x :: set_nth n' a l'
  end.

Definition method_bits (ms : list N) : list bool :=
  map (fun i => existsb (N.eqb i) ms) [0; 1; 2; 3; 4; 5; 6].

(** relation: [xfers[m] = Some(xfer.clone())] for every method of the transfer, in enum order *)
Definition add_xfer (xs : list (option transfer)) (t : transfer) : list (option transfer) :=
  match t with
  | Xfer ms _ _ _ _ _ _ _ =>
      fst (fold_left (fun '(xs, i) (b : bool) => (if b then set_nth i (Some t) xs else xs, S i)) ms (xs, O))
  end.

Definition prim_value (p : N) (ann : ymap) : res value :=
  match p with
  | 0 => Ok (VPrim SBool)
  | 1 => Ok (VPrim (SInt (get_int ann K_minimum) (get_int ann K_maximum) (get_int ann K_multipleOf) (get_int ann K_example)))
  | 2 => Ok (VPrim (SNum (get_num ann K_minimum) (get_num ann K_maximum) (get_num ann K_multipleOf) (get_num ann K_example)))
  | 3 => Ok (VPrim (SStr (get_string ann K_pattern)
                         (match get_enum ann K_enum with Some l => l | None => [] end)
                         (get_string ann K_format) (get_string ann K_example)
                         (get_size ann K_minLength) (get_size ann K_maxLength)))
  | 4 => Ok (VUri (Uri [] None (get_string ann K_example)))
  | _ => Panic P_node
  end.

(** the scope of an application: parameters zipped with the evaluated arguments, in order *)
Section Args.
  Variable ev : st -> expr -> res (st * aval).
  Fixpoint bind_args (s : st) (ps : list N) (args : list expr) (sc : scope) {struct args} : res (st * scope) :=
    match ps, args with
    | p :: ps', a :: args' =>
        do (s', v) <- ev s a;
        bind_args s' ps' args' (im_insert N.eqb p v sc)
    | _, _ => Ok (s, sc)
    end.

  Definition meta_acc := (option status * option str * option (list property))%type.
  Fixpoint eval_metas (s : st) (ms : list (N * expr)) (acc : meta_acc) {struct ms} : res (st * meta_acc) :=
    match ms with
    | [] => Ok (s, acc)
    | (k, rhs) :: ms' =>
        do (s', v) <- ev s rhs;
        let '(status, media, headers) := acc in
        match k with
        | 0 => do x <- cast_string (fst v); eval_metas s' ms' (status, Some x, headers)
        | 1 => do x <- cast_object (fst v); eval_metas s' ms' (status, media, Some x)
        | _ => do x <- cast_http_status (fst v); eval_metas s' ms' (Some x, media, headers)
        end
    end.
End Args.

Section Eval.
  (** [lexical = false] is the code. [lexical = true] is the reference semantics of binding: the
      body of an applied function is evaluated on a stack that holds its own scope only (the
      caller's stack is put back afterwards), and an under-applied function is an error. *)
  Variable lexical : bool.
  Variable P : prog.

  Definition rinsert := @im_insert rkey (option aval) rkey_eqb.
  Definition rget := @im_get rkey (option aval) rkey_eqb.

  Fixpoint eval (fuel : nat) (s : st) (e : expr) (ann : ymap) {struct fuel} : res (st * aval) :=
    match fuel with
    | O => Fuel
    | S n =>
      let ev0 := fun s e => eval n s e [] in      (* eval_any(ctx, node, AnnRef::default()) *)
      match e with
      | ETerm anns e' =>
          do a <- compose anns []; eval n s e' (extend ann a)
      | ESub e' => eval n s e' ann
      | EPrim p => do v <- prim_value p ann; Ok (s, (v, ann))
      | ELitStr x => Ok (s, (VStr x, ann))
      | ELitNum x => Ok (s, (VNum x, ann))
      | ELitStat x => Ok (s, (VStat x, ann))
      | EConcat => Ok (s, (VLamInt, ann))
      | EBind x =>
          match lookup_binding x (scopes s) with
          | None => Panic P_binding
          | Some (v, prev) => Ok (s, (v, extend prev ann))
          end
      | EDecl m i =>
          match get_decl P m i with
          | None => Panic P_decl
          | Some d =>
              match d_params d with
              | _ :: _ => Ok (s, (VLamExt m i, ann))
              | [] =>
                  do da <- compose (d_anns d) [];
                  let rhs_ann := extend da ann in
                  if (match d_ref d with Some _ => true | None => false end) || d_rec d then
                    let key := match d_ref d with Some x => KNamed x | None => KDecl m i end in
                    match rget key (refs s) with
                    | None =>
                        let s1 := set_refs s (rinsert key None (refs s)) in
                        do (s2, v) <- eval n s1 (d_rhs d) rhs_ann;
                        Ok (set_refs s2 (rinsert key (Some v) (refs s2)), (VRef key (fst v) (snd v), rhs_ann))
                    | Some (Some v) => Ok (s, (VRef key (fst v) (snd v), rhs_ann))
                    | Some None => Ok (s, (VRecur key, rhs_ann))
                    end
                  else eval n s (d_rhs d) rhs_ann
              end
          end
      | EApp f args =>
          do (s1, fv) <- eval n s f [];
          do lam <- cast_lambda (fst fv);
          match lam with
          | VLamExt m i =>
              match get_decl P m i with
              | None => Panic P_decl
              | Some d =>
                  do (s2, sc) <- bind_args ev0 s1 (d_params d) args [];
                  do da <- compose (d_anns d) [];
                  let app_ann := extend da ann in
                  if lexical then
                    if Nat.ltb (length args) (length (d_params d)) then Panic P_arity else
                    do (s3, r) <- eval n (mk_st (refs s2) [(seq s2 + 1, sc)] (seq s2 + 1)) (d_rhs d) app_ann;
                    Ok (mk_st (refs s3) (scopes s2) (seq s3), r)
                  else
                    do (s3, r) <- eval n (push_scope s2 sc) (d_rhs d) app_ann;
                    Ok (pop_scope s3, r)
              end
          | _ =>
              do (s2, vs) <- map_st ev0 s1 args;
              match vs with
              | [l; r] =>
                  do ru <- cast_uri (fst r);
                  do lu <- cast_uri (fst l);
                  do u <- uri_append lu ru;
                  Ok (s2, (VUri u, ann))
              | _ => Panic P_concat_arity
              end
          end
      | ERec m i x e' =>
          let key := KRec m i (top_scope_id s) in
          do (s1, rhs) <- eval n (push_scope s [(x, (VRecur key, []))]) e' ann;
          let s2 := pop_scope s1 in
          Ok (set_refs s2 (rinsert key (Some rhs) (refs s2)), (VRef key (fst rhs) (snd rhs), []))
      | EObj ps =>
          do (s1, props) <- map_st (fun s p => do (s', v) <- ev0 s p; do pr <- cast_property (fst v); Ok (s', pr)) s ps;
          Ok (s1, (VObj props, ann))
      | EProp name req e' =>
          do (s1, v) <- ev0 s e';
          do sc <- cast_schema v;
          let required := match get_bool ann K_required with Some b => Some b | None => req end in
          Ok (s1, (VProp (Prop_ name sc (get_string ann K_description) required), ann))
      | EUnary b e' =>
          do (s1, v) <- ev0 s e';
          do p <- cast_property (fst v);
          Ok (s1, (VProp (set_required p b), ann))
      | EArr e' =>
          do (s1, v) <- ev0 s e';
          do sc <- cast_schema v;
          Ok (s1, (VArr sc, ann))
      | EOp op es =>
          if N.eqb op 3 then
            do (s1, rs) <- map_st (fun s o => do (s', v) <- ev0 s o; do r <- cast_ranges v; Ok (s', r)) s es;
            Ok (s1, (VRanges (fold_left (im_extend rgkey_eqb) rs []), ann))
          else
            match vop_of op with
            | None => Panic P_node
            | Some o =>
                do (s1, ss) <- map_st (fun s o => do (s', v) <- ev0 s o; do sc <- cast_schema v; Ok (s', sc)) s es;
                Ok (s1, (VOp o ss, ann))
            end
      | ECont body metas =>
          do (s1, schema) <- opt_st (fun s b => do (s', v) <- ev0 s b; do sc <- cast_schema v; Ok (s', sc)) s body;
          let status0 := match schema with None => Some (StCode 204) | Some _ => None end in
          do (s2, (status, media, headers)) <- eval_metas ev0 s1 metas (status0, None, None);
          Ok (s2, (VCont (Content schema status media headers (get_string ann K_description) (get_props ann K_examples)), ann))
      | EXfer methods domain range params =>
          do (s1, dom) <- opt_st (fun s d => do (s', v) <- ev0 s d; do c <- cast_content v; Ok (s', c)) s domain;
          let dom := match dom with Some c => c | None => Content None None None None None None end in
          do (s2, rv) <- ev0 s1 range;
          do rg <- cast_ranges rv;
          do (s3, prm) <- opt_st (fun s p => do (s', v) <- ev0 s p; do o <- cast_object (fst v); Ok (s', o)) s2 params;
          Ok (s3, (VXfer (Xfer (method_bits methods) dom rg prm (get_string ann K_description) (get_string ann K_summary)
                                (match get_enum ann K_tags with Some l => l | None => [] end)
                                (get_string ann K_operationId)), ann))
      | EUri segs params =>
          do (s1, path) <-
             map_st (fun s (sg : str + expr) =>
                       match sg with
                       | inl x => Ok (s, ULit x)
                       | inr v => do (s', pv) <- ev0 s v; do p <- cast_property (fst pv); Ok (s', UVar p)
                       end) s segs;
          do (s2, prm) <- opt_st (fun s p => do (s', v) <- ev0 s p; do o <- cast_object (fst v); Ok (s', o)) s1 params;
          Ok (s2, (VUri (Uri path prm (get_string ann K_example)), ann))
      | ERel u xfers =>
          do (s1, uv) <- ev0 s u;
          do ur <- cast_uri (fst uv);
          do (s2, ts) <- map_st (fun s x => do (s', v) <- ev0 s x; do t <- cast_transfer (fst v); Ok (s', t)) s1 xfers;
          Ok (s2, (VRel (Rel ur (fold_left add_xfer ts no_xfers)), ann))
      end
    end.

  (** eval_program on the main module's resources, then the reference table *)
  Fixpoint refs_table (rs : list (rkey * option aval)) : res (list (rkey * schema)) :=
    match rs with
    | [] => Ok []
    | (k, None) :: rs' => refs_table rs'
    | (k, Some v) :: rs' => do sc <- cast_schema v; do t <- refs_table rs'; Ok ((k, sc) :: t)
    end.

  Definition eval_program (fuel : nat) (resources : list expr) : res (list relation * list (rkey * schema)) :=
    do (s1, rels) <- map_st (fun s r => do (s', v) <- eval fuel s r []; do rel <- cast_relation (fst v); Ok (s', rel)) st0 resources;
    do t <- refs_table (refs s1);
    Ok (rels, t).
End Eval.

(** * lexical closure (what name resolution guarantees of the trees it accepts): every
    [EBind] names a parameter of the enclosing declaration or an enclosing rec binder *)
Fixpoint closed (xs : list N) (e : expr) : bool :=
  match e with
  | ETerm _ e' | ESub e' | EProp _ _ e' | EUnary _ e' | EArr e' => closed xs e'
  | EPrim _ | ELitStr _ | ELitNum _ | ELitStat _ | EDecl _ _ | EConcat => true
  | EBind x => existsb (N.eqb x) xs
  | EApp f args => closed xs f && forallb (closed xs) args
  | ERec _ _ x e' => closed (x :: xs) e'
  | EObj ps => forallb (closed xs) ps
  | EOp _ es => forallb (closed xs) es
  | ECont body metas =>
      match body with Some b => closed xs b | None => true end &&
      forallb (fun ke => match ke with (_, e') => closed xs e' end) metas
  | EXfer _ dom rg prm =>
      match dom with Some d => closed xs d | None => true end && closed xs rg &&
      match prm with Some p => closed xs p | None => true end
  | EUri segs prm =>
      forallb (fun sg => match sg with inl _ => true | inr e' => closed xs e' end) segs &&
      match prm with Some p => closed xs p | None => true end
  | ERel u xs' => closed xs u && forallb (closed xs) xs'
  end.

Definition closed_prog (P : prog) : Prop :=
  forall m i d, get_decl P m i = Some d -> closed (d_params d) (d_rhs d) = true.


Definition closed_progb (P : prog) : bool :=
  forallb (forallb (fun d => closed (d_params d) (d_rhs d))) P.
