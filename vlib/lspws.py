"""Workspaces for the LSP checks (C15, C17, C18): multi-module programs with shadowing and
imports, the compiler's own binding relation for them (harness layer `resolve`), and
offset <-> UTF-16 position conversion done independently in python."""
import json
import os
import shutil
from . import core, c08


def pos_of(text, off):
    """byte offset -> (line, utf16 column); text is a python str"""
    b = text.encode("utf8")[:off].decode("utf8", "ignore")
    line = b.count("\n")
    last = b.rsplit("\n", 1)[-1]
    col = sum(2 if ord(c) > 0xFFFF else 1 for c in last)
    return line, col


def off_of(text, line, col):
    lines = text.split("\n")
    if line >= len(lines):
        return len(text.encode("utf8"))
    off = sum(len(l.encode("utf8")) + 1 for l in lines[:line])
    u = 0
    for c in lines[line]:
        if u >= col or c == "\r":
            break
        u += 2 if ord(c) > 0xFFFF else 1
        off += len(c.encode("utf8"))
    return off


def rng_of(text, s, e):
    a, b = pos_of(text, s), pos_of(text, e)
    return {"start": {"line": a[0], "character": a[1]}, "end": {"line": b[0], "character": b[1]}}


def decorate(rng, text):
    """insert comments with multi-byte characters so that byte columns, UTF-16 columns and line
    numbers differ between the files of a workspace"""
    lines = text.split("\n")
    out = []
    if rng.random() < 0.7:
        out.append("// " + rng.choice(["é", "😉😉", "€ 漢字", "plain"]) * rng.randint(1, 3))
    for l in lines:
        if l.startswith("let ") and rng.random() < 0.4:
            l = "let /* " + rng.choice(["😉", "é€", "x"]) + " */ " + l[4:]
        if rng.random() < 0.3:
            # a line break before an identifier use: the use starts at column 0 of its line
            import re
            ms = list(re.finditer(r"('[\w$-]+[!?]?|=|,|<|\() (?=[A-Za-z_@])", l))
            if ms:
                m = rng.choice(ms)
                l = l[:m.end() - 1] + "\n" + l[m.end():]
        # a statement need not start at column 0: indented, or after another statement on the same line
        # (with the line break above, a multi-line declaration whose first and last line start at different columns)
        if (l.startswith("let ") or l.startswith("res ")) and rng.random() < 0.3:
            if out and out[-1].rstrip().endswith(";") and rng.random() < 0.5:
                out[-1] = out[-1] + " " + l
                continue
            l = (" " * rng.randint(1, 6) if rng.random() < 0.6 else "\t" * rng.randint(1, 2)) + l
        out.append(l)
        if rng.random() < 0.15:
            out.append("")
    return "\n".join(out)


def gen_workspace(rng):
    """a shadowing-heavy multi-module program (C08's generator), decorated; returns {name: text}"""
    for _ in range(50):
        g = c08.G(rng)
        p, res, dup = g.program()
        if dup or g.unbound:
            continue
        files = {}
        for loc, t in p["mods"].items():
            files[loc.rsplit("/", 1)[1]] = decorate(rng, t)
        if len(files) > 1 and rng.random() < 0.6:
            files = relocate(rng, files)
        return files
    return {"main.oal": "let a = num;\nres / on get -> <a>;\n"}


def relocate(rng, files):
    """move the modules other than main.oal into (nested) directories and rewrite the import
    paths, which are relative to the importing module"""
    import posixpath
    import re
    dirs = {n: ("" if n == "main.oal" else rng.choice(["", "lib", "lib", "lib/sub", "other"])) for n in files}
    out = {}
    for n, t in files.items():
        def fix(m, n=n):
            tgt = m.group(1)
            if tgt not in files:
                return m.group(0)
            rel = posixpath.relpath(posixpath.join("/", dirs[tgt], tgt), posixpath.join("/", dirs[n]))
            return 'use "%s"' % rel
        out[posixpath.join(dirs[n], n)] = re.sub(r'use "([^"]+)"', fix, t)
    return out


def bindings(files, root):
    """the compiler's own binding relation: for every module, its Variable uses with their
    definition (file, node) and the spans of all definable nodes"""
    mods = {"file://%s/%s" % (root, n): t for n, t in files.items()}
    lines = [json.dumps({"mods": mods, "main": loc}) for loc in mods]
    outs = core.run_stateless(core.IMPL, "resolve", lines)
    res = {}
    for loc, o in zip(mods, outs):
        try:
            r = json.loads(o)
        except Exception:
            return None
        if r.get("status") != "ok" or "defs" not in r.get("outcome", {}):
            return None
        uses = []

        def walk(t):
            if t["k"] == "var":
                uses.append(t)
            elif t["k"] == "rec":
                walk(t["body"])
            else:
                for c in t["c"]:
                    walk(c)
        for st in r["stmts"]:
            walk(st["rhs"] if st["k"] == "decl" else st["tree"])
        res[loc] = {"uses": uses, "defs": r["outcome"]["defs"], "spans": r["spans"]}
    return res


def def_target(b, loc, use):
    """(file, node key) the compiler bound the use to, or None for a built-in"""
    d = b[loc]["defs"].get(str(use["id"]))
    if d is None or d == "B" or d == "undefined":
        return None
    if isinstance(d, int):
        return loc, str(d)
    f, n = d.rsplit("#", 1)
    return f, n


def fresh_dir(name):
    root = os.path.join(core.CACHE, "tmp", name)
    shutil.rmtree(root, ignore_errors=True)
    os.makedirs(root, exist_ok=True)
    return root


def apply_edits(text, edits):
    """apply LSP TextEdits (UTF-16 ranges) to a python string; returns (new text, problems)"""
    problems = []
    spans = []
    for e in edits:
        s = off_of(text, e["range"]["start"]["line"], e["range"]["start"]["character"])
        t = off_of(text, e["range"]["end"]["line"], e["range"]["end"]["character"])
        spans.append((s, t, e["newText"]))
    spans.sort()
    for (a, b, _), (c, d, _) in zip(spans, spans[1:]):
        if c < b:
            problems.append("overlapping edits %s and %s" % ((a, b), (c, d)))
    raw = text.encode("utf8")
    for s, t, new in reversed(spans):
        raw = raw[:s] + new.encode("utf8") + raw[t:]
    return raw.decode("utf8", "replace"), problems, spans
