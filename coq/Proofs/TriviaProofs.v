(** The parse depends on the non-trivia tokens only (C05: inserting comments or whitespace
    between tokens; C11): for every grammar of the embedding, running the parser on a token
    list and running it on the same list with every trivia token (space, comments) removed give
    the same answer, once cursors and leaves are translated to positions among the non-trivia
    tokens. Hence two token lists with the same non-trivia tokens parse alike, with the same
    fuel. (That the tokenizer turns a comment or a blank into a trivia token and leaves its
    neighbours alone is the tokenizer model's business, Lexer.v.) *)
From Coq Require Import Lia Arith PeanoNat.
From Oal Require Import Peg PegProofs PegYield.

Section Trivia.
Variable class_ok : N -> N -> bool.
Variable is_trivia : N -> bool.
Variable K_IDENT_REF : N.
Variable g : nat -> pexp.
Variable toks : list N.

Definition nt (k : N) : bool := negb (is_trivia k).
Definition toks' : list N := filter nt toks.

Notation run := (Peg.run class_ok is_trivia K_IDENT_REF g toks).
Notation run' := (Peg.run class_ok is_trivia K_IDENT_REF g toks').
Notation skip := (Peg.skip is_trivia toks).
Notation skip' := (Peg.skip is_trivia toks').
Notation kind_at := (Peg.kind_at toks).
Notation kind_at' := (Peg.kind_at toks').
Notation aligned := (PegYield.aligned is_trivia toks).

(** the position of cursor [s] among the non-trivia tokens *)
Definition phi (s : nat) : nat := length (filter nt (firstn s toks)).

Fixpoint tm (t : tree) : tree :=
  match t with Leaf i => Leaf (phi i) | Node k cs => Node k (map tm cs) end.

Definition rmap (r : res) : res :=
  match r with Ok s ms => Ok (phi s) (map tm ms) | Fail => Fail | Fuel => Fuel end.

Lemma firstn_S_nth {A} (l : list A) s k : nth_error l s = Some k -> firstn (S s) l = firstn s l ++ [k].
Proof.
  revert s. induction l as [|x l IH]; intros [|s] H; cbn [nth_error] in H; try discriminate.
  - injection H as ->. reflexivity.
  - change (firstn (S (S s)) (x :: l)) with (x :: firstn (S s) l). rewrite (IH s H). reflexivity.
Qed.

Lemma phi_S s k : kind_at s = Some k -> phi (S s) = if nt k then S (phi s) else phi s.
Proof.
  intros H. unfold phi. rewrite (firstn_S_nth toks s k H), filter_app, app_length. cbn [filter].
  destruct (nt k); cbn [length]; lia.
Qed.

Lemma phi_end s : length toks <= s -> phi s = length toks'.
Proof. intros H. unfold phi, toks'. rewrite firstn_all2 by exact H. reflexivity. Qed.

Lemma phi_le s : phi s <= length toks'.
Proof.
  unfold phi, toks'. rewrite <- (firstn_skipn s toks) at 2. rewrite filter_app, app_length. lia.
Qed.

Lemma kind_at_phi s k : kind_at s = Some k -> nt k = true -> kind_at' (phi s) = Some k.
Proof.
  intros H Hk. unfold Peg.kind_at, toks', phi in *.
  rewrite <- (firstn_skipn s toks) at 1. rewrite filter_app.
  rewrite nth_error_app2 by lia. rewrite Nat.sub_diag.
  assert (E : skipn s toks = k :: skipn (S s) toks).
  { clear Hk. revert s H. induction toks as [|x l IH]; intros [|s] H; cbn [nth_error] in H; try discriminate.
    - injection H as ->. reflexivity.
    - cbn [skipn]. apply IH, H. }
  rewrite E. cbn [filter]. rewrite Hk. reflexivity.
Qed.

Lemma kind_at_none s : kind_at s = None -> kind_at' (phi s) = None.
Proof.
  intros H. unfold Peg.kind_at in *. apply nth_error_None in H. rewrite (phi_end s H). apply nth_error_None. lia.
Qed.

(** skipping trivia does not move the position among the non-trivia tokens *)
Lemma phi_skip_from : forall rest s, skipn s toks = rest -> phi (skip_from is_trivia rest s) = phi s.
Proof.
  induction rest as [|k rest IH]; intros s Hs; cbn [skip_from]; [reflexivity|].
  destruct (skipn_cons _ _ _ _ Hs) as [Hs' Hk].
  destruct (is_trivia k) eqn:Et; [|reflexivity].
  rewrite (IH (S s) Hs'). rewrite (phi_S s k Hk). unfold nt. rewrite Et. reflexivity.
Qed.

Lemma phi_skip s : phi (skip s) = phi s.
Proof. unfold Peg.skip. apply phi_skip_from. reflexivity. Qed.

(** no trivia among the filtered tokens: skipping there is the identity *)
Lemma toks'_nt k : In k toks' -> is_trivia k = false.
Proof. unfold toks'. intros H. apply filter_In in H as [_ H]. unfold nt in H. destruct (is_trivia k); [discriminate|reflexivity]. Qed.

Lemma skip'_id j : skip' j = j.
Proof.
  unfold Peg.skip. destruct (skipn j toks') as [|k rest] eqn:E; cbn [skip_from]; [reflexivity|].
  assert (Hin : In k toks').
  { rewrite <- (firstn_skipn j toks'). apply in_or_app. right. rewrite E. left. reflexivity. }
  rewrite (toks'_nt k Hin). reflexivity.
Qed.

(** leaves are non-trivia tokens *)
Definition leaf_ok (t : tree) : Prop :=
  match t with Leaf i => exists k, kind_at i = Some k /\ nt k = true | Node _ _ => True end.

Lemma ref_func_tm acc : Forall leaf_ok acc ->
  ref_func K_IDENT_REF toks' (map tm acc) = ref_func K_IDENT_REF toks acc.
Proof.
  intros Hok. unfold ref_func. rewrite <- map_rev.
  assert (Hr : Forall leaf_ok (rev acc)) by (apply Forall_forall; intros x Hx; rewrite Forall_forall in Hok; apply Hok, in_rev, Hx).
  destruct (rev acc) as [|[i|k [|c cs]] [|[j|k' cs'] l]]; cbn [map tm]; try reflexivity.
  inversion Hr as [|? ? _ Hr']; subst. inversion Hr' as [|? ? Hj _]; subst. destruct Hj as (kj & Hkj & Hnt).
  rewrite (kind_at_phi j kj Hkj Hnt), Hkj. reflexivity.
Qed.

Lemma aligned_kind s k : aligned s -> kind_at s = Some k -> nt k = true.
Proof.
  intros [Ha|Ha] Hk.
  - unfold Peg.kind_at in Hk. assert (nth_error toks s <> None) by congruence. apply nth_error_Some in H. lia.
  - unfold nontriv_at in Ha. rewrite Hk in Ha. exact Ha.
Qed.

Theorem trivia_free : forall n p s acc, aligned s -> s <= length toks -> Forall leaf_ok acc ->
  run' n p (phi s) (map tm acc) = rmap (run n p s acc) /\
  (forall s' ms, run n p s acc = Ok s' ms -> Forall leaf_ok ms).
Proof.
  induction n as [|n IH]; intros p s acc Ha Hs Hacc; [split; [reflexivity|discriminate]|].
  rewrite !run_eq. destruct p.
  - (* Eps *) split; [reflexivity|]. intros s' ms [= <- <-]. constructor.
  - (* Tok *)
    destruct (kind_at s) as [k|] eqn:Ek.
    + pose proof (aligned_kind s k Ha Ek) as Hnt. rewrite (kind_at_phi s k Ek Hnt).
      destruct (class_ok c k); [|split; [reflexivity|discriminate]]. cbn [rmap map tm].
      rewrite skip'_id, phi_skip, (phi_S s k Ek), Hnt. split; [reflexivity|].
      intros s' ms [= <- <-]. constructor; [|constructor]. exists k. split; assumption.
    + rewrite (kind_at_none s Ek). split; [reflexivity|discriminate].
  - (* Seq2 *)
    destruct (IH p1 s acc Ha Hs Hacc) as [E1 O1]. rewrite E1.
    destruct (run n p1 s acc) as [s1 m1| |] eqn:R1; cbn [rmap]; try (split; [reflexivity|discriminate]).
    destruct (yield class_ok is_trivia K_IDENT_REF g toks _ _ _ _ _ _ Ha Hs R1) as (_ & B1 & C1 & _).
    assert (Hacc1 : Forall leaf_ok (acc ++ m1)) by (apply Forall_app; split; [exact Hacc|apply (O1 _ _ eq_refl)]).
    destruct (IH p2 s1 (acc ++ m1) C1 B1 Hacc1) as [E2 O2]. rewrite <- map_app, E2.
    destruct (run n p2 s1 (acc ++ m1)) as [s2 m2| |] eqn:R2; cbn [rmap]; try (split; [reflexivity|discriminate]).
    rewrite map_app. split; [reflexivity|]. intros s' ms [= <- <-]. apply Forall_app. split; [apply (O1 _ _ eq_refl)|apply (O2 _ _ eq_refl)].
  - (* Alt2 *)
    destruct (IH p1 s acc Ha Hs Hacc) as [E1 O1]. rewrite E1.
    destruct (run n p1 s acc) as [s1 m1| |] eqn:R1; cbn [rmap].
    + split; [reflexivity|]. intros s' ms [= <- <-]. apply (O1 _ _ eq_refl).
    + apply (IH p2 s acc Ha Hs Hacc).
    + split; [reflexivity|discriminate].
  - (* Mk *)
    destruct (IH p s [] Ha Hs (Forall_nil _)) as [E1 O1]. cbn [map] in E1. rewrite E1.
    destruct (run n p s []) as [s1 m1| |] eqn:R1; cbn [rmap map tm]; try (split; [reflexivity|discriminate]).
    split; [reflexivity|]. intros s' ms [= <- <-]. constructor; [exact I|constructor].
  - (* Collapse *)
    destruct (IH p s [] Ha Hs (Forall_nil _)) as [E1 O1]. cbn [map] in E1. rewrite E1.
    destruct (run n p s []) as [s1 m1| |] eqn:R1; cbn [rmap]; try (split; [reflexivity|discriminate]).
    pose proof (O1 _ _ eq_refl) as Hm1.
    destruct m1 as [|x [|y m1]]; cbn [map rmap tm]; (split; [reflexivity|]); intros s' ms [= <- <-].
    + constructor; [exact I|constructor].
    + exact Hm1.
    + constructor; [exact I|constructor].
  - (* Call *) destruct (IH (g nt0) s [] Ha Hs (Forall_nil _)) as [E1 O1]. cbn [map] in E1. split; [exact E1|exact O1].
  - (* Memo *) destruct (IH p s [] Ha Hs (Forall_nil _)) as [E1 O1]. cbn [map] in E1. split; [exact E1|exact O1].
  - (* IfThen *)
    destruct (IH p1 s acc Ha Hs Hacc) as [E1 O1]. rewrite E1.
    destruct (run n p1 s acc) as [s1 m1| |] eqn:R1; cbn [rmap].
    + destruct (yield class_ok is_trivia K_IDENT_REF g toks _ _ _ _ _ _ Ha Hs R1) as (_ & B1 & C1 & _).
      assert (Hacc1 : Forall leaf_ok (acc ++ m1)) by (apply Forall_app; split; [exact Hacc|apply (O1 _ _ eq_refl)]).
      destruct (IH p2 s1 (acc ++ m1) C1 B1 Hacc1) as [E2 O2]. rewrite <- map_app, E2.
      destruct (run n p2 s1 (acc ++ m1)) as [s2 m2| |] eqn:R2; cbn [rmap]; try (split; [reflexivity|discriminate]).
      rewrite map_app. split; [reflexivity|]. intros s' ms [= <- <-]. apply Forall_app. split; [apply (O1 _ _ eq_refl)|apply (O2 _ _ eq_refl)].
    + split; [reflexivity|]. intros s' ms [= <- <-]. constructor.
    + split; [reflexivity|discriminate].
  - (* NotRefFunc *)
    rewrite (ref_func_tm acc Hacc). destruct (ref_func K_IDENT_REF toks acc); (split; [reflexivity|]); [discriminate|].
    intros s' ms [= <- <-]. constructor.
Qed.
End Trivia.

(** * the oal grammar *)
From Oal Require Import Grammar GrammarProofs.

Definition strip_trivia (toks : list N) : list N := toks' Grammar.is_trivia toks.

Theorem oal_parse_ignores_trivia n toks :
  parse_pure n (strip_trivia toks) = rmap Grammar.is_trivia toks (parse_pure n toks).
Proof.
  unfold parse_pure, strip_trivia.
  destruct (skip_spec Grammar.is_trivia toks 0 ltac:(lia)) as (_ & B & C & _).
  destruct (trivia_free class_ok Grammar.is_trivia T_IDENT_REF oal_grammar toks n (Call P_PROGRAM)
              (Peg.skip Grammar.is_trivia toks 0) [] C B (Forall_nil _)) as [E _].
  cbn [map] in E. rewrite <- E. rewrite skip'_id, phi_skip. reflexivity.
Qed.

(** two texts whose tokens differ only by spaces and comments parse alike *)
Corollary oal_parse_same_up_to_trivia n toks1 toks2 :
  strip_trivia toks1 = strip_trivia toks2 ->
  rmap Grammar.is_trivia toks1 (parse_pure n toks1) = rmap Grammar.is_trivia toks2 (parse_pure n toks2).
Proof. intros H. rewrite <- !oal_parse_ignores_trivia, H. reflexivity. Qed.

(** the memoising parser too: whenever it answers on both token lists, the answers correspond *)
Lemma rmap_fuel toks r : rmap Grammar.is_trivia toks r = Fuel -> r = Fuel.
Proof. destruct r; cbn [rmap]; intros H; try discriminate; reflexivity. Qed.

Corollary oal_parse_memo_ignores_trivia n1 n2 toks r1 st1 r2 st2 :
  parse_memo n1 toks = (r1, st1) -> parse_memo n2 (strip_trivia toks) = (r2, st2) ->
  r1 <> Fuel -> r2 <> Fuel -> r2 = rmap Grammar.is_trivia toks r1.
Proof.
  intros H1 H2 Hr1 Hr2.
  destruct (oal_memo_transparent _ _ _ _ H1 Hr1) as [m1 E1]. destruct (oal_memo_transparent _ _ _ _ H2 Hr2) as [m2 E2].
  pose proof (oal_parse_stable m1 (Nat.max m1 m2) toks r1 E1 Hr1 (Nat.le_max_l _ _)) as S1.
  pose proof (oal_parse_stable m2 (Nat.max m1 m2) (strip_trivia toks) r2 E2 Hr2 (Nat.le_max_r _ _)) as S2.
  rewrite oal_parse_ignores_trivia, S1 in S2. symmetry. exact S2.
Qed.

(** non-vacuity: [let a = num;] with and without blanks and a comment *)
Example ex_trivia :
  let t1 := [20; 0; 26; 0; 48; 0; 5; 40; 1]%N in     (* let _ a _ = _ num ; // c *)
  let t2 := [20; 26; 48; 5; 40]%N in
  strip_trivia t1 = t2 /\ t1 <> t2 /\
  exists s ms, parse_pure 200 t2 = Ok s ms /\ rmap Grammar.is_trivia t1 (parse_pure 200 t1) = Ok s ms /\ s = 5%nat.
Proof. cbv zeta. split; [reflexivity|]. split; [discriminate|]. eexists _, _. split; [vm_compute; reflexivity|]. split; vm_compute; reflexivity. Qed.
