(** Type soundness of the evaluator model: a program that passes the typing discipline of
    Model/Typing.v (what inference and type checking enforce on variable-free tags) never
    reaches a panic of the evaluator other than the ones of cast_content, cast_object,
    cast_uri and cast_relation -- the four casts where the known findings K1, K10, K11, K12,
    K16 live. Every other panic site (cast_schema, cast_ranges, cast_string, cast_property,
    cast_http_status, cast_transfer, cast_lambda, the lookup of a binding, of a declaration,
    the arity of concat, Uri::append on an empty path, an unexpected node) is unreachable. *)
From Oal Require Import Tag Eval Typing.
From Oal Require EvalProofs Strat.
From Coq Require Import Lia.
Local Open Scope N_scope.

Definition allowed (p : N) : Prop := p = P_content \/ p = P_object \/ p = P_uri \/ p = P_relation.

Lemma base_eqb_eq a b : base_eqb a b = true -> a = b.
Proof. destruct a, b; cbn; congruence. Qed.

Lemma tag_eqb_eq : forall a b, tag_eqb a b = true -> a = b.
Proof.
  fix IH 1. intros a b. destruct a as [x|x|xs x|v], b as [y|y|ys y|w]; cbn [tag_eqb]; try discriminate.
  - intros H. f_equal. apply base_eqb_eq, H.
  - intros H. f_equal. apply IH, H.
  - intros H. apply andb_prop in H as [H1 H2]. f_equal; [|apply IH, H2].
    revert ys H1. induction xs as [|p xs IHxs]; intros [|q ys] H1; try discriminate; [reflexivity|].
    apply andb_prop in H1 as [Hp Hr]. f_equal; [apply IH, Hp|apply IHxs, Hr].
  - intros H. f_equal. apply N.eqb_eq, H.
Qed.

Lemma is_tag_eq o t : is_tag o t = true -> o = Some t.
Proof. destruct o as [t'|]; cbn; [|discriminate]. intros H. f_equal. apply tag_eqb_eq, H. Qed.

Lemma has_some p o : has p o = true -> exists t, o = Some t /\ p t = true.
Proof. destruct o as [t|]; cbn; [|discriminate]. intros H. exists t. split; [reflexivity|exact H]. Qed.

Lemma rkey_eqb_eq a b : rkey_eqb a b = true -> a = b.
Proof.
  destruct a, b; cbn; try discriminate; intros H.
  - f_equal. apply N.eqb_eq, H.
  - apply andb_prop in H as [H1 H2]. f_equal; apply N.eqb_eq; assumption.
  - apply andb_prop in H as [H12 H3]. apply andb_prop in H12 as [H1 H2]. f_equal; apply N.eqb_eq; assumption.
Qed.

Lemma all2_length {A B} (f : A -> B -> bool) : forall l1 l2, all2 f l1 l2 = true -> length l1 = length l2.
Proof.
  induction l1 as [|a l1 IH]; intros [|b l2] H; cbn [all2] in H; try discriminate H; [reflexivity|].
  apply andb_prop in H as [_ H]. cbn [length]. f_equal. apply IH, H.
Qed.

Section Sound.
  Variable E : tenv.
  Variable P : prog.

  (** which values inhabit a tag *)
  Fixpoint vt (v : value) (t : tag) : Prop :=
    match v with
    | VStr _ => t = T BText
    | VNum _ => t = T BNumber
    | VStat _ => t = T BStatus
    | VPrim _ => t = T BPrimitive
    | VUri (Uri path _ _) => t = T BPrimitive \/ (t = T BUri /\ path <> [])
    | VRel _ => t = T BRelation
    | VXfer _ => t = T BTransfer
    | VCont _ | VRanges _ => t = T BContent
    | VObj _ => t = T BObject
    | VProp _ => exists t', t = TProperty t'
    | VOp _ _ => is_schema_t t = true
    | VArr _ => t = T BArray
    | VRef _ v' _ => is_schema_t t = true /\ vt v' t
    | VRecur _ => is_schema_t t = true
    | VLamInt => t = concat_tag
    | VLamExt m i =>
        match t with
        | TFunc _ _ => sig_get E m i = Some t /\ ground t = true /\ exists d, get_decl P m i = Some d /\ d_params d <> []
        | _ => False
        end
    end.

  (** * the casts on typed values *)
  Ltac vt_absurd H :=
    lazymatch type of H with
    | False => contradiction
    | _ = _ => discriminate H
    | _ \/ _ => destruct H as [H|[H _]]; discriminate H
    | ex _ => destruct H as [? H]; discriminate H
    | _ /\ _ => destruct H as [H _]; discriminate H
    end.

  Ltac vt_split v H :=
    destruct v as [[?path ?prm ?ex]|?r|?x|?c|?ps|?r|?p|?e|?op ?ss|?k ?v' ?a'|?item|?s|?n|?s| |?m ?i|?k];
    unfold T in *; cbn [vt] in H.

  Lemma vt_schema_like v t : vt v t -> is_schema_t t = true -> is_schema_like v = true.
  Proof.
    intros H Hs. vt_split v H; cbn [is_schema_like]; try reflexivity; try (subst t; discriminate Hs).
    - destruct H as [t' ->]. discriminate Hs.
    - destruct t; try contradiction. discriminate Hs.
  Qed.

  Lemma cast_schema_typed v a t : vt v t -> is_schema_t t = true -> exists sc, cast_schema (v, a) = Ok sc.
  Proof.
    intros H Hs. pose proof (vt_schema_like v t H Hs) as Hl.
    destruct v; cbn [is_schema_like] in Hl; try discriminate; cbn [cast_schema]; eexists; reflexivity.
  Qed.

  Lemma vt_content v : vt v (T BContent) -> (exists c, v = VCont c) \/ (exists r, v = VRanges r).
  Proof.
    intros H. vt_split v H; try vt_absurd H; [left|right]; eexists; reflexivity.
  Qed.

  Lemma cast_content_typed v a t : vt v t -> content_like_t t = true ->
    match cast_content (v, a) with Ok _ => True | Panic p => allowed p | _ => False end.
  Proof.
    intros H Hc. unfold content_like_t in Hc. apply orb_prop in Hc as [Hs|Hc].
    - pose proof (vt_schema_like v t H Hs) as Hl. destruct (cast_schema_typed v a t H Hs) as [sc Hsc].
      unfold cast_content. cbn [fst]. destruct v; cbn [is_schema_like] in Hl; try discriminate Hl; cbn [is_schema_like]; rewrite Hsc; exact I.
    - destruct t as [[]| | |]; try discriminate Hc.
      destruct (vt_content v H) as [[c ->]|[r ->]]; cbn; [exact I|left; reflexivity].
  Qed.

  Lemma cast_ranges_typed v a t : vt v t -> content_like_t t = true ->
    match cast_ranges (v, a) with Ok _ => True | Panic p => allowed p | _ => False end.
  Proof.
    intros H Hc. pose proof (cast_content_typed v a t H Hc) as Hcc.
    unfold content_like_t in Hc. apply orb_prop in Hc as [Hs|Hc].
    - pose proof (vt_schema_like v t H Hs) as Hl.
      unfold cast_ranges. cbn [fst].
      destruct v; cbn [is_schema_like] in Hl; try discriminate Hl; cbn [is_content_like is_schema_like];
        (destruct (cast_content _) as [c0| | |]; cbn [bind]; [exact I|contradiction|exact Hcc|contradiction]).
    - destruct t as [[]| | |]; try discriminate Hc.
      destruct (vt_content v H) as [[c ->]|[r ->]]; cbn; exact I.
  Qed.

  Lemma cast_string_typed v : vt v (T BText) -> exists x, cast_string v = Ok x.
  Proof. intros H. vt_split v H; try vt_absurd H. eexists. reflexivity. Qed.

  Lemma cast_property_typed v t' : vt v (TProperty t') -> exists x, cast_property v = Ok x.
  Proof. intros H. vt_split v H; try vt_absurd H. eexists. reflexivity. Qed.

  Lemma cast_status_typed v t : vt v t -> status_like_t t = true ->
    match cast_http_status v with Ok _ | Err _ => True | _ => False end.
  Proof.
    intros H Hs. destruct t as [[]| | |]; try discriminate Hs; vt_split v H; try vt_absurd H; cbn [cast_http_status]; try exact I.
    destruct (_ && _); exact I.
  Qed.

  Lemma cast_transfer_typed v : vt v (T BTransfer) -> exists x, cast_transfer v = Ok x.
  Proof. intros H. vt_split v H; try vt_absurd H. eexists. reflexivity. Qed.

  Lemma cast_object_typed : forall v, vt v (T BObject) ->
    match cast_object v with Ok _ => True | Panic p => allowed p | _ => False end.
  Proof.
    fix IH 1. intros v H. vt_split v H; try vt_absurd H; cbn [cast_object]; try exact I; try (right; left; reflexivity).
    destruct H as [_ H]. apply IH, H.
  Qed.

  Lemma cast_uri_typed : forall v, vt v (T BUri) ->
    match cast_uri v with Ok (Uri path _ _) => path <> [] | Panic p => allowed p | _ => False end.
  Proof.
    fix IH 1. intros v H. vt_split v H; try vt_absurd H; cbn [cast_uri]; try (right; right; left; reflexivity).
    - destruct H as [H|[_ H]]; [discriminate H|exact H].
    - destruct H as [_ H]. apply IH, H.
  Qed.

  Lemma cast_relation_typed : forall v t, vt v t -> relation_like_t t = true ->
    match cast_relation v with Ok _ => True | Panic p => allowed p | _ => False end.
  Proof.
    fix IH 1. intros v t H Hr.
    destruct t as [[]| | |]; try discriminate Hr; vt_split v H; try vt_absurd H; cbn [cast_relation]; try exact I;
      try (right; right; right; reflexivity);
      try (destruct H as [_ H]; eapply IH; [exact H|reflexivity]).
  Qed.

  Lemma cast_lambda_typed v bs r : vt v (TFunc bs r) ->
    (v = VLamInt /\ TFunc bs r = concat_tag /\ cast_lambda v = Ok VLamInt) \/
    (exists m i, v = VLamExt m i /\ cast_lambda v = Ok (VLamExt m i)).
  Proof.
    intros H. vt_split v H; try vt_absurd H.
    - left. repeat split; assumption.
    - right. eexists _, _. split; reflexivity.
  Qed.

  (** * invariants of the evaluation context *)
  Definition key_tag (k : rkey) (t : tag) : Prop :=
    match k with
    | KDecl m i => sig_get E m i = Some t
    | KNamed x => exists m i d, get_decl P m i = Some d /\ d_ref d = Some x /\ sig_get E m i = Some t
    | KRec _ _ _ => True
    end.

  Definition entry_ok (kv : rkey * option aval) : Prop :=
    match snd kv with
    | None => True
    | Some va => exists t, is_schema_t t = true /\ vt (fst va) t /\ key_tag (fst kv) t
    end.
  Definition refs_ok (r : list (rkey * option aval)) : Prop := Forall entry_ok r.

  Lemma rinsert_ok k ov r : refs_ok r -> entry_ok (k, ov) -> refs_ok (rinsert k ov r).
  Proof.
    unfold refs_ok, rinsert. intros Hr Hk. induction r as [|[k' ov'] r IH]; cbn [im_insert].
    - constructor; [exact Hk|constructor].
    - inversion Hr as [|? ? Hh Ht]; subst. destruct (rkey_eqb k k') eqn:Ek.
      + apply rkey_eqb_eq in Ek. subst k'. constructor; [exact Hk|exact Ht].
      + constructor; [exact Hh|apply IH, Ht].
  Qed.

  Lemma rget_ok k r x : refs_ok r -> rget k r = Some x -> entry_ok (k, x).
  Proof.
    unfold refs_ok, rget. intros Hr. induction r as [|[k' ov'] r IH]; cbn [im_get]; [discriminate|].
    inversion Hr as [|? ? Hh Ht]; subst. destruct (rkey_eqb k k') eqn:Ek.
    - apply rkey_eqb_eq in Ek. subst k'. intros [= <-]. exact Hh.
    - apply IH, Ht.
  Qed.

  Definition stack_ok (G : ctx) (ss : list (N * scope)) : Prop :=
    forall x t, ctx_get x G = Some t -> exists v a, lookup_binding x ss = Some (v, a) /\ vt v t.

  Definition scope_ok (G : ctx) (sc : scope) : Prop :=
    forall x t, ctx_get x G = Some t -> exists v a, im_get N.eqb x sc = Some (v, a) /\ vt v t.

  Definition ok_res {B} (fr : list (N * scope)) (Q : B -> Prop) (r : res (st * B)) : Prop :=
    match r with
    | Ok (s', b) => Q b /\ refs_ok (refs s') /\ scopes s' = fr
    | Panic p => allowed p
    | _ => True
    end.

  Lemma ok_bind {B C} fr (Q : B -> Prop) (R : C -> Prop) (r : res (st * B)) (k : st * B -> res (st * C)) :
    ok_res fr Q r ->
    (forall s' b, Q b -> refs_ok (refs s') -> scopes s' = fr -> ok_res fr R (k (s', b))) ->
    ok_res fr R (bind r k).
  Proof.
    intros Hr Hk. destruct r as [[s' b]|x|p|]; cbn [ok_res bind] in *; try exact I; [|exact Hr].
    destruct Hr as (Hq & Hrf & Hs). apply Hk; assumption.
  Qed.

  (** a cast or another pure step that can only fail in the allowed ways *)
  Definition pure_ok {B} (c : res B) : Prop := match c with Panic p => allowed p | _ => True end.

  Lemma ok_pure {B C} fr (R : C -> Prop) (c : res B) (k : B -> res (st * C)) :
    pure_ok c -> (forall x, c = Ok x -> ok_res fr R (k x)) -> ok_res fr R (bind c k).
  Proof.
    intros Hc Hk. destruct c as [x|x|p|]; cbn [bind ok_res pure_ok] in *; try exact I; [apply Hk; reflexivity|exact Hc].
  Qed.

  Lemma ok_ret {B} fr (Q : B -> Prop) s b : Q b -> refs_ok (refs s) -> scopes s = fr -> ok_res fr Q (Ok (s, b)).
  Proof. intros. cbn. auto. Qed.

  Section Lists.
    Context {X B : Type}.
    Variable fr : list (N * scope).
    Variable okx : X -> bool.
    Variable Q : B -> Prop.
    Variable f : st -> X -> res (st * B).
    Hypothesis Hf : forall s x, okx x = true -> refs_ok (refs s) -> scopes s = fr -> ok_res fr Q (f s x).

    Lemma map_st_ok l : forall s, forallb okx l = true -> refs_ok (refs s) -> scopes s = fr ->
      ok_res fr (fun bs => Forall Q bs /\ length bs = length l) (map_st f s l).
    Proof.
      induction l as [|x l IH]; intros s Hl Hr Hs.
      - cbn. auto.
      - cbn [forallb] in Hl. apply andb_prop in Hl as [Hx Hl]. cbn [map_st].
        eapply ok_bind; [apply Hf; assumption|].
        intros s1 b Hb Hr1 Hs1. eapply ok_bind; [apply IH; assumption|].
        intros s2 bs [Hbs Hlen] Hr2 Hs2. apply ok_ret; [|assumption|assumption].
        split; [constructor; assumption|cbn [length]; congruence].
    Qed.

    Lemma opt_st_ok o : forall s, match o with Some x => okx x = true | None => True end -> refs_ok (refs s) -> scopes s = fr ->
      ok_res fr (fun ob => match ob with Some b => Q b | None => True end) (opt_st f s o).
    Proof.
      intros s Ho Hr Hs. destruct o as [x|]; cbn [opt_st].
      - eapply ok_bind; [apply Hf; assumption|]. intros s1 b Hb Hr1 Hs1. apply ok_ret; assumption.
      - apply ok_ret; auto.
    Qed.
  End Lists.

  Lemma is_schema_ground t : is_schema_t t = true -> ground t = true.
  Proof. destruct t as [[]| | |]; cbn; congruence. Qed.

  Lemma ctx_insert_same x (t : tag) G : ctx_get x (im_insert N.eqb x t G) = Some t.
  Proof.
    unfold ctx_get. induction G as [|[k w] G IH]; cbn [im_insert im_get]; [rewrite N.eqb_refl; reflexivity|].
    destruct (N.eqb x k) eqn:Ek; cbn [im_get]; rewrite ?Ek; [reflexivity|exact IH].
  Qed.
  Lemma ctx_insert_other x y (t : tag) G : x <> y -> ctx_get x (im_insert N.eqb y t G) = ctx_get x G.
  Proof.
    unfold ctx_get. intros Hne. induction G as [|[k w] G IH]; cbn [im_insert im_get].
    - destruct (N.eqb_spec x y); [contradiction|reflexivity].
    - destruct (N.eqb_spec y k) as [->|Hyk]; cbn [im_get].
      + destruct (N.eqb_spec x k); [contradiction|reflexivity].
      + destruct (N.eqb x k); [reflexivity|exact IH].
  Qed.
  Lemma sc_insert_same x (v : aval) (sc : scope) : im_get N.eqb x (im_insert N.eqb x v sc) = Some v.
  Proof.
    induction sc as [|[k w] sc IH]; cbn [im_insert im_get]; [rewrite N.eqb_refl; reflexivity|].
    destruct (N.eqb x k) eqn:Ek; cbn [im_get]; rewrite ?Ek; [reflexivity|exact IH].
  Qed.
  Lemma sc_insert_other x y (v : aval) (sc : scope) : x <> y -> im_get N.eqb x (im_insert N.eqb y v sc) = im_get N.eqb x sc.
  Proof.
    intros Hne. induction sc as [|[k w] sc IH]; cbn [im_insert im_get].
    - destruct (N.eqb_spec x y); [contradiction|reflexivity].
    - destruct (N.eqb_spec y k) as [->|Hyk]; cbn [im_get].
      + destruct (N.eqb_spec x k); [contradiction|reflexivity].
      + destruct (N.eqb x k); [reflexivity|exact IH].
  Qed.

  Lemma scope_ok_insert G sc p t v a : scope_ok G sc -> vt v t -> scope_ok (im_insert N.eqb p t G) (im_insert N.eqb p (v, a) sc).
  Proof.
    intros Hs Hv x t' Hx. destruct (N.eq_dec x p) as [->|Hne].
    - rewrite ctx_insert_same in Hx. injection Hx as <-. exists v, a. split; [apply sc_insert_same|exact Hv].
    - rewrite ctx_insert_other in Hx by exact Hne. rewrite sc_insert_other by exact Hne. apply Hs, Hx.
  Qed.

  (** the scope of an application is typed by the parameter context *)
  Lemma bind_args_ok fr (ev : st -> expr -> res (st * aval)) G0 args : forall bs ps s G sc,
    (forall s a b, refs_ok (refs s) -> scopes s = fr -> is_tag (synth E G0 a) b = true -> ok_res fr (fun va => vt (fst va) b) (ev s a)) ->
    all2 (fun a b => is_tag (synth E G0 a) b) args bs = true -> length bs = length ps ->
    scope_ok G sc -> refs_ok (refs s) -> scopes s = fr ->
    ok_res fr (fun sc' => scope_ok (mkctx ps bs G) sc') (bind_args ev s ps args sc).
  Proof.
    induction args as [|a args IH]; intros bs ps s G sc Hev Hall Hlen Hsc Hr Hs.
    - destruct bs; [|discriminate]. destruct ps; [|discriminate]. cbn. auto.
    - destruct bs as [|b bs]; [discriminate|]. destruct ps as [|p ps]; [discriminate|].
      cbn [all2] in Hall. apply andb_prop in Hall as [Ha Hall].
      cbn [bind_args mkctx]. eapply ok_bind; [apply Hev; eassumption|].
      intros s1 [v a1] Hv Hr1 Hs1. cbn [fst] in Hv.
      apply IH; try assumption; [cbn [length] in Hlen; congruence|apply scope_ok_insert; assumption].
  Qed.

  Lemma compose_pure anns : forall acc, pure_ok (compose anns acc).
  Proof. induction anns as [|[a|] anns IH]; intros acc; cbn [compose]; [exact I|apply IH|exact I]. Qed.

  Lemma prim_value_typed p a : N.ltb p 5 = true -> exists v, prim_value p a = Ok v /\ vt v (T BPrimitive).
  Proof.
    intros Hp. destruct p as [|[[[|[]|]|[[]|[]|]|]|[[|[]|]|[[]|[]|]|]|]]; try discriminate Hp; cbn [prim_value]; eexists; (split; [reflexivity|]); cbn [vt]; auto.
  Qed.


  Lemma uri_append_typed lp lprm lex rp rprm rex : lp <> [] -> rp <> [] ->
    exists p' a b, uri_append (Uri lp lprm lex) (Uri rp rprm rex) = Ok (Uri p' a b) /\ p' <> [].
  Proof.
    intros Hl Hr. unfold uri_append. destruct (rev lp) as [|lastseg before] eqn:Hrev.
    - exfalso. apply Hl. rewrite <- (rev_involutive lp), Hrev. reflexivity.
    - eexists _, _, _. split; [reflexivity|]. intros H. apply app_eq_nil in H as [_ H]. exact (Hr H).
  Qed.

  Lemma pure_of {B} (c : res B) : match c with Ok _ => True | Panic p => allowed p | _ => False end -> pure_ok c.
  Proof. destruct c; cbn; auto. Qed.
  Lemma pure_of_ex {B} (c : res B) : (exists x, c = Ok x) -> pure_ok c.
  Proof. intros [x ->]. exact I. Qed.

  Definition VT (t : tag) : aval -> Prop := fun va => vt (fst va) t.

  Lemma step_schema t0 : is_schema_t t0 = true -> forall va, VT t0 va -> pure_ok (cast_schema va) /\ (forall x, cast_schema va = Ok x -> True).
  Proof. intros Hs [v a] Hv. split; [|auto]. apply pure_of_ex. eapply cast_schema_typed; eassumption. Qed.
  Lemma step_property t' : forall va, VT (TProperty t') va -> pure_ok (cast_property (fst va)) /\ (forall x, cast_property (fst va) = Ok x -> True).
  Proof. intros [v a] Hv. split; [|auto]. apply pure_of_ex. eapply cast_property_typed; eassumption. Qed.
  Lemma step_ranges t0 : content_like_t t0 = true -> forall va, VT t0 va -> pure_ok (cast_ranges va) /\ (forall x, cast_ranges va = Ok x -> True).
  Proof. intros Hs [v a] Hv. split; [|auto]. apply pure_of. eapply cast_ranges_typed; eassumption. Qed.
  Lemma step_content t0 : content_like_t t0 = true -> forall va, VT t0 va -> pure_ok (cast_content va) /\ (forall x, cast_content va = Ok x -> True).
  Proof. intros Hs [v a] Hv. split; [|auto]. apply pure_of. eapply cast_content_typed; eassumption. Qed.
  Lemma step_object : forall va, VT (T BObject) va -> pure_ok (cast_object (fst va)) /\ (forall x, cast_object (fst va) = Ok x -> True).
  Proof. intros [v a] Hv. split; [|auto]. apply pure_of. apply cast_object_typed, Hv. Qed.
  Lemma step_transfer : forall va, VT (T BTransfer) va -> pure_ok (cast_transfer (fst va)) /\ (forall x, cast_transfer (fst va) = Ok x -> True).
  Proof. intros [v a] Hv. split; [|auto]. apply pure_of_ex. apply cast_transfer_typed, Hv. Qed.


  Definition meta_okb (G : ctx) (ke : N * expr) : bool :=
    match ke with
    | (0, rhs) => is_tag (synth E G rhs) (T BText)
    | (1, rhs) => is_tag (synth E G rhs) (T BObject)
    | (2, rhs) => has status_like_t (synth E G rhs)
    | _ => false
    end.

  Lemma eval_metas_ok fr (ev : st -> expr -> res (st * aval)) G ms :
    (forall s rhs t0, synth E G rhs = Some t0 -> refs_ok (refs s) -> scopes s = fr -> ok_res fr (VT t0) (ev s rhs)) ->
    forall s acc, forallb (meta_okb G) ms = true -> refs_ok (refs s) -> scopes s = fr ->
    ok_res fr (fun _ => True) (eval_metas ev s ms acc).
  Proof.
    intros Hev. induction ms as [|[k rhs] ms IH]; intros s acc Hok Hr Hs.
    - apply ok_ret; auto.
    - cbn [forallb] in Hok. apply andb_prop in Hok as [Hk Hok]. cbn [eval_metas].
      destruct acc as [[status media] headers].
      destruct k as [|[[p|p|]|[p|p|]|]]; cbn [meta_okb] in Hk; try discriminate Hk.
      + apply is_tag_eq in Hk. eapply ok_bind; [apply Hev; eassumption|].
        intros s1 [v a] Hv Hr1 Hs1. cbn beta iota. cbn [fst]. destruct (cast_string_typed v Hv) as [x ->]. cbn [bind]. apply IH; assumption.
      + apply has_some in Hk as (t0 & Ht0 & Hst0). eapply ok_bind; [apply Hev; eassumption|].
        intros s1 [v a] Hv Hr1 Hs1. cbn beta iota. cbn [fst]. pose proof (cast_status_typed v t0 Hv Hst0) as Hc.
        destruct (cast_http_status v); cbn [bind ok_res]; try contradiction; [apply IH; assumption|exact I].
      + apply is_tag_eq in Hk. eapply ok_bind; [apply Hev; eassumption|].
        intros s1 [v a] Hv Hr1 Hs1. cbn beta iota. cbn [fst]. pose proof (cast_object_typed v Hv) as Hc.
        destruct (cast_object v); cbn [bind ok_res]; try contradiction; [apply IH; assumption|exact Hc].
  Qed.

  (** * the program is well typed *)
  Hypothesis H_decl : forall m i d, get_decl P m i = Some d -> exists t, sig_get E m i = Some t /\ decl_okb E d t = true.
  Hypothesis H_sig : forall m i t, sig_get E m i = Some t -> exists d, get_decl P m i = Some d.
  Hypothesis H_named : forall m i d m' i' d' x t t',
    get_decl P m i = Some d -> get_decl P m' i' = Some d' -> d_ref d = Some x -> d_ref d' = Some x ->
    sig_get E m i = Some t -> sig_get E m' i' = Some t' -> t = t'.

  Variable lx : bool.

  Lemma sound : forall n s e a G t,
    synth E G e = Some t -> stack_ok G (scopes s) -> refs_ok (refs s) ->
    ok_res (scopes s) (VT t) (eval lx P n s e a).
  Proof.
    induction n as [|n IH]; intros s e a G t Hty Hst Hrf; [exact I|].
    set (fr := scopes s) in *.
    assert (IHs : forall s0 e0 a0 t0, synth E G e0 = Some t0 -> refs_ok (refs s0) -> scopes s0 = fr ->
                                      ok_res fr (VT t0) (eval lx P n s0 e0 a0)).
    { intros s0 e0 a0 t0 H0 Hr0 Hs0. rewrite <- Hs0. apply (IH s0 e0 a0 G t0 H0); [rewrite Hs0; exact Hst|exact Hr0]. }
    assert (Hstep : forall {B} (c : aval -> res B) (Q : B -> Prop) t0,
               (forall va, VT t0 va -> pure_ok (c va) /\ forall x, c va = Ok x -> Q x) ->
               forall s0 e0, synth E G e0 = Some t0 -> refs_ok (refs s0) -> scopes s0 = fr ->
               ok_res fr Q (do (s', v) <- eval lx P n s0 e0 []; do x <- c v; Ok (s', x))).
    { intros B c Q t0 Hc s0 e0 H0 Hr0 Hs0. eapply ok_bind; [apply IHs; eassumption|].
      intros s1 va Hva Hr1 Hs1. destruct (Hc va Hva) as [Hp Hq]. cbn beta iota. apply ok_pure; [exact Hp|].
      intros x Hx. apply ok_ret; auto. }
    destruct e; cbn [synth] in Hty; cbn [eval].
    - (* ETerm *)
      apply ok_pure; [apply compose_pure|]. intros x _. apply IHs; [exact Hty|exact Hrf|reflexivity].
    - (* ESub *) apply IHs; [exact Hty|exact Hrf|reflexivity].
    - (* EPrim *)
      destruct (N.ltb p 5) eqn:Hp; [|discriminate Hty]. injection Hty as <-.
      destruct (prim_value_typed p a Hp) as (v & -> & Hv). cbn [bind]. apply ok_ret; [exact Hv|exact Hrf|reflexivity].
    - injection Hty as <-. apply ok_ret; [reflexivity|exact Hrf|reflexivity].
    - injection Hty as <-. apply ok_ret; [reflexivity|exact Hrf|reflexivity].
    - injection Hty as <-. apply ok_ret; [reflexivity|exact Hrf|reflexivity].
    - (* EDecl *)
      destruct (sig_get E m i) as [t0|] eqn:Hsig; [|discriminate Hty].
      destruct (ground t0) eqn:Hg; [|discriminate Hty]. injection Hty as ->.
      destruct (H_sig m i t Hsig) as [d Hd]. rewrite Hd.
      destruct (H_decl m i d Hd) as (t1 & Hsig1 & Hok). rewrite Hsig in Hsig1. injection Hsig1 as <-.
      unfold decl_okb in Hok. rewrite Hg in Hok. cbn [negb orb] in Hok.
      destruct (d_params d) as [|p ps] eqn:Hps.
      + apply andb_prop in Hok as [Hrhs Hsch]. apply is_tag_eq in Hrhs.
        apply ok_pure; [apply compose_pure|]. intros da _.
        assert (IHd : forall s0 a0, refs_ok (refs s0) -> ok_res (scopes s0) (VT t) (eval lx P n s0 (d_rhs d) a0)).
        { intros s0 a0 Hr0. apply (IH s0 (d_rhs d) a0 [] t Hrhs); [intros x t' Hx; discriminate Hx|exact Hr0]. }
        destruct (is_some (d_ref d) || d_rec d) eqn:Href.
        * replace (match d_ref d with Some _ => true | None => false end) with (is_some (d_ref d)) by reflexivity.
          rewrite Href.
          set (key := match d_ref d with Some x => KNamed x | None => KDecl m i end).
          assert (Hkey : key_tag key t).
          { subst key. destruct (d_ref d) as [x|] eqn:Hx; cbn [key_tag]; [exists m, i, d; auto|exact Hsig]. }
          destruct (rget key (refs s)) as [[[v va]|]|] eqn:Hget.
          -- pose proof (rget_ok _ _ _ Hrf Hget) as (t1 & Hs1 & Hv1 & Hk1). cbn [fst snd] in *.
             assert (t1 = t) as ->.
             { subst key. destruct (d_ref d) as [x|] eqn:Hx; cbn [key_tag] in Hk1.
               - destruct Hk1 as (m' & i' & d' & Hd' & Hx' & Hs'). exact (H_named m' i' d' m i d x t1 t Hd' Hd Hx' Hx Hs' Hsig).
               - congruence. }
             apply ok_ret; [split; assumption|exact Hrf|reflexivity].
          -- apply ok_ret; [exact Hsch|exact Hrf|reflexivity].
          -- eapply ok_bind; [apply (IHd (set_refs s (rinsert key None (refs s)))); apply rinsert_ok; [exact Hrf|exact I]|].
             intros s2 [v va] Hv Hr2 Hs2. cbn [fst snd] in *. apply ok_ret.
             ++ split; [exact Hsch|exact Hv].
             ++ apply rinsert_ok; [exact Hr2|]. exists t. cbn [fst snd]. auto.
             ++ exact Hs2.
        * replace (match d_ref d with Some _ => true | None => false end) with (is_some (d_ref d)) by reflexivity.
          rewrite Href. apply IHd, Hrf.
      + destruct t as [b|t'|bs r|v]; try discriminate Hok.
        apply ok_ret; [|exact Hrf|reflexivity].
        cbn [VT fst vt]. repeat split; [exact Hsig|exact Hg|]. exists d. split; [exact Hd|rewrite Hps; discriminate].
    - (* EConcat *) injection Hty as <-. apply ok_ret; [reflexivity|exact Hrf|reflexivity].
    - (* EBind *)
      destruct (Hst x t Hty) as (v & a' & Hl & Hv). unfold fr in Hl. rewrite Hl. apply ok_ret; [exact Hv|exact Hrf|reflexivity].
    - (* EApp *)
      destruct (synth E G e) as [[b|t'|bs r|v]|] eqn:Hf; try discriminate Hty.
      destruct (all2 (fun a0 b => is_tag (synth E G a0) b) args bs) eqn:Hall; [|discriminate Hty]. injection Hty as ->.
      eapply ok_bind; [apply (IHs s e [] (TFunc bs t) Hf Hrf eq_refl)|].
      intros s1 [fv fa] Hfv Hr1 Hs1. cbn [VT fst] in Hfv. cbn beta iota. cbn [fst].
      destruct (cast_lambda_typed fv bs t Hfv) as [(-> & Hct & Hcl)|(m & i & -> & Hcl)]; rewrite Hcl; cbn [bind].
      + (* the built-in concat *)
        unfold concat_tag in Hct. injection Hct as -> ->.
        pose proof (all2_length _ _ _ Hall) as Hlen2.
        destruct args as [|a1 [|a2 [|a3 args]]]; try discriminate Hlen2. cbn [all2] in Hall.
        apply andb_prop in Hall as [H1 H2]. apply andb_prop in H2 as [H2 _].
        eapply ok_bind.
        { apply (map_st_ok fr (fun a0 => is_tag (synth E G a0) (T BUri)) (VT (T BUri))); [|cbn [forallb]; rewrite H1, H2; reflexivity|exact Hr1|exact Hs1].
          intros s0 x Hx Hr0 Hs0. apply IHs; [apply is_tag_eq, Hx|exact Hr0|exact Hs0]. }
        intros s2 vs [Hvs Hlen] Hr2 Hs2. cbn beta iota.
        destruct vs as [|[vl al] [|[vr ar] [|v3 vs]]]; try discriminate Hlen.
        inversion Hvs as [|? ? Hvl Hvs']; subst. inversion Hvs' as [|? ? Hvr _]; subst. cbn [VT fst] in Hvl, Hvr.
        pose proof (cast_uri_typed vr Hvr) as Hcr. pose proof (cast_uri_typed vl Hvl) as Hcl'.
        cbn [fst]. destruct (cast_uri vr) as [[rp rprm rex]|x|p|]; cbn [bind]; try contradiction; [|exact Hcr].
        destruct (cast_uri vl) as [[lp lprm lex]|x|p|]; cbn [bind]; try contradiction; [|exact Hcl'].
        destruct (uri_append_typed lp lprm lex rp rprm rex Hcl' Hcr) as (p' & ua & ub & -> & Hp'). cbn [bind].
        apply ok_ret; [cbn [VT fst vt]; right; split; [reflexivity|exact Hp']|exact Hr2|exact Hs2].
      + (* a declared function *)
        destruct Hfv as (Hsig & Hg & d & Hd & Hps). rewrite Hd.
        destruct (H_decl m i d Hd) as (t1 & Hsig1 & Hok). rewrite Hsig in Hsig1. injection Hsig1 as <-.
        unfold decl_okb in Hok. rewrite Hg in Hok. cbn [negb orb] in Hok.
        destruct (d_params d) as [|p ps] eqn:Hpd; [contradiction|].
        apply andb_prop in Hok as [Hlen Hrhs]. apply Nat.eqb_eq in Hlen. apply is_tag_eq in Hrhs.
        eapply ok_bind.
        { apply (bind_args_ok fr (fun s0 e0 => eval lx P n s0 e0 []) G args bs (p :: ps) s1 [] []); try assumption.
          - intros s0 a0 b0 Hr0 Hs0 Hb0. apply IHs; [apply is_tag_eq, Hb0|exact Hr0|exact Hs0].
          - intros x t' Hx. discriminate Hx. }
        intros s2 sc Hsc Hr2 Hs2. cbn beta iota.
        apply ok_pure; [apply compose_pure|]. intros da _.
        assert (Hlenargs : length args = length (p :: ps)).
        { pose proof (all2_length _ _ _ Hall). congruence. }
        destruct lx.
        { (* the lexical semantics: the arity test passes, the body runs on its own scope only *)
          rewrite Hlenargs, Nat.ltb_irrefl.
          assert (Hst1 : stack_ok (mkctx (p :: ps) bs []) (scopes (mk_st (refs s2) [((seq s2 + 1)%N, sc)] (seq s2 + 1)%N))).
          { intros x t' Hx. destruct (Hsc x t' Hx) as (v & a' & Hget & Hv). exists v, a'. split; [|exact Hv].
            cbn [scopes lookup_binding]. rewrite Hget. reflexivity. }
          pose proof (IH (mk_st (refs s2) [((seq s2 + 1)%N, sc)] (seq s2 + 1)%N) (d_rhs d) (extend da a) _ t Hrhs Hst1 Hr2) as Hbody.
          destruct (eval true P n (mk_st (refs s2) [((seq s2 + 1)%N, sc)] (seq s2 + 1)%N) (d_rhs d) (extend da a)) as [[s3 rv]|x|p0|]; cbn [bind ok_res] in *; try exact I; [|exact Hbody].
          destruct Hbody as (Hv & Hr3 & _). split; [exact Hv|]. split; [exact Hr3|exact Hs2]. }
        assert (Hst2 : stack_ok (mkctx (p :: ps) bs []) (scopes (push_scope s2 sc))).
        { intros x t' Hx. destruct (Hsc x t' Hx) as (v & a' & Hget & Hv). exists v, a'. split; [|exact Hv].
          cbn [push_scope scopes lookup_binding]. rewrite Hget. reflexivity. }
        pose proof (IH (push_scope s2 sc) (d_rhs d) (extend da a) _ t Hrhs Hst2 Hr2) as Hbody.
        destruct (eval false P n (push_scope s2 sc) (d_rhs d) (extend da a)) as [[s3 rv]|x|p0|]; cbn [bind ok_res] in *; try exact I; [|exact Hbody].
        destruct Hbody as (Hv & Hr3 & Hs3). split; [exact Hv|]. split; [exact Hr3|].
        unfold pop_scope. cbn [scopes]. rewrite Hs3. cbn [push_scope scopes tl]. exact Hs2.
    - (* ERec *)
      destruct (rec_get E m i) as [t0|] eqn:Hrec; [|discriminate Hty].
      destruct (is_schema_t t0 && negb (is_uri_t t0) && is_tag (synth E ((x, t0) :: G) e) t0) eqn:Hc; [|discriminate Hty].
      injection Hty as ->. apply andb_prop in Hc as [Hc1 Hbody]. apply andb_prop in Hc1 as [Hsch _]. apply is_tag_eq in Hbody.
      set (key := KRec m i (top_scope_id s)).
      set (sc := [(x, (VRecur key, @nil (str * yaml)))]).
      assert (Hst2 : stack_ok ((x, t) :: G) (scopes (push_scope s sc))).
      { intros y t' Hy. cbn [push_scope scopes lookup_binding sc im_get]. unfold ctx_get in Hy. cbn [im_get] in Hy.
        destruct (N.eqb y x).
        - injection Hy as <-. exists (VRecur key), []. split; [reflexivity|exact Hsch].
        - apply Hst, Hy. }
      pose proof (IH (push_scope s sc) e a _ t Hbody Hst2 Hrf) as Hb.
      destruct (eval lx P n (push_scope s sc) e a) as [[s1 [rv ra]]|y|p0|]; cbn [bind ok_res] in *; try exact I; [|exact Hb].
      destruct Hb as (Hv & Hr1 & Hs1). cbn [VT fst snd] in *. split; [split; [exact Hsch|exact Hv]|]. split.
      + cbn [set_refs refs pop_scope]. apply rinsert_ok; [exact Hr1|]. exists t. cbn [fst snd]. split; [exact Hsch|]. split; [exact Hv|exact I].
      + cbn [set_refs scopes pop_scope]. rewrite Hs1. reflexivity.
    - (* EObj *)
      destruct (forallb (fun p => has is_property_t (synth E G p)) ps) eqn:Hps; [|discriminate Hty]. injection Hty as <-.
      eapply ok_bind.
      { apply (map_st_ok fr (fun p => has is_property_t (synth E G p)) (fun _ => True)); [|exact Hps|exact Hrf|reflexivity].
        intros s0 x Hx Hr0 Hs0. apply has_some in Hx as (t0 & Ht0 & Hp0). destruct t0 as [|t'| |]; try discriminate Hp0.
        apply (Hstep _ (fun v => cast_property (fst v)) _ (TProperty t') (step_property t') s0 x Ht0 Hr0 Hs0). }
      intros s1 props _ Hr1 Hs1. apply ok_ret; [reflexivity|exact Hr1|exact Hs1].
    - (* EProp *)
      destruct (synth E G e) as [t0|] eqn:He; [|discriminate Hty].
      destruct (is_schema_t t0) eqn:Hs0; [|discriminate Hty]. injection Hty as <-.
      eapply ok_bind; [apply (IHs s e [] t0 He Hrf eq_refl)|].
      intros s1 v Hv Hr1 Hs1. cbn beta iota. destruct (step_schema t0 Hs0 v Hv) as [Hp _].
      apply ok_pure; [exact Hp|]. intros sc _. apply ok_ret; [cbn [VT fst vt]; eexists; reflexivity|exact Hr1|exact Hs1].
    - (* EUnary *)
      destruct (synth E G e) as [[|t0| |]|] eqn:He; try discriminate Hty. injection Hty as <-.
      eapply ok_bind; [apply (IHs s e [] (TProperty t0) He Hrf eq_refl)|].
      intros s1 v Hv Hr1 Hs1. cbn beta iota. destruct (step_property t0 v Hv) as [Hp _].
      apply ok_pure; [exact Hp|]. intros pr _. apply ok_ret; [cbn [VT fst vt]; eexists; reflexivity|exact Hr1|exact Hs1].
    - (* EArr *)
      destruct (has is_schema_t (synth E G e)) eqn:He; [|discriminate Hty]. injection Hty as <-.
      apply has_some in He as (t0 & He & Hs0).
      eapply ok_bind; [apply (IHs s e [] t0 He Hrf eq_refl)|].
      intros s1 v Hv Hr1 Hs1. cbn beta iota. destruct (step_schema t0 Hs0 v Hv) as [Hp _].
      apply ok_pure; [exact Hp|]. intros sc _. apply ok_ret; [reflexivity|exact Hr1|exact Hs1].
    - (* EOp *)
      assert (Hschema_ops : forall (okx : expr -> bool), (forall o, okx o = true -> exists t0, synth E G o = Some t0 /\ is_schema_t t0 = true) ->
                forallb okx es = true -> is_schema_t t = true -> N.eqb op 3 = false -> vop_of op <> None ->
                ok_res fr (VT t) (if N.eqb op 3
                   then do (s1, rs) <- map_st (fun s o => do (s', v) <- eval lx P n s o []; do r <- cast_ranges v; Ok (s', r)) s es;
                        Ok (s1, (VRanges (fold_left (im_extend rgkey_eqb) rs []), a))
                   else match vop_of op with
                        | None => Panic P_node
                        | Some vo =>
                            do (s1, ss) <- map_st (fun s o => do (s', v) <- eval lx P n s o []; do sc <- cast_schema v; Ok (s', sc)) s es;
                            Ok (s1, (VOp vo ss, a))
                        end)).
      { intros okx Hokx Hall Hst' Hop Hvop. rewrite Hop. destruct (vop_of op) as [vo|]; [|contradiction].
        eapply ok_bind.
        { apply (map_st_ok fr okx (fun _ => True)); [|exact Hall|exact Hrf|reflexivity].
          intros s0 o Ho Hr0 Hs0. destruct (Hokx o Ho) as (t0 & Ht0 & Hs0').
          apply (Hstep _ cast_schema _ t0 (step_schema t0 Hs0') s0 o Ht0 Hr0 Hs0). }
        intros s1 ss _ Hr1 Hs1. apply ok_ret; [exact Hst'|exact Hr1|exact Hs1]. }
      destruct op as [|[[p|p|]|[p|p|]|]]; cbn beta iota in Hty; try discriminate Hty.
      + (* join *)
        destruct (forallb (fun o => is_tag (synth E G o) (T BObject)) es) eqn:Hes; [|discriminate Hty]. injection Hty as <-.
        apply (Hschema_ops (fun o => is_tag (synth E G o) (T BObject))); [|exact Hes|reflexivity|reflexivity|discriminate].
        intros o Ho. exists (T BObject). split; [apply is_tag_eq, Ho|reflexivity].
      + (* range *)
        destruct (forallb (fun o => has content_like_t (synth E G o)) es) eqn:Hes; [|discriminate Hty]. injection Hty as <-.
        change (N.eqb 3 3) with true. cbn iota.
        eapply ok_bind.
        { apply (map_st_ok fr (fun o => has content_like_t (synth E G o)) (fun _ => True)); [|exact Hes|exact Hrf|reflexivity].
          intros s0 o Ho Hr0 Hs0. apply has_some in Ho as (t0 & Ht0 & Hc0).
          apply (Hstep _ cast_ranges _ t0 (step_ranges t0 Hc0) s0 o Ht0 Hr0 Hs0). }
        intros s1 rs _ Hr1 Hs1. apply ok_ret; [reflexivity|exact Hr1|exact Hs1].
      + (* sum *)
        destruct es as [|o1 es]; [discriminate Hty|].
        destruct (synth E G o1) as [t0|] eqn:Ho1; [|discriminate Hty].
        destruct (is_schema_t t0 && forallb (fun o => is_tag (synth E G o) t0) (o1 :: es)) eqn:Hes; [|discriminate Hty]. injection Hty as <-.
        apply andb_prop in Hes as [Hs0 Hes].
        apply (Hschema_ops (fun o => is_tag (synth E G o) t0)); [|exact Hes|exact Hs0|reflexivity|discriminate].
        intros o Ho. exists t0. split; [apply is_tag_eq, Ho|exact Hs0].
      + (* any *)
        destruct (forallb (fun o => has is_schema_t (synth E G o)) es) eqn:Hes; [|discriminate Hty]. injection Hty as <-.
        apply (Hschema_ops (fun o => has is_schema_t (synth E G o))); [|exact Hes|reflexivity|reflexivity|discriminate].
        intros o Ho. apply has_some in Ho as (t0 & Ht0 & Hs0). exists t0. auto.
    - (* ECont *)
      match type of Hty with (if ?c1 && forallb ?f metas then _ else _) = _ =>
        destruct c1 eqn:Hbody; [|discriminate Hty];
        change (forallb f metas) with (forallb (meta_okb G) metas) in Hty end.
      destruct (forallb (meta_okb G) metas) eqn:Hms; [|discriminate Hty]. injection Hty as <-.
      eapply ok_bind.
      { apply (opt_st_ok fr (fun b => has is_schema_t (synth E G b)) (fun _ => True)); [|destruct body; [exact Hbody|exact I]|exact Hrf|reflexivity].
        intros s0 x Hx Hr0 Hs0. apply has_some in Hx as (t0 & Ht0 & Hs0').
        apply (Hstep _ cast_schema _ t0 (step_schema t0 Hs0') s0 x Ht0 Hr0 Hs0). }
      intros s1 schema _ Hr1 Hs1. cbn beta iota zeta.
      eapply ok_bind.
      { apply (eval_metas_ok fr (fun s0 e0 => eval lx P n s0 e0 []) G metas); [|exact Hms|exact Hr1|exact Hs1].
        intros s0 rhs t0 Ht0 Hr0 Hs0. apply IHs; assumption. }
      intros s2 [[status media] headers] _ Hr2 Hs2. apply ok_ret; [reflexivity|exact Hr2|exact Hs2].
    - (* EXfer *)
      match type of Hty with (if ?c then _ else _) = _ => destruct c eqn:Hc; [|discriminate Hty] end. injection Hty as <-.
      apply andb_prop in Hc as [Hc Hprm]. apply andb_prop in Hc as [Hc Hrg]. apply andb_prop in Hc as [_ Hdom].
      eapply ok_bind.
      { apply (opt_st_ok fr (fun d => has content_like_t (synth E G d)) (fun _ => True)); [|destruct domain; [exact Hdom|exact I]|exact Hrf|reflexivity].
        intros s0 x Hx Hr0 Hs0. apply has_some in Hx as (t0 & Ht0 & Hc0).
        apply (Hstep _ cast_content _ t0 (step_content t0 Hc0) s0 x Ht0 Hr0 Hs0). }
      intros s1 dom _ Hr1 Hs1. cbn beta iota zeta.
      apply has_some in Hrg as (tr & Htr & Hcr).
      eapply ok_bind; [apply (IHs s1 e [] tr Htr Hr1 Hs1)|].
      intros s2 rv Hrv Hr2 Hs2. cbn beta iota. destruct (step_ranges tr Hcr rv Hrv) as [Hp _].
      apply ok_pure; [exact Hp|]. intros rg _.
      eapply ok_bind.
      { apply (opt_st_ok fr (fun p => is_tag (synth E G p) (T BObject)) (fun _ => True)); [|destruct params; [exact Hprm|exact I]|exact Hr2|exact Hs2].
        intros s0 x Hx Hr0 Hs0. apply is_tag_eq in Hx.
        apply (Hstep _ (fun v => cast_object (fst v)) _ (T BObject) step_object s0 x Hx Hr0 Hs0). }
      intros s3 prm _ Hr3 Hs3. apply ok_ret; [reflexivity|exact Hr3|exact Hs3].
    - (* EUri *)
      match type of Hty with (if ?c then _ else _) = _ => destruct c eqn:Hc; [|discriminate Hty] end. injection Hty as <-.
      apply andb_prop in Hc as [Hc Hprm]. apply andb_prop in Hc as [Hne Hsegs].
      eapply ok_bind.
      { apply (map_st_ok fr (fun sg : str + expr => match sg with inl _ => true | inr v => is_tag (synth E G v) (TProperty (T BPrimitive)) end)
                         (fun _ => True)); [|exact Hsegs|exact Hrf|reflexivity].
        intros s0 [x|v] Hx Hr0 Hs0; [apply ok_ret; auto|]. apply is_tag_eq in Hx.
        eapply ok_bind; [apply (IHs s0 v [] _ Hx Hr0 Hs0)|].
        intros s1 pv Hpv Hr1 Hs1. cbn beta iota. destruct (step_property _ pv Hpv) as [Hp _].
        apply ok_pure; [exact Hp|]. intros pr _. apply ok_ret; auto. }
      intros s1 path [_ Hlen] Hr1 Hs1. cbn beta iota.
      eapply ok_bind.
      { apply (opt_st_ok fr (fun p => is_tag (synth E G p) (T BObject)) (fun _ => True)); [|destruct params; [exact Hprm|exact I]|exact Hr1|exact Hs1].
        intros s0 x Hx Hr0 Hs0. apply is_tag_eq in Hx.
        apply (Hstep _ (fun v => cast_object (fst v)) _ (T BObject) step_object s0 x Hx Hr0 Hs0). }
      intros s2 prm _ Hr2 Hs2. apply ok_ret; [|exact Hr2|exact Hs2].
      cbn [VT fst vt]. right. split; [reflexivity|]. intros ->. destruct segs; [discriminate Hne|discriminate Hlen].
    - (* ERel *)
      match type of Hty with (if ?c then _ else _) = _ => destruct c eqn:Hc; [|discriminate Hty] end. injection Hty as <-.
      apply andb_prop in Hc as [Hu Hxs]. apply is_tag_eq in Hu.
      eapply ok_bind; [apply (IHs s e [] _ Hu Hrf eq_refl)|].
      intros s1 [uv ua] Huv Hr1 Hs1. cbn beta iota. cbn [fst]. cbn [VT fst] in Huv.
      pose proof (cast_uri_typed uv Huv) as Hcu.
      destruct (cast_uri uv) as [[up uprm uex]|x|p|]; cbn [bind]; try contradiction; [|exact Hcu].
      eapply ok_bind.
      { apply (map_st_ok fr (fun x => is_tag (synth E G x) (T BTransfer)) (fun _ => True)); [|exact Hxs|exact Hr1|exact Hs1].
        intros s0 x Hx Hr0 Hs0. apply is_tag_eq in Hx.
        apply (Hstep _ (fun v => cast_transfer (fst v)) _ (T BTransfer) step_transfer s0 x Hx Hr0 Hs0). }
      intros s2 ts _ Hr2 Hs2. apply ok_ret; [reflexivity|exact Hr2|exact Hs2].
  Qed.


  Lemma refs_table_ok r : refs_ok r -> exists t, refs_table r = Ok t.
  Proof.
    unfold refs_ok. induction r as [|[k [[v a]|]] r IH]; intros Hr; cbn [refs_table].
    - eexists. reflexivity.
    - inversion Hr as [|? ? Hh Ht]; subst. destruct Hh as (t & Hs & Hv & _). cbn [fst snd] in *.
      destruct (cast_schema_typed v a t Hv Hs) as [sc ->]. cbn [bind].
      destruct (IH Ht) as [tb ->]. cbn [bind]. eexists. reflexivity.
    - inversion Hr as [|? ? Hh Ht]; subst. apply IH, Ht.
  Qed.

  Theorem program_sound n rs :
    forallb (fun r => has relation_like_t (synth E [] r)) rs = true ->
    match eval_program lx P n rs with Panic p => allowed p | _ => True end.
  Proof.
    intros Hrs. unfold eval_program.
    assert (H : ok_res [] (fun bs : list relation => Forall (fun _ => True) bs /\ length bs = length rs)
                  (map_st (fun s r => do (s', v) <- eval lx P n s r []; do rel <- cast_relation (fst v); Ok (s', rel)) st0 rs)).
    { apply (map_st_ok [] (fun r => has relation_like_t (synth E [] r)) (fun _ : relation => True)); [|exact Hrs|constructor|reflexivity].
      intros s x Hx Hr Hs. apply has_some in Hx as (t0 & Ht0 & Hrl).
      eapply ok_bind.
      { rewrite <- Hs. apply (sound n s x [] [] t0 Ht0); [intros y t' Hy; discriminate Hy|exact Hr]. }
      intros s1 va Hva Hr1 Hs1. cbn beta iota.
      apply ok_pure; [apply pure_of, (cast_relation_typed (fst va) t0 Hva Hrl)|].
      intros rel _. apply ok_ret; auto. }
    destruct (map_st _ st0 rs) as [[s1 rels]|x|p|]; cbn [ok_res bind] in *; try exact I; [|exact H].
    destruct H as (_ & Hr1 & _). destruct (refs_table_ok _ Hr1) as [tb ->]. exact I.
  Qed.
End Sound.

(** * from the executable checker to the hypotheses *)
Lemma all2_nth1 {A B} (f : A -> B -> bool) : forall l1 l2 k a, all2 f l1 l2 = true -> nth_error l1 k = Some a ->
  exists b, nth_error l2 k = Some b /\ f a b = true.
Proof.
  induction l1 as [|x l1 IH]; intros [|y l2] k a H Hk; cbn [all2] in H; try discriminate H.
  - destruct k; discriminate Hk.
  - apply andb_prop in H as [Hxy H]. destruct k as [|k]; cbn [nth_error] in *.
    + injection Hk as <-. exists y. auto.
    + apply (IH l2 k a H Hk).
Qed.

Lemma all2_nth2 {A B} (f : A -> B -> bool) : forall l1 l2 k b, all2 f l1 l2 = true -> nth_error l2 k = Some b ->
  exists a, nth_error l1 k = Some a /\ f a b = true.
Proof.
  induction l1 as [|x l1 IH]; intros [|y l2] k b H Hk; cbn [all2] in H; try discriminate H.
  - destruct k; discriminate Hk.
  - apply andb_prop in H as [Hxy H]. destruct k as [|k]; cbn [nth_error] in *.
    + injection Hk as <-. exists x. auto.
    + apply (IH l2 k b H Hk).
Qed.

Lemma nth_error_combine {A B} : forall (l1 : list A) (l2 : list B) k a b,
  nth_error l1 k = Some a -> nth_error l2 k = Some b -> In (a, b) (combine l1 l2).
Proof.
  induction l1 as [|x l1 IH]; intros [|y l2] k a b H1 H2; destruct k; cbn in *; try discriminate.
  - injection H1 as <-. injection H2 as <-. left. reflexivity.
  - right. eapply IH; eassumption.
Qed.

Lemma named_in P E m i d t x :
  get_decl P m i = Some d -> sig_get E m i = Some t -> d_ref d = Some x -> In (x, t) (named P E).
Proof.
  unfold get_decl, sig_get, named. intros Hd Ht Hx.
  destruct (nth_error P (N.to_nat m)) as [ds|] eqn:Hm; [|discriminate Hd].
  destruct (nth_error (sig E) (N.to_nat m)) as [ts|] eqn:Hm'; [|discriminate Ht].
  apply in_flat_map. exists (ds, ts). split; [eapply nth_error_combine; eassumption|].
  cbn [fst snd]. apply in_flat_map. exists (d, t). split; [eapply nth_error_combine; eassumption|].
  cbn [fst snd]. rewrite Hx. left. reflexivity.
Qed.

Theorem typed_programs_lx E P rs lx n :
  wt_progb E P rs = true ->
  match eval_program lx P n rs with Panic p => allowed p | _ => True end.
Proof.
  unfold wt_progb. intros H. apply andb_prop in H as [H Hrs]. apply andb_prop in H as [Hds Hnamed].
  refine (program_sound E P _ _ _ lx n rs Hrs).
  - intros m i d Hd. unfold get_decl in Hd. unfold sig_get.
    destruct (nth_error P (N.to_nat m)) as [ds|] eqn:Hm; [|discriminate Hd].
    destruct (all2_nth1 _ _ _ _ _ Hds Hm) as (ts & -> & Hall).
    destruct (all2_nth1 _ _ _ _ _ Hall Hd) as (t & -> & Hok). exists t. auto.
  - intros m i t Ht. unfold sig_get in Ht. unfold get_decl.
    destruct (nth_error (sig E) (N.to_nat m)) as [ts|] eqn:Hm; [|discriminate Ht].
    destruct (all2_nth2 _ _ _ _ _ Hds Hm) as (ds & -> & Hall).
    destruct (all2_nth2 _ _ _ _ _ Hall Ht) as (d & -> & _). exists d. reflexivity.
  - intros m i d m' i' d' x t t' Hd Hd' Hx Hx' Ht Ht'.
    pose proof (named_in P E m i d t x Hd Ht Hx) as Hin.
    pose proof (named_in P E m' i' d' t' x Hd' Ht' Hx') as Hin'.
    unfold named_okb in Hnamed. rewrite forallb_forall in Hnamed. specialize (Hnamed _ Hin).
    rewrite forallb_forall in Hnamed. specialize (Hnamed _ Hin'). cbn [fst snd] in Hnamed.
    rewrite N.eqb_refl in Hnamed. cbn [negb orb] in Hnamed. apply tag_eqb_eq, Hnamed.
Qed.

Corollary typed_programs E P rs n :
  wt_progb E P rs = true ->
  match eval_program false P n rs with Panic p => allowed p | _ => True end.
Proof. apply typed_programs_lx. Qed.

(** * witnesses: each allowed cast does panic on a well-typed program (the known findings) *)
Definition w_E (ts : list tag) : tenv := mk_tenv [ts] [].

(** K1: a range expression as the domain of a transfer -> cast_content *)
Lemma K1_typed_and_panics :
  let P : prog := [[]] in
  let rs := [ERel (ETerm [] (EUri [inl 30] None))
               [EXfer [0] (Some (ETerm [] (ESub (EOp 3 [ECont None []; ECont None []])))) (ECont None []) None]] in
  wt_progb (w_E []) P rs = true /\ eval_program false P 50 rs = Panic P_content.
Proof. cbv zeta. split; vm_compute; reflexivity. Qed.

(** K11: a join as headers -> cast_object *)
Lemma K11_typed_and_panics :
  let P : prog := [[]] in
  let rs := [ERel (ETerm [] (EUri [inl 30] None))
               [EXfer [0] None (ECont None [(1, EOp 0 [EObj []; EObj []])]) None]] in
  wt_progb (w_E []) P rs = true /\ eval_program false P 50 rs = Panic P_object.
Proof. cbv zeta. split; vm_compute; reflexivity. Qed.

(** K12: an alternative of URIs as the URI of a relation -> cast_uri; as a resource -> cast_relation *)
Lemma K12_typed_and_panics_uri :
  let P : prog := [[]] in
  let rs := [ERel (ETerm [] (ESub (EOp 2 [EUri [inl 30] None; EUri [inl 31] None]))) []] in
  wt_progb (w_E []) P rs = true /\ eval_program false P 50 rs = Panic P_uri.
Proof. cbv zeta. split; vm_compute; reflexivity. Qed.

Lemma K12_typed_and_panics_relation :
  let P : prog := [[]] in
  let rs := [ESub (EOp 2 [EUri [inl 30] None; EUri [inl 31] None])] in
  wt_progb (w_E []) P rs = true /\ eval_program false P 50 rs = Panic P_relation.
Proof. cbv zeta. split; vm_compute; reflexivity. Qed.

(** K21: without the consistency of @names the theorem fails: two declarations named @a (10)
    of different kinds; the checker rejects the program, the evaluation panics in cast_object *)
Lemma K21_conflated_reference :
  let P : prog := [[mk_decl (Some 40) false [] [] (EPrim 2)]; [mk_decl (Some 40) false [] [] (EObj [])]] in
  let E := mk_tenv [[T BPrimitive]; [T BObject]] [] in
  let rs := [ERel (ETerm [] (EUri [inl 30] None))
               [EXfer [0] None (ECont (Some (EDecl 0 0)) [(1, EDecl 1 0)]) None]] in
  wt_progb E P rs = false /\ named_okb (named P E) = false /\ eval_program false P 50 rs = Panic P_object.
Proof. cbv zeta. repeat split; vm_compute; reflexivity. Qed.

(** non-vacuity: the running example of EvalProofs is well typed and evaluates *)
Lemma ex_well_typed :
  let E := mk_tenv [[TFunc [T BPrimitive] (T BObject); TFunc [T BPrimitive] (T BObject)]] [] in
  wt_progb E EvalProofs.ex_P EvalProofs.ex_rs = true /\ exists r, eval_program false EvalProofs.ex_P 50 EvalProofs.ex_rs = Ok r.
Proof. cbv zeta. split; [vm_compute; reflexivity|]. eexists. vm_compute. reflexivity. Qed.

(** * a well-typed program is lexically closed *)
Lemma ctx_get_in x G t : ctx_get x G = Some t -> In x (map fst G).
Proof.
  unfold ctx_get. induction G as [|[k w] G IH]; cbn [im_get map fst In]; [discriminate|].
  destruct (N.eqb_spec x k) as [->|_]; [left; reflexivity|intros H; right; apply IH, H].
Qed.

Lemma in_existsb x l : In x l -> existsb (N.eqb x) l = true.
Proof. intros H. apply existsb_exists. exists x. split; [exact H|apply N.eqb_refl]. Qed.

Lemma forallb_impl {A} (p q : A -> bool) l : (forall x, In x l -> p x = true -> q x = true) -> forallb p l = true -> forallb q l = true.
Proof.
  induction l as [|x l IH]; intros H Hp; [reflexivity|]. cbn [forallb] in *. apply andb_prop in Hp as [H1 H2].
  rewrite (H x (or_introl eq_refl) H1). apply IH; [intros y Hy; apply H; right; exact Hy|exact H2].
Qed.

Lemma all2_forallb {A B} (f : A -> B -> bool) (q : A -> bool) : forall l1 l2,
  (forall a b, In a l1 -> f a b = true -> q a = true) -> all2 f l1 l2 = true -> forallb q l1 = true.
Proof.
  induction l1 as [|a l1 IH]; intros [|b l2] H Hall; cbn [all2 forallb] in *; try reflexivity; try discriminate Hall.
  apply andb_prop in Hall as [H1 H2]. rewrite (H a b (or_introl eq_refl) H1). apply (IH l2); [intros x y Hx; apply H; right; exact Hx|exact H2].
Qed.

Local Open Scope nat_scope.
Lemma size_in_list {A} (f : A -> nat) l x : In x l -> f x <= fold_right (fun y acc => f y + acc) 0 l.
Proof. induction l as [|y l IH]; intros []; cbn [fold_right]; [subst; lia|specialize (IH H); lia]. Qed.

Lemma synth_closed_n E : forall n e, Strat.size e <= n -> forall G t, synth E G e = Some t -> closed (map fst G) e = true.
Proof.
  induction n as [|n IH]; intros e Hn G t H; [destruct e; cbn [Strat.size] in Hn; lia|].
  (* every element of a list of sub-expressions that has a tag is closed *)
  assert (Hlist : forall (p : expr -> bool) (l : list expr),
            (forall o, In o l -> Strat.size o <= n) -> (forall o, p o = true -> exists t0, synth E G o = Some t0) ->
            forallb p l = true -> forallb (closed (map fst G)) l = true).
  { intros p l Hsz Hp. induction l as [|o l IHl]; [reflexivity|]. cbn [forallb]. intros Hall. apply andb_prop in Hall as [H1 H2].
    destruct (Hp o H1) as [t0 Ht0]. rewrite (IH o (Hsz o (or_introl eq_refl)) G _ Ht0).
    apply IHl; [intros x Hx; apply Hsz; right; exact Hx|exact H2]. }
  destruct e; cbn [synth closed Strat.size] in *; try reflexivity.
  - apply (IH e ltac:(lia) G t H).
  - apply (IH e ltac:(lia) G t H).
  - apply in_existsb. eapply ctx_get_in, H.
  - (* EApp *)
    destruct (synth E G e) as [[b|t'|bs r|v]|] eqn:Hf; try discriminate H.
    destruct (all2 (fun a b => is_tag (synth E G a) b) args bs) eqn:Hall; [|discriminate H].
    rewrite (IH e ltac:(lia) G _ Hf). cbn [andb].
    apply (all2_forallb (fun a b => is_tag (synth E G a) b) (closed (map fst G)) args bs); [|exact Hall].
    intros a b Hin Hab. apply is_tag_eq in Hab. pose proof (size_in_list Strat.size args a Hin). apply (IH a ltac:(lia) G _ Hab).
  - (* ERec *)
    destruct (rec_get E m i) as [t0|]; [|discriminate H].
    destruct (is_schema_t t0 && negb (is_uri_t t0) && is_tag (synth E ((x, t0) :: G) e) t0) eqn:Hc; [|discriminate H].
    apply andb_prop in Hc as [_ Hb]. apply is_tag_eq in Hb. exact (IH e ltac:(lia) ((x, t0) :: G) _ Hb).
  - (* EObj *)
    destruct (forallb (fun p => has is_property_t (synth E G p)) ps) eqn:Hps; [|discriminate H].
    apply (Hlist (fun p => has is_property_t (synth E G p)) ps); [| |exact Hps].
    + intros o Ho. pose proof (size_in_list Strat.size ps o Ho). lia.
    + intros o Ho. apply has_some in Ho as (t0 & Ht0 & _). eauto.
  - destruct (synth E G e) as [t0|] eqn:He; [|discriminate H]. apply (IH e ltac:(lia) G _ He).
  - destruct (synth E G e) as [[|t0| |]|] eqn:He; try discriminate H. apply (IH e ltac:(lia) G _ He).
  - destruct (has is_schema_t (synth E G e)) eqn:He; [|discriminate H]. apply has_some in He as (t0 & He & _). apply (IH e ltac:(lia) G _ He).
  - (* EOp *)
    assert (Hsz : forall o, In o es -> Strat.size o <= n) by (intros o Ho; pose proof (size_in_list Strat.size es o Ho); lia).
    destruct op as [|[[p|p|]|[p|p|]|]]; cbn beta iota in H; try discriminate H.
    + destruct (forallb (fun o => is_tag (synth E G o) (T BObject)) es) eqn:Hes; [|discriminate H].
      apply (Hlist _ es Hsz (fun o Ho => ex_intro _ _ (is_tag_eq _ _ Ho)) Hes).
    + destruct (forallb (fun o => has content_like_t (synth E G o)) es) eqn:Hes; [|discriminate H].
      apply (Hlist (fun o => has content_like_t (synth E G o)) es Hsz); [|exact Hes]. intros o Ho. apply has_some in Ho as (t0 & Ht0 & _). eauto.
    + destruct es as [|o1 es]; [discriminate H|]. destruct (synth E G o1) as [t0|] eqn:Ho1; [|discriminate H].
      destruct (is_schema_t t0 && forallb (fun o => is_tag (synth E G o) t0) (o1 :: es)) eqn:Hes; [|discriminate H].
      apply andb_prop in Hes as [_ Hes]. apply (Hlist _ (o1 :: es) Hsz (fun o Ho => ex_intro _ _ (is_tag_eq _ _ Ho)) Hes).
    + destruct (forallb (fun o => has is_schema_t (synth E G o)) es) eqn:Hes; [|discriminate H].
      apply (Hlist (fun o => has is_schema_t (synth E G o)) es Hsz); [|exact Hes]. intros o Ho. apply has_some in Ho as (t0 & Ht0 & _). eauto.
  - (* ECont *)
    match type of H with (if ?c1 && forallb ?f metas then _ else _) = _ => destruct c1 eqn:Hbody; [|discriminate H]; destruct (forallb f metas) eqn:Hms; [|discriminate H] end.
    apply andb_true_intro. split.
    + destruct body as [b|]; [|reflexivity]. apply has_some in Hbody as (t0 & Ht0 & _). apply (IH b ltac:(lia) G _ Ht0).
    + assert (Hsz : forall k x, In (k, x) metas -> Strat.size x <= n).
      { intros k x Hx. pose proof (size_in_list (fun ke : N * expr => match ke with (_, e') => Strat.size e' end) metas (k, x) Hx) as Hs. cbn beta iota in Hs. lia. }
      clear H Hbody Hn. induction metas as [|[k rhs] metas IHm]; [reflexivity|]. cbn [forallb] in *. apply andb_prop in Hms as [H1 H2].
      assert (exists t0, synth E G rhs = Some t0) as [t0 Ht0].
      { destruct k as [|[[p|p|]|[p|p|]|]]; try discriminate H1; try (eexists; apply is_tag_eq, H1). apply has_some in H1 as (t0 & Ht0 & _). eauto. }
      rewrite (IH rhs (Hsz k rhs (or_introl eq_refl)) G _ Ht0). apply IHm; [exact H2|intros k0 x Hx; apply (Hsz k0 x); right; exact Hx].
  - (* EXfer *)
    match type of H with (if ?c then _ else _) = _ => destruct c eqn:Hc; [|discriminate H] end.
    apply andb_prop in Hc as [Hc Hprm]. apply andb_prop in Hc as [Hc Hrg]. apply andb_prop in Hc as [_ Hdom].
    apply has_some in Hrg as (tr & Htr & _). rewrite (IH e ltac:(lia) G _ Htr).
    assert (D : match domain with Some d => closed (map fst G) d | None => true end = true).
    { destruct domain as [d|]; [|reflexivity]. apply has_some in Hdom as (t0 & Ht0 & _). apply (IH d ltac:(lia) G _ Ht0). }
    assert (Pm : match params with Some p => closed (map fst G) p | None => true end = true).
    { destruct params as [p|]; [|reflexivity]. apply is_tag_eq in Hprm. apply (IH p ltac:(lia) G _ Hprm). }
    rewrite D, Pm. reflexivity.
  - (* EUri *)
    match type of H with (if ?c then _ else _) = _ => destruct c eqn:Hc; [|discriminate H] end.
    apply andb_prop in Hc as [Hc Hprm]. apply andb_prop in Hc as [_ Hsegs].
    apply andb_true_intro. split.
    + assert (Hsz : forall v, In (inr v) segs -> Strat.size v <= n).
      { intros v Hv. pose proof (size_in_list (fun sg : str + expr => match sg with inl _ => 0 | inr e' => Strat.size e' end) segs (inr v) Hv) as Hs. cbn beta iota in Hs. lia. }
      clear H Hn. induction segs as [|[x|v] segs IHs]; [reflexivity| |]; cbn [forallb] in *; apply andb_prop in Hsegs as [H1 H2].
      * apply IHs; [exact H2|intros v Hv; apply Hsz; right; exact Hv].
      * apply is_tag_eq in H1. rewrite (IH v (Hsz v (or_introl eq_refl)) G _ H1). apply IHs; [exact H2|intros w Hw; apply Hsz; right; exact Hw].
    + destruct params as [p|]; [|reflexivity]. apply is_tag_eq in Hprm. apply (IH p ltac:(lia) G _ Hprm).
  - (* ERel *)
    match type of H with (if ?c then _ else _) = _ => destruct c eqn:Hc; [|discriminate H] end.
    apply andb_prop in Hc as [Hu Hxs]. apply is_tag_eq in Hu. rewrite (IH e ltac:(lia) G _ Hu). cbn [andb].
    apply (Hlist (fun x => is_tag (synth E G x) (T BTransfer)) xfers); [|intros o Ho; exists (T BTransfer); apply is_tag_eq, Ho|exact Hxs].
    intros o Ho. pose proof (size_in_list Strat.size xfers o Ho). lia.
Qed.

Lemma synth_closed E e G t : synth E G e = Some t -> closed (map fst G) e = true.
Proof. apply (synth_closed_n E (Strat.size e) e (le_n _)). Qed.

Lemma wt_resources_closed E P rs : wt_progb E P rs = true -> forallb (closed []) rs = true.
Proof.
  unfold wt_progb. intros H. apply andb_prop in H as [_ Hrs].
  apply (forallb_impl (fun r => has relation_like_t (synth E [] r))); [|exact Hrs].
  intros r _ Hr. apply has_some in Hr as (t & Ht & _). exact (synth_closed E r [] t Ht).
Qed.
