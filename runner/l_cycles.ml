(* layer: the recursion check.  Y <n> <referential flags 0/1 ...> | <a>:<b> ...   -> ok | err
   kosaraju_scc is supplied by a plain OCaml implementation (Tarjan); its contract is the
   model's parameter and is validated by the tie. *)
open Conv
open Cycles

let scc_impl (nodes : BinNums.coq_N list) (g : (BinNums.coq_N * BinNums.coq_N) list) : BinNums.coq_N list list =
  let ns = Stdlib.List.map int_of_n nodes in
  let es = Stdlib.List.map (fun (a, b) -> (int_of_n a, int_of_n b)) g in
  let index = Hashtbl.create 16 and low = Hashtbl.create 16 and onstack = Hashtbl.create 16 in
  let stack = ref [] and counter = ref 0 and out = ref [] in
  let succ v = Stdlib.List.filter_map (fun (a, b) -> if a = v then Some b else None) es in
  let rec strong v =
    Hashtbl.replace index v !counter;
    Hashtbl.replace low v !counter;
    incr counter;
    stack := v :: !stack;
    Hashtbl.replace onstack v true;
    Stdlib.List.iter
      (fun w ->
        if not (Hashtbl.mem index w) then (
          strong w;
          Hashtbl.replace low v (min (Hashtbl.find low v) (Hashtbl.find low w)))
        else if Hashtbl.mem onstack w then Hashtbl.replace low v (min (Hashtbl.find low v) (Hashtbl.find index w)))
      (succ v);
    if Hashtbl.find low v = Hashtbl.find index v then (
      let comp = ref [] in
      let continue = ref true in
      while !continue do
        match !stack with
        | w :: rest ->
            stack := rest;
            Hashtbl.remove onstack w;
            comp := w :: !comp;
            if w = v then continue := false
        | [] -> continue := false
      done;
      out := !comp :: !out)
  in
  Stdlib.List.iter (fun v -> if not (Hashtbl.mem index v) then strong v) ns;
  Stdlib.List.map (Stdlib.List.map n_of_int) !out

let run () =
  each_line (fun line ->
      match words line with
      | "Y" :: n :: rest ->
          let n = int_of_string n in
          let flags = Array.make n false in
          let rec take i ws = match ws with
            | "|" :: es -> es
            | w :: ws' -> (if i < n then flags.(i) <- (w = "1")); take (i + 1) ws'
            | [] -> [] in
          let es = take 0 rest in
          let g = Stdlib.List.map (fun w -> match String.split_on_char ':' w with
              | [a; b] -> (n_of_int (int_of_string a), n_of_int (int_of_string b)) | _ -> failwith "edge") es in
          let nodes = Stdlib.List.init n n_of_int in
          let referential x = let i = int_of_n x in i < n && flags.(i) in
          (match cycles_check referential scc_impl (nat_of_int (Stdlib.List.length g + 1)) nodes g [] with
           | COk _ -> print_endline "ok"
           | CErr _ -> print_endline "err"
           | CFuel -> print_endline "fuel")
      | _ -> print_endline "?")
