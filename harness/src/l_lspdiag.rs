//! In-process diagnostics bookkeeping of the language server: a Workspace and one Folder on a
//! directory prepared by the driver; at every refresh event the folder is evaluated and
//! Workspace::diagnostics() is called, as oal-lsp's refresh does (one step of output per refresh). One JSON request per line:
//!   {"root": "<dir with oal.toml and the files>", "events": [{"open": "<name>", "text": ".."} |
//!    {"change": "<name>", "text": ".."} (full replacement) | {"close": "<name>"} | {"refresh": true}]}
//! output: {"status":"ok","steps":[{"docs":[names],"pubs":{name:[diagnostic,..]}},..]}
use lsp_types::{
    DidChangeTextDocumentParams, DidCloseTextDocumentParams, DidOpenTextDocumentParams, TextDocumentContentChangeEvent,
    TextDocumentIdentifier, TextDocumentItem, VersionedTextDocumentIdentifier, WorkspaceFolder,
};
use oal_client::lsp::verif::documents;
use oal_client::lsp::{Folder, Workspace};
use serde_json::{json, Value};
use std::io::{BufRead, Write};

fn one(req: &Value) -> Value {
    let root = req["root"].as_str().unwrap_or("/nonexistent").to_owned();
    let root_url = match url::Url::from_directory_path(&root) {
        Ok(u) => u,
        Err(_) => return json!({"status": "bad-root"}),
    };
    let uri = |name: &str| root_url.join(name).unwrap();
    let rel = |u: &url::Url| u.as_str().strip_prefix(root_url.as_str()).unwrap_or(u.as_str()).to_owned();
    let mut folder = match Folder::new(WorkspaceFolder { uri: root_url.clone(), name: "w".into() }) {
        Ok(f) => f,
        Err(e) => return json!({"status": "no-folder", "msg": e.to_string()}),
    };
    let mut ws = Workspace::default();
    let mut steps = Vec::new();
    for ev in req["events"].as_array().cloned().unwrap_or_default() {
        if let Some(n) = ev["open"].as_str() {
            let text = ev["text"].as_str().unwrap_or("").to_owned();
            let _ = ws.open(DidOpenTextDocumentParams {
                text_document: TextDocumentItem { uri: uri(n), language_id: "oal".into(), version: 1, text },
            });
        } else if let Some(n) = ev["change"].as_str() {
            let text = ev["text"].as_str().unwrap_or("").to_owned();
            let _ = ws.change(DidChangeTextDocumentParams {
                text_document: VersionedTextDocumentIdentifier { uri: uri(n), version: 2 },
                content_changes: vec![TextDocumentContentChangeEvent { range: None, range_length: None, text }],
            });
        } else if let Some(n) = ev["close"].as_str() {
            let _ = ws.close(DidCloseTextDocumentParams { text_document: TextDocumentIdentifier { uri: uri(n) } });
        }
        // the server refreshes when it has been idle for a while: several notifications may precede a refresh
        if ev["refresh"].as_bool() != Some(true) {
            continue;
        }
        folder.eval(&mut ws);
        let mut docs: Vec<String> = documents(&ws).iter().map(|l| rel(l.url())).collect();
        docs.sort();
        let pubs = match ws.diagnostics() {
            Ok(d) => {
                let mut m = serde_json::Map::new();
                for (loc, ds) in d.iter() {
                    let items: Vec<Value> = ds
                        .iter()
                        .map(|x| json!(format!("{}@{}:{}-{}:{}", x.message, x.range.start.line, x.range.start.character, x.range.end.line, x.range.end.character)))
                        .collect();
                    m.insert(rel(loc.url()), Value::Array(items));
                }
                Value::Object(m)
            }
            Err(e) => json!({"error": e.to_string()}),
        };
        steps.push(json!({"docs": docs, "pubs": pubs}));
    }
    json!({"status": "ok", "steps": steps})
}

pub fn run() {
    crate::l_compile::install_panic_hook();
    let stdin = std::io::stdin();
    let stdout = std::io::stdout();
    let mut out = stdout.lock();
    for line in stdin.lock().lines() {
        let line = line.unwrap();
        let req: Value = match serde_json::from_str(&line) {
            Ok(v) => v,
            Err(e) => {
                writeln!(out, "{}", json!({"status": "bad-request", "msg": e.to_string()})).unwrap();
                continue;
            }
        };
        let res = match std::panic::catch_unwind(std::panic::AssertUnwindSafe(|| one(&req))) {
            Ok(v) => v,
            Err(_) => json!({"status": "panic", "msg": crate::l_compile::last_panic()}),
        };
        writeln!(out, "{}", res).unwrap();
        out.flush().unwrap();
    }
}
