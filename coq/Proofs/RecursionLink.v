(** From the recursion check to stratification. The recursion check works on a graph of
    declarations; the evaluator on resolved trees. If the graph has an edge for every use of a
    declaration inside the right-hand side of another ([H_edges]) and every declaration the
    check flags is memoised by the evaluator ([H_marks]: a flagged declaration has no
    parameters and carries [d_rec]), then acceptance by the check excludes every cycle of uses
    that avoids the memoised declarations; with first-order bodies the program is stratified,
    and a well-typed one evaluates for every large enough fuel. [H_edges] and [H_marks]
    describe how compile.rs builds the graph and stores the flags; they are what the
    stratification tie observes on every accepted program. *)
From Oal Require Import Eval Strat Cycles CyclesProofs InlineProofs RankProofs UseEdges Typing TypingProofs TermProofs.
From Oal Require EvalIO.
From Coq Require Import Lia.

Section Link.
  Variable P : prog.
  Variable referential : N -> bool.
  Variable scc : list N -> graph -> list (list N).
  Hypothesis Hscc : scc_spec scc.
  Variable nu : N -> N -> N.                      (* the node of a declaration in the graph *)
  Variable ns : list N.
  Variable g : graph.
  Variable marks : list N.

  Hypothesis H_edges : forall x y, edge P x y -> In (nu (fst x) (snd x), nu (fst y) (snd y)) g.
  Hypothesis H_marks : forall m i, In (nu m i) marks -> cutb P m i = true.
  Hypothesis H_accept : cycles_check referential scc (S (length g)) ns g [] = COk marks.

  Lemma chain_walk : forall l x y, chain P x (l ++ [y]) ->
    walkP (fun n => ~ In n marks) g (nu (fst x) (snd x)) (nu (fst y) (snd y)).
  Proof.
    induction l as [|z l IH]; intros x y Hc; cbn [app chain] in Hc.
    - destruct Hc as [He _]. apply walkP_one; [apply H_edges, He|].
      intros Hin. pose proof (H_marks _ _ Hin) as Hcut. unfold edge in He.
      destruct (get_decl P (fst x) (snd x)); [destruct He as (_ & _ & Hn); congruence|destruct He].
    - destruct Hc as [He Hc]. eapply walkP_cons; [apply H_edges, He| |apply IH, Hc].
      intros Hin. pose proof (H_marks _ _ Hin) as Hcut. unfold edge in He.
      destruct (get_decl P (fst x) (snd x)); [destruct He as (_ & _ & Hn); congruence|destruct He].
  Qed.

  Theorem accepted_is_acyclic : ~ cyclic P.
  Proof.
    intros (y & l & Hc). apply (flagged_cut_every_cycle referential scc Hscc ns g marks H_accept).
    exists (nu (fst y) (snd y)). apply (chain_walk l y y Hc).
  Qed.

  Theorem accepted_first_order_is_stratified rs :
    (forall m i d, get_decl P m i = Some d -> fo P (d_rhs d) = true) -> (forall r, In r rs -> fo P r = true) ->
    stratified P rs = true.
  Proof. intros Hd Hr. apply stratified_iff. split; [exact accepted_is_acyclic|]. split; assumption. Qed.

  Theorem accepted_well_typed_programs_evaluate E rs :
    Typing.wt_progb E P rs = true ->
    (forall m i d, get_decl P m i = Some d -> fo P (d_rhs d) = true) -> (forall r, In r rs -> fo P r = true) ->
    exists N, forall n, N <= n ->
      match eval_program false P n rs with
      | Ok _ | Err _ => True
      | Panic p => TypingProofs.allowed p
      | Fuel => False
      end.
  Proof. intros Hwt Hd Hr. apply (accepted_programs_evaluate E P rs Hwt). apply accepted_first_order_is_stratified; assumption. Qed.
End Link.

(** [H_edges] from the list of uses: it is enough that the graph contains the pairs of
    [UseEdges.use_edges], which is what the tie compares with the graph the code builds *)
Theorem accepted_is_acyclic_by_use_edges P referential scc (Hscc : scc_spec scc) (nu : N -> N -> N) ns g marks :
  (forall x y, In (x, y) (EvalIO.use_edges P) -> In (nu (fst x) (snd x), nu (fst y) (snd y)) g) ->
  (forall m i, In (nu m i) marks -> cutb P m i = true) ->
  cycles_check referential scc (S (length g)) ns g [] = COk marks ->
  ~ cyclic P.
Proof.
  intros He Hm Ha. apply (accepted_is_acyclic P referential scc Hscc nu ns g marks); try assumption.
  intros x y Hxy. apply He, edge_in_use_edges, Hxy.
Qed.
