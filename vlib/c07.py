"""C07 — type inference terminates; verdict independent of order and names.
Proof: coq/Properties/C07.v. Tie: layer L4u (the unifier on explicit equation systems:
exhaustive small systems + random). Monitors O07: verdict = solvability by an independent
reference unifier; the reported solution solves the system; verdict invariant under
permutation of the equations and injective renaming of variables; no crash / hang."""
import itertools
from . import core

# ---- tags as python tuples: ('B',i) ('P',t) ('F',(bs...),r) ('V',i)

def show(t):
    k = t[0]
    if k == 'B':
        return "B%d" % t[1]
    if k == 'V':
        return "V %d" % t[1]
    if k == 'P':
        return "P " + show(t[1])
    return "F %d %s%s" % (len(t[1]), "".join(show(b) + " " for b in t[1]), show(t[2]))


def parse(ws):
    w = ws.pop(0)
    if w == 'P':
        return ('P', parse(ws))
    if w == 'F':
        n = int(ws.pop(0))
        bs = tuple(parse(ws) for _ in range(n))
        return ('F', bs, parse(ws))
    if w == 'V':
        return ('V', int(ws.pop(0)))
    return ('B', int(w[1:]))


def line_of(eqs):
    return "E %d %s" % (len(eqs), " ".join(show(l) + " " + show(r) for l, r in eqs))


# ---- independent reference: Robinson unification with idempotent substitution

def walk(t, s):
    while t[0] == 'V' and t[1] in s:
        t = s[t[1]]
    return t


def occurs(v, t, s):
    t = walk(t, s)
    if t[0] == 'V':
        return t[1] == v
    if t[0] == 'P':
        return occurs(v, t[1], s)
    if t[0] == 'F':
        return occurs(v, t[2], s) or any(occurs(v, b, s) for b in t[1])
    return False


def ref_unify(eqs):
    s = {}
    stack = list(reversed(eqs))
    while stack:
        l, r = stack.pop()
        l, r = walk(l, s), walk(r, s)
        if l == r:
            continue
        if l[0] == 'V':
            if occurs(l[1], r, s):
                return None
            s[l[1]] = r
        elif r[0] == 'V':
            if occurs(r[1], l, s):
                return None
            s[r[1]] = l
        elif l[0] == 'F' and r[0] == 'F':
            if len(l[1]) != len(r[1]):
                return None
            stack.append((l[2], r[2]))
            for a, b in zip(l[1], r[1]):
                stack.append((a, b))
        elif l[0] == 'P' and r[0] == 'P':
            stack.append((l[1], r[1]))
        else:
            return None
    return s


def subst_full(t, sol):
    if t[0] == 'V':
        return sol.get(t[1], t)
    if t[0] == 'P':
        return ('P', subst_full(t[1], sol))
    if t[0] == 'F':
        return ('F', tuple(subst_full(b, sol) for b in t[1]), subst_full(t[2], sol))
    return t


def rename(t, m):
    if t[0] == 'V':
        return ('V', m[t[1]])
    if t[0] == 'P':
        return ('P', rename(t[1], m))
    if t[0] == 'F':
        return ('F', tuple(rename(b, m) for b in t[1]), rename(t[2], m))
    return t


# ---- generators
ATOMS = [('B', 0), ('B', 1), ('V', 0), ('V', 1), ('V', 2)]


def tags_depth1(atoms):
    out = list(atoms)
    out += [('P', a) for a in atoms]
    out += [('F', (), a) for a in atoms]
    out += [('F', (a,), b) for a in atoms for b in atoms]
    return out


def small_sets():
    full = tags_depth1(ATOMS) + [('F', (a, b), c) for a in ATOMS[2:] for b in ATOMS[2:] for c in ATOMS[1:]] + \
        [('P', ('P', ('V', 0))), ('F', (('P', ('V', 1)),), ('V', 0)), ('F', (('F', (('V', 0),), ('V', 1)),), ('V', 2)),
         ('P', ('F', (('V', 0),), ('V', 0)))]
    mid = [('B', 0), ('V', 0), ('V', 1), ('V', 2), ('P', ('V', 0)), ('P', ('V', 1)), ('P', ('B', 0)),
           ('F', (('V', 0),), ('V', 1)), ('F', (('V', 1),), ('V', 0)), ('F', (('V', 2),), ('B', 0)),
           ('F', (('V', 0), ('V', 1)), ('V', 2)), ('F', (), ('V', 0)), ('F', (('P', ('V', 2)),), ('V', 2)),
           ('F', (('V', 1),), ('P', ('V', 0)))]
    tiny = [('B', 0), ('V', 0), ('V', 1), ('P', ('V', 0)), ('F', (('V', 0),), ('V', 1)), ('F', (('V', 1),), ('V', 0)),
            ('P', ('V', 1))]
    return full, mid, tiny


def rand_tag(rng, depth, nv):
    r = rng.random()
    if depth == 0 or r < 0.35:
        return ('V', rng.randrange(nv)) if rng.random() < 0.6 else ('B', rng.randrange(11))
    if r < 0.55:
        return ('P', rand_tag(rng, depth - 1, nv))
    n = rng.choice([0, 1, 1, 2, 2, 3])
    return ('F', tuple(rand_tag(rng, depth - 1, nv) for _ in range(n)), rand_tag(rng, depth - 1, nv))


def solvable_system(rng):
    """equations obtained by abstracting sub-terms of common instances by shared variables:
    solvable by construction (the abstraction map is a solution)"""
    names = {}

    def gen(t, p):
        if t[0] != 'V' and rng.random() < p:
            if t not in names:
                names[t] = 20 + len(names)
            return ('V', names[t])
        if t[0] == 'P':
            return ('P', gen(t[1], p))
        if t[0] == 'F':
            return ('F', tuple(gen(b, p) for b in t[1]), gen(t[2], p))
        return t
    eqs = []
    for _ in range(rng.randint(1, 6)):
        T = rand_tag(rng, rng.choice([2, 3, 3, 4]), 4)
        eqs.append((gen(T, 0.3), gen(T, 0.3)))
    # compact variable numbers
    m = {}

    def ren(t):
        if t[0] == 'V':
            return ('V', m.setdefault(t[1], len(m)))
        if t[0] == 'P':
            return ('P', ren(t[1]))
        if t[0] == 'F':
            return ('F', tuple(ren(b) for b in t[1]), ren(t[2]))
        return t
    return [(ren(l), ren(r)) for l, r in eqs]


def systems(ctx):
    full, mid, tiny = small_sets()
    out = []
    for l in full:
        for r in full:
            out.append([(l, r)])
    ctx.count("single_equation", len(out))
    n0 = len(out)
    meqs = [(l, r) for l in mid for r in mid]
    if ctx.thorough:
        for a in meqs:
            for b in meqs:
                out.append([a, b])
    else:
        for i, a in enumerate(meqs):
            for j, b in enumerate(meqs):
                if (i * 7 + j * 3 + ctx.seed) % 3 == 0:
                    out.append([a, b])
    ctx.count("two_equations", len(out) - n0)
    n1 = len(out)
    teqs = [(l, r) for l in tiny for r in tiny if l != r]
    for ia, a in enumerate(teqs):
        for ib, b in enumerate(teqs):
            for ic, c in enumerate(teqs):
                if ctx.thorough or (ia * 31 + ib * 17 + ic * 5 + ctx.seed) % 7 == 0:
                    out.append([a, b, c])
    ctx.count("three_equations", len(out) - n1)
    n2 = len(out)
    for _ in range(120000 if ctx.thorough else 6000):
        k = ctx.rng.randint(1, 12)
        nv = ctx.rng.randint(1, 8)
        d = ctx.rng.choice([1, 2, 2, 3, 4])
        out.append([(rand_tag(ctx.rng, d, nv), rand_tag(ctx.rng, d, nv)) for _ in range(k)])
    ctx.count("random_systems", len(out) - n2)
    n3 = len(out)
    for _ in range(120000 if ctx.thorough else 6000):
        out.append(solvable_system(ctx.rng))
    ctx.count("solvable_by_construction", len(out) - n3)
    # corpus first
    corpus = [
        [(('V', 0), ('P', ('V', 0)))],                                   # F2
        [(('V', 0), ('F', (('V', 1),), ('V', 0)))],
        [(('V', 0), ('F', (('V', 1),), ('V', 2))), (('V', 2), ('F', (), ('P', ('V', 0))))],
        [(('V', 0), ('F', (('V', 1),), ('V', 1))), (('V', 0), ('F', (('V', 2), ('V', 2)), ('V', 2)))],   # arity, both directions
        [(('V', 0), ('F', (('V', 2), ('V', 2)), ('V', 2))), (('V', 0), ('F', (('V', 1),), ('V', 1)))],
        [(('V', 1), ('F', (('V', 2),), ('V', 3))), (('F', (('V', 4),), ('V', 5)), ('V', 4)), (('V', 1), ('V', 4))],
        [(('V', 0), ('F', (('V', 3),), ('V', 4))), (('F', (('V', 1),), ('V', 2)), ('V', 1)), (('V', 0), ('V', 1))],
    ]
    return corpus + out


def variants(ctx, eqs):
    """permutations / renamings / side swaps of a system (verdict must not change)"""
    vs = []
    if len(eqs) > 1:
        vs.append(list(reversed(eqs)))
        p = list(eqs)
        ctx.rng.shuffle(p)
        vs.append(p)
    vs.append([(r, l) for l, r in eqs])
    mv = 0
    for l, r in eqs:
        for t in (l, r):
            st = [t]
            while st:
                x = st.pop()
                if x[0] == 'V':
                    mv = max(mv, x[1])
                elif x[0] == 'P':
                    st.append(x[1])
                elif x[0] == 'F':
                    st.extend(x[1])
                    st.append(x[2])
    perm = list(range(mv + 1))
    ctx.rng.shuffle(perm)
    vs.append([(rename(l, perm), rename(r, perm)) for l, r in eqs])
    return vs


def spelling_monitor(ctx):
    """programs: the verdict does not depend on how identifiers are spelled: a parameter of a function is renamed, throughout
    its declaration, to the name of another top-level declaration (of whatever kind) that the declaration does not mention, or
    to a fresh name; the binder is lexically the same, so the kind equations are the same up to the names"""
    import re
    from . import progs
    n = 2400 if ctx.thorough else 300
    base, ren = [], []
    fixed = [("let a = {};\nlet f a = / on a;\nres f (get -> {});\n", "let a = {};\nlet f b = / on b;\nres f (get -> {});\n"),
             ("let a = get -> {};\nlet f a = / on a;\nres f num;\n", "let a = get -> {};\nlet f b = / on b;\nres f num;\n"),
             ("let t = str;\nlet w t = rec t [t];\nres / on get -> <w num>;\n", "let t = str;\nlet w u = rec v [v];\nres / on get -> <w num>;\n")]
    for a, b in fixed:
        base.append({"mods": {"file:///w/main.oal": a}, "main": "file:///w/main.oal"})
        ren.append({"mods": {"file:///w/main.oal": b}, "main": "file:///w/main.oal"})
    for p in progs.gen_programs(ctx, n, start=9000):
        if len(p["mods"]) != 1:
            continue
        src = p["mods"][p["main"]]
        lines = src.split("\n")
        tops = [m.group(1) for l in lines for m in [re.match(r"let (@?[A-Za-z_][\w$-]*)", l)] if m]
        cands = [(i, m) for i, l in enumerate(lines) for m in [re.match(r"let [a-z]\w* ((?:[a-z]\w* )+)= ", l)] if m]
        if not cands:
            continue
        i, m = ctx.rng.choice(cands)
        param = ctx.rng.choice(m.group(1).split())
        others = [t for t in tops if not t.startswith("@") and not re.search(r"(?<![\w$@.-])%s(?![\w$-])" % re.escape(t), lines[i]) and t != param]
        new = ctx.rng.choice(others) if others and ctx.rng.random() < 0.8 else "zz_fresh"
        if new in m.group(1).split():
            continue
        l2 = re.sub(r"(?<![\w$@.'-])%s(?![\w$-])" % re.escape(param), new, lines[i])
        base.append(p)
        ren.append({"mods": {p["main"]: "\n".join(lines[:i] + [l2] + lines[i + 1:])}, "main": p["main"]})
    r1 = progs.compile_many(base)
    r2 = progs.compile_many(ren)

    def verdict(r):
        if r.get("status") == "ok":
            return "accepted"
        if r.get("status") == "error":
            return "error:%s:%s" % (r.get("phase"), r.get("kind"))
        return str(r.get("status"))
    for p, q, a, b in zip(base, ren, r1, r2):
        ctx.cov["evaluations"] += 1
        va, vb = verdict(a), verdict(b)
        if "skipped" in (va, vb):
            continue
        if va != vb:
            ctx.violation("the verdict on a program depends on the spelling of a bound identifier (a parameter renamed throughout its declaration)",
                          {"program": p, "renamed": q}, va, vb)
            if len(ctx.violations) > 3:
                return
        else:
            ctx.count("spelling_" + ("accepted" if va == "accepted" else "rejected"))


EXPECTED = [
    # (program, accepted?): acceptance = the kind constraints have a solution and every recursion can be cut at a schema
    ("let a = b;\nlet b = a;\nres / on get -> a;\n", False), ("let a = a;\nres / on get -> <a>;\n", False), ("let a = a | a;\nres / on get -> <a>;\n", False),
    ("let f x = x;\nlet c = f c;\nres / on get -> {};\n", False), ("let d = rec y y;\nres / on get -> <d>;\n", False),
    ("let a = { 'n [a] };\nres / on get -> <a>;\n", True), ("let d = rec y { 'k [y] };\nres / on get -> <d>;\n", True),
    ("let u = /x?{ 'next u };\nres u on get -> <>;\n", False), ("let a = [a];\nres / on get -> <a>;\n", True),
    ("let o = get -> <o>;\nres / on o;\n", False), ("let c = <c>;\nres / on get -> c;\n", False),
]


def expected_verdicts(ctx):
    from . import progs
    res = progs.compile_many([{"mods": {"file:///w/main.oal": t}, "main": "file:///w/main.oal"} for t, _ in EXPECTED])
    for (t, acc), r in zip(EXPECTED, res):
        ctx.cov["evaluations"] += 1
        got = r.get("status") == "ok"
        if r.get("status") not in ("ok", "error"):
            ctx.violation("inference or the recursion check does not end normally on this program", {"program": t}, "a verdict", str(r.get("msg"))[:200])
        elif got != acc:
            ctx.violation("acceptance does not coincide with solvability: a program whose %s" %
                          ("recursion has no determined, referential kind is accepted" if got else "kind constraints are solvable is rejected"),
                          {"program": t}, "accepted" if acc else "rejected", "accepted" if got else str(r.get("msg"))[:120])
        else:
            ctx.count("expected_verdicts")


def order_monitor(ctx):
    """programs: the verdict of the type-checking phases (accepted, or the kind of error) does not depend on the order of
    the declarations; cyclic and acyclic declaration graphs (one declaration per line), one random permutation each"""
    from . import cyc, progs
    n = 1200 if ctx.thorough else 200
    base = [cyc.gen_cyclic(ctx.rng)[0] for _ in range(n)]
    base += [{"mods": {"file:///w/main.oal": s}, "main": "file:///w/main.oal"} for s in
             ["let d = { 'd d };\nlet r = { a };\nlet a = 'x { b, 'z r };\nlet b = 'y { a };\nres /d on get -> d;\n",
              "let item = { 'n num };\nlet code = 200;\nlet f x = { 'items [x] };\nlet items = f item;\nres /i on get -> <status=code, items>;\n",
              # two defects of different origin in one program (an infinite type and a kind mismatch; an arity error and an
              # infinite type; ...): the class of the error reported is the same whichever declaration comes first
              "let f x = f;\nlet c = concat num /a;\nres /;\n",
              "let a = 'p a;\nlet c = { 5XX };\nres / on get -> <c>;\n",
              "let g x y = x;\nlet h = g num;\nlet f x = f;\nlet u = h str str;\nres / on get -> <u>;\n",
              "let f x = [f];\nlet k = num & str;\nlet z = <status=k>;\nres / on get -> z;\n"]]
    perm = []
    for p in base:
        lines = p["mods"][p["main"]].split("\n")
        lets = [l for l in lines if l.startswith("let ")]
        rest = [l for l in lines if not l.startswith("let ")]
        q = list(lets)
        ctx.rng.shuffle(q)
        if q == lets:
            q.reverse()
        perm.append({"mods": {p["main"]: "\n".join(q + rest)}, "main": p["main"]})
    r1 = progs.compile_many(base)
    r2 = progs.compile_many(perm)

    def verdict(r):
        if r.get("status") == "ok":
            return "accepted"
        if r.get("status") == "error":
            return "error:%s:%s" % (r.get("phase"), r.get("kind"))
        return str(r.get("status"))
    for p, q, a, b in zip(base, perm, r1, r2):
        ctx.cov["evaluations"] += 1
        va, vb = verdict(a), verdict(b)
        if "skipped" in (va, vb):
            continue
        if va != vb and not (va.startswith("panic") or vb.startswith("panic") or va.startswith("crash") or vb.startswith("crash")):
            ctx.violation("the verdict on a program depends on the order of its declarations", {"program": p, "permuted": q}, va, vb)
        elif va != vb:
            ctx.violation("one order of the declarations of a program crashes the compiler, another does not", {"program": p, "permuted": q}, va, vb)
        else:
            ctx.count("order_" + ("accepted" if va == "accepted" else "rejected"))


def check(ctx):
    ctx.proof = core.proof_stage("C07", thorough=ctx.thorough)
    ok, out = core.ensure_runner()
    if not ok:
        ctx.broken.append("runner build failed: " + out[-300:])
    ok, out = core.ensure_harness()
    if not ok:
        ctx.broken.append("harness build against /repo failed: " + out[-600:])
        return core.finish(ctx)
    if ctx.replay:
        import json
        v = json.load(open(ctx.replay))
        if "permuted" in v["input"]:
            from . import progs
            a, b = progs.compile_many([v["input"]["program"], v["input"]["permuted"]])
            core.log("original: %s / permuted: %s" % ({k: x for k, x in a.items() if k not in ("doc", "yaml")}, {k: x for k, x in b.items() if k not in ("doc", "yaml")}))
            if (a.get("status"), a.get("kind")) != (b.get("status"), b.get("kind")):
                ctx.violation("the verdict on a program depends on the order of its declarations", v["input"], a.get("status"), b.get("status"))
            ctx.cov["evaluations"] = 2
            return core.finish(ctx)
        syss = [[(parse(l.split()), parse(r.split())) for l, r in v["input"]["equations"]]]
    else:
        syss = systems(ctx)
    base_lines = [line_of(e) for e in syss]
    var_sys = []
    var_of = []
    for i, e in enumerate(syss):
        if i < 7 or len(e) > 1 or i % 5 == 0:
            for v in variants(ctx, e):
                var_sys.append(v)
                var_of.append(i)
    lines = base_lines + [line_of(e) for e in var_sys]
    impl = core.run_stateless(core.IMPL, "unify", lines)
    model = core.run_stateless(core.RUNNER, "unify", base_lines) if not ctx.broken else None
    nb = len(base_lines)
    seen = set()
    for i, e in enumerate(syss):
        o = impl[i]
        ctx.cov["evaluations"] += 1
        inp = {"equations": [[show(l), show(r)] for l, r in e]}
        if o is None or o.startswith("CRASH") or o.startswith("HANG") or o == "panic":
            ctx.violation("the unifier does not terminate normally (stack overflow / hang / panic) on this system",
                          inp, "ok or err", o)
            continue
        if model is not None:
            m = model[i]
            if m != o:
                ctx.count("tie_disagreements")
                if len(ctx.broken) < 20:
                    ctx.broken.append("L4u disagreement: %s impl=%s model=%s" % (base_lines[i], o, m))
            else:
                ctx.cov["traces_validated_against_impl"] += 1
        ref = ref_unify(e)
        verdict = o.split()[0]
        if (ref is not None) != (verdict == "ok"):
            ctx.violation("the verdict of inference differs from solvability of the tag equations",
                          inp, "ok" if ref is not None else "err", o)
            continue
        if verdict == "ok":
            body = o[3:]
            sol = {}
            for k, s in enumerate(body.split(";")) if body else []:
                sol[k] = parse(s.split())
            for l, r in e:
                if subst_full(l, sol) != subst_full(r, sol):
                    ctx.violation("the substitution reported by the unifier does not solve the system",
                                  inp, "both sides equal after substitution", o)
                    break
        key = base_lines[i]
        if key not in seen:
            seen.add(key)
            if len(e) > 1 or any(t[0] in ('F', 'P') for eq in e for t in eq):
                ctx.count("nontrivial")
        ctx.count("verdict_" + verdict)
        if verdict == "err":
            ctx.count("err_" + o.split()[1])
        if i in (0, 3, 7, nb // 2, nb - 1):
            ctx.sample({"system": base_lines[i], "impl": o})
    for j, e in enumerate(var_sys):
        o = impl[nb + j]
        b = impl[var_of[j]]
        ctx.cov["evaluations"] += 1
        if o is None or b is None:
            continue
        inp = {"equations": [[show(l), show(r)] for l, r in e], "variant_of": base_lines[var_of[j]]}
        if o.startswith("CRASH") or o.startswith("HANG") or o == "panic":
            ctx.violation("the unifier does not terminate normally on a permuted / renamed system", inp, "ok or err", o)
        elif o.split()[0] != b.split()[0] and b.split()[0] in ("ok", "err"):
            ctx.violation("the verdict changes under permutation of equations / renaming of variables / swapping sides",
                          inp, b.split()[0], o)
    expected_verdicts(ctx)
    order_monitor(ctx)
    spelling_monitor(ctx)
    ctx.cov["rule"] = ("layer L4u: all single equations over 76 tags of depth<=2 on 3 variables; pairs over 14 tags; triples over 7 tags "
                       "(sampled by residue in the quick tier, complete in the thorough tier); random systems (<=12 equations, depth<=4, <=8 variables); "
                       "each multi-equation system also reversed, shuffled, side-swapped and variable-renamed. distinct_nontrivial = distinct systems "
                       "with more than one equation or a function/property tag. Programs: the verdict of random cyclic and acyclic declaration graphs "
                       "against the same program with its declarations permuted.")
    ctx.cov["distinct_nontrivial"] = ctx.cov["distribution"].get("nontrivial", 0)
    ctx.assumptions = ["the model is the unifier on explicit equation systems; how programs generate their equations is observed at program level only "
                       "(order monitor here, the typing tie in C01)"]
    return core.finish(ctx)
