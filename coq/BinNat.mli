open BinNums
open BinPos
open Datatypes

module N :
 sig
  val add : coq_N -> coq_N -> coq_N

  val sub : coq_N -> coq_N -> coq_N

  val compare : coq_N -> coq_N -> comparison

  val eqb : coq_N -> coq_N -> bool

  val leb : coq_N -> coq_N -> bool

  val ltb : coq_N -> coq_N -> bool

  val div2 : coq_N -> coq_N

  val coq_land : coq_N -> coq_N -> coq_N

  val shiftr : coq_N -> coq_N -> coq_N

  val to_nat : coq_N -> nat
 end
