(** Property C02 — the emitted document means what the program says.

    Partial, and said so. Proved here (responses of an operation, any number of range entries):
    every (status, media type) content with a schema is emitted under its status and media
    type unless a later entry of the same transfer has the same status and the same effective
    media type (K20, refuted by a witness and recorded); the two defects of the pinned tree in
    this function (K4: only the last status-less content reached `default`; F9: headers and
    description of earlier contents of a status were dropped) are refuted for the pinned step
    and hold for the fixed one. The full statement — the whole document equals the denotation
    of the program — is carried by monitor O02: an independent reference semantics (lexical
    environments, declarations by (module, name), top-down annotation flow, named components)
    computed from the generator's abstract syntax and compared with the emitted document up to
    implicit component names, on every generated accepted program. *)
From Oal Require Import Responses ResponsesProofs.

Theorem C02_responses_lossless_partial : forall before st md c after s,
  c_schema c = Some s ->
  forallb (fun e => negb (collides st (eff md) e)) after = true ->
  found (xfer_responses (before ++ ((st, md), c) :: after)) st (eff md) = Some s.
Proof. exact responses_lossless. Qed.
Print Assumptions C02_responses_lossless_partial.

Theorem C02_media_collision_refuted :
  exists rs st md c s, In ((st, md), c) rs /\ c_schema c = Some s /\ found (xfer_responses rs) st (eff md) <> Some s.
Proof. exact media_collision_refuted. Qed.
Print Assumptions C02_media_collision_refuted.

Theorem C02_default_overwritten_pinned_refuted :
  let rs := [((None, Some 5%N), mk_content (Some 1%N) [] None); ((None, Some 6%N), mk_content (Some 2%N) [] None)] in
  found (fold_left step_pinned rs []) None 5%N = None /\ found (xfer_responses rs) None 5%N = Some 1%N.
Proof. exact default_overwritten_pinned. Qed.
Print Assumptions C02_default_overwritten_pinned_refuted.

Theorem C02_headers_overwritten_pinned_refuted :
  let rs := [((Some 200%N, Some 5%N), mk_content (Some 1%N) [(7%N, 70%N)] (Some 9%N)); ((Some 200%N, Some 6%N), mk_content (Some 2%N) [] None)] in
  (match rget (Some 200%N) (fold_left step_pinned rs []) with Some r => get 7%N (r_headers r) | None => None end) = None /\
  (match rget (Some 200%N) (xfer_responses rs) with Some r => (get 7%N (r_headers r), r_desc r) | None => (None, None) end) = (Some 70%N, Some 9%N).
Proof. exact headers_overwritten_pinned. Qed.
Print Assumptions C02_headers_overwritten_pinned_refuted.
