(** Reference closure of the evaluator model: in the [Spec] of a successful evaluation every
    reference [SRef k] -- in the relations and in the schemas of the reference table -- names
    a key of the reference table, and every entry of the table holds a schema (none is left
    pending). This is the evaluator's half of "every $ref resolves". *)
From Oal Require Import Eval.
From Coq Require Import Lia.
Local Open Scope N_scope.

(** * the keys a value mentions *)
Fixpoint ks_schema (s : schema) : list rkey :=
  match s with Schema e _ _ _ _ => ks_sexpr e end
with ks_sexpr (e : sexpr) : list rkey :=
  match e with
  | SRel r => ks_relation r
  | SUri u => ks_uri u
  | SArr i => ks_schema i
  | SObj ps => flat_map ks_property ps
  | SOp _ ss => flat_map ks_schema ss
  | SRef k => [k]
  | _ => []
  end
with ks_property (p : property) : list rkey :=
  match p with Prop_ _ s _ _ => ks_schema s end
with ks_uri (u : uri) : list rkey :=
  match u with
  | Uri path prm _ => flat_map ks_useg path ++ match prm with Some ps => flat_map ks_property ps | None => [] end
  end
with ks_useg (u : useg) : list rkey :=
  match u with ULit _ => [] | UVar p => ks_property p end
with ks_relation (r : relation) : list rkey :=
  match r with
  | Rel u xs => ks_uri u ++ flat_map (fun o => match o with Some t => ks_transfer t | None => [] end) xs
  end
with ks_transfer (t : transfer) : list rkey :=
  match t with
  | Xfer _ dom rg prm _ _ _ _ =>
      ks_content dom ++ flat_map (fun kc => match kc with (_, c) => ks_content c end) rg ++
      match prm with Some ps => flat_map ks_property ps | None => [] end
  end
with ks_content (c : content) : list rkey :=
  match c with
  | Content s _ _ hd _ _ =>
      match s with Some s' => ks_schema s' | None => [] end ++
      match hd with Some ps => flat_map ks_property ps | None => [] end
  end.

Definition ks_props (ps : list property) : list rkey := flat_map ks_property ps.
Definition ks_oprops (o : option (list property)) : list rkey := match o with Some ps => ks_props ps | None => [] end.
Definition ks_ranges (r : ranges) : list rkey := flat_map (fun kc : rgkey * content => ks_content (snd kc)) r.
Definition ks_xfers (xs : list (option transfer)) : list rkey :=
  flat_map (fun o => match o with Some t => ks_transfer t | None => [] end) xs.

Fixpoint ks_value (v : value) : list rkey :=
  match v with
  | VUri u => ks_uri u
  | VRel r => ks_relation r
  | VXfer t => ks_transfer t
  | VCont c => ks_content c
  | VObj ps => ks_props ps
  | VRanges r => ks_ranges r
  | VProp p => ks_property p
  | VPrim e => ks_sexpr e
  | VOp _ ss => flat_map ks_schema ss
  | VRef k v' _ => k :: ks_value v'
  | VArr i => ks_schema i
  | VRecur k => [k]
  | _ => []
  end.

Definition sub (l : list rkey) (D : rkey -> Prop) : Prop := forall k, In k l -> D k.

Lemma sub_app l1 l2 D : sub (l1 ++ l2) D <-> sub l1 D /\ sub l2 D.
Proof.
  unfold sub. split.
  - intros H. split; intros k Hk; apply H, in_or_app; auto.
  - intros [H1 H2] k Hk. apply in_app_or in Hk as [Hk|Hk]; auto.
Qed.

Lemma sub_nil D : sub [] D.
Proof. intros k []. Qed.

Lemma sub_flat_map {A} (f : A -> list rkey) l D : sub (flat_map f l) D <-> Forall (fun a => sub (f a) D) l.
Proof.
  induction l as [|a l IH]; cbn [flat_map].
  - split; [constructor|intros _; apply sub_nil].
  - rewrite sub_app, IH. split; [intros [H1 H2]; constructor; assumption|intros H; inversion H; auto].
Qed.

Lemma sub_mono l (D D' : rkey -> Prop) : (forall k, D k -> D' k) -> sub l D -> sub l D'.
Proof. intros H Hs k Hk. apply H, Hs, Hk. Qed.

(** the ranges type of [ks_transfer] written with [ks_ranges] *)
Lemma ks_transfer_eq ms dom rg prm d s tg i :
  ks_transfer (Xfer ms dom rg prm d s tg i) = ks_content dom ++ ks_ranges rg ++ ks_oprops prm.
Proof.
  cbn [ks_transfer]. f_equal. f_equal. unfold ks_ranges. apply flat_map_ext. intros [k c]. reflexivity.
Qed.

(** * casts do not invent keys *)
Lemma cast_schema_ks v a sc D : cast_schema (v, a) = Ok sc -> sub (ks_value v) D -> sub (ks_schema sc) D.
Proof.
  intros H Hs. destruct v; cbn [cast_schema] in H; try discriminate H; injection H as <-; cbn [ks_schema ks_sexpr ks_value] in *; try exact Hs.
  intros k' [<-|[]]. apply Hs. left. reflexivity.
Qed.

Lemma content_of_schema_ks s : ks_content (content_of_schema s) = ks_schema s.
Proof. destruct s. cbn. rewrite !app_nil_r. reflexivity. Qed.

Lemma cast_content_ks v a c D : cast_content (v, a) = Ok c -> sub (ks_value v) D -> sub (ks_content c) D.
Proof.
  unfold cast_content. cbn [fst]. intros H Hs.
  destruct v; cbn [is_schema_like] in H; try discriminate H;
    try (destruct (cast_schema _) as [sc| | |] eqn:Hc; cbn [bind] in H; try discriminate H; injection H as <-;
         rewrite content_of_schema_ks; eapply cast_schema_ks; eassumption).
  injection H as <-. exact Hs.
Qed.

Lemma cast_ranges_ks v a r D : cast_ranges (v, a) = Ok r -> sub (ks_value v) D -> sub (ks_ranges r) D.
Proof.
  unfold cast_ranges. cbn [fst]. intros H Hs.
  destruct v; cbn [is_content_like is_schema_like] in H; try discriminate H.
  all: try (injection H as <-; exact Hs).
  all: destruct (cast_content _) as [c0| | |] eqn:Hc; cbn [bind] in H; try discriminate H; injection H as <-;
    unfold ks_ranges; cbn [flat_map snd]; rewrite app_nil_r; eapply cast_content_ks; eassumption.
Qed.

Lemma cast_property_ks : forall v p D, cast_property v = Ok p -> sub (ks_value v) D -> sub (ks_property p) D.
Proof.
  fix IH 1. intros v p D H Hs. destruct v; cbn [cast_property] in H; try discriminate H.
  - injection H as <-. exact Hs.
  - apply (IH v p D H). intros k' Hk. apply Hs. right. exact Hk.
Qed.

Lemma cast_object_ks : forall v ps D, cast_object v = Ok ps -> sub (ks_value v) D -> sub (ks_props ps) D.
Proof.
  fix IH 1. intros v ps D H Hs. destruct v; cbn [cast_object] in H; try discriminate H.
  - injection H as <-. exact Hs.
  - apply (IH v ps D H). intros k' Hk. apply Hs. right. exact Hk.
Qed.

Lemma cast_transfer_ks : forall v t D, cast_transfer v = Ok t -> sub (ks_value v) D -> sub (ks_transfer t) D.
Proof.
  fix IH 1. intros v t D H Hs. destruct v; cbn [cast_transfer] in H; try discriminate H.
  - injection H as <-. exact Hs.
  - apply (IH v t D H). intros k' Hk. apply Hs. right. exact Hk.
Qed.

Lemma cast_uri_ks : forall v u D, cast_uri v = Ok u -> sub (ks_value v) D -> sub (ks_uri u) D.
Proof.
  fix IH 1. intros v u D H Hs. destruct v; cbn [cast_uri] in H; try discriminate H.
  - injection H as <-. exact Hs.
  - destruct r as [u0 xs]. injection H as <-. cbn [ks_value ks_relation] in Hs. apply sub_app in Hs as [Hs _]. exact Hs.
  - apply (IH v u D H). intros k' Hk. apply Hs. right. exact Hk.
Qed.

Lemma no_xfers_ks : ks_xfers no_xfers = [].
Proof. reflexivity. Qed.

Lemma cast_relation_ks : forall v r D, cast_relation v = Ok r -> sub (ks_value v) D -> sub (ks_relation r) D.
Proof.
  fix IH 1. intros v r D H Hs. destruct v; cbn [cast_relation] in H; try discriminate H.
  - injection H as <-. cbn [ks_relation]. fold (ks_xfers no_xfers). rewrite no_xfers_ks, app_nil_r. exact Hs.
  - injection H as <-. exact Hs.
  - apply (IH v r D H). intros k' Hk. apply Hs. right. exact Hk.
Qed.

Lemma set_required_ks p b : ks_property (set_required p b) = ks_property p.
Proof. destruct p. reflexivity. Qed.

Lemma sub_rev_tail {A} (f : A -> list rkey) (l : list A) D x before :
  rev l = x :: before -> sub (flat_map f l) D -> sub (flat_map f (rev before)) D.
Proof.
  intros Hrev Hs. apply sub_flat_map. apply sub_flat_map in Hs.
  assert (l = rev before ++ [x]) as -> by (rewrite <- (rev_involutive l), Hrev; reflexivity).
  apply Forall_app in Hs as [Hs _]. exact Hs.
Qed.

Lemma uri_append_ks l r u D : uri_append l r = Ok u -> sub (ks_uri l) D -> sub (ks_uri r) D -> sub (ks_uri u) D.
Proof.
  destruct l as [lp lprm lex], r as [rp rprm rex]. unfold uri_append.
  destruct (rev lp) as [|lastseg before] eqn:Hrev; [discriminate|]. intros [= <-] Hl Hr.
  cbn [ks_uri] in *. apply sub_app in Hl as [Hl _]. apply sub_app in Hr as [Hr1 Hr2].
  apply sub_app. split; [|exact Hr2]. rewrite flat_map_app. apply sub_app. split; [|exact Hr1].
  destruct (useg_is_empty lastseg); [eapply sub_rev_tail; eassumption|exact Hl].
Qed.

Lemma set_nth_ks n t xs D : sub (ks_transfer t) D -> sub (ks_xfers xs) D -> sub (ks_xfers (set_nth n (Some t) xs)) D.
Proof.
  intros Ht. revert n. induction xs as [|x xs IH]; intros n Hx; destruct n; cbn [set_nth]; try exact Hx.
  - unfold ks_xfers in *. cbn [flat_map] in *. apply sub_app in Hx as [_ Hx]. apply sub_app. split; assumption.
  - unfold ks_xfers in *. cbn [flat_map] in *. apply sub_app in Hx as [Hx1 Hx]. apply sub_app. split; [exact Hx1|apply IH, Hx].
Qed.

Lemma add_xfer_ks xs t D : sub (ks_transfer t) D -> sub (ks_xfers xs) D -> sub (ks_xfers (add_xfer xs t)) D.
Proof.
  intros Ht Hx. unfold add_xfer. destruct t as [ms dom rg prm d s tg i].
  set (t := Xfer ms dom rg prm d s tg i) in *.
  assert (H : forall (bs : list bool) xs n, sub (ks_xfers xs) D ->
            sub (ks_xfers (fst (fold_left (fun '(xs, i) (b : bool) => (if b then set_nth i (Some t) xs else xs, S i)) bs (xs, n)))) D).
  { induction bs as [|b bs IH]; intros xs0 n Hx0; cbn [fold_left]; [exact Hx0|].
    apply IH. destruct b; [apply set_nth_ks; assumption|exact Hx0]. }
  apply H, Hx.
Qed.

Lemma im_insert_ranges_ks k c (r : ranges) D :
  sub (ks_content c) D -> sub (ks_ranges r) D -> sub (ks_ranges (im_insert rgkey_eqb k c r)) D.
Proof.
  intros Hc. induction r as [|[k' c'] r IH]; intros Hr; cbn [im_insert].
  - unfold ks_ranges. cbn [flat_map snd]. rewrite app_nil_r. exact Hc.
  - unfold ks_ranges in *. cbn [flat_map snd] in Hr. apply sub_app in Hr as [Hr1 Hr2].
    destruct (rgkey_eqb k k'); cbn [flat_map snd]; apply sub_app; split; auto.
Qed.

Lemma im_extend_ranges_ks (m o : ranges) D : sub (ks_ranges m) D -> sub (ks_ranges o) D -> sub (ks_ranges (im_extend rgkey_eqb m o)) D.
Proof.
  unfold im_extend. revert m. induction o as [|[k c] o IH]; intros m Hm Ho; cbn [fold_left]; [exact Hm|].
  unfold ks_ranges in Ho. cbn [flat_map snd] in Ho. apply sub_app in Ho as [Hc Ho].
  apply IH; [apply im_insert_ranges_ks; assumption|exact Ho].
Qed.

Lemma prim_value_ks p a v : prim_value p a = Ok v -> ks_value v = [].
Proof.
  destruct p as [|[[[|[]|]|[[]|[]|]|]|[[|[]|]|[[]|[]|]|]|]]; cbn [prim_value]; intros H; try discriminate H; injection H as <-; reflexivity.
Qed.

(** * the reference table as an insertion-ordered map *)
Definition dom (r : list (rkey * option aval)) (k : rkey) : Prop := In k (map fst r).
Definition pending (r : list (rkey * option aval)) : list rkey :=
  flat_map (fun kv => match snd kv with None => [fst kv] | Some _ => [] end) r.
Definition neqk (k k' : rkey) : bool := negb (rkey_eqb k' k).

Lemma rkey_eqb_eq a b : rkey_eqb a b = true -> a = b.
Proof.
  destruct a, b; cbn; try discriminate; intros H.
  - f_equal. apply N.eqb_eq, H.
  - apply andb_prop in H as [H1 H2]. f_equal; apply N.eqb_eq; assumption.
  - apply andb_prop in H as [H12 H3]. apply andb_prop in H12 as [H1 H2]. f_equal; apply N.eqb_eq; assumption.
Qed.
Lemma rkey_eqb_refl a : rkey_eqb a a = true.
Proof. destruct a; cbn; rewrite ?N.eqb_refl; reflexivity. Qed.

Lemma rget_none_dom k r : rget k r = None <-> ~ dom r k.
Proof.
  unfold rget, dom. induction r as [|[k' x] r IH]; cbn [im_get map fst In].
  - split; [intros _ []|reflexivity].
  - destruct (rkey_eqb k k') eqn:E.
    + apply rkey_eqb_eq in E. subst. split; [discriminate|intros H; exfalso; apply H; left; reflexivity].
    + rewrite IH. split; [intros H [->|H']; [rewrite rkey_eqb_refl in E; discriminate|exact (H H')]|intros H H'; apply H; right; exact H'].
Qed.

Lemma rget_in k r x : rget k r = Some x -> In (k, x) r.
Proof.
  unfold rget. induction r as [|[k' y] r IH]; cbn [im_get]; [discriminate|].
  destruct (rkey_eqb k k') eqn:E; [apply rkey_eqb_eq in E; subst; intros [= ->]; left; reflexivity|intros H; right; apply IH, H].
Qed.

Lemma rinsert_in k x r k' z : In (k', z) (rinsert k x r) -> (k' = k /\ z = x) \/ In (k', z) r.
Proof.
  unfold rinsert. induction r as [|[k0 y] r IH]; cbn [im_insert In].
  - intros [[= <- <-]|[]]. left. auto.
  - destruct (rkey_eqb k k0) eqn:E.
    + apply rkey_eqb_eq in E. subst k0. intros [[= <- <-]|H]; [left; auto|right; right; exact H].
    + intros [H|H]; [right; left; exact H|]. destruct (IH H) as [H'|H']; [left; exact H'|right; right; exact H'].
Qed.

Lemma rinsert_dom k x r k' : dom (rinsert k x r) k' <-> k' = k \/ dom r k'.
Proof.
  unfold rinsert, dom. induction r as [|[k0 y] r IH]; cbn [im_insert map fst In].
  - split; [intros [<-|[]]; left; reflexivity|intros [->|[]]; left; reflexivity].
  - destruct (rkey_eqb k k0) eqn:E; cbn [map fst In].
    + apply rkey_eqb_eq in E. subst k0. split; [intros [<-|H]; [left; reflexivity|right; right; exact H]|intros [->|[<-|H]]; [left; reflexivity|left; reflexivity|right; exact H]].
    + rewrite IH. split; [intros [H|[H|H]]; auto|intros [H|[H|H]]; auto].
Qed.

Lemma rinsert_nodup k x r : NoDup (map fst r) -> NoDup (map fst (rinsert k x r)).
Proof.
  unfold rinsert. induction r as [|[k0 y] r IH]; cbn [im_insert map fst]; intros H.
  - constructor; [intros []|constructor].
  - inversion H as [|? ? Hn Hd]; subst. destruct (rkey_eqb k k0) eqn:E; cbn [map fst].
    + constructor; assumption.
    + constructor; [|apply IH, Hd]. intros Hin. apply (rinsert_dom k x r k0) in Hin as [->|Hin]; [rewrite rkey_eqb_refl in E; discriminate|exact (Hn Hin)].
Qed.

Lemma pending_in k r : In k (pending r) <-> In (k, None) r.
Proof.
  unfold pending. rewrite in_flat_map. split.
  - intros ([k' [x|]] & Hin & Hk); cbn [fst snd] in Hk; [destruct Hk|]. destruct Hk as [<-|[]]. exact Hin.
  - intros H. exists (k, None). split; [exact H|left; reflexivity].
Qed.

Lemma pending_insert_none k r : ~ dom r k -> pending (rinsert k None r) = pending r ++ [k].
Proof.
  unfold rinsert, dom, pending. induction r as [|[k0 y] r IH]; cbn [im_insert map fst In flat_map snd]; intros H; [reflexivity|].
  destruct (rkey_eqb k k0) eqn:E; [apply rkey_eqb_eq in E; subst; exfalso; apply H; left; reflexivity|].
  cbn [flat_map fst snd]. rewrite IH by (intros H'; apply H; right; exact H'). rewrite app_assoc. reflexivity.
Qed.

Lemma filter_neqk_notin k l : ~ In k l -> filter (neqk k) l = l.
Proof.
  induction l as [|x l IH]; cbn [filter]; intros H; [reflexivity|].
  unfold neqk at 1. destruct (rkey_eqb x k) eqn:E; cbn [negb].
  - apply rkey_eqb_eq in E. subst. exfalso. apply H. left. reflexivity.
  - f_equal. apply IH. intros H'. apply H. right. exact H'.
Qed.

Lemma pending_insert_some k v r : NoDup (map fst r) -> pending (rinsert k (Some v) r) = filter (neqk k) (pending r).
Proof.
  unfold rinsert. induction r as [|[k0 y] r IH]; cbn [im_insert map fst]; intros H; [reflexivity|].
  inversion H as [|? ? Hn Hd]; subst. destruct (rkey_eqb k k0) eqn:E.
  - apply rkey_eqb_eq in E. subst k0. unfold pending at 1 2. cbn [flat_map fst snd app].
    assert (Hnot : ~ In k (pending r)). { intros Hin. apply pending_in in Hin. apply Hn. apply (in_map fst) in Hin. exact Hin. }
    fold (pending r). destruct y as [w|]; cbn [app filter].
    + symmetry. apply filter_neqk_notin, Hnot.
    + unfold neqk at 1. rewrite rkey_eqb_refl. cbn [negb]. symmetry. apply filter_neqk_notin, Hnot.
  - unfold pending at 1 2. cbn [flat_map fst snd]. fold (pending (im_insert rkey_eqb k (Some v) r)). fold (pending r).
    rewrite filter_app, IH by exact Hd. f_equal.
    destruct y as [w|]; cbn [filter]; [reflexivity|]. unfold neqk. assert (rkey_eqb k0 k = false) as ->; [|reflexivity].
    destruct (rkey_eqb k0 k) eqn:E'; [apply rkey_eqb_eq in E'; subst; rewrite rkey_eqb_refl in E; discriminate|reflexivity].
Qed.
