//! Layer L3: name resolution. Input: {"mods": {...}, "main": loc}. Output: the main module
//! as the model's tree (nodes numbered in pre-order), its imports with the exported
//! declarations, and what `resolve` decided for every Variable node.
use oal_compiler::definition::Definition;
use oal_compiler::module::ModuleSet;
use oal_compiler::tree::{NRef, Tree};
use oal_model::grammar::AbstractSyntaxNode;
use oal_model::locator::Locator;
use oal_syntax::parser as syn;
use serde_json::{json, Value};
use std::collections::HashMap;
use std::io::{BufRead, Write};

pub fn preorder(tree: &Tree) -> HashMap<String, usize> {
    let mut m = HashMap::new();
    for (i, n) in tree.root().descendants().enumerate() {
        m.insert(format!("{:?}", n.index()), i);
    }
    m
}

fn dump(node: NRef, idx: &HashMap<String, usize>) -> Value {
    let me = idx[&format!("{:?}", node.index())];
    if let Some(var) = syn::Variable::cast(node) {
        let q = var.qualifier().map(|q| q.ident().as_ref().to_owned());
        let span = node.span().map(|s| s.start()).unwrap_or(0);
        let end = node.span().map(|s| s.end()).unwrap_or(0);
        let ispan = var.identifier().node().span().map(|s| (s.start(), s.end())).unwrap_or((0, 0));
        let qspan = var.qualifier().and_then(|q| q.node().span()).map(|s| (s.start(), s.end()));
        return json!({"k": "var", "id": me, "q": q, "x": var.ident().as_ref(), "s": span, "e": end, "is": ispan.0, "ie": ispan.1,
            "qs": qspan.map(|x| x.0), "qe": qspan.map(|x| x.1)});
    }
    if let Some(rec) = syn::Recursion::cast(node) {
        let b = rec.binding();
        let bid = idx[&format!("{:?}", b.node().index())];
        return json!({"k": "rec", "bind": bid, "b": b.ident().as_ref(), "body": dump(rec.rhs(), idx)});
    }
    let cs: Vec<Value> = node.children().map(|c| dump(c, idx)).collect();
    json!({"k": "node", "c": cs})
}

pub fn load_all(files: &HashMap<String, String>, main: &str) -> Result<(ModuleSet, Locator), String> {
    let main_loc = Locator::try_from(main).map_err(|e| e.to_string())?;
    let mut trees = Vec::new();
    for (l, t) in files.iter() {
        let loc = Locator::try_from(l.as_str()).map_err(|e| e.to_string())?;
        let (tree, errs) = oal_syntax::parse::<_, oal_compiler::tree::Core>(loc, t.as_str());
        if !errs.is_empty() {
            return Err(format!("syntax: {}", errs[0]));
        }
        trees.push((l.clone(), tree.ok_or("no tree")?));
    }
    let pos = trees.iter().position(|(l, _)| l == main).ok_or("no main")?;
    let (_, mt) = trees.remove(pos);
    let mut mods = ModuleSet::new(mt);
    for (_, t) in trees {
        mods.insert(t);
    }
    Ok((mods, main_loc))
}

pub fn run() {
    crate::l_compile::install_panic_hook();
    let stdin = std::io::stdin();
    let stdout = std::io::stdout();
    let mut out = stdout.lock();
    for line in stdin.lock().lines() {
        let line = line.unwrap();
        let req: Value = serde_json::from_str(&line).unwrap_or(Value::Null);
        let mut files = HashMap::new();
        if let Some(m) = req["mods"].as_object() {
            for (k, v) in m.iter() {
                files.insert(k.clone(), v.as_str().unwrap_or("").to_owned());
            }
        }
        let main = req["main"].as_str().unwrap_or("").to_owned();
        let res = crate::l_compile::guarded(std::panic::AssertUnwindSafe(|| {
            let (mods, loc) = match load_all(&files, &main) {
                Ok(x) => x,
                Err(e) => return json!({"status": "unparsable", "msg": e}),
            };
            let tree = mods.get(&loc).unwrap();
            let idx = preorder(tree);
            let prog = syn::Program::cast(tree.root()).unwrap();
            let mut imports = Vec::new();
            for imp in prog.imports() {
                let other = match loc.join(imp.module()) {
                    Ok(o) => o,
                    Err(e) => return json!({"status": "unparsable", "msg": e.to_string()}),
                };
                let Some(m) = mods.get(&other) else {
                    return json!({"status": "unparsable", "msg": "missing import"});
                };
                let oidx = preorder(m);
                let oprog = syn::Program::cast(m.root()).unwrap();
                let ex: Vec<Value> = oprog
                    .declarations()
                    .map(|d| json!([d.ident().as_ref(), format!("{}#{}", other, oidx[&format!("{:?}", d.node().index())])]))
                    .collect();
                imports.push(json!({"q": imp.qualifier().map(|q| q.as_ref().to_owned()), "exports": ex}));
            }
            let mut stmts = Vec::new();
            for st in tree.root().children() {
                if let Some(d) = syn::Declaration::cast(st) {
                    let params: Vec<Value> = d
                        .bindings()
                        .map(|b| json!([idx[&format!("{:?}", b.node().index())], b.ident().as_ref()]))
                        .collect();
                    let cs: Vec<Value> = st.children().map(|c| dump(c, &idx)).collect();
                    let ident_start = d.identifier().node().span().map(|s| s.start()).unwrap_or(0);
                    stmts.push(json!({"k": "decl", "node": idx[&format!("{:?}", st.index())], "name": d.ident().as_ref(),
                        "params": params, "rhs": {"k": "node", "c": cs}, "ident_start": ident_start}));
                } else if syn::Resource::cast(st).is_some() {
                    stmts.push(json!({"k": "res", "tree": dump(st, &idx)}));
                }
            }
            let r = oal_compiler::verif::resolve(&mods, &loc);
            let outcome = match r {
                Err(e) => json!({"error": crate::l_compile::kind_name(&e.kind), "start": e.span().map(|s| s.start())}),
                Ok(_) => {
                    let mut defs = serde_json::Map::new();
                    for n in tree.root().descendants() {
                        if syn::Variable::cast(n).is_some() {
                            let core = n.syntax().core_ref();
                            let d = match core.definition() {
                                Some(Definition::External(ext)) => {
                                    let dn = ext.node(&mods);
                                    let dl = dn.tree().locator().clone();
                                    let didx = preorder(dn.tree());
                                    let pos = didx[&format!("{:?}", dn.index())];
                                    if dl == loc { json!(pos) } else { json!(format!("{}#{}", dl, pos)) }
                                }
                                Some(Definition::Internal(_)) => json!("B"),
                                None => json!("undefined"),
                            };
                            defs.insert(idx[&format!("{:?}", n.index())].to_string(), d);
                        }
                    }
                    json!({"defs": defs})
                }
            };
            // spans of every node a definition can point to (declarations, bindings) and of declaration identifiers
            let mut spans = serde_json::Map::new();
            for n in tree.root().descendants() {
                if let Some(d) = syn::Declaration::cast(n) {
                    let sp = n.span().map(|s| (s.start(), s.end())).unwrap_or((0, 0));
                    let isp = d.identifier().node().span().map(|s| (s.start(), s.end())).unwrap_or((0, 0));
                    spans.insert(idx[&format!("{:?}", n.index())].to_string(), json!({"kind": "decl", "span": [sp.0, sp.1], "ident": [isp.0, isp.1], "name": d.ident().as_ref()}));
                } else if let Some(b) = syn::Binding::cast(n) {
                    let sp = n.span().map(|s| (s.start(), s.end())).unwrap_or((0, 0));
                    spans.insert(idx[&format!("{:?}", n.index())].to_string(), json!({"kind": "binding", "span": [sp.0, sp.1], "ident": [sp.0, sp.1], "name": b.ident().as_ref()}));
                } else if let Some(q) = syn::Qualifier::cast(n) {
                    if let Some(i) = q.identifier() {
                        let sp = i.node().span().map(|s| (s.start(), s.end())).unwrap_or((0, 0));
                        spans.insert(idx[&format!("{:?}", n.index())].to_string(), json!({"kind": "qualifier", "span": [sp.0, sp.1], "ident": [sp.0, sp.1], "name": i.ident().as_ref()}));
                    }
                }
            }
            json!({"status": "ok", "imports": imports, "stmts": stmts, "outcome": outcome, "spans": spans})
        }));
        writeln!(out, "{}", res).unwrap();
        out.flush().unwrap();
    }
}
