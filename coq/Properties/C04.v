(** Property C04 — any text is answered with a result or diagnostics, never a crash.

    The front ends are compositions of the stages modelled in this development. This file
    collects, per stage, the theorem that excludes a crash or a hang of that stage, for all
    inputs. It is partial and says so: the composition itself (a single [frontend_total]
    over texts) is not stated as one theorem. The parser stage is now closed: for every token
    list the plain and the memoising parser of the model terminate with fuel linear in the
    number of tokens ([C04_parser_terminates], from a certificate of the oal grammar: which
    productions consume a token when they succeed, and a rank that decreases along calls made
    before anything was consumed, computed and checked by the kernel); the tokenizer and the parser compose
    ([C04_syntax_front_end_terminates]: for a text without lexical error the fuel is linear in
    the number of characters; with a lexical error the code parses the tokens it recognised,
    which [C04_parser_terminates] covers as it holds for every token list); the evaluator stage is
    closed by C01 (type soundness, termination). Stack depth and wall-clock
    are run-time behaviour observed by the monitors (nesting depth 200, time limits). *)
From Oal Require PegTerm GrammarTerm Lexer LexerProofs.
From Oal Require Import Peg Grammar PegProofs GrammarProofs Tag Unify UnifyProofs Cycles CyclesProofs Loader LoaderProofs
  Text Position Lsp LspProofs Cast CastProofs.
Local Open Scope nat_scope.

(** parser: an answer, once given, is stable under more fuel, and the memo table never changes it *)
Theorem C04_parser_answer_stable : forall n m toks r,
  parse_pure n toks = r -> r <> Fuel -> n <= m -> parse_pure m toks = r.
Proof. exact oal_parse_stable. Qed.
Print Assumptions C04_parser_answer_stable.

Theorem C04_parser_memo_invisible : forall n toks r st,
  parse_memo n toks = (r, st) -> r <> Fuel -> exists m, parse_pure m toks = r.
Proof. exact oal_memo_transparent. Qed.
Print Assumptions C04_parser_memo_invisible.

(** inference: the substitution stays acyclic, so reducing a tag terminates (F2 fixed) *)
Theorem C04_tag_reduction_terminates : forall s t,
  TRI s -> forall m, 1 + depth t + cost s <= m -> reduce m s t <> None.
Proof. exact reduce_total. Qed.
Print Assumptions C04_tag_reduction_terminates.

Theorem C04_self_containing_type_rejected :
  unify 3 [] (TVar 0) (TProperty (TVar 0)) = UErr ERecursive.
Proof. exact self_property_rejected. Qed.
Print Assumptions C04_self_containing_type_rejected.

(** recursion check and module loader terminate *)
Theorem C04_recursion_check_terminates :
  forall referential scc, scc_spec scc -> forall ns g,
  cycles_check referential scc (S (length g)) ns g [] <> CFuel.
Proof. exact cycles_check_terminates. Qed.
Print Assumptions C04_recursion_check_terminates.

Theorem C04_loader_terminates :
  forall fs compile_ok topo base univ,
  In base univ -> (forall n, In n univ -> incl (imports_of fs n) univ) ->
  load fs compile_ok topo (S (S (length univ))) base <> LFuel.
Proof. exact load_terminates. Qed.
Print Assumptions C04_loader_terminates.

(** evaluator: a guarded cast of an admitted value never panics outside the recorded triples *)
Theorem C04_guarded_casts_do_not_panic_partial : forall s t k,
  resolved t = true -> check s t = true -> admits t k = true -> known s k = false -> cast_ok s k = true.
Proof. exact cast_never_panics. Qed.
Print Assumptions C04_guarded_casts_do_not_panic_partial.

(** language server: an in-line change range with start <= end never panics (F5 fixed) *)
Theorem C04_document_change_never_panics : forall doc l sc ec w,
  (sc <= ec)%N -> apply_change doc (CIncr l sc l ec w) <> None.
Proof. exact change_in_line_never_panics. Qed.
Print Assumptions C04_document_change_never_panics.

(** parser: never out of fuel, for every token list *)
Theorem C04_parser_terminates : forall (toks : list N) n,
  (length toks * (S GrammarTerm.OR * S GrammarTerm.OZ) + S (GrammarTerm.orank P_PROGRAM) * S GrammarTerm.OZ + 1 <= n)%nat ->
  parse_pure n toks <> Fuel /\ fst (parse_memo n toks) <> Fuel.
Proof. exact GrammarTerm.oal_parsers_terminate. Qed.
Print Assumptions C04_parser_terminates.

Example C04_parser_fuel_constants : (GrammarTerm.OR, GrammarTerm.OZ, GrammarTerm.orank P_PROGRAM) = (19, 26, 5)%nat.
Proof. exact GrammarTerm.oal_fuel_constants. Qed.

(** tokenizer then parser: linear fuel in the length of the text *)
Theorem C04_syntax_front_end_terminates : forall t toks n, Lexer.tokenize t = Some toks ->
  (length t * (S GrammarTerm.OR * S GrammarTerm.OZ) + S (GrammarTerm.orank P_PROGRAM) * S GrammarTerm.OZ + 1 <= n)%nat ->
  parse_pure n (map fst toks) <> Fuel.
Proof. exact LexerProofs.front_end_terminates. Qed.
Print Assumptions C04_syntax_front_end_terminates.
