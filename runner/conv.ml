(* conversions between OCaml ints and the extracted binary numbers *)
open BinNums

let rec pos_of_int (n : int) : positive =
  if n <= 1 then Coq_xH
  else if n land 1 = 0 then Coq_xO (pos_of_int (n lsr 1))
  else Coq_xI (pos_of_int (n lsr 1))

let n_of_int (n : int) : coq_N = if n <= 0 then N0 else Npos (pos_of_int n)

let rec int_of_pos (p : positive) : int =
  match p with Coq_xH -> 1 | Coq_xO q -> 2 * int_of_pos q | Coq_xI q -> 2 * int_of_pos q + 1

let int_of_n (n : coq_N) : int = match n with N0 -> 0 | Npos p -> int_of_pos p

let rec nat_of_int (n : int) : Datatypes.nat =
  if n <= 0 then Datatypes.O else Datatypes.S (nat_of_int (n - 1))

let rec int_of_nat (n : Datatypes.nat) : int =
  match n with Datatypes.O -> 0 | Datatypes.S m -> 1 + int_of_nat m

let text_of_ints (l : int list) : coq_N list = Stdlib.List.map n_of_int l
let ints_of_text (l : coq_N list) : int list = Stdlib.List.map int_of_n l

let words (s : string) : string list =
  Stdlib.List.filter (fun w -> w <> "") (String.split_on_char ' ' s)

let ints (ws : string list) : int list = Stdlib.List.map int_of_string ws

let join_ints (l : int list) : string = String.concat " " (Stdlib.List.map string_of_int l)

let each_line (f : string -> unit) : unit =
  (try
     while true do
       f (input_line stdin)
     done
   with End_of_file -> ());
  flush stdout
