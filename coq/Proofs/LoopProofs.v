(** History independence of the language server's main loop (Model/Loop.v): after any history
    of notifications, requests and idle seconds, a request is answered, and the client shows
    diagnostics, exactly as with a server just started on the current texts. *)
From Oal Require Import Diag DiagProofs Loop.

Section P.
Variables world fstate req ans : Type.
Variable docs_of : world -> list loc.
Variable eval_folders : world -> fstate * list (loc * diag).
Variable handle : fstate -> world -> req -> ans.

Notation lstate := (lstate world fstate).
Notation event := (event world req).
Notation step := (@Loop.step world fstate req ans docs_of eval_folders handle).
Notation run := (@Loop.run world fstate req ans docs_of eval_folders handle).
Notation do_refresh := (@Loop.do_refresh world fstate docs_of eval_folders).
Notation start := (@Loop.start world fstate).
Notation world_after := (@Loop.world_after world req).

(** what holds between two events: the bookkeeping invariant of Diag.v, and, when the state is
    not stale, folder states and published diagnostics are those of the current texts *)
Definition synced (s : lstate) : Prop :=
  inv (l_sc s) /\
  (l_stale s = false ->
   l_fs s = fst (eval_folders (l_world s)) /\
   forall l, vget (s_view (l_sc s)) l = errs_of l (snd (eval_folders (l_world s)))).

Lemma refresh_synced s : inv (l_sc s) -> synced s -> synced (do_refresh s) /\ l_stale (do_refresh s) = false /\ l_world (do_refresh s) = l_world s.
Proof.
  intros Hinv Hs. unfold Loop.do_refresh. destruct (l_stale s) eqn:E.
  - cbn [l_sc l_stale l_fs l_world].
    destruct (refresh_exact (l_sc s) (docs_of (l_world s)) (snd (eval_folders (l_world s))) Hinv) as [Hget Hinv'].
    split; [|split; reflexivity]. split; cbn [l_sc l_stale l_fs l_world]; [exact Hinv'|].
    intros _. split; [reflexivity|exact Hget].
  - split; [exact Hs|split; [exact E|reflexivity]].
Qed.

Lemma step_synced s e : synced s -> synced (fst (step s e)) /\ l_world (fst (step s e)) = world_after (l_world s) [e].
Proof.
  intros Hs. destruct e as [f|r|]; cbn [Loop.step fst Loop.world_after].
  - split; [|reflexivity]. split; [exact (proj1 Hs)|]. cbn [l_stale]. discriminate.
  - destruct (refresh_synced s (proj1 Hs) Hs) as (A & _ & C). split; [exact A|exact C].
  - destruct (refresh_synced s (proj1 Hs) Hs) as (A & _ & C). split; [exact A|exact C].
Qed.

Lemma world_after_app w h1 h2 : world_after w (h1 ++ h2) = world_after (world_after w h1) h2.
Proof. revert w. induction h1 as [|[f|r|] h1 IH]; intros w; cbn [app Loop.world_after]; auto. Qed.

Lemma run_synced h : forall s, synced s -> synced (fst (run s h)) /\ l_world (fst (run s h)) = world_after (l_world s) h.
Proof.
  induction h as [|e h IH]; intros s Hs; cbn [Loop.run]; [split; [exact Hs|reflexivity]|].
  destruct (step s e) as [s1 a] eqn:E1. destruct (run s1 h) as [s2 l] eqn:E2. cbn [fst].
  destruct (step_synced s e Hs) as [H1 W1]. rewrite E1 in H1, W1. cbn [fst] in H1, W1.
  destruct (IH s1 H1) as [H2 W2]. rewrite E2 in H2, W2. cbn [fst] in H2, W2.
  split; [exact H2|]. rewrite W2, W1. change (e :: h) with ([e] ++ h). rewrite world_after_app. reflexivity.
Qed.

Lemma start_synced w fs0 : synced (start w fs0).
Proof. split; [apply inv_fresh|]. cbn. discriminate. Qed.

Lemma run_app h1 h2 s : run s (h1 ++ h2) = let '(s1, l1) := run s h1 in let '(s2, l2) := run s1 h2 in (s2, l1 ++ l2).
Proof.
  revert s. induction h1 as [|e h1 IH]; intros s; cbn [app Loop.run].
  - destruct (run s h2) as [s2 l2]. reflexivity.
  - destruct (step s e) as [s1 a]. rewrite IH. destruct (run s1 h1) as [s1' l1]. destruct (run s1' h2) as [s2 l2].
    destruct a; reflexivity.
Qed.

(** the answer to a request after any history, and the diagnostics the client then shows *)
Theorem request_after_history w fs0 h r :
  let w' := world_after w h in
  let '(s, answers) := run (start w fs0) (h ++ [Request r]) in
  last answers (handle fs0 w r) = handle (fst (eval_folders w')) w' r /\
  (forall l, vget (s_view (l_sc s)) l = errs_of l (snd (eval_folders w'))) /\
  l_world s = w'.
Proof.
  cbn zeta. rewrite run_app. destruct (run (start w fs0) h) as [s1 l1] eqn:E1.
  destruct (run_synced h (start w fs0) (start_synced w fs0)) as [H1 W1]. rewrite E1 in H1, W1. cbn [fst] in H1, W1.
  cbn [l_world Loop.start] in W1.
  cbn [Loop.run Loop.step]. destruct (refresh_synced s1 (proj1 H1) H1) as (A & B & C).
  destruct (proj2 A B) as [Hfs Hv].
  rewrite last_last. rewrite C, W1 in *. rewrite Hfs. repeat split; [exact Hv].
Qed.

(** history independence: the same as a server just started on the current texts *)
Theorem loop_history_independent w fs0 fs1 h r :
  let w' := world_after w h in
  let '(s, answers) := run (start w fs0) (h ++ [Request r]) in
  let '(s', answers') := run (start w' fs1) [Request r] in
  last answers (handle fs0 w r) = last answers' (handle fs1 w' r) /\
  forall l, vget (s_view (l_sc s)) l = vget (s_view (l_sc s')) l.
Proof.
  cbn zeta. pose proof (request_after_history w fs0 h r) as A. pose proof (request_after_history (world_after w h) fs1 [] r) as B.
  cbn zeta in A, B. cbn [app Loop.world_after] in B.
  destruct (run (start w fs0) (h ++ [Request r])) as [s l]. destruct (run (start (world_after w h) fs1) [Request r]) as [s' l'].
  destruct A as (A1 & A2 & _). destruct B as (B1 & B2 & _). split; [congruence|]. intros x. rewrite A2, B2. reflexivity.
Qed.

(** the client shows at least one diagnostic exactly when the evaluation of the current texts reports an error *)
Theorem loop_diagnostic_iff_error w fs0 h r :
  (exists l, vget (s_view (l_sc (fst (run (start w fs0) (h ++ [Request r]))))) l <> []) <->
  snd (eval_folders (world_after w h)) <> [].
Proof.
  pose proof (request_after_history w fs0 h r) as A. cbn zeta in A.
  destruct (run (start w fs0) (h ++ [Request r])) as [s l]. destruct A as (_ & A & _). cbn [fst].
  rewrite errs_of_nonempty. split; intros [x H]; exists x; [rewrite <- A; exact H|rewrite A; exact H].
Qed.

(** an idle second does as well as a request for the diagnostics *)
Theorem idle_after_history w fs0 h :
  let w' := world_after w h in
  forall l, vget (s_view (l_sc (fst (run (start w fs0) (h ++ [Idle]))))) l = errs_of l (snd (eval_folders w')).
Proof.
  cbn zeta. intros l. rewrite run_app. destruct (run (start w fs0) h) as [s1 l1] eqn:E1.
  destruct (run_synced h (start w fs0) (start_synced w fs0)) as [H1 W1]. rewrite E1 in H1, W1. cbn [fst] in H1, W1.
  cbn [l_world Loop.start] in W1.
  cbn [Loop.run Loop.step fst]. destruct (refresh_synced s1 (proj1 H1) H1) as (A & B & C).
  destruct (proj2 A B) as [_ Hv]. rewrite Hv, C, W1. reflexivity.
Qed.
End P.

(** a notification that does not mark the state stale breaks it: texts are numbers, the error
    list names the text; after a request, a lazy notification and another request the client
    still sees the diagnostics of the old text *)
Example lazy_notification_is_stale :
  let docs_of (w : N) := [1%N] in
  let eval_folders (w : N) := (w, [(1%N, w)]) in
  let handle (fs w r : N) := fs in
  let s0 : Loop.lstate N N := Loop.start 5%N 0%N in
  let s1 := fst (Loop.step docs_of eval_folders handle s0 (Request 0%N)) in
  let s2 := fst (Loop.step_lazy docs_of eval_folders handle s1 (Notify (fun _ => 6%N))) in
  let '(s3, a) := Loop.step docs_of eval_folders handle s2 (Request 0%N) in
  a = Some 5%N /\ vget (s_view (l_sc s3)) 1%N = [5%N] /\ l_world s3 = 6%N.
Proof. vm_compute. repeat split. Qed.
