(** Termination of the parser model: for a grammar with a certificate ([cons]: which
    productions consume a token whenever they succeed; [rank]: a number that decreases along
    calls made before anything was consumed) the interpreter [run] needs an amount of fuel
    that is linear in the number of tokens: it never ends in [Fuel]. The certificate of the
    oal grammar is computed and checked by the kernel (GrammarTerm below). *)
From Coq Require Import Lia Arith PeanoNat List Bool.
From Oal Require Import Peg PegProofs.

Section Term.
Variable class_ok : N -> N -> bool.
Variable is_trivia : N -> bool.
Variable K_IDENT_REF : N.
Variable g : nat -> pexp.

Variable cons : nat -> bool.
Variable rank : nat -> nat.
Variables R Z : nat.

Fixpoint consumes (p : pexp) : bool :=
  match p with
  | Eps | NotRefFunc => false
  | Tok _ => true
  | Seq2 a b => consumes a || consumes b
  | Alt2 a b => consumes a && consumes b
  | Mk _ a | Collapse _ a | Memo _ a => consumes a
  | Call nt => cons nt
  | IfThen _ _ => false
  end.

(** the largest rank (plus one) of a production called before anything was consumed *)
Fixpoint lrank (p : pexp) : nat :=
  match p with
  | Eps | NotRefFunc | Tok _ => 0
  | Call nt => S (rank nt)
  | Seq2 a b | IfThen a b => Nat.max (lrank a) (if consumes a then 0 else lrank b)
  | Alt2 a b => Nat.max (lrank a) (lrank b)
  | Mk _ a | Collapse _ a | Memo _ a => lrank a
  end.

(** ... of any production called at all *)
Fixpoint crank (p : pexp) : nat :=
  match p with
  | Eps | NotRefFunc | Tok _ => 0
  | Call nt => S (rank nt)
  | Seq2 a b | IfThen a b | Alt2 a b => Nat.max (crank a) (crank b)
  | Mk _ a | Collapse _ a | Memo _ a => crank a
  end.

Fixpoint psize (p : pexp) : nat :=
  match p with
  | Eps | NotRefFunc | Tok _ | Call _ => 1
  | Seq2 a b | IfThen a b | Alt2 a b => S (psize a + psize b)
  | Mk _ a | Collapse _ a | Memo _ a => S (psize a)
  end.

Definition prod_okb (nt : nat) : bool :=
  (negb (cons nt) || consumes (g nt)) && Nat.leb (lrank (g nt)) (rank nt) && Nat.leb (crank (g nt)) R && Nat.leb (psize (g nt)) Z.

Hypothesis Hg : forall nt, prod_okb nt = true.

Lemma lrank_le_crank p : lrank p <= crank p.
Proof. induction p; cbn [lrank crank]; try lia; destruct (consumes p1); lia. Qed.

Section Toks.
Variable toks : list N.
Notation run := (Peg.run class_ok is_trivia K_IDENT_REF g toks).
Notation skip := (Peg.skip is_trivia toks).
Notation kind_at := (Peg.kind_at toks).

Lemma skip_from_ge rest : forall s, s <= skip_from is_trivia rest s.
Proof. induction rest as [|k rest IH]; intros s; cbn [skip_from]; [lia|]. destruct (is_trivia k); [specialize (IH (S s)); lia|lia]. Qed.
Lemma skip_ge s : s <= skip s.
Proof. apply skip_from_ge. Qed.

Lemma kind_at_lt s k : kind_at s = Some k -> s < length toks.
Proof. unfold Peg.kind_at. intros H. apply nth_error_Some. congruence. Qed.

(** the cursor never moves back; a consuming expression moves it forward (and a token was there) *)
Lemma run_progress : forall n p s acc s' m, run n p s acc = Ok s' m ->
  s <= s' /\ (consumes p = true -> s < length toks /\ s < s').
Proof.
  induction n as [|n IH]; intros p s acc s' m H; [discriminate|].
  rewrite run_eq in H. destruct p; cbn [consumes].
  - injection H as <- _. split; [lia|discriminate].
  - destruct (kind_at s) as [k|] eqn:Ek; [|discriminate]. destruct (class_ok c k); [|discriminate].
    injection H as <- _. pose proof (skip_ge (S s)). pose proof (kind_at_lt s k Ek). split; [lia|intros _; lia].
  - destruct (run n p1 s acc) as [s1 m1| |] eqn:E1; try discriminate.
    destruct (run n p2 s1 (acc ++ m1)) as [s2 m2| |] eqn:E2; try discriminate. injection H as <- _.
    destruct (IH _ _ _ _ _ E1) as [H1 H1c]. destruct (IH _ _ _ _ _ E2) as [H2 H2c].
    split; [lia|]. intros Hc. apply orb_prop in Hc as [Hc|Hc]; [destruct (H1c Hc); lia|destruct (H2c Hc); lia].
  - destruct (run n p1 s acc) as [s1 m1| |] eqn:E1; try discriminate.
    + injection H as <- <-. destruct (IH _ _ _ _ _ E1) as [H1 H1c]. split; [exact H1|]. intros Hc. apply andb_prop in Hc as [Hc _]. auto.
    + destruct (IH _ _ _ _ _ H) as [H2 H2c]. split; [exact H2|]. intros Hc. apply andb_prop in Hc as [_ Hc]. auto.
  - destruct (run n p s []) as [s1 m1| |] eqn:E1; try discriminate. injection H as <- _. apply (IH _ _ _ _ _ E1).
  - destruct (run n p s []) as [s1 m1| |] eqn:E1; try discriminate.
    assert (s1 = s') by (destruct m1 as [|x [|y l]]; injection H as <- _; reflexivity). subst. apply (IH _ _ _ _ _ E1).
  - destruct (IH _ _ _ _ _ H) as [H1 H1c]. split; [exact H1|]. intros Hc. apply H1c.
    pose proof (Hg nt) as Hok. unfold prod_okb in Hok. apply andb_prop in Hok as [Hok _]. apply andb_prop in Hok as [Hok _].
    apply andb_prop in Hok as [Hok _]. rewrite Hc in Hok. exact Hok.
  - apply (IH _ _ _ _ _ H).
  - destruct (run n p1 s acc) as [s1 m1| |] eqn:E1; try discriminate.
    + destruct (run n p2 s1 (acc ++ m1)) as [s2 m2| |] eqn:E2; try discriminate. injection H as <- _.
      destruct (IH _ _ _ _ _ E1) as [H1 _]. destruct (IH _ _ _ _ _ E2) as [H2 _]. split; [lia|discriminate].
    + injection H as <- _. split; [lia|discriminate].
  - destruct (ref_func K_IDENT_REF toks acc); [discriminate|]. injection H as <- _. split; [lia|discriminate].
Qed.

Definition left (s : nat) : nat := length toks - s.
Definition B (u r z : nat) : nat := u * (S R * S Z) + r * S Z + z.

Lemma B_size u u' r r' z z' : u' <= u -> r' <= r -> z' < z -> B u' r' z' < B u r z.
Proof.
  unfold B. intros Hu Hr Hz.
  pose proof (Nat.mul_le_mono_r u' u (S R * S Z) Hu). pose proof (Nat.mul_le_mono_r r' r (S Z) Hr). lia.
Qed.
Lemma B_rank u u' r r' z z' : u' <= u -> r' < r -> z' <= Z -> B u' r' z' < B u r z.
Proof.
  unfold B. intros Hu Hr Hz.
  pose proof (Nat.mul_le_mono_r u' u (S R * S Z) Hu).
  assert (S r' * S Z <= r * S Z) by (apply Nat.mul_le_mono_r; lia).
  rewrite Nat.mul_succ_l in H0. lia.
Qed.
Lemma B_cut u u' r r' z z' : u' < u -> r' <= R -> z' <= Z -> B u' r' z' < B u r z.
Proof.
  unfold B. intros Hu Hr Hz.
  assert (S u' * (S R * S Z) <= u * (S R * S Z)) by (apply Nat.mul_le_mono_r; lia).
  rewrite Nat.mul_succ_l in H.
  pose proof (Nat.mul_le_mono_r r' R (S Z) Hr).
  assert (S R * S Z = R * S Z + S Z) by (rewrite Nat.mul_succ_l; reflexivity).
  lia.
Qed.

Lemma psize_pos p : 1 <= psize p.
Proof. destruct p; cbn [psize]; lia. Qed.

(** sub-expressions evaluated after a first part [a] that succeeded at [s1] *)
Lemma after_first n a b s acc s1 m1 z :
  run n a s acc = Ok s1 m1 -> crank b <= R -> psize b <= Z -> psize b < z ->
  B (left s1) (lrank b) (psize b) < B (left s) (Nat.max (lrank a) (if consumes a then 0 else lrank b)) z.
Proof.
  intros E Hc Hz Hlt. destruct (run_progress _ _ _ _ _ _ E) as [H1 H1c].
  destruct (consumes a) eqn:Ea.
  - destruct (H1c eq_refl) as [Hlen Hs]. apply B_cut; [unfold left; lia|pose proof (lrank_le_crank b); lia|exact Hz].
  - apply B_size; [unfold left; lia|lia|exact Hlt].
Qed.

Theorem run_terminates : forall n p s acc,
  crank p <= R -> psize p <= Z -> B (left s) (lrank p) (psize p) <= n -> run n p s acc <> Fuel.
Proof.
  induction n as [|n IH]; intros p s acc Hcr Hsz HB.
  - pose proof (psize_pos p). unfold B in HB. lia.
  - rewrite run_eq. destruct p; cbn [crank psize lrank] in *.
    + discriminate.
    + destruct (kind_at s); [destruct (class_ok c n0)|]; discriminate.
    + (* Seq2 *)
      assert (Ha : run n p1 s acc <> Fuel).
      { apply IH; [lia|lia|]. pose proof (B_size (left s) (left s) (Nat.max (lrank p1) (if consumes p1 then 0 else lrank p2)) (lrank p1) (S (psize p1 + psize p2)) (psize p1) (le_n _) ltac:(lia) ltac:(lia)). lia. }
      destruct (run n p1 s acc) as [s1 m1| |] eqn:E1; try discriminate; [|contradiction].
      assert (Hb : run n p2 s1 (acc ++ m1) <> Fuel).
      { apply IH; [lia|lia|]. pose proof (after_first n p1 p2 s acc s1 m1 (S (psize p1 + psize p2)) E1 ltac:(lia) ltac:(lia) ltac:(lia)). lia. }
      destruct (run n p2 s1 (acc ++ m1)); try discriminate. contradiction.
    + (* Alt2 *)
      assert (Ha : run n p1 s acc <> Fuel).
      { apply IH; [lia|lia|]. pose proof (B_size (left s) (left s) (Nat.max (lrank p1) (lrank p2)) (lrank p1) (S (psize p1 + psize p2)) (psize p1) (le_n _) ltac:(lia) ltac:(lia)). lia. }
      destruct (run n p1 s acc) as [s1 m1| |] eqn:E1; try discriminate; [|contradiction].
      apply IH; [lia|lia|]. pose proof (B_size (left s) (left s) (Nat.max (lrank p1) (lrank p2)) (lrank p2) (S (psize p1 + psize p2)) (psize p2) (le_n _) ltac:(lia) ltac:(lia)). lia.
    + (* Mk *)
      assert (Ha : run n p s [] <> Fuel).
      { apply IH; [lia|lia|]. pose proof (B_size (left s) (left s) (lrank p) (lrank p) (S (psize p)) (psize p) (le_n _) (le_n _) ltac:(lia)). lia. }
      destruct (run n p s []); try discriminate. contradiction.
    + (* Collapse *)
      assert (Ha : run n p s [] <> Fuel).
      { apply IH; [lia|lia|]. pose proof (B_size (left s) (left s) (lrank p) (lrank p) (S (psize p)) (psize p) (le_n _) (le_n _) ltac:(lia)). lia. }
      destruct (run n p s []) as [s1 [|x [|y l]]| |]; try discriminate. contradiction.
    + (* Call *)
      pose proof (Hg nt) as Hok. unfold prod_okb in Hok.
      apply andb_prop in Hok as [Hok Hz]. apply andb_prop in Hok as [Hok Hc]. apply andb_prop in Hok as [_ Hl].
      apply Nat.leb_le in Hz, Hc, Hl.
      apply IH; [exact Hc|exact Hz|].
      pose proof (B_rank (left s) (left s) (S (rank nt)) (lrank (g nt)) 1 (psize (g nt)) (le_n _) ltac:(lia) Hz). lia.
    + (* Memo *)
      apply IH; [lia|lia|]. pose proof (B_size (left s) (left s) (lrank p) (lrank p) (S (psize p)) (psize p) (le_n _) (le_n _) ltac:(lia)). lia.
    + (* IfThen *)
      assert (Ha : run n p1 s acc <> Fuel).
      { apply IH; [lia|lia|]. pose proof (B_size (left s) (left s) (Nat.max (lrank p1) (if consumes p1 then 0 else lrank p2)) (lrank p1) (S (psize p1 + psize p2)) (psize p1) (le_n _) ltac:(lia) ltac:(lia)). lia. }
      destruct (run n p1 s acc) as [s1 m1| |] eqn:E1; try discriminate; [|contradiction].
      assert (Hb : run n p2 s1 (acc ++ m1) <> Fuel).
      { apply IH; [lia|lia|]. pose proof (after_first n p1 p2 s acc s1 m1 (S (psize p1 + psize p2)) E1 ltac:(lia) ltac:(lia) ltac:(lia)). lia. }
      destruct (run n p2 s1 (acc ++ m1)); try discriminate. contradiction.
    + destruct (ref_func K_IDENT_REF toks acc); discriminate.
Qed.

(** * the memoising interpreter terminates with the same fuel *)
Variable tag_body : N -> pexp.
Hypothesis g_wf : forall nt, PegProofs.wf_pexp tag_body (g nt).
Notation runm := (Peg.runm class_ok is_trivia K_IDENT_REF g toks).
Notation wf := (PegProofs.wf_pexp tag_body).
Notation tok := (PegProofs.table_ok class_ok is_trivia K_IDENT_REF g toks tag_body).

(** what memo_transparent gives for a sub-evaluation *)
Lemma sub_facts n p s acc st r st' : wf p -> tok st -> runm n p s acc st = (r, st') ->
  tok st' /\ (forall s1 m1, r = Ok s1 m1 -> s <= s1 /\ (consumes p = true -> s < length toks /\ s < s1)).
Proof.
  intros Hw Ht H. destruct (PegProofs.memo_transparent class_ok is_trivia K_IDENT_REF g toks tag_body g_wf n p s acc st r st' Hw Ht H) as [T X].
  split; [exact T|]. intros s1 m1 ->. destruct (X ltac:(discriminate)) as [m Hm]. exact (run_progress _ _ _ _ _ _ Hm).
Qed.

Theorem runm_terminates : forall n p s acc st,
  wf p -> tok st -> crank p <= R -> psize p <= Z -> B (left s) (lrank p) (psize p) <= n ->
  fst (runm n p s acc st) <> Fuel.
Proof.
  induction n as [|n IH]; intros p s acc st Hw Ht Hcr Hsz HB.
  - pose proof (psize_pos p). unfold B in HB. lia.
  - destruct p; cbn [Peg.runm crank psize lrank] in *; cbn [PegProofs.wf_pexp] in Hw.
    + discriminate.
    + destruct (Peg.kind_at toks s); [destruct (class_ok c n0)|]; discriminate.
    + (* Seq2 *)
      destruct Hw as [Hwa Hwb].
      pose proof (IH p1 s acc st Hwa Ht ltac:(lia) ltac:(lia)) as Ha.
      destruct (runm n p1 s acc st) as [ra st1] eqn:E1.
      destruct (sub_facts _ _ _ _ _ _ _ Hwa Ht E1) as [T1 F1]. cbn [fst] in Ha.
      assert (Ha' : ra <> Fuel).
      { apply Ha. pose proof (B_size (left s) (left s) (Nat.max (lrank p1) (if consumes p1 then 0 else lrank p2)) (lrank p1) (S (psize p1 + psize p2)) (psize p1) (le_n _) ltac:(lia) ltac:(lia)). lia. }
      destruct ra as [s1 m1| |]; cbn [fst]; try discriminate; [|contradiction].
      destruct (F1 s1 m1 eq_refl) as [H1 H1c].
      pose proof (IH p2 s1 (acc ++ m1) st1 Hwb T1 ltac:(lia) ltac:(lia)) as Hb.
      destruct (runm n p2 s1 (acc ++ m1) st1) as [rb st2]. cbn [fst] in Hb.
      assert (Hb' : rb <> Fuel).
      { apply Hb. destruct (consumes p1) eqn:Ea.
        - destruct (H1c eq_refl). pose proof (lrank_le_crank p2).
          pose proof (B_cut (left s) (left s1) (Nat.max (lrank p1) 0) (lrank p2) (S (psize p1 + psize p2)) (psize p2) ltac:(unfold left; lia) ltac:(lia) ltac:(lia)). lia.
        - pose proof (B_size (left s) (left s1) (Nat.max (lrank p1) (lrank p2)) (lrank p2) (S (psize p1 + psize p2)) (psize p2) ltac:(unfold left; lia) ltac:(lia) ltac:(lia)). lia. }
      destruct rb; cbn [fst]; try discriminate. contradiction.
    + (* Alt2 *)
      destruct Hw as [Hwa Hwb].
      pose proof (IH p1 s acc st Hwa Ht ltac:(lia) ltac:(lia)) as Ha.
      destruct (runm n p1 s acc st) as [ra st1] eqn:E1.
      destruct (sub_facts _ _ _ _ _ _ _ Hwa Ht E1) as [T1 _]. cbn [fst] in Ha.
      assert (Ha' : ra <> Fuel).
      { apply Ha. pose proof (B_size (left s) (left s) (Nat.max (lrank p1) (lrank p2)) (lrank p1) (S (psize p1 + psize p2)) (psize p1) (le_n _) ltac:(lia) ltac:(lia)). lia. }
      destruct ra as [s1 m1| |]; cbn [fst]; try discriminate; [|contradiction].
      apply IH; [exact Hwb|exact T1|lia|lia|].
      pose proof (B_size (left s) (left s) (Nat.max (lrank p1) (lrank p2)) (lrank p2) (S (psize p1 + psize p2)) (psize p2) (le_n _) ltac:(lia) ltac:(lia)). lia.
    + (* Mk *)
      pose proof (IH p s [] st Hw Ht ltac:(lia) ltac:(lia)) as Ha.
      destruct (runm n p s [] st) as [ra st1]. cbn [fst] in Ha.
      assert (Ha' : ra <> Fuel).
      { apply Ha. pose proof (B_size (left s) (left s) (lrank p) (lrank p) (S (psize p)) (psize p) (le_n _) (le_n _) ltac:(lia)). lia. }
      destruct ra; cbn [fst]; try discriminate. contradiction.
    + (* Collapse *)
      pose proof (IH p s [] st Hw Ht ltac:(lia) ltac:(lia)) as Ha.
      destruct (runm n p s [] st) as [ra st1]. cbn [fst] in Ha.
      assert (Ha' : ra <> Fuel).
      { apply Ha. pose proof (B_size (left s) (left s) (lrank p) (lrank p) (S (psize p)) (psize p) (le_n _) (le_n _) ltac:(lia)). lia. }
      destruct ra as [s1 [|x [|y l]]| |]; cbn [fst]; try discriminate. contradiction.
    + (* Call *)
      pose proof (Hg nt) as Hok. unfold prod_okb in Hok.
      apply andb_prop in Hok as [Hok Hz]. apply andb_prop in Hok as [Hok Hc]. apply andb_prop in Hok as [_ Hl].
      apply Nat.leb_le in Hz, Hc, Hl.
      apply IH; [apply g_wf|exact Ht|exact Hc|exact Hz|].
      pose proof (B_rank (left s) (left s) (S (rank nt)) (lrank (g nt)) 1 (psize (g nt)) (le_n _) ltac:(lia) Hz). lia.
    + (* Memo *)
      destruct Hw as [-> Hwa].
      destruct (Peg.tlookup (Peg.table st) s tag) as [rc|] eqn:El.
      * cbn [fst]. destruct (Ht _ _ _ El) as [Hne _]. exact Hne.
      * pose proof (IH (tag_body tag) s [] st Hwa Ht ltac:(lia) ltac:(lia)) as Ha.
        destruct (runm n (tag_body tag) s [] st) as [ra st1]. cbn [fst] in Ha.
        assert (Ha' : ra <> Fuel).
        { apply Ha. pose proof (B_size (left s) (left s) (lrank (tag_body tag)) (lrank (tag_body tag)) (S (psize (tag_body tag))) (psize (tag_body tag)) (le_n _) (le_n _) ltac:(lia)). lia. }
        destruct ra; cbn [fst]; try discriminate. contradiction.
    + (* IfThen *)
      destruct Hw as [Hwa Hwb].
      pose proof (IH p1 s acc st Hwa Ht ltac:(lia) ltac:(lia)) as Ha.
      destruct (runm n p1 s acc st) as [ra st1] eqn:E1.
      destruct (sub_facts _ _ _ _ _ _ _ Hwa Ht E1) as [T1 F1]. cbn [fst] in Ha.
      assert (Ha' : ra <> Fuel).
      { apply Ha. pose proof (B_size (left s) (left s) (Nat.max (lrank p1) (if consumes p1 then 0 else lrank p2)) (lrank p1) (S (psize p1 + psize p2)) (psize p1) (le_n _) ltac:(lia) ltac:(lia)). lia. }
      destruct ra as [s1 m1| |]; cbn [fst]; try discriminate; [|contradiction].
      destruct (F1 s1 m1 eq_refl) as [H1 H1c].
      pose proof (IH p2 s1 (acc ++ m1) st1 Hwb T1 ltac:(lia) ltac:(lia)) as Hb.
      destruct (runm n p2 s1 (acc ++ m1) st1) as [rb st2]. cbn [fst] in Hb.
      assert (Hb' : rb <> Fuel).
      { apply Hb. destruct (consumes p1) eqn:Ea.
        - destruct (H1c eq_refl). pose proof (lrank_le_crank p2).
          pose proof (B_cut (left s) (left s1) (Nat.max (lrank p1) 0) (lrank p2) (S (psize p1 + psize p2)) (psize p2) ltac:(unfold left; lia) ltac:(lia) ltac:(lia)). lia.
        - pose proof (B_size (left s) (left s1) (Nat.max (lrank p1) (lrank p2)) (lrank p2) (S (psize p1 + psize p2)) (psize p2) ltac:(unfold left; lia) ltac:(lia) ltac:(lia)). lia. }
      destruct rb; cbn [fst]; try discriminate. contradiction.
    + destruct (Peg.ref_func K_IDENT_REF toks acc); discriminate.
Qed.
End Toks.
End Term.
