(* layer L0: positions. Protocol (one output line per input line):
   T n cp1..cpn   set the current text            -> "T"
   P l c          position_to_utf8                -> offset
   S l c          pos_spec (reference)            -> offset
   U i            utf8_to_position                -> "l c"
   C i            utf8_to_char_index              -> index
   K s e          CharSpan::from (both ends)      -> start end
   R s e          utf8_range_to_position + client selection (model of the client)
                                                  -> "l1 c1 l2 c2 | units.." *)
open Conv

let run () =
  let text = ref [] in
  each_line (fun line ->
      match words line with
      | "T" :: _ :: cps ->
          text := text_of_ints (ints cps);
          print_endline "T"
      | [ "P"; l; c ] ->
          let r = Position.position_to_utf8 !text (n_of_int (int_of_string l)) (n_of_int (int_of_string c)) in
          print_endline (string_of_int (int_of_n r))
      | [ "S"; l; c ] ->
          let r = Position.pos_spec !text (n_of_int (int_of_string l)) (n_of_int (int_of_string c)) in
          print_endline (string_of_int (int_of_n r))
      | [ "U"; i ] ->
          let (l, c) = Position.utf8_to_position !text (n_of_int (int_of_string i)) in
          Printf.printf "%d %d\n" (int_of_n l) (int_of_n c)
      | [ "C"; i ] ->
          let r = Position.utf8_to_char_index !text (n_of_int (int_of_string i)) in
          print_endline (string_of_int (int_of_n r))
      | [ "K"; s; e ] ->
          let (a, b) = Position.char_span !text (n_of_int (int_of_string s)) (n_of_int (int_of_string e)) in
          Printf.printf "%d %d\n" (int_of_n a) (int_of_n b)
      | [ "R"; s; e ] ->
          let ((l1, c1), (l2, c2)) =
            Position.utf8_range_to_position !text (n_of_int (int_of_string s)) (n_of_int (int_of_string e))
          in
          Printf.printf "%d %d %d %d\n" (int_of_n l1) (int_of_n c1) (int_of_n l2) (int_of_n c2)
      | _ -> print_endline "?")
