"""C05 — abstraction is free: naming, inlining, wrapping, reordering keep the output.
Monitor O05: a rewrite engine over the generator's AST (parenthesise, let-name, inline,
eta-wrap, alpha-rename, permute declarations, insert trivia, move a dependency-closed group
into an imported module); the rewritten program must still be accepted and emit the same
document up to the names of implicit components."""
import copy
import json
from . import core, progs, gen, canon, evaltie

MAIN = "file:///w/main.oal"
EVAL_KEYS = {"minimum", "maximum", "multipleOf", "example", "pattern", "enum", "format", "minLength", "maxLength",
             "summary", "tags", "operationId", "description", "examples", "required", "title"}


# ------------------------------------------------------------------ AST walking
def slots(e, path=(), out=None, bound=frozenset(), under_ann=False):
    """yield (path, expr, bound names in scope, directly_under_ann) for every general expression position"""
    if out is None:
        out = []
    k = e[0]

    def sub(i, child, b=bound, ua=False):
        out.append((path + (i,), child, b, ua))
        slots(child, path + (i,), out, b, ua)
    if k == "ann":
        slots(e[1], path + (1,), out, bound, True)          # the annotated term itself is not a slot; its inside is
        out.append((path + (1,), e[1], bound, True))
    elif k == "paren":
        sub(1, e[1], ua=under_ann)      # an annotation on a parenthesised term flows to the inner expression
    elif k == "obj":
        for i, p in enumerate(e[1]):
            slots(p, path + (1, i), out, bound)
    elif k == "arr":
        sub(1, e[1])
    elif k == "prop":
        sub(3, e[3])
    elif k == "unary":
        slots(e[2], path + (2,), out, bound)
    elif k == "op":
        for i, x in enumerate(e[2]):
            sub((2, i), x)
    elif k == "app":
        for i, x in enumerate(e[2]):
            sub((2, i), x)
    elif k == "rec":
        sub(2, e[2], bound | {e[1]})
    elif k == "content":
        for i, (m, x) in enumerate(e[1]):
            slots(x, path + ((1, i, 1),), out, bound)
        if e[2] is not None:
            sub(2, e[2])
    elif k == "xfer":
        if e[3] is not None:
            slots(e[3], path + (3,), out, bound)
        slots(e[4], path + (4,), out, bound)
    elif k == "rel":
        for i, x in enumerate(e[2]):
            slots(x, path + ((2, i),), out, bound)
    return out


def get_at(e, path):
    for p in path:
        if isinstance(p, tuple):
            for q in p:
                e = e[q]
        else:
            e = e[p]
    return e


def set_at(e, path, new):
    cur = e
    flat = []
    for p in path:
        flat.extend(p if isinstance(p, tuple) else (p,))
    for q in flat[:-1]:
        cur = cur[q]
    if isinstance(cur, tuple):
        raise ValueError("immutable")
    cur[flat[-1]] = new


def free_vars(e, bound=frozenset()):
    k = e[0]
    out = set()
    if k == "var":
        if e[1] not in bound:
            out.add(e[1])
    elif k == "qvar":
        pass
    elif k == "rec":
        out |= free_vars(e[2], bound | {e[1]})
    elif k == "app":
        out |= free_vars(e[1], bound)
        for a in e[2]:
            out |= free_vars(a, bound)
    else:
        for x in e[1:]:
            out |= fv_any(x, bound)
    return out


def fv_any(x, bound):
    if isinstance(x, list) and x and isinstance(x[0], str) and x[0] in ("ann", "prim", "var", "qvar", "lit", "paren", "obj", "arr", "prop", "unary", "op",
                                                                     "app", "rec", "content", "xfer", "uri", "rel"):
        return free_vars(x, bound)
    if isinstance(x, (list, tuple)):
        s = set()
        for y in x:
            s |= fv_any(y, bound)
        return s
    return set()


def tuples_to_lists(x):
    if isinstance(x, (list, tuple)):
        return [tuples_to_lists(y) for y in x]
    if isinstance(x, dict):
        return {k: tuples_to_lists(v) for k, v in x.items()}
    return x


SCHEMA_KINDS = {"prim", "obj", "arr", "op", "rec", "app", "var", "paren"}


def is_schema_expr(e):
    k = e[0]
    if k == "ann":
        return is_schema_expr(e[1])
    if k == "op" and e[1] == "::":
        return False
    if k == "prim" or k in ("obj", "arr", "rec"):
        return True
    if k == "op":
        return True
    return False


# ------------------------------------------------------------------ rewrites (on the main module's AST)
class Rewriter:
    def __init__(self, rng, ast):
        self.rng = rng
        self.ast = tuples_to_lists(copy.deepcopy(ast))
        self.n = 0
        self.log = []

    def fresh(self, p):
        self.n += 1
        return "%sz%d" % (p, self.n)

    def roots(self):
        m = self.ast[MAIN]
        out = []
        for i, d in enumerate(m["decls"]):
            out.append((("decl", i), d["rhs"], set(d["params"]), bool(d.get("anns"))))
        for i, r in enumerate(m["res"]):
            out.append((("res", i), r, set(), False))
        return out

    def all_slots(self):
        res = []
        for root, e, params, has_anns in self.roots():
            for path, sub, bound, ua in slots(e, bound=frozenset(params)):
                res.append((root, path, sub, bound, ua))
        return res

    def replace(self, root, path, new):
        m = self.ast[MAIN]
        top = m["decls"][root[1]]["rhs"] if root[0] == "decl" else m["res"][root[1]]
        if not path:
            if root[0] == "decl":
                m["decls"][root[1]]["rhs"] = new
            else:
                m["res"][root[1]] = new
        else:
            set_at(top, path, new)

    def decl_names(self):
        return {d["name"]: d for d in self.ast[MAIN]["decls"]}

    def reaches(self, start_names, target):
        """does any of the declarations named in start_names depend (transitively) on declaration `target`?"""
        names = self.decl_names()
        seen = set()
        stack = [n for n in start_names if n in names]
        while stack:
            x = stack.pop()
            if x == target:
                return True
            if x in seen:
                continue
            seen.add(x)
            d = names[x]
            stack.extend(n for n in (free_vars(d["rhs"]) - set(d["params"])) if n in names)
        return False

    def root_name(self, root):
        return self.ast[MAIN]["decls"][root[1]]["name"] if root[0] == "decl" else None

    def parenthesise(self):
        cands = [s for s in self.all_slots() if s[2][0] not in ("prop",) ]
        if not cands:
            return False
        root, path, sub, bound, ua = self.rng.choice(cands)
        self.replace(root, path, ["paren", sub])
        self.log.append("parenthesise")
        return True

    def let_name(self):
        names = self.decl_names()
        cands = []
        for root, path, sub, bound, ua in self.all_slots():
            if ua or not is_schema_expr(sub):
                continue
            fv = free_vars(sub)
            if fv & set(bound):
                continue                                  # not closed: mentions a parameter or rec variable
            rn = self.root_name(root)
            if rn is not None and self.reaches(fv, rn):
                continue                                  # K18: the new declaration would lie on a definition cycle
            cands.append((root, path, sub))
        if not cands:
            return False
        root, path, sub = self.rng.choice(cands)
        n = self.fresh("n")
        self.replace(root, path, ["var", n])
        self.ast[MAIN]["decls"].append({"name": n, "params": [], "rhs": sub, "anns": []})
        self.log.append("let-name")
        return True

    def inline(self):
        names = self.decl_names()
        cands = []
        for root, path, sub, bound, ua in self.all_slots():
            if sub[0] == "var" and sub[1] in names and sub[1] not in bound and not ua:
                d = names[sub[1]]
                if d["params"] or d.get("anns") or d["name"].startswith("@"):
                    continue
                if self.reaches(free_vars(d["rhs"]) - set(d["params"]), d["name"]):
                    continue                              # recursive declaration: a component, not inlinable
                rn = self.root_name(root)
                if rn is not None and self.reaches([d["name"]], rn):
                    continue                              # K18: inlining would take a declaration off a definition cycle
                if "'rec'" in repr(d["rhs"]):
                    continue                              # a rec expression is a component identified by its node: do not duplicate it
                if d["rhs"][0] in ("content", "xfer", "lit", "rel", "uri") or (d["rhs"][0] == "ann" and d["rhs"][1][0] in ("content", "xfer")):
                    continue
                cands.append((root, path, d))
        if not cands:
            return False
        root, path, d = self.rng.choice(cands)
        self.replace(root, path, ["paren", copy.deepcopy(d["rhs"])])
        self.log.append("inline")
        return True

    def eta_wrap(self):
        cands = []
        for root, path, sub, bound, ua in self.all_slots():
            if ua or not is_schema_expr(sub):
                continue
            if root[0] == "decl" and not path:
                continue
            cands.append((root, path, sub))
        if not cands:
            return False
        root, path, sub = self.rng.choice(cands)
        g = self.fresh("g")
        self.replace(root, path, ["app", ["var", g], [sub]])
        self.ast[MAIN]["decls"].append({"name": g, "params": ["y"], "rhs": ["var", "y"], "anns": []})
        self.log.append("eta-wrap")
        return True

    def alpha(self):
        m = self.ast[MAIN]
        ds = [d for d in m["decls"] if not d["name"].startswith("@")]
        if not ds:
            return False
        d = self.rng.choice(ds)
        old, new = d["name"], self.fresh("a")

        def ren(x):
            if isinstance(x, list):
                if len(x) == 2 and x[0] == "var" and x[1] == old:
                    return ["var", new]
                return [ren(y) for y in x]
            return x
        for dd in m["decls"]:
            if old in dd["params"]:
                continue
            dd["rhs"] = ren(dd["rhs"])
        m["res"] = [ren(r) for r in m["res"]]
        d["name"] = new
        self.log.append("alpha-rename")
        return True

    def alpha_param(self):
        """rename a parameter, preferably to the name of a declaration it then shadows"""
        m = self.ast[MAIN]
        fs = [d for d in m["decls"] if d["params"]]
        if not fs:
            return False
        d = self.rng.choice(fs)
        old = self.rng.choice(d["params"])
        fv = free_vars(d["rhs"])
        shadow = [x["name"] for x in m["decls"] if not x["name"].startswith("@") and x["name"] not in fv
                  and x["name"] not in d["params"] and x["name"] != d["name"]]
        new = self.rng.choice(shadow) if shadow and self.rng.random() < 0.7 else self.fresh("q")

        def ren(x):
            if isinstance(x, list):
                if len(x) == 2 and x[0] == "var" and x[1] == old:
                    return ["var", new]
                return [ren(y) for y in x]
            return x
        d["rhs"] = ren(d["rhs"])
        d["params"] = [new if q == old else q for q in d["params"]]
        self.log.append("alpha-rename-parameter")
        return True

    def permute(self):
        self.rng.shuffle(self.ast[MAIN]["decls"])
        self.log.append("permute-declarations")
        return True

    def move_to_module(self):
        m = self.ast[MAIN]
        names = {d["name"]: d for d in m["decls"]}
        if not names:
            return False
        deps = {n: (free_vars(d["rhs"]) - set(d["params"])) & set(names) for n, d in names.items()}
        start = self.rng.choice(list(names))
        group = set()
        stack = [start]
        while stack:
            x = stack.pop()
            if x in group:
                continue
            group.add(x)
            stack.extend(deps[x])
        # the group must not use imported (qualified) names through the main module's imports
        def uses_q(x):
            if isinstance(x, list):
                if x and x[0] == "qvar":
                    return True
                return any(uses_q(y) for y in x)
            return False
        if any(uses_q(names[n]["rhs"]) for n in group) or m["uses"] and any(
                (free_vars(names[n]["rhs"]) - set(names[n]["params"]) - set(names)) for n in group):
            return False
        moved = [d for d in m["decls"] if d["name"] in group]
        m["decls"] = [d for d in m["decls"] if d["name"] not in group]
        k = len([l for l in self.ast if l != MAIN])
        path = "moved%d.oal" % k
        self.ast["file:///w/" + path] = {"uses": [], "decls": moved, "res": []}
        m["uses"] = m["uses"] + [(path, None)]
        self.log.append("move-to-module")
        return True

    def render(self):
        return {loc: gen.render_module(m) for loc, m in self.ast.items()}


def add_trivia(rng, text):
    out = []
    state = None
    i = 0
    while i < len(text):
        c = text[i]
        if state is None:
            if c in '"`':
                state = c
            elif c == "#":
                state = "#"
            elif c == " ":
                out.append(rng.choice([" ", "  ", " /* c */ ", "\n", " // c\n", "\t", " /**/ ", " /* a ** b */ ", " /* 2**10 * / x */ ", " /* é😉 */ ",
                                       " // * / ** /* not closed\n", " /* * */ ", "\r\n", " /* // */ ", " /*\n * multi\n * line\n */ "]))
                i += 1
                continue
        elif state == "#":
            if c == "\n":
                state = None
        elif c == state:
            state = None
        out.append(c)
        i += 1
    return "".join(out)


PAIRS = [
    ("single-use function around an annotated sub-expression under an annotated declaration",
     '# description: "some record"\nlet r = { \'id int } `title: "Record"`;\nres /records on get -> <r>;\n',
     'let wrap x = x;\n# description: "some record"\nlet r = wrap ({ \'id int } `title: "Record"`);\nres /records on get -> <r>;\n'),
    ("single-use function around an annotated sub-expression used with a use-site annotation",
     'let r = { \'id int } `title: "Record"`;\nres /records on get -> <r `description: "use"`>;\n',
     'let wrap x = x;\nlet r = wrap ({ \'id int } `title: "Record"`);\nres /records on get -> <r `description: "use"`>;\n'),
    ("parentheses around annotated right-hand sides",
     '# description: "d"\nlet day = str `format: "date"`;\nlet op = get -> <day>;\nres /d on op;\n',
     '# description: "d"\nlet day = (str `format: "date"`);\nlet op = (get -> <(day)>);\nres /d on op;\n'),
    ("naming a closed sub-expression",
     'res /n on get -> <{ \'a { \'b num `minimum: 1` } }>;\n',
     'let inner = { \'b num `minimum: 1` };\nres /n on get -> <{ \'a inner }>;\n'),
    ("inlining a closed recursive sub-expression into a declaration that lies on a definition cycle",
     "let tree = rec x { 'label str, 'children [x] };\nlet a = { 'tree tree, 'next b };\nlet b = { 'prev a, 'loop b };\nres / on get -> a;\n",
     "let a = { 'tree (rec x { 'label str, 'children [x] }), 'next b };\nlet b = { 'prev a, 'loop b };\nres / on get -> a;\n"),
    ("naming a closed recursive sub-expression of a self-referential declaration",
     "let n = { 'kids (rec k [k]), 'up [n] };\nres /n on get -> <n>;\n",
     "let kids = rec k [k];\nlet n = { 'kids kids, 'up [n] };\nres /n on get -> <n>;\n"),
    ("turning a sub-expression that applies a recursive function twice into a single-use function",
     "let node v = rec n { 'value v, 'next? n };\nres /lists on get -> { 'ints (node int), 'strs (node str) };\n",
     "let node v = rec n { 'value v, 'next? n };\nlet wrap z = { 'ints (node int), 'strs (node z) };\nres /lists on get -> wrap str;\n"),
    ("permuting declarations around a name used twice in positions that must agree",
     "let b = num;\nlet a = b | b;\nlet pick x y = x | y;\nlet id = str;\nres /a on get -> <a> :: <status=404, (pick id id)>;\n",
     "let a = b | b;\nlet pick x y = x | y;\nres /a on get -> <a> :: <status=404, (pick id id)>;\nlet id = str;\nlet b = num;\n"),
    ("permuting declarations",
     'let a = { \'x b };\nlet b = num;\nlet f y = [y];\nres /p on get -> <f a>;\n',
     'let f y = [y];\nlet b = num;\nlet a = { \'x b };\nres /p on get -> <f a>;\n'),
]


SYM_PAIRS = [
    ("permuting declarations", "let f x = g x;\nlet g x = f x;\nlet a = { 'b b };\nlet b = { 'a a };\nres / on get -> <a>;\n",
     "let a = { 'b b };\nlet b = { 'a a };\nlet f x = g x;\nlet g x = f x;\nres / on get -> <a>;\n"),
    ("permuting declarations", "let a = { 'b b };\nlet b = { 'a a };\nlet c = { 'd d };\nlet d = { 'c c };\nres / on get -> <a> :: <status=404, c>;\n",
     "let d = { 'c c };\nlet b = { 'a a };\nlet c = { 'd d };\nlet a = { 'b b };\nres / on get -> <a> :: <status=404, c>;\n"),
    ("permuting declarations", "let w x = v x;\nlet s = { 'self [s] };\nlet v x = w x;\nres / on get -> <s>;\n",
     "let s = { 'self [s] };\nlet v x = w x;\nlet w x = v x;\nres / on get -> <s>;\n"),
]


def check(ctx):
    ctx.proof = core.proof_stage("C05", thorough=ctx.thorough)
    ok, out = core.ensure_harness()
    if not ok:
        ctx.broken.append("harness build against /repo failed: " + out[-600:])
        return core.finish(ctx)
    for k in core.known_findings("C05"):
        if k.get("status") == "known":
            a = progs.compile_many([{"mods": {MAIN: k["witness"]["before"]}, "main": MAIN}])[0]
            b = progs.compile_many([{"mods": {MAIN: k["witness"]["after"]}, "main": MAIN}])[0]
            if a.get("status") == "ok" and b.get("status") == "ok" and canon.canon_doc(a["doc"]) != canon.canon_doc(b["doc"]):
                ctx.known(k["what"])
            else:
                core.log("stale known finding " + k["id"])
    if ctx.replay:
        v = json.load(open(ctx.replay))
        a = progs.compile_many([v["input"]["original"]])[0]
        b = progs.compile_many([v["input"]["rewritten"]])[0]
        core.log("original: %s rewritten: %s" % (a.get("status"), b.get("status")))
        if a.get("status") == "ok" and (b.get("status") != "ok" or canon.canon_doc(a["doc"]) != canon.canon_doc(b["doc"])):
            ctx.violation("rewriting changes the outcome", v["input"], "same", "different")
        ctx.cov["evaluations"] = 1
        return core.finish(ctx)
    # hand-written pairs: a program and the program after one rewrite step of the property statement
    for what, before, after in PAIRS:
        a, b = progs.compile_many([{"mods": {MAIN: before}, "main": MAIN}, {"mods": {MAIN: after}, "main": MAIN}])
        ctx.cov["evaluations"] += 1
        inp = {"original": {"mods": {MAIN: before}, "main": MAIN}, "rewritten": {"mods": {MAIN: after}, "main": MAIN}, "steps": [what]}
        if a.get("status") != "ok":
            ctx.broken.append("a corpus program of the check is rejected: %s: %s" % (str(a.get("msg"))[:100], before[:200]))
        elif b.get("status") != "ok":
            ctx.violation("a meaning-preserving rewrite makes an accepted program rejected (%s)" % what, inp, "accepted", b.get("msg"))
        elif canon.canon_doc(a["doc"]) != canon.canon_doc(b["doc"]):
            ctx.violation("a meaning-preserving rewrite changes the emitted document (%s)" % what, inp, "the same document", "a different document")
    # reversible rewrites (permuting declarations, consistent renaming, trivia) applied to programs of either verdict: since
    # the inverse rewrite is of the same kind, one side accepted and the other rejected is a violation whichever side it is
    from . import cyc
    sym = [(SYM_PAIRS[k][0], SYM_PAIRS[k][1], SYM_PAIRS[k][2]) for k in range(len(SYM_PAIRS))]
    for _ in range(900 if ctx.thorough else 120):
        src = cyc.gen_cyclic(ctx.rng)[0]["mods"]["file:///w/main.oal"]
        lines = src.split("\n")
        lets = [l for l in lines if l.startswith("let ")]
        rest = [l for l in lines if not l.startswith("let ")]
        q = list(lets)
        ctx.rng.shuffle(q)
        if q != lets:
            sym.append(("permuting declarations", src, "\n".join(q + rest)))
    ra = progs.compile_many([{"mods": {MAIN: a}, "main": MAIN} for _, a, _ in sym])
    rb = progs.compile_many([{"mods": {MAIN: b}, "main": MAIN} for _, _, b in sym])
    for (what, before, after), a, b in zip(sym, ra, rb):
        ctx.cov["evaluations"] += 1
        inp = {"original": {"mods": {MAIN: before}, "main": MAIN}, "rewritten": {"mods": {MAIN: after}, "main": MAIN}, "steps": [what]}
        oka, okb = a.get("status") == "ok", b.get("status") == "ok"
        if "skipped" in (a.get("status"), b.get("status")) or a.get("status") in ("crash", "panic") or b.get("status") in ("crash", "panic"):
            continue
        if oka != okb:
            ctx.violation("a meaning-preserving rewrite makes an accepted program rejected (%s)" % what,
                          inp if oka else dict(inp, original=inp["rewritten"], rewritten=inp["original"]), "accepted", (b if oka else a).get("msg"))
        elif oka and canon.canon_doc(a["doc"]) != canon.canon_doc(b["doc"]):
            ctx.violation("a meaning-preserving rewrite changes the emitted document (%s)" % what, inp, "the same document", "a different document")
        else:
            ctx.count("symmetric_pairs_" + ("accepted" if oka else "rejected"))
    # renaming a declaration of the main module that carries the name of a declaration of an imported module
    shared = "let item = { 'id int, 'sku str };\nlet page = { 'items [item], 'next uri };\n"
    mm = [("renaming a declaration named like a declaration of an imported module",
           {MAIN: 'use "shared.oal" as m;\nlet item = { \'name str };\nres /items on get -> <item>;\nres /pages on get -> <m.page>;\n', "file:///w/shared.oal": shared},
           {MAIN: 'use "shared.oal" as m;\nlet entry = { \'name str };\nres /items on get -> <entry>;\nres /pages on get -> <m.page>;\n', "file:///w/shared.oal": shared})]
    for what, ma, mb in mm:
        a, b = progs.compile_many([{"mods": ma, "main": MAIN}, {"mods": mb, "main": MAIN}])
        ctx.cov["evaluations"] += 1
        inp = {"original": {"mods": ma, "main": MAIN}, "rewritten": {"mods": mb, "main": MAIN}, "steps": [what]}
        if a.get("status") != "ok" or b.get("status") != "ok":
            ctx.violation("a meaning-preserving rewrite makes an accepted program rejected (%s)" % what, inp, "accepted", str(a.get("msg") or b.get("msg"))[:200])
        elif canon.canon_doc(a["doc"]) != canon.canon_doc(b["doc"]):
            ctx.violation("a meaning-preserving rewrite changes the emitted document (%s)" % what, inp, "the same document", "a different document")
        else:
            ctx.count("module_pairs_ok")
    n = 4500 if ctx.thorough else 300
    ps = progs.gen_programs(ctx, n)
    # the evaluator tie (C05_alpha_evaluation is a theorem about Model/Eval.v)
    evaltie.run(ctx, ps[: (1800 if ctx.thorough else 120)] + evaltie.repo_corpus())
    base = progs.compile_many(ps)
    jobs = []
    for p, r in zip(ps, base):
        if r.get("status") != "ok":
            continue
        for rep in range(2):
            rw = Rewriter(ctx.rng, p["ast"])
            steps = ctx.rng.randint(1, 4)
            for _ in range(steps):
                f = ctx.rng.choice([rw.parenthesise, rw.let_name, rw.inline, rw.eta_wrap, rw.alpha, rw.alpha_param, rw.permute, rw.move_to_module, "trivia"])
                if f == "trivia":
                    rw.log.append("trivia")
                else:
                    try:
                        f()
                    except (ValueError, IndexError, KeyError, TypeError):
                        pass
            mods = rw.render()
            if "trivia" in rw.log:
                mods = {l: add_trivia(ctx.rng, t) for l, t in mods.items()}
            if rw.log:
                jobs.append((p, r, {"mods": mods, "main": MAIN}, rw.log))
    out = progs.compile_many([j[2] for j in jobs])
    seen = set()
    for (p, r, q, log), r2 in zip(jobs, out):
        ctx.cov["evaluations"] += 1
        for step in log:
            ctx.count("rewrite_" + step)
        inp = {"original": progs.source_of(p), "rewritten": q, "steps": log}
        if r2.get("status") == "skipped":
            continue
        if r2.get("status") != "ok":
            ctx.violation("a meaning-preserving rewrite of an accepted program is no longer accepted (or crashes)", inp, "accepted",
                          {k: v for k, v in r2.items() if k in ("status", "phase", "kind", "msg")})
            continue
        if canon.canon_doc(r["doc"]) != canon.canon_doc(r2["doc"]):
            ctx.violation("a meaning-preserving rewrite changes the emitted document (beyond the names of implicit components)", inp,
                          "same document", "different document")
            continue
        key = json.dumps(q["mods"], sort_keys=True)
        if key not in seen:
            seen.add(key)
            if len(log) >= 2:
                ctx.count("nontrivial")
        if len(ctx.cov["samples"]) < 3 and len(log) >= 3:
            ctx.sample({"steps": log, "rewritten_main": q["mods"][MAIN][:300]})
    ctx.cov["distinct_nontrivial"] = ctx.cov["distribution"].get("nontrivial", 0)
    ctx.cov["rule"] = ("each generated accepted program rewritten twice by a random sequence of 1-4 steps among parenthesise, let-name (closed schema "
                       "sub-expression), inline (declaration without annotations), eta-wrap (identity function applied once), alpha-rename of a declaration, "
                       "permutation of declarations, trivia between tokens, move of a dependency-closed group into an imported module; documents compared after "
                       "canonicalising implicit component names. distinct_nontrivial = distinct rewritten programs with >= 2 steps")
    ctx.assumptions = ["rewrites stay outside K13 (annotation consumed at evaluation time on a parameter use) and K15 (use-site annotations on shared components): "
                       "no rewrite targets the direct child of an annotated term, and declarations with line annotations are not inlined"]
    return core.finish(ctx)
