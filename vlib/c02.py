"""C02 — the emitted document means what the program says (faithful translation).
Monitor O02: for generated accepted programs the paths and schema components of the emitted
document equal, up to the names of implicit components, the document computed by an
independent reference semantics (vlib/denote.py) from the generator's own abstract syntax."""
import json
from . import core, progs, canon, denote, docval, evaltie


def first_diff(a, b, path=""):
    if type(a) != type(b):
        return path, a, b
    if isinstance(a, dict):
        for k in sorted(set(a) | set(b)):
            if k not in a or k not in b:
                return path + "/" + str(k), a.get(k, "<absent>"), b.get(k, "<absent>")
            d = first_diff(a[k], b[k], path + "/" + str(k))
            if d:
                return d
        return None
    if isinstance(a, list):
        if len(a) != len(b):
            return path + "[len]", a, b
        for i, (x, y) in enumerate(zip(a, b)):
            d = first_diff(x, y, "%s[%d]" % (path, i))
            if d:
                return d
        return None
    return None if a == b else (path, a, b)


KNOWN = [
    ("K3", "res /a on get -> <>;\nres /a on put -> <>;\n"),
    ("K20", 'res / on get -> <status=200, media="application/json", { \'a num }> :: <status=200, { \'b str }>;\n'),
]


def responses_tie(ctx):
    """Model/Responses.v against the emitter on random range lists (status / media / headers / description)"""
    ok, out = core.ensure_runner()
    if not ok:
        ctx.broken.append("runner build failed: " + out[-300:])
        return
    rng = ctx.rng
    cases = []
    for _ in range(2400 if ctx.thorough else 200):
        n = rng.randint(1, 5)
        keys = []
        while len(keys) < n:
            k = (rng.choice([None, 200, 404, 500]), rng.choice([None, 0, 1, 2]))
            if k not in keys:
                keys.append(k)
        entries = []
        for i, (st, md) in enumerate(keys):
            entries.append({"st": st, "md": md, "schema": (10 + i) if rng.random() < 0.8 else None, "desc": (50 + i) if rng.random() < 0.4 else None,
                            "headers": [(rng.randint(1, 3), 70 + i) for _ in range(rng.choice([0, 0, 1, 2]))]})
        cases.append(entries)
    MEDIA = {0: "application/json", 1: "text/plain", 2: "a/b"}
    mlines, ps = [], []
    for es in cases:
        toks, parts = [], []
        for e in es:
            hs = []
            seen = set()
            for hn, hv in e["headers"]:
                if hn not in seen:
                    seen.add(hn)
                    hs.append((hn, hv))
            e["headers"] = hs
            toks.append("%s %s %s %s %d %s" % ("D" if e["st"] is None else e["st"], "-" if e["md"] is None else e["md"], "-" if e["schema"] is None else e["schema"],
                                                "-" if e["desc"] is None else e["desc"], len(hs), " ".join("%d %d" % h for h in hs)))
            metas = []
            if e["st"] is not None:
                metas.append("status=%d" % e["st"])
            elif e["schema"] is None:
                metas.append("status=204")       # a content without schema and status gets 204: keep it the default by giving it a schema-less media? not expressible
            if e["md"] is not None:
                metas.append('media="%s"' % MEDIA[e["md"]])
            if hs:
                metas.append("headers={ %s }" % ", ".join("'h%d str `title: \"v%d\"`" % h for h in hs))
            body = ["{ 's%d num }" % e["schema"]] if e["schema"] is not None else []
            c = "<" + ", ".join(metas + body) + ">"
            if e["desc"] is not None:
                c += ' `description: "d%d"`' % e["desc"]
            parts.append(c)
        # schema-less default entries cannot be written (they become 204): drop such cases
        if any(e["st"] is None and e["schema"] is None for e in es):
            continue
        mlines.append("Q " + " ".join(toks))
        ps.append({"mods": {"file:///w/main.oal": "res /t on get -> %s;\n" % " :: ".join(parts)}, "main": "file:///w/main.oal"})
    model = core.run_stateless(core.RUNNER, "resp", mlines)
    impl = progs.compile_many(ps)
    inv = {v: k for k, v in MEDIA.items()}
    for l, p, m, r in zip(mlines, ps, model, impl):
        ctx.cov["evaluations"] += 1
        if r.get("status") != "ok" or m is None:
            ctx.broken.append("responses tie: %s -> %s" % (p["mods"], r.get("msg")))
            continue
        rs = r["doc"]["paths"]["/t"]["get"]["responses"]
        got = []
        for key, resp in rs.items():
            content = ",".join("%d:%d" % (inv[md], int(list(mt["schema"]["properties"])[0][1:])) for md, mt in (resp.get("content") or {}).items())
            headers = ",".join("%d:%d" % (int(hn[1:]), int(h["schema"]["title"][1:])) for hn, h in (resp.get("headers") or {}).items())
            desc = resp.get("description") or ""
            got.append("%s{%s|%s|%s}" % ("D" if key == "default" else key, content, headers, desc[1:] if desc else "-"))
        # the emitter orders responses by status code map + default last; compare as sets
        def norm(x):
            k, body = x.split("{", 1)
            a, b, c = body[:-1].split("|")
            return "%s{%s|%s|%s}" % (k, ",".join(sorted(a.split(","))), ",".join(sorted(b.split(","))), c)
        if sorted(map(norm, got)) != sorted(map(norm, m.split())):
            if len(ctx.broken) < 20:
                ctx.broken.append("responses disagreement: %s impl=%s model=%s" % (p["mods"]["file:///w/main.oal"].strip(), sorted(got), sorted(m.split())))
        else:
            ctx.cov["traces_validated_against_impl"] += 1
    ctx.count("responses_tie_cases", len(mlines))


# concat: the path is the concatenation, the query parameters are those of the right operand only (Uri::append)
CONCAT = [
    ("let base = /;\nlet items = concat base (/items);\nlet item = concat items (/{ 'id int });\nlet health = concat (/v1) (/health);\n"
     "res items on get -> <>;\nres item on get -> <>;\nres health on get -> <>;\nres (concat (/a/) (/b)) on get -> <>;\nres (concat base base) on put -> <>;\n",
     {"/items": [], "/items/{id}": [("path", "id")], "/v1/health": [], "/a/b": [], "/": []}),
    ("let collection = /items?{ 'page int, 'sort! str };\nlet item = concat collection /{ 'id str };\nres item on get -> <{ 'name str }>;\nres collection on get -> <>;\n"
     "res (concat collection /search?{ 'q! str }) on get -> <>;\n",
     {"/items/{id}": [("path", "id")], "/items": [("query", "page"), ("query", "sort")], "/items/search": [("query", "q")]}),
    ("let a = /a/{ 'x int }?{ 'p str };\nlet b = /b?{ 'q str };\nres (concat a b) on get -> <>;\nres (concat b a) on get -> <>;\n",
     {"/a/{x}/b": [("path", "x"), ("query", "q")], "/b/a/{x}": [("path", "x"), ("query", "p")]}),
]


OP_PARAMS = [
    ("res /items?{ 'q str } on get { 'q! int, 'limit int } -> { 'n int }, put : { 'n int } -> { 'n int };\nres /others?{ 'p str } on get { 'q! int } -> { 'n int };\n",
     {("/items", None): [("query", "q", "string")], ("/items", "get"): [("query", "limit", "integer"), ("query", "q", "integer")], ("/items", "put"): [],
      ("/others", None): [("query", "p", "string")], ("/others", "get"): [("query", "q", "integer")]}),
    ("res /a/{ 'id int }?{ 'id str } on get { 'id bool } -> <headers={ 'id num }, {}>;\n",
     {("/a/{id}", None): [("path", "id", "integer"), ("query", "id", "string")], ("/a/{id}", "get"): [("query", "id", "boolean")]}),
]


def op_params_cases(ctx):
    """parameters declared on a URI belong to the path item, parameters declared on a transfer to that operation, each with the
    schema its own declaration gives it, also when the names coincide"""
    from . import progs as _p
    ps = [{"mods": {"file:///w/main.oal": t}, "main": "file:///w/main.oal"} for t, _ in OP_PARAMS]
    for (t, want), r in zip(OP_PARAMS, _p.compile_many(ps)):
        ctx.cov["evaluations"] += 1
        inp = {"program": {"mods": {"file:///w/main.oal": t}, "main": "file:///w/main.oal"}}
        if r.get("status") != "ok":
            ctx.violation("a program declaring parameters on a URI and on a transfer is not compiled", inp, "ok", str(r.get("msg"))[:200])
            continue
        for (path, op), exp in want.items():
            item = (r["doc"].get("paths") or {}).get(path) or {}
            node = item if op is None else (item.get(op) or {})
            got = sorted((q.get("in"), q.get("name"), (q.get("schema") or {}).get("type")) for q in (node.get("parameters") or []))
            if got != sorted(exp):
                ctx.violation("the parameters of %s %s are not the ones the source declares there" % (path, op or "(path item)"), inp, sorted(exp), got)
                break
        else:
            ctx.count("op_params_ok")


def concat_cases(ctx):
    from . import progs as _p
    ps = [{"mods": {"file:///w/main.oal": t}, "main": "file:///w/main.oal"} for t, _ in CONCAT]
    for (t, want), r in zip(CONCAT, _p.compile_many(ps)):
        ctx.cov["evaluations"] += 1
        inp = {"program": {"mods": {"file:///w/main.oal": t}, "main": "file:///w/main.oal"}}
        if r.get("status") != "ok":
            ctx.violation("a program concatenating URI templates is not compiled", inp, "ok", str(r.get("msg"))[:200])
            continue
        got = {k: sorted((q["in"], q["name"]) for q in (v.get("parameters") or [])) for k, v in (r["doc"].get("paths") or {}).items()}
        exp = {k: sorted(v) for k, v in want.items()}
        if got != exp:
            ctx.violation("the path items of concatenated URI templates do not carry exactly the parameters the source denotes "
                          "(path variables of both operands, query parameters of the right operand)", inp, exp, got)


def check(ctx):
    ctx.proof = core.proof_stage("C02", thorough=ctx.thorough)
    ok, out = core.ensure_harness()
    if not ok:
        ctx.broken.append("harness build against /repo failed: " + out[-600:])
        return core.finish(ctx)
    for k in core.known_findings("C02"):
        if k.get("status") == "known":
            r = progs.compile_many([{"mods": k["witness"]["mods"], "main": "file:///w/main.oal"}])[0]
            okk = False
            if r.get("status") == "ok":
                y = r["yaml"]
                okk = all(s in y for s in k["witness"].get("present", [])) and not any(s in y for s in k["witness"].get("absent", []))
            if okk:
                ctx.known(k["what"])
            else:
                core.log("stale known finding " + k["id"])
    if ctx.replay:
        v = json.load(open(ctx.replay))
        r = progs.compile_many([v["input"]["program"]])[0]
        core.log(str(r.get("status")))
        ctx.cov["evaluations"] = 1
        return core.finish(ctx)
    responses_tie(ctx)
    n = 9000 if ctx.thorough else 600
    ps = progs.gen_programs(ctx, n)
    # corpus: same status with several media types / headers / descriptions, parameter uses with annotations, nested applications
    extra = [
        "let g x = { 'v x };\nlet f y = g [y];\nres /a on get -> <f { 'p str }>;\nres /b on get -> <f { 'q int }>;\n",
        "let g x = { 'v x };\nlet f y = { 'w (g { 'in y }), 'z y };\nres /a on get -> <f str> :: <status=404, (f int)>;\n",
        'let item = { \'a num };\nres /m on get -> <status=200, media="application/json", item> `description: "j"` :: <status=200, media="text/plain", headers={ \'h str }, str> :: <status=404, media="text/plain", str>;\n',
        'let wrap x = { \'data! x `title: "Envelope payload"`, \'n num };\n# title: "Customer name"\nlet name = str;\nres /w on get -> <wrap name>;\n',
        'let f x y = { \'first x, \'second y };\nlet g y x = f y x;\nres /g on get -> <g num str> :: <status=404, (g [num] { \'k bool })>;\n',
    ]
    concat_cases(ctx)
    op_params_cases(ctx)
    # a recursive schema instantiated several times inside function bodies: each property holds the instantiation the source names
    from . import c09
    ips = [c09.inst_program(ctx.rng) for _ in range(90 if ctx.thorough else 8)]
    ips.append(("let list x = rec l { 'head x, 'tail [l] };\nlet pair a b = { 'left (list a), 'right (list b) };\nres /inst on get -> <status=404, (pair int str)>;\n",
                {"404": {("left",): "integer", ("right",): "string"}}))
    iprogs = [{"mods": {"file:///w/main.oal": src}, "main": "file:///w/main.oal"} for src, _ in ips]
    for (src, exp), pr, r in zip(ips, iprogs, progs.compile_many(iprogs)):
        ctx.cov["evaluations"] += 1
        if r.get("status") != "ok":
            ctx.violation("a program instantiating a recursive schema is not compiled", {"program": pr}, "ok", str(r.get("msg"))[:200])
            continue
        prob = c09.inst_check(r["doc"], exp)
        if prob:
            ctx.violation("a property does not hold the schema the source names: " + prob, {"program": pr}, "the declared instantiation", "see message")
        else:
            ctx.count("instantiations_in_place")
    evaltie.run(ctx, ps[: (3600 if ctx.thorough else 250)] + [{"mods": {"file:///main.oal": t}, "main": "file:///main.oal"} for t in extra] + iprogs
                + evaltie.known_witnesses() + evaltie.repo_corpus())
    res = progs.compile_many(ps)
    seen = set()
    for p, r in zip(ps, res):
        ctx.cov["evaluations"] += 1
        if r.get("status") != "ok":
            ctx.count("not_accepted")
            continue
        try:
            d = denote.Denote(p["ast"], p["main"]).document()
        except denote.Unsupported as ex:
            ctx.count("reference_unsupported")
            continue
        want = canon.canon_doc({"paths": d["paths"], "components": {"schemas": d["schemas"]}})
        got = canon.canon_doc({"paths": r["doc"].get("paths") or {}, "components": {"schemas": (r["doc"].get("components") or {}).get("schemas") or {}}})
        if want != got:
            diff = first_diff(want, got)
            ctx.violation("the emitted document differs from what the program denotes (reference semantics on the generator's abstract syntax)",
                          {"program": progs.source_of(p)}, {"at": diff[0], "reference": diff[1]} if diff else None, {"emitted": diff[2]} if diff else None)
            if len(ctx.violations) > 5:
                break
            continue
        ctx.cov["traces_validated_against_impl"] += 1
        key = json.dumps(p["mods"], sort_keys=True)
        if key not in seen:
            seen.add(key)
            if len(p["features"]) >= 5:
                ctx.count("nontrivial")
        if len(ctx.cov["samples"]) < 3 and len(p["features"]) > 9:
            ctx.sample({"program": p["mods"][p["main"]][:400], "paths": list(d["paths"]), "components": len(d["schemas"])})
    progs.feature_stats(ctx, ps)
    ctx.cov["distinct_nontrivial"] = ctx.cov["distribution"].get("nontrivial", 0)
    ctx.cov["rule"] = ("generated accepted programs (1-3 modules; all schema forms, properties with marks, objects, arrays, & | ~ ::, contents with status/media/"
                       "headers, transfers with parameters and domains, URI templates with parameters, relations, declarations, functions incl. forwarding and "
                       "rec in bodies, applications, rec, @references, recursive declarations, qualified and unqualified imports, line and inline annotations); "
                       "paths + schema components compared with the reference semantics after canonicalising implicit names. distinct_nontrivial = distinct "
                       "accepted programs with >= 5 language features whose document equals the reference")
    ctx.assumptions = ["the generator stays outside the recorded classes K3 (two resources with one path), K5 (one @name in two modules), K15 (use-site annotations on "
                       "shared components), K20 (two contents with the same status and effective media type)",
                       "info/servers of the default base are not part of the comparison (C14)"]
    return core.finish(ctx)
