"""C12 — parser memoisation is invisible and keeps parsing linear.
Monitor O12 on the real parser: with and without the memo table the tree, the end cursor and
the `remaining input` diagnostic are equal (where the uncached parse is feasible), and the
number of token reads of the cached parse is bounded by a linear function of the input length,
also for deeply nested input."""
import itertools
import json
from . import core, progs, texts

READ_FACTOR = 60          # reads <= READ_FACTOR * tokens + READ_FACTOR (measured maximum on the pinned tree is about 20 on short inputs)


def depth_of(kinds):
    d = m = 0
    for k in kinds:
        if k in ("ControlBraceLeft", "ControlParenLeft", "ControlBracketLeft", "ControlChevronLeft"):
            d += 1
            m = max(m, d)
        elif k in ("ControlBraceRight", "ControlParenRight", "ControlBracketRight", "ControlChevronRight"):
            d -= 1
    return m


def text_depth(t):
    d = m = 0
    for ch in t:
        if ch in "{([<":
            d += 1
            m = max(m, d)
        elif ch in "})]>":
            d = max(0, d - 1)
    # prefix operators nest too
    return m + t.count("rec ") + t.count("'p ") // 2


def check(ctx):
    ctx.proof = core.proof_stage("C12", thorough=ctx.thorough)
    ok, out = core.ensure_harness()
    if not ok:
        ctx.broken.append("harness build against /repo failed: " + out[-600:])
        return core.finish(ctx)
    reqs = []
    if ctx.replay:
        v = json.load(open(ctx.replay))
        reqs = [v["input"]]
    else:
        L = 5 if ctx.thorough else 4
        alpha = texts.REDUCED[:12] if ctx.thorough else texts.REDUCED[:12]
        k = 0
        for s in texts.seqs_upto(alpha, L):
            k += 1
            if len(s) == L and not ctx.thorough and (k + ctx.seed) % 3:
                continue
            reqs.append({"kinds": s, "uncached": True})
        ctx.count("exhaustive_sequences", len(reqs))
        # exhaustive expression-level sequences inside a declaration and inside a resource
        n0 = len(reqs)
        for pre, post in texts.CONTEXTS:
            for s in texts.seqs_upto(texts.EXPR_LARGE, 3):
                reqs.append({"kinds": pre + s + post, "uncached": True})
            for s in itertools.product(texts.EXPR_LARGE if ctx.thorough else texts.EXPR_SMALL, repeat=4):
                reqs.append({"kinds": pre + list(s) + post, "uncached": True})
        ctx.count("exhaustive_in_context", len(reqs) - n0)
        # random longer sequences over all kinds
        for _ in range(3000 if ctx.thorough else 600):
            n = ctx.rng.randint(6, 60)
            ks = [ctx.rng.choice(texts.ALL_KINDS) for _ in range(n)]
            reqs.append({"kinds": ks, "uncached": depth_of(ks) <= 4 and n <= 40})
        # valid and mutated programs as text
        ps = progs.gen_programs(ctx, 400 if ctx.thorough else 120)
        for p in ps:
            for t in p["mods"].values():
                reqs.append({"text": t, "uncached": len(t) < 300 and text_depth(t) <= 5})
                mt = texts.mutate_text(ctx.rng, t)
                reqs.append({"text": mt, "uncached": len(mt) < 300 and text_depth(mt) <= 5})
        # nesting: every bracket kind, closed and unclosed, shallow (uncached too) and deep (cached only)
        for op, cl, corev in texts.NESTINGS:
            for d in (1, 2, 3, 4, 6, 8):
                for close in (True, False):
                    t = texts.nested(d, op, cl, corev, close=close)
                    reqs.append({"text": t, "uncached": text_depth(t) <= 5})
            for d in (25, 60, 120, 200):
                reqs.append({"text": texts.nested(d, op, cl, corev), "uncached": False})
                reqs.append({"text": texts.nested(d, op, cl, corev, close=False), "uncached": False})
        # long flat inputs followed by a nest (the memo table must keep working late in the input)
        flat = "".join("let d%d = num;\n" % i for i in range(3000 if ctx.thorough else 2200))
        reqs.append({"text": flat + texts.nested(5, "{ 'p ", " }", "num"), "uncached": False})
        reqs.append({"text": "let a = { 'p { 'p {} } };\nlet b = { 'p { 'p { 'p num } } };\n", "uncached": True})
    if not ctx.replay:
        ok, out = core.ensure_runner()
        if not ok:
            ctx.broken.append("runner build failed: " + out[-300:])
        else:
            from . import pegtie
            small = [r for r in reqs if ("kinds" in r and len(r["kinds"]) <= 40) or ("text" in r and len(r["text"]) < 400 and r.get("uncached"))]
            small = small[:: max(1, len(small) // (6000 if ctx.thorough else 2500))]
            bad = pegtie.compare(small)
            for what, rq, i, m in bad[:10]:
                ctx.broken.append("L2 disagreement (%s): %s impl=[%s] model=[%s]" % (what, json.dumps(rq)[:200], i, m))
            ctx.count("peg_tie_cases", len(small))
            ctx.count("peg_tie_disagreements", len(bad))
    lines = [json.dumps(dict(r, tree=False)) for r in reqs]
    outs = core.run_stateless(core.IMPL, "syntax", lines, timeout=40, per_case_timeout=10)
    worst = 0.0
    seen = set()
    for rq, o in zip(reqs, outs):
        ctx.cov["evaluations"] += 1
        inp = dict(rq)
        if "text" in inp and len(inp["text"]) > 2000:
            inp = {"text_head": inp["text"][:200], "text_tail": inp["text"][-300:], "note": "long input, see generator"}
            inp_full = rq
        else:
            inp_full = rq
        if o == "SKIPPED":
            continue
        if o is None or o.startswith("CRASH") or o.startswith("HANG") or o.startswith("SLOW"):
            ctx.violation("the parser hangs or crashes (work not linear / stack)", inp_full if len(json.dumps(inp_full)) < 20000 else inp, "a result within the time limit", str(o)[:200])
            continue
        r = json.loads(o)
        if r.get("status") != "ok":
            ctx.violation("the parser panics", inp, "a result", str(r.get("msg"))[:300])
            continue
        c = r["cached"]
        n = r["ntokens"]
        reads = c["counters"]["reads"]
        worst = max(worst, reads / (n + 1.0))
        if reads > READ_FACTOR * n + READ_FACTOR:
            ctx.violation("the work of the memoised parser is not bounded linearly in the number of tokens",
                          inp, "reads <= %d * %d + %d" % (READ_FACTOR, n, READ_FACTOR), reads)
            continue
        if "uncached" in r:
            u = r["uncached"]
            if (u.get("tree_digest"), u.get("end"), u.get("remaining"), u.get("error")) != (c.get("tree_digest"), c.get("end"), c.get("remaining"), c.get("error")):
                ctx.violation("parsing with the memo table gives a different tree / end / diagnostic than parsing without it", inp,
                              {"end": u.get("end"), "remaining": u.get("remaining")}, {"end": c.get("end"), "remaining": c.get("remaining")})
                continue
            ctx.cov["traces_validated_against_impl"] += 1
        key = json.dumps(rq, sort_keys=True)
        if key not in seen:
            seen.add(key)
            if c["counters"]["hits"] > 0:
                ctx.count("nontrivial")
        if len(ctx.cov["samples"]) < 3 and c["counters"]["hits"] > 20 and "uncached" in r:
            ctx.sample({"input": (rq.get("text") or " ".join(rq.get("kinds", [])))[:160], "cached": c["counters"], "uncached": r["uncached"]["counters"]})
    ctx.cov["max_reads_per_token"] = round(worst, 2)
    ctx.cov["distinct_nontrivial"] = ctx.cov["distribution"].get("nontrivial", 0)
    ctx.cov["rule"] = ("token-kind sequences over a reduced 12-kind alphabet exhaustively up to length 4 (quick: a third of length 4; thorough: length 5), all sequences "
                       "of up to 3 kinds over a 27-kind expression alphabet and of 4 kinds over 14 (thorough: 27) kinds inside `let a = .. ;` and `res .. ;`, random "
                       "sequences over all kinds (6-60 tokens), generated programs and mutations as text, every bracket kind nested to depth 1-8 (also unmemoised "
                       "up to 6) and 25-200 (memoised only), closed and unclosed, 2200+ flat declarations followed by a nest; cached vs uncached compared where "
                       "requested; reads <= %d*n+%d everywhere. distinct_nontrivial = distinct inputs with at least one memo hit" % (READ_FACTOR, READ_FACTOR))
    return core.finish(ctx)
