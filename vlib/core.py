"""Shared machinery of the ./check driver: builds (Coq development, extracted
runner, Rust harness against /repo's working tree), the proof stage, evidence,
known findings, replay files and the verdict protocol of MANIFEST.json."""
import fcntl
import hashlib
import json
import os
import random
import re
import subprocess
import sys
import time

VERIF = os.path.dirname(os.path.dirname(os.path.abspath(__file__)))
REPO = os.environ.get("VERIF_REPO", "/repo")
COQ = os.path.join(VERIF, "coq")
CACHE = os.path.join(VERIF, ".cache")
RUNNER = os.path.join(VERIF, "runner", "oalmodel")
HARNESS_DIR = os.path.join(VERIF, "harness")
TARGET = os.path.join(CACHE, "harness-target")
IMPL = os.path.join(TARGET, "debug", "oalimpl")
NCPU = os.cpu_count() or 4

ALLOWED_AXIOMS = set()  # every property theorem is expected to be closed

FORBIDDEN = re.compile(
    r"\b(Admitted|admit|Axiom|Axioms|Parameter|Parameters|Conjecture|Conjectures)\b"
    r"|Admit Obligations|Unset Guard Checking|bypass_check|Unset Positivity Checking"
    r"|Unset Universe Checking|type-in-type|impredicative-set"
)

TRUSTED_BASE = [
    "Coq 8.16.1 kernel (coqc; coqchk in the thorough tier); vm_compute used only in *_refuted witnesses and bounded forallb lemmas whose bound is in the statement; no native_compute",
    "axioms: none (Print Assumptions of every property theorem is diffed against an empty allow-list on every run)",
    "extraction: ExtrOcamlBasic only, no Extract Constant / Extract Inductive of my own; OCaml 4.13 and the hand-written runner (runner/*.ml)",
    "the Rust harness (harness/src), built against /repo's working tree with --cfg oal_verif; the python driver, generators and monitors (vlib/)",
    "hand-written Gallina model tied to the code by the correspondence check (not generated from the source)",
]


def log(*a):
    try:
        print(*a, file=sys.stderr, flush=True)
    except BrokenPipeError:
        pass


def say(line):
    """a verdict line on stdout; a reader that closed the pipe early must not change the verdict or lose the evidence"""
    try:
        print(line, flush=True)
    except BrokenPipeError:
        try:
            sys.stdout = open(os.devnull, "w")
        except Exception:
            pass


class Lock:
    def __init__(self, name):
        os.makedirs(CACHE, exist_ok=True)
        self.path = os.path.join(CACHE, name + ".lock")

    def __enter__(self):
        self.f = open(self.path, "w")
        fcntl.flock(self.f, fcntl.LOCK_EX)
        return self

    def __exit__(self, *a):
        fcntl.flock(self.f, fcntl.LOCK_UN)
        self.f.close()


def sh(cmd, cwd=None, timeout=1800, env=None, input=None):
    e = dict(os.environ)
    if env:
        e.update(env)
    try:
        p = subprocess.run(cmd, cwd=cwd, shell=isinstance(cmd, str), capture_output=True,
                           text=True, timeout=timeout, env=e, input=input)
        return p.returncode, p.stdout, p.stderr
    except subprocess.TimeoutExpired as ex:
        return 124, (ex.stdout or b"").decode("utf8", "replace") if isinstance(ex.stdout, bytes) else (ex.stdout or ""), "timeout"


# ----------------------------------------------------------------------------- builds

def coq_sources():
    out = []
    for d, _, fs in os.walk(COQ):
        for f in fs:
            if f.endswith(".v"):
                out.append(os.path.join(d, f))
    return sorted(out)


def ensure_coq_makefile():
    mk = os.path.join(COQ, "Makefile")
    cp = os.path.join(COQ, "_CoqProject")
    if not os.path.exists(mk) or os.path.getmtime(mk) < os.path.getmtime(cp):
        sh("coq_makefile -f _CoqProject -o Makefile", cwd=COQ)


def build_coq_target(vo, timeout=2400):
    """make one .vo (and what it depends on). Returns (ok, output)."""
    with Lock("coq"):
        ensure_coq_makefile()
        rc, out, err = sh(["timeout", str(timeout), "make", "-j%d" % NCPU, vo], cwd=COQ, timeout=timeout + 60)
        return rc == 0, out + err


def ensure_runner():
    """(Re)build the extracted reference runner when the model or the driver changed."""
    with Lock("runner"):
        srcs = [os.path.join(COQ, "Extract", "Extract.v")]
        for d in ("Model",):
            dd = os.path.join(COQ, d)
            srcs += [os.path.join(dd, f) for f in os.listdir(dd) if f.endswith(".v")]
        rd = os.path.join(VERIF, "runner")
        srcs += [os.path.join(rd, f) for f in os.listdir(rd) if f.endswith(".ml") or f == "build.sh"]
        newest = max(os.path.getmtime(s) for s in srcs)
        if os.path.exists(RUNNER) and os.path.getmtime(RUNNER) >= newest:
            return True, ""
        dd = os.path.join(COQ, "Model")
        for f in sorted(os.listdir(dd)):
            if f.endswith(".v"):
                ok, out = build_coq_target("Model/" + f + "o")
                if not ok:
                    return False, out
        rc, out, err = sh(["sh", "build.sh"], cwd=rd, timeout=900)
        return rc == 0, out + err


def ensure_harness():
    """cargo build of the harness against /repo's current working tree (hooks on)."""
    with Lock("harness"):
        lock_src = os.path.join(REPO, "Cargo.lock")
        lock_dst = os.path.join(HARNESS_DIR, "Cargo.lock")
        if not os.path.exists(lock_dst):
            open(lock_dst, "w").write(open(lock_src).read())
        env = {"RUSTFLAGS": "--cfg oal_verif", "CARGO_NET_OFFLINE": "true", "CARGO_TARGET_DIR": TARGET}
        rc, out, err = sh(["cargo", "build", "--offline", "--bins"], cwd=HARNESS_DIR, timeout=1800, env=env)
        return rc == 0, (out + err)[-4000:]


def ensure_repo_bins():
    """build oal-cli and oal-lsp of /repo's working tree (hooks on) into the cache target."""
    with Lock("harness"):
        env = {"RUSTFLAGS": "--cfg oal_verif", "CARGO_NET_OFFLINE": "true", "CARGO_TARGET_DIR": TARGET}
        rc, out, err = sh(["cargo", "build", "--offline", "-p", "oal-client", "--bins"], cwd=REPO, timeout=1800, env=env)
        return rc == 0, (out + err)[-4000:]


CLI = os.path.join(TARGET, "debug", "oal-cli")
LSP = os.path.join(TARGET, "debug", "oal-lsp")


# ----------------------------------------------------------------------------- proof stage

def forbidden_scan():
    hits = []
    for p in coq_sources():
        txt = open(p).read()
        # strip comments (non-nested approximation is enough: we never nest)
        txt2 = re.sub(r"\(\*.*?\*\)", lambda m: " " * len(m.group(0)), txt, flags=re.S)
        for m in FORBIDDEN.finditer(txt2):
            line = txt2.count("\n", 0, m.start()) + 1
            hits.append("%s:%d:%s" % (os.path.relpath(p, VERIF), line, m.group(0)))
    return hits


def proof_stage(prop, files=None, thorough=False):
    """Build Properties/<prop>.vo, re-run coqc on it to capture Print Assumptions.
    Returns dict(ok, obligations, discharged, theorems, problems, checker_cmd)."""
    files = files or ["Properties/%s.v" % prop]
    res = {"ok": True, "obligations": 0, "discharged": 0, "theorems": [], "problems": [],
           "checker_cmd": "make -C coq " + " ".join(f + "o" for f in files) +
                          " && coqc -Q coq Oal <file> (Print Assumptions diffed against the allow-list)" +
                          (" && coqchk -o -silent" if thorough else "")}
    hits = forbidden_scan()
    if hits:
        res["ok"] = False
        res["problems"].append("forbidden vernacular: " + "; ".join(hits[:5]))
    for f in files:
        src = open(os.path.join(COQ, f)).read()
        names = re.findall(r"^(?:Theorem|Lemma)\s+(\w+)", src, flags=re.M)
        printed = re.findall(r"^Print Assumptions\s+(\w+)\.", src, flags=re.M)
        res["obligations"] += len(names)
        ok, out = build_coq_target(f + "o")
        if not ok:
            res["ok"] = False
            tail = [l for l in out.splitlines() if l.strip()][-12:]
            res["problems"].append("build of %so failed: %s" % (f, " | ".join(tail)))
            for n in names:
                res["theorems"].append({"name": n, "file": f, "status": "not checked", "assumptions": None})
            continue
        os.makedirs(os.path.join(CACHE, "pa"), exist_ok=True)
        tmp_vo = os.path.join(CACHE, "pa", os.path.basename(f) + "o")
        rc, out, err = sh(["timeout", "900", "coqc", "-Q", ".", "Oal", "-w", "-all", f, "-o", tmp_vo], cwd=COQ, timeout=960)
        if rc != 0:
            res["ok"] = False
            res["problems"].append("coqc %s failed: %s" % (f, (out + err)[-600:]))
            continue
        blocks = parse_assumptions(out)
        if len(blocks) != len(printed):
            res["ok"] = False
            res["problems"].append("%s: %d Print Assumptions outputs for %d commands" % (f, len(blocks), len(printed)))
        amap = dict(zip(printed, blocks))
        for n in names:
            a = amap.get(n)
            if a is None:
                res["ok"] = False
                res["problems"].append("%s: theorem %s has no Print Assumptions" % (f, n))
                res["theorems"].append({"name": n, "file": f, "status": "no Print Assumptions", "assumptions": None})
                continue
            bad = [x for x in a if x not in ALLOWED_AXIOMS]
            if bad:
                res["ok"] = False
                res["problems"].append("%s: theorem %s depends on %s" % (f, n, ", ".join(bad)))
                res["theorems"].append({"name": n, "file": f, "status": "disallowed assumptions", "assumptions": a})
            else:
                res["discharged"] += 1
                res["theorems"].append({"name": n, "file": f, "status": "proved",
                                        "assumptions": a or "Closed under the global context"})
        if thorough:
            mod = "Oal." + f[:-2].replace("/", ".")
            rc, out, err = sh(["timeout", "1500", "coqchk", "-o", "-silent", "-Q", ".", "Oal", mod], cwd=COQ, timeout=1560)
            txt = out + err
            if rc != 0:
                res["ok"] = False
                res["problems"].append("coqchk %s failed: %s" % (mod, txt[-500:]))
            else:
                m = re.search(r"Axioms:\s*(.*?)(?:\n\s*\n|\Z)", txt, flags=re.S)
                ax = m.group(1).strip() if m else "?"
                res.setdefault("coqchk", []).append({"module": mod, "axioms": ax})
                if ax not in ("<none>",):
                    res["ok"] = False
                    res["problems"].append("coqchk %s reports axioms: %s" % (mod, ax[:300]))
    return res


def parse_assumptions(out):
    """Split coqc output into one list of axiom names per Print Assumptions."""
    blocks = []
    cur = None
    for line in out.splitlines():
        if line.startswith("Closed under the global context"):
            if cur is not None:
                blocks.append(cur)
                cur = None
            blocks.append([])
        elif line.startswith("Axioms:"):
            if cur is not None:
                blocks.append(cur)
            cur = []
        elif cur is not None:
            m = re.match(r"^(\S+)\s*:", line)
            if m and not line.startswith(" "):
                cur.append(m.group(1))
            elif line.strip() == "":
                blocks.append(cur)
                cur = None
    if cur is not None:
        blocks.append(cur)
    return blocks


# ----------------------------------------------------------------------------- running layers

def run_layer(binary, layer, lines, timeout=1200, shards=None):
    """Feed `lines` to `<binary> <layer>`; returns list of output lines (one per input).
    Sharding keeps per-process state (e.g. the current text) intact only if the caller
    passes `shards` as a list of line-lists."""
    if shards is None:
        shards = [lines]
    procs = []
    for sl in shards:
        p = subprocess.Popen([binary, layer], stdin=subprocess.PIPE, stdout=subprocess.PIPE,
                             stderr=subprocess.PIPE)
        procs.append((p, sl))
    outs = []
    import threading
    results = [None] * len(procs)

    def work(i, p, sl):
        try:
            o, e = p.communicate(("\n".join(sl) + "\n").encode(), timeout=timeout)
            results[i] = (p.returncode, o.decode("utf8", "replace").splitlines(), e.decode("utf8", "replace"))
        except subprocess.TimeoutExpired:
            p.kill()
            results[i] = (124, [], "timeout")

    ths = [threading.Thread(target=work, args=(i, p, sl)) for i, (p, sl) in enumerate(procs)]
    for t in ths:
        t.start()
    for t in ths:
        t.join()
    return results


def shard(groups, n):
    """Distribute a list of line-groups over n shards, keeping groups intact."""
    shards = [[] for _ in range(n)]
    sizes = [0] * n
    for g in groups:
        i = sizes.index(min(sizes))
        shards[i].extend(g)
        sizes[i] += len(g)
    return [s for s in shards if s]


# ----------------------------------------------------------------------------- known findings

def known_findings(prop):
    p = os.path.join(VERIF, "known_findings.jsonl")
    out = []
    if os.path.exists(p):
        for l in open(p):
            l = l.strip()
            if l and not l.startswith("#"):
                j = json.loads(l)
                if j.get("property") == prop:
                    out.append(j)
    return out


# ----------------------------------------------------------------------------- context / verdict

class Ctx:
    def __init__(self, prop, tier, seed, replay=None):
        self.prop = prop
        self.tier = tier
        self.seed = seed
        self.replay = replay
        self.rng = random.Random(seed * 1000003 + int(prop[1:]))
        self.t0 = time.time()
        self.violations = []      # dicts with at least 'what', 'input'
        self.broken = []          # proof / correspondence breaks: strings
        self.known_printed = []
        self.cov = {"evaluations": 0, "distinct_nontrivial": 0, "traces_validated_against_impl": 0,
                    "samples": [], "rule": "", "distribution": {}}
        self.assumptions = []
        self.proof = None

    @property
    def thorough(self):
        return self.tier == "thorough"

    def violation(self, what, inp, expected=None, observed=None, extra=None):
        v = {"what": what, "input": inp, "expected": expected, "observed": observed}
        if extra:
            v.update(extra)
        self.violations.append(v)

    def sample(self, s, cap=6):
        if len(self.cov["samples"]) < cap:
            self.cov["samples"].append(s)

    def count(self, key, n=1):
        d = self.cov["distribution"]
        d[key] = d.get(key, 0) + n

    def known(self, what):
        line = "KNOWN-FINDING: property=%s %s" % (self.prop, what)
        if line not in self.known_printed:
            self.known_printed.append(line)
            say(line)


def write_replay(ctx, v, suffix=""):
    os.makedirs(os.path.join(VERIF, "replays"), exist_ok=True)
    h = hashlib.sha1(json.dumps(v, sort_keys=True, default=str).encode()).hexdigest()[:10]
    path = os.path.join(VERIF, "replays", "%s-%s%s.json" % (ctx.prop, h, suffix))
    v = dict(v)
    v["property"] = ctx.prop
    v["replay_cmd"] = "./check %s --replay %s" % (ctx.prop, os.path.relpath(path, VERIF))
    with open(path, "w") as f:
        json.dump(v, f, indent=1, default=str)
    return path


def finish(ctx, level_text=""):
    """Write the evidence file, print the verdict, return the exit status."""
    proof = ctx.proof or {"obligations": 0, "discharged": 0, "theorems": [], "problems": ["proof stage not run"],
                          "ok": False, "checker_cmd": ""}
    cov = dict(ctx.cov)
    cov.update({
        "obligations": proof["obligations"],
        "discharged": proof["discharged"],
        "checker_cmd": proof.get("checker_cmd", ""),
        "trusted_base": TRUSTED_BASE,
        "theorems": proof["theorems"],
        "proof_problems": proof["problems"],
        "correspondence_breaks": ctx.broken[:20],
        "known_findings_reported": ctx.known_printed,
    })
    if "coqchk" in proof:
        cov["coqchk"] = proof["coqchk"]
    if not cov["samples"]:
        cov["samples"] = ["(no case sampled)"]
    ev = {
        "property_id": ctx.prop, "tier": ctx.tier, "seed": ctx.seed, "level": "proof",
        "coverage": cov, "assumptions": ctx.assumptions, "wall_s": round(time.time() - ctx.t0, 2),
        "violations": len(ctx.violations) + (1 if (ctx.broken or not proof["ok"]) and not ctx.violations else 0),
    }
    os.makedirs(os.path.join(VERIF, "evidence"), exist_ok=True)
    with open(os.path.join(VERIF, "evidence", ctx.prop + ".json"), "w") as f:
        json.dump(ev, f, indent=1, default=str)
    rc = 0
    if ctx.violations:
        for v in ctx.violations[:3]:
            path = write_replay(ctx, v)
            say("VIOLATION property=%s replay=%s" % (ctx.prop, os.path.relpath(path, VERIF)))
        rc = 1
    elif ctx.broken or not proof["ok"]:
        v = {"what": "the property is no longer shown to hold: a proof obligation or the correspondence "
                     "between model and implementation no longer checks, and the search found no failing input",
             "proof_problems": proof["problems"], "correspondence_breaks": ctx.broken[:20],
             "theorems": [t for t in proof["theorems"] if t["status"] != "proved"]}
        path = write_replay(ctx, v, "-nofail")
        say("VIOLATION property=%s replay=%s no-failing-input-found" % (ctx.prop, os.path.relpath(path, VERIF)))
        rc = 1
    log("[%s] %s tier=%s wall=%.1fs evaluations=%d obligations=%d/%d" % (
        ctx.prop, "OK" if rc == 0 else "FAIL", ctx.tier, time.time() - ctx.t0,
        cov["evaluations"], proof["discharged"], proof["obligations"]))
    return rc


# ----------------------------------------------------------------------------- stateless layers

def _lines(raw):
    """split on LF only (str.splitlines also splits on U+2028, U+0085, ... which occur inside JSON strings)"""
    out = raw.decode("utf8", "replace").split("\n")
    if out and out[-1] == "":
        out.pop()
    return [l[:-1] if l.endswith("\r") else l for l in out]


def _limits():
    import resource
    try:
        resource.setrlimit(resource.RLIMIT_AS, (6 << 30, 6 << 30))
    except Exception:
        pass
    os.setsid()


# environment / working directory of the processes started by run_stateless (C06 perturbs them)
PROC_ENV = None
PROC_CWD = None


def _run_one(binary, layer, lines, timeout):
    p = subprocess.Popen([binary, layer], stdin=subprocess.PIPE, stdout=subprocess.PIPE, stderr=subprocess.PIPE, preexec_fn=_limits,
                         env=PROC_ENV, cwd=PROC_CWD)
    try:
        o, e = p.communicate(("\n".join(lines) + "\n").encode(), timeout=timeout)
        return p.returncode, _lines(o), e.decode("utf8", "replace")
    except subprocess.TimeoutExpired:
        try:
            os.killpg(p.pid, 9)
        except OSError:
            p.kill()
        o, e = p.communicate()
        return 124, _lines(o or b""), "timeout"


def run_stateless(binary, layer, lines, timeout=60, per_case_timeout=10, max_failures=3, budget=150):
    """Run independent one-line cases (one output line each), sharded over the cores.
    A case that kills the process (stack overflow, abort, memory limit) or hangs is reported as
    'CRASH rc=<n>' / 'HANG' and the remaining cases are still run; after `max_failures` such
    cases in one shard the rest of the shard is reported as 'SKIPPED'."""
    import concurrent.futures as cf
    n = max(1, min(NCPU, len(lines) // 50 + 1))
    chunks = [lines[i::n] for i in range(n)]

    def work(chunk):
        outs = []
        failures = 0
        t0 = time.time()
        while len(outs) < len(chunk):
            if time.time() - t0 > budget:
                outs.extend(["SKIPPED"] * (len(chunk) - len(outs)))
                break
            rest = chunk[len(outs):]
            rc, o, err = _run_one(binary, layer, rest, timeout)
            if rc == 0 and len(o) == len(rest):
                outs.extend(o)
                break
            o = o[:len(rest)]
            outs.extend(o)
            if len(o) >= len(rest):
                break
            # the first unanswered case is the culprit (answers are flushed line by line)
            if rc == 124:
                rc1, o1, _ = _run_one(binary, layer, [rest[len(o)]], per_case_timeout)
                if rc1 == 0 and len(o1) == 1:
                    outs.append("SLOW " + o1[0])          # answered alone, but the shard ran out of time here
                    failures += 1
                    if failures >= max_failures:
                        outs.extend(["SKIPPED"] * (len(chunk) - len(outs)))
                        break
                    continue
                outs.append("HANG" if rc1 == 124 else "CRASH rc=%s" % rc1)
            else:
                outs.append("CRASH rc=%s %s" % (rc, err.strip().splitlines()[-1][:120] if err.strip() else ""))
            failures += 1
            if failures >= max_failures:
                outs.extend(["SKIPPED"] * (len(chunk) - len(outs)))
                break
        return outs

    with cf.ThreadPoolExecutor(max_workers=n) as ex:
        res = list(ex.map(work, chunks))
    out = [None] * len(lines)
    for i, r in enumerate(res):
        for j, x in enumerate(r):
            out[i + j * n] = x
    return out
