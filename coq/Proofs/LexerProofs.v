(** The tokenizer model: when a text has no lexical error its tokens tile it exactly (every
    token is non-empty, consecutive, and together they cover the whole text), so there are at
    most as many tokens as characters, and the syntax front end of the model (tokenizer, then
    parser) terminates with fuel linear in the length of the text. *)
From Oal Require Import Text Lexer Peg Grammar GrammarProofs GrammarTerm PegTerm PositionProofs.
From Coq Require Import Lia Arith.
Local Open Scope nat_scope.

Lemma span_le p t : span p t <= length t.
Proof. induction t as [|c t IH]; cbn [span length]; [lia|]. destruct (p c); lia. Qed.

Lemma until_le p t n : until p t = Some n -> n <= length t.
Proof.
  revert n. induction t as [|c t IH]; intros n H; cbn [until] in H; [discriminate|].
  destruct (p c); [injection H as <-; cbn; lia|].
  destruct (until p t) as [m|]; [|discriminate]. injection H as <-. specialize (IH m eq_refl). cbn [length]. lia.
Qed.

Lemma block_tail_le f : forall t n, block_tail f t = Some n -> n <= length t.
Proof.
  induction f as [|f IH]; intros t n H; [discriminate|]. cbn [block_tail] in H.
  destruct t as [|c t]; [discriminate|]. destruct (N.eqb c 42).
  - destruct t as [|d t]; [discriminate|]. destruct (N.eqb d 47); [injection H as <-; cbn; lia|].
    destruct (block_tail f t) as [m|] eqn:E; [|discriminate]. injection H as <-. specialize (IH t m E). cbn [length]. lia.
  - destruct (block_tail f t) as [m|] eqn:E; [|discriminate]. injection H as <-. specialize (IH t m E). cbn [length]. lia.
Qed.

Lemma lit_le s t n : lit s t = Some n -> n <= length t.
Proof.
  unfold lit.
  assert (G : forall s t, (fix pre (s t : list N) : bool :=
                             match s, t with
                             | [], _ => true
                             | a :: s', b :: t' => N.eqb a b && pre s' t'
                             | _ :: _, [] => false
                             end) s t = true -> length s <= length t).
  { clear. induction s as [|a s IH]; intros [|b t] H; cbn [length]; try lia; try discriminate H.
    apply andb_prop in H as [_ H]. specialize (IH t H). lia. }
  destruct ((fix pre (s0 t0 : list N) : bool := match s0, t0 with [], _ => true | a :: s', b :: t' => N.eqb a b && pre s' t' | _ :: _, [] => false end) s t) eqn:E;
    [|discriminate]. intros [= <-]. apply G, E.
Qed.

Lemma skipn_span_le (r : list N) p q : span p r + span q (skipn (span p r) r) <= length r.
Proof.
  pose proof (span_le p r). pose proof (span_le q (skipn (span p r) r)). rewrite skipn_length in H0. lia.
Qed.

Lemma match_kind_le k t n : match_kind k t = Some n -> n <= length t.
Proof.
  unfold match_kind. intros H.
  repeat match type of H with
         | lit _ _ = Some _ => exact (lit_le _ _ _ H)
         | match ?k with _ => _ end = Some _ => is_var k; destruct k; try discriminate H
         end;
    try exact (lit_le _ _ _ H).
  all: repeat match type of H with
              | match ?x with _ => _ end = Some _ => let E := fresh "E" in destruct x eqn:E; try discriminate H
              | (if ?c then _ else _) = Some _ => destruct c; try discriminate H
              end;
    try (injection H as <-).
  all: cbn [length];
    try match goal with E : span ?p ?l = _ |- _ => pose proof (span_le p l); rewrite E in * end;
    try match goal with H : option_map _ (until ?p ?l) = Some _ |- _ => destruct (until p l) as [m|] eqn:Eu; [|discriminate H]; injection H as <-; pose proof (until_le p l m Eu) end;
    try match goal with H : option_map _ (block_tail ?f ?l) = Some _ |- _ => destruct (block_tail f l) as [m|] eqn:Eb; [|discriminate H]; injection H as <-; pose proof (block_tail_le f l m Eb) end;
    try match goal with |- context [span ?q (skipn (span ?p ?r) ?r)] => pose proof (skipn_span_le r p q) end;
    try match goal with |- context [span ?p ?l] => pose proof (span_le p l) end;
    try lia.
Qed.

(** * The longest match is non-empty and inside the text *)
Definition acc_ok (t : list N) (acc : option (N * nat)) : Prop :=
  match acc with Some (_, m) => 1 <= m <= length t | None => True end.

Lemma best_bounds t k n : best t = Some (k, n) -> 1 <= n <= length t.
Proof.
  unfold best.
  assert (G : forall ks acc, acc_ok t acc ->
              acc_ok t (fold_left (fun acc k =>
                 match match_kind k t with
                 | Some (S n) => match acc with
                                 | Some (_, m) => if Nat.ltb m (S n) then Some (k, S n) else acc
                                 | None => Some (k, S n)
                                 end
                 | _ => acc
                 end) ks acc)).
  { induction ks as [|k0 ks IH]; intros acc Ha; cbn [fold_left]; [exact Ha|].
    apply IH. destruct (match_kind k0 t) as [[|m]|] eqn:E; try exact Ha.
    pose proof (match_kind_le _ _ _ E) as Hm.
    destruct acc as [[k1 m1]|]; [|cbn; lia].
    destruct (Nat.ltb m1 (S m)); [cbn; lia|exact Ha]. }
  intros H. specialize (G (map N.of_nat (List.seq 0 NKINDS)) None I). rewrite H in G. exact G.
Qed.

(** * Tiling *)
Fixpoint total (toks : list (N * nat)) : nat :=
  match toks with [] => 0 | (_, n) :: r => n + total r end.

Lemma lex_tiles : forall f t toks, lex f t = Some toks ->
  Forall (fun kn => 1 <= snd kn) toks /\ total toks = length t.
Proof.
  induction f as [|f IH]; intros t toks H; cbn [lex] in H.
  - destruct t; [|discriminate]. injection H as <-. split; [constructor|reflexivity].
  - destruct t as [|c t]; [injection H as <-; split; [constructor|reflexivity]|].
    destruct (best (c :: t)) as [[k n]|] eqn:Eb; [|discriminate].
    destruct (lex f (skipn n (c :: t))) as [r|] eqn:El; [|discriminate]. cbn [option_map] in H. injection H as <-.
    pose proof (best_bounds _ _ _ Eb) as Hn. destruct (IH _ _ El) as [Hf Ht].
    split; [constructor; [cbn; lia|exact Hf]|]. cbn [total]. rewrite Ht, skipn_length. lia.
Qed.

Lemma total_count toks : Forall (fun kn : N * nat => 1 <= snd kn) toks -> length toks <= total toks.
Proof. induction 1 as [|[k n] r Hn _ IH]; cbn [length total]; [lia|]. cbn in Hn. lia. Qed.

(** the fuel [length t] that [tokenize] passes is never the reason for a failure *)
Lemma lex_fuel : forall f1 f2 t, length t <= f1 -> length t <= f2 -> lex f1 t = lex f2 t.
Proof.
  induction f1 as [|f1 IH]; intros f2 t H1 H2.
  - destruct t; [|cbn in H1; lia]. destruct f2; reflexivity.
  - destruct t as [|c t]; [destruct f2; reflexivity|]. destruct f2 as [|f2]; [cbn in H2; lia|].
    cbn [lex]. destruct (best (c :: t)) as [[k n]|] eqn:Eb; [|reflexivity].
    pose proof (best_bounds _ _ _ Eb) as Hn.
    rewrite (IH f2); [reflexivity| |]; rewrite skipn_length; cbn [length] in *; lia.
Qed.

Theorem tokenize_tiles t toks : tokenize t = Some toks ->
  Forall (fun kn => 1 <= snd kn) toks /\ total toks = length t /\ length toks <= length t.
Proof.
  unfold tokenize. destruct (lex (length t) t) as [r|] eqn:E; [|discriminate].
  destruct (numbers_ok r t); [|discriminate]. intros [= <-].
  destruct (lex_tiles _ _ _ E) as [Hf Ht]. repeat split; try assumption. rewrite <- Ht. apply total_count, Hf.
Qed.

(** * Spans: consecutive, non-empty, on character boundaries, ending at the end of the text *)
Fixpoint chain (s : N) (l : list (N * N * N)) (e : N) : Prop :=
  match l with
  | [] => s = e
  | (_, a, b) :: r => a = s /\ (a < b)%N /\ chain b r e
  end.

Lemma len8s_firstn_skipn n (t : list N) : (len8s (firstn n t) + len8s (skipn n t))%N = len8s t.
Proof. rewrite <- PositionProofs.len8s_app, firstn_skipn. reflexivity. Qed.

Lemma len8s_pos_firstn n (t : list N) : 1 <= n <= length t -> (0 < len8s (firstn n t))%N.
Proof.
  intros [H1 H2]. destruct t as [|c t]; [cbn in H2; lia|]. destruct n; [lia|]. cbn [firstn len8s].
  pose proof (PositionProofs.len8_pos c). lia.
Qed.

Lemma spans_chain : forall toks t off,
  Forall (fun kn : N * nat => 1 <= snd kn) toks -> total toks = length t ->
  chain off (spans toks t off) (off + len8s t).
Proof.
  induction toks as [|[k n] r IH]; intros t off Hf Ht; cbn [spans chain].
  - destruct t; [cbn; lia|discriminate].
  - inversion Hf as [|? ? Hn Hr]; subst. cbn in Hn. cbn [total] in Ht.
    split; [reflexivity|]. split.
    + pose proof (len8s_pos_firstn n t ltac:(lia)). lia.
    + replace (off + len8s t)%N with (off + len8s (firstn n t) + len8s (skipn n t))%N
        by (rewrite <- (len8s_firstn_skipn n t); lia).
      apply IH; [exact Hr|]. rewrite skipn_length. lia.
Qed.

Theorem tokenize_spans_tile t toks : tokenize t = Some toks ->
  chain 0 (spans toks t 0) (len8s t).
Proof.
  intros H. destruct (tokenize_tiles _ _ H) as (Hf & Ht & _).
  exact (spans_chain toks t 0%N Hf Ht).
Qed.

(** every span bound is the UTF-8 length of a prefix of the text: a character boundary *)
Lemma spans_boundaries : forall toks pre t k a b,
  In (k, a, b) (spans toks t (len8s pre)) ->
  exists p1 p2 q, pre ++ t = p1 ++ p2 ++ q /\ a = len8s p1 /\ b = len8s (p1 ++ p2).
Proof.
  induction toks as [|[k0 n] r IH]; intros pre t k a b Hin; cbn [spans] in Hin; [destruct Hin|].
  destruct Hin as [E|Hin].
  - injection E as <- <- <-. exists pre, (firstn n t), (skipn n t).
    rewrite firstn_skipn, PositionProofs.len8s_app. repeat split.
  - rewrite <- PositionProofs.len8s_app in Hin. apply IH in Hin as (p1 & p2 & q & E & Ha & Hb).
    exists p1, p2, q. rewrite <- app_assoc, firstn_skipn in E. repeat split; assumption.
Qed.

Theorem tokenize_spans_on_boundaries t toks k a b : tokenize t = Some toks ->
  In (k, a, b) (spans toks t 0) ->
  exists p1 p2 q, t = p1 ++ p2 ++ q /\ a = len8s p1 /\ b = len8s (p1 ++ p2).
Proof. intros _ Hin. exact (spans_boundaries toks [] t k a b Hin). Qed.

(** * The syntax front end terminates: tokenizer, then parser, fuel linear in the text *)
Lemma B_mono_u R Z u u' r z : u <= u' -> PegTerm.B R Z u r z <= PegTerm.B R Z u' r z.
Proof. intros H. unfold PegTerm.B. apply Nat.add_le_mono_r, Nat.add_le_mono_r, Nat.mul_le_mono_r, H. Qed.

Theorem front_end_terminates t toks n : tokenize t = Some toks ->
  PegTerm.B OR OZ (length t) (S (orank Grammar.P_PROGRAM)) 1 <= n ->
  parse_pure n (map fst toks) <> Fuel.
Proof.
  intros H Hn. apply oal_parse_terminates. rewrite map_length.
  destruct (tokenize_tiles _ _ H) as (_ & _ & Hc).
  pose proof (B_mono_u OR OZ (length toks) (length t) (S (orank Grammar.P_PROGRAM)) 1 Hc). lia.
Qed.

(** non-vacuity: a text that tokenizes, with a multi-byte character inside a string *)
Example ex_text : list N := [108; 101; 116; 32; 120; 32; 61; 32; 34; 233; 8364; 34; 59]%N.
Example ex_tokenizes : option_map (fun toks => spans toks ex_text 0%N) (tokenize ex_text)
  = Some [(20, 0, 3); (0, 3, 4); (26, 4, 5); (0, 5, 6); (48, 6, 7); (0, 7, 8); (29, 8, 15); (40, 15, 16)]%N.
Proof. vm_compute. reflexivity. Qed.

(** * maximal munch: the token chosen is a longest match, and the first kind among the longest *)
Definition pick (t : list N) (acc : option (N * nat)) (k : N) : option (N * nat) :=
  match match_kind k t with
  | Some (S n) => match acc with
                  | Some (_, m) => if Nat.ltb m (S n) then Some (k, S n) else acc
                  | None => Some (k, S n)
                  end
  | _ => acc
  end.

Lemma best_fold t : best t = fold_left (pick t) (map N.of_nat (List.seq 0 NKINDS)) None.
Proof. reflexivity. Qed.

(** invariant of the scan after the kinds [0 .. j-1] *)
Definition scan_ok (t : list N) (j : nat) (acc : option (N * nat)) : Prop :=
  match acc with
  | None => forall k n, k < j -> match_kind (N.of_nat k) t = Some n -> n = 0
  | Some (k0, n0) =>
      exists c, k0 = N.of_nat c /\ c < j /\ 1 <= n0 /\ match_kind k0 t = Some n0 /\
      (forall k n, k < j -> match_kind (N.of_nat k) t = Some n -> n <= n0) /\
      (forall k n, k < c -> match_kind (N.of_nat k) t = Some n -> n < n0)
  end.

Lemma pick_ok t j acc : scan_ok t j acc -> scan_ok t (S j) (pick t acc (N.of_nat j)).
Proof.
  intros H. unfold pick. destruct (match_kind (N.of_nat j) t) as [[|n]|] eqn:Em.
  - destruct acc as [[k0 n0]|]; cbn [scan_ok] in *.
    + destruct H as (c & -> & Hc & H1 & H2 & H4 & H5). exists c. repeat split; try assumption; try lia.
      intros k n' Hk Hm. destruct (Nat.eq_dec k j) as [->|Hne]; [rewrite Em in Hm; injection Hm as <-; lia|apply (H4 k n'); [lia|exact Hm]].
    + intros k n' Hk Hm. destruct (Nat.eq_dec k j) as [->|Hne]; [rewrite Em in Hm; injection Hm as <-; reflexivity|apply (H k n'); [lia|exact Hm]].
  - destruct acc as [[k0 n0]|]; cbn [scan_ok] in *.
    + destruct H as (c & -> & Hc & H1 & H2 & H4 & H5). destruct (Nat.ltb_spec n0 (S n)) as [Hlt|Hge]; cbn [scan_ok].
      * exists j. repeat split; try lia; try assumption.
        -- intros k n' Hk Hm. destruct (Nat.eq_dec k j) as [->|Hne]; [rewrite Em in Hm; injection Hm as <-; lia|]. specialize (H4 k n' ltac:(lia) Hm). lia.
        -- intros k n' Hk Hm. specialize (H4 k n' ltac:(lia) Hm). lia.
      * exists c. repeat split; try assumption; try lia.
        intros k n' Hk Hm. destruct (Nat.eq_dec k j) as [->|Hne]; [rewrite Em in Hm; injection Hm as <-; lia|apply (H4 k n'); [lia|exact Hm]].
    + cbn [scan_ok]. exists j. repeat split; try lia; try assumption.
      * intros k n' Hk Hm. destruct (Nat.eq_dec k j) as [->|Hne]; [rewrite Em in Hm; injection Hm as <-; lia|]. rewrite (H k n' ltac:(lia) Hm). lia.
      * intros k n' Hk Hm. rewrite (H k n' ltac:(lia) Hm). lia.
  - destruct acc as [[k0 n0]|]; cbn [scan_ok] in *.
    + destruct H as (c & -> & Hc & H1 & H2 & H4 & H5). exists c. repeat split; try assumption; try lia.
      intros k n' Hk Hm. destruct (Nat.eq_dec k j) as [->|Hne]; [rewrite Em in Hm; discriminate Hm|apply (H4 k n'); [lia|exact Hm]].
    + intros k n' Hk Hm. destruct (Nat.eq_dec k j) as [->|Hne]; [rewrite Em in Hm; discriminate Hm|apply (H k n'); [lia|exact Hm]].
Qed.

Lemma scan_all t : forall j, scan_ok t j (fold_left (pick t) (map N.of_nat (List.seq 0 j)) None).
Proof.
  induction j as [|j IH]; [cbn; intros k n Hk; lia|].
  rewrite seq_S, map_app, fold_left_app. cbn [map fold_left Nat.add]. apply pick_ok, IH.
Qed.

(** the token [lex] takes at a position: a longest match of any kind, non-empty, and of the
    first kind in declaration order among the longest *)
Theorem best_is_maximal_munch t k0 n0 : best t = Some (k0, n0) ->
  1 <= n0 /\ match_kind k0 t = Some n0 /\
  (forall k n, k < NKINDS -> match_kind (N.of_nat k) t = Some n -> n <= n0) /\
  (forall k n, (N.of_nat k < k0)%N -> match_kind (N.of_nat k) t = Some n -> n < n0).
Proof.
  intros H. pose proof (scan_all t NKINDS) as S. rewrite <- best_fold, H in S. cbn [scan_ok] in S.
  destruct S as (c & -> & Hc & H1 & H2 & H4 & H5). repeat split; try assumption.
  intros k n Hk Hm. apply (H5 k n); [lia|exact Hm].
Qed.

(** and no token at all only when no kind matches a non-empty prefix *)
Theorem best_none t : best t = None -> forall k n, k < NKINDS -> match_kind (N.of_nat k) t = Some n -> n = 0.
Proof. intros H. pose proof (scan_all t NKINDS) as S. rewrite <- best_fold, H in S. exact S. Qed.
