"""Canonical forms of documents up to the spelling of implicit component names (hash-<sha256>)."""
import json
import re

HASH = re.compile(r"hash-[0-9a-f]{64}")
REF = re.compile(r"^#/components/schemas/(.+)$")


def canon_doc(doc):
    """rename implicit components h0, h1, ... in order of first discovery by a deterministic
    breadth-first traversal: the paths (keys sorted), then every component reached, in
    discovery order; unreachable implicit components last, ordered by their canonical content"""
    schemas = ((doc.get("components") or {}).get("schemas") or {})
    order = {}
    queue = []
    seen_comp = set()

    def visit(v):
        if isinstance(v, dict):
            for k in sorted(v):
                if k == "$ref" and isinstance(v[k], str):
                    m = REF.match(v[k])
                    if m:
                        name = m.group(1)
                        if HASH.fullmatch(name) and name not in order:
                            order[name] = "h%d" % len(order)
                        if name not in seen_comp:
                            seen_comp.add(name)
                            queue.append(name)
                else:
                    visit(v[k])
        elif isinstance(v, list):
            for x in v:
                visit(x)
    visit(doc.get("paths"))
    while queue:
        name = queue.pop(0)
        if name in schemas:
            visit(schemas[name])
    # named components are roots too (in name order), then whatever is left
    for name in sorted(n for n in schemas if not HASH.fullmatch(n)):
        if name not in seen_comp:
            seen_comp.add(name)
            queue.append(name)
            while queue:
                x = queue.pop(0)
                if x in schemas:
                    visit(schemas[x])
    rest = [n for n in schemas if HASH.fullmatch(n) and n not in order]

    def content_key(n):
        return HASH.sub("H", json.dumps(schemas[n], sort_keys=True))
    for n in sorted(rest, key=content_key):
        order[n] = "h%d" % len(order)
    txt = json.dumps(doc, sort_keys=True)
    txt = HASH.sub(lambda m: order.get(m.group(0)) or m.group(0), txt)
    return json.loads(txt)
