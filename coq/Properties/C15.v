(** Property C15 — language-server answers depend only on current texts, not on edit history.

    Proved here, for every history of any length over any number of documents: after any
    sequence of open / (multi-)change / close notifications whose incremental changes denote
    text spans of the client's own document (positions computed by the client, texts with
    LF / CRLF line ends, no range end inside a CRLF pair), the server has not died and its
    store equals the client's ([docs_track_client]); an ordered change range (start position not after the end
    position, same line or not) never panics whatever the positions, hence the server survives
    every history of ordered changes ([server_survives]; F5 fixed; the pinned conversion is
    refuted by a witness). Since every answer and every diagnostic is computed by a refresh
    from the store (and, for files not open, from disk), equality of stores is the core of
    history independence; the refresh itself, the diagnostics bookkeeping (F7) and liveness
    on failing requests (F6) are carried by the monitors on the real binary. *)
From Oal Require Import Text Position PositionProofs Lsp LspProofs.

Theorem C15_docs_track_client : forall h s,
  wf_history s h -> run s (map ev_to_server h) = Some (client_run s h).
Proof. exact docs_track_client. Qed.
Print Assumptions C15_docs_track_client.

Theorem C15_edit_applies_exactly : forall a b c w,
  crlf_wf (a ++ b ++ c) = true ->
  inside_crlf a (b ++ c) = false -> inside_crlf (a ++ b) c = false ->
  apply_change (a ++ b ++ c)
    (CIncr (fst (client_pos a)) (snd (client_pos a)) (fst (client_pos (a ++ b))) (snd (client_pos (a ++ b))) w)
  = Some (a ++ w ++ c).
Proof. exact edit_applies_exactly. Qed.
Print Assumptions C15_edit_applies_exactly.

Theorem C15_change_never_panics : forall doc sl sc el ec w,
  pos_le sl sc el ec -> apply_change doc (CIncr sl sc el ec w) <> None.
Proof. exact change_never_panics. Qed.
Print Assumptions C15_change_never_panics.

(** the server process stays alive: any history of any length whose incremental changes are
    ordered ranges (start not after end, as the protocol requires) -- at arbitrary positions,
    beyond the line, beyond the text, inside surrogate or CRLF pairs, on any store -- never
    reaches the panic state *)
Theorem C15_server_survives : forall h, Forall ordered_event h -> forall s, run s h <> None.
Proof. exact server_survives. Qed.
Print Assumptions C15_server_survives.

Theorem C15_mid_surrogate_crash_pinned_refuted :
  let doc := [128521; 97; 98; 99]%N in
  replace_range doc (p2u_go_pinned doc 0 1 0 0 0) (p2u_go_pinned doc 0 3 0 0 0) [122%N] = None
  /\ apply_change doc (CIncr 0 1 0 3 [122%N]) = Some [128521; 122; 98; 99]%N.
Proof. exact mid_surrogate_crash_pinned. Qed.
Print Assumptions C15_mid_surrogate_crash_pinned_refuted.

(** non-vacuity: a two-change notification on a document with an astral character and CRLF *)
Example C15_wf_history_inhabited :
  wf_history [] [COpen 1 [97; 128521; CR; LF; 98];
                 CChange 1 [KSpan [97] [128521] [CR; LF; 98] [120; 121]; KSpan [97; 120; 121; CR; LF] [98] [] []];
                 CClose 1].
Proof.
  cbn. repeat split; reflexivity.
Qed.
