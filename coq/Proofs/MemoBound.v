(** The memo table of the parser model never holds two results for one (cursor, tag), hence a
    memoised production is evaluated at most once per cursor, and the table has at most
    (number of tokens + 1) x (number of tags) entries: the part of "memoisation keeps parsing
    linear" that is about the table (the bound on token reads is measured, not proved).

    The argument needs the termination certificate of PegTerm ([cons], [rank]): while the body
    of a memoised production runs at cursor [s], every other memoised evaluation that starts
    at the same cursor is smaller in the order (rank of what may be called before a token is
    consumed, size of the expression); so the body cannot insert its own key. *)
From Coq Require Import Lia Arith PeanoNat List Bool.
From Oal Require Import Peg PegProofs PegTerm.

Section Bound.
Variable class_ok : N -> N -> bool.
Variable is_trivia : N -> bool.
Variable K_IDENT_REF : N.
Variable g : nat -> pexp.
Variable cons : nat -> bool.
Variable rank : nat -> nat.
Variables R Z : nat.
Hypothesis Hg : forall nt, prod_okb g cons rank R Z nt = true.
Variable toks : list N.
Variable tag_body : N -> pexp.
Hypothesis g_wf : forall nt, PegProofs.wf_pexp tag_body (g nt).
Variable tags : list N.

Notation run := (Peg.run class_ok is_trivia K_IDENT_REF g toks).
Notation runm := (Peg.runm class_ok is_trivia K_IDENT_REF g toks).
Notation skip := (Peg.skip is_trivia toks).
Notation kind_at := (Peg.kind_at toks).
Notation wf := (PegProofs.wf_pexp tag_body).
Notation tok := (PegProofs.table_ok class_ok is_trivia K_IDENT_REF g toks tag_body).
Notation lrank := (PegTerm.lrank cons rank).
Notation consumes := (PegTerm.consumes cons).

(** the tags that occur in an expression *)
Fixpoint ptags (p : pexp) : list N :=
  match p with
  | Memo tag a => tag :: ptags a
  | Seq2 a b | Alt2 a b | IfThen a b => ptags a ++ ptags b
  | Mk _ a | Collapse _ a => ptags a
  | _ => []
  end.
Hypothesis g_tags : forall nt, incl (ptags (g nt)) tags.

Definition keys (st : mstate) : list (nat * N) := map fst (table st).

(** * cursors stay within the token list *)
Lemma skip_from_le rest : forall s, skip_from is_trivia rest s <= s + length rest.
Proof. induction rest as [|k rest IH]; intros s; cbn [skip_from length]; [lia|]. destruct (is_trivia k); [specialize (IH (S s)); lia|lia]. Qed.
Lemma skip_le s : s <= length toks -> skip s <= length toks.
Proof. intros H. unfold Peg.skip. pose proof (skip_from_le (skipn s toks) s). rewrite skipn_length in H0. lia. Qed.

Lemma run_bounded : forall n p s acc s' m, run n p s acc = Ok s' m -> s <= length toks -> s' <= length toks.
Proof.
  induction n as [|n IH]; intros p s acc s' m H Hs; [discriminate|].
  rewrite run_eq in H. destruct p.
  - injection H as <- _. exact Hs.
  - destruct (kind_at s) as [k|] eqn:Ek; [|discriminate]. destruct (class_ok c k); [|discriminate].
    injection H as <- _. apply skip_le. unfold Peg.kind_at in Ek. assert (s < length toks) by (apply nth_error_Some; congruence). lia.
  - destruct (run n p1 s acc) as [s1 m1| |] eqn:E1; try discriminate.
    destruct (run n p2 s1 (acc ++ m1)) as [s2 m2| |] eqn:E2; try discriminate. injection H as <- _. eauto.
  - destruct (run n p1 s acc) as [s1 m1| |] eqn:E1; try discriminate; [injection H as <- _; eauto|eauto].
  - destruct (run n p s []) as [s1 m1| |] eqn:E1; try discriminate. injection H as <- _. eauto.
  - destruct (run n p s []) as [s1 m1| |] eqn:E1; try discriminate.
    assert (s1 = s') by (destruct m1 as [|x [|y l]]; injection H as <- _; reflexivity). subst. eauto.
  - eauto.
  - eauto.
  - destruct (run n p1 s acc) as [s1 m1| |] eqn:E1; try discriminate.
    + destruct (run n p2 s1 (acc ++ m1)) as [s2 m2| |] eqn:E2; try discriminate. injection H as <- _. eauto.
    + injection H as <- _. exact Hs.
  - destruct (ref_func K_IDENT_REF toks acc); [discriminate|]. injection H as <- _. exact Hs.
Qed.

(** * the order on memoised evaluations that start at one cursor *)
Definition lexle (a b : nat * nat) : Prop := fst a < fst b \/ (fst a = fst b /\ snd a <= snd b).
Definition kmeas (tag : N) : nat * nat := (lrank (tag_body tag), S (psize (tag_body tag))).
Definition pmeas (p : pexp) : nat * nat := (lrank p, psize p).

Lemma lexle_mono k a1 b1 a2 b2 : lexle k (a1, b1) -> a1 <= a2 -> (a1 = a2 -> b1 <= b2) -> lexle k (a2, b2).
Proof. unfold lexle. destruct k as [k1 k2]. cbn [fst snd]. intros [H|[H1 H2]] Ha Hb; [left; lia|]. destruct (Nat.eq_dec a1 a2) as [->|]; [right; split; [lia|specialize (Hb eq_refl); lia]|left; lia]. Qed.

(** what a run adds to the table: pairwise different keys, none of them present before, each at
    a cursor not before the start (and within the tokens), with a known tag, and, when at the
    start cursor itself, not above the running expression in the order *)
Definition new_ok (p : pexp) (s : nat) (st : mstate) (new : list ((nat * N) * res)) : Prop :=
  NoDup (map fst new) /\
  forall s2 tag2, In (s2, tag2) (map fst new) ->
    ~ In (s2, tag2) (keys st) /\ s <= s2 /\ (s <= length toks -> s2 <= length toks) /\ In tag2 tags /\
    (s2 = s -> lexle (kmeas tag2) (pmeas p)).

Lemma NoDup_app_intro {A} (l1 l2 : list A) :
  NoDup l1 -> NoDup l2 -> (forall x, In x l1 -> ~ In x l2) -> NoDup (l1 ++ l2).
Proof.
  induction l1 as [|a l1 IH]; intros H1 H2 Hd; cbn [app]; [exact H2|].
  inversion H1; subst. constructor.
  - intros Hin. apply in_app_or in Hin as [Hin|Hin]; [contradiction|]. apply (Hd a); [left; reflexivity|exact Hin].
  - apply IH; [assumption|assumption|]. intros x Hx. apply Hd. right. exact Hx.
Qed.

Lemma new_ok_nil p s st : new_ok p s st [].
Proof. split; [constructor|]. intros s2 tag2 []. Qed.

Lemma new_ok_weaken p p' s st new :
  (forall k, lexle k (pmeas p') -> lexle k (pmeas p)) -> new_ok p' s st new -> new_ok p s st new.
Proof.
  intros Hle [Hnd Hk]. split; [exact Hnd|]. intros s2 tag2 Hin. destruct (Hk s2 tag2 Hin) as (A & B & C & D & E).
  repeat split; try assumption. intros Heq. apply Hle, E, Heq.
Qed.

Lemma new_ok_app p pa pb s s1 st st1 na nb :
  table st1 = na ++ table st -> new_ok pa s st na -> new_ok pb s1 st1 nb ->
  s <= s1 -> (s <= length toks -> s1 <= length toks) ->
  (forall k, lexle k (pmeas pa) -> lexle k (pmeas p)) ->
  (s1 = s -> forall k, lexle k (pmeas pb) -> lexle k (pmeas p)) ->
  new_ok p s st (nb ++ na).
Proof.
  intros Ht [Hnda Hka] [Hndb Hkb] Hs Hlen Hla Hlb.
  assert (Hkeys1 : keys st1 = map fst na ++ keys st) by (unfold keys; rewrite Ht, map_app; reflexivity).
  split.
  - rewrite map_app. apply NoDup_app_intro; [exact Hndb|exact Hnda|].
    intros [s2 tag2] Hb Ha. destruct (Hkb s2 tag2 Hb) as (A & _). apply A. rewrite Hkeys1. apply in_or_app. left. exact Ha.
  - intros s2 tag2 Hin. rewrite map_app in Hin. apply in_app_or in Hin as [Hin|Hin].
    + destruct (Hkb s2 tag2 Hin) as (A & B & C & D & E). repeat split.
      * intros H. apply A. rewrite Hkeys1. apply in_or_app. right. exact H.
      * lia.
      * intros H. apply C, Hlen, H.
      * exact D.
      * intros Heq. assert (s1 = s) by lia. apply (Hlb H). apply E. lia.
    + destruct (Hka s2 tag2 Hin) as (A & B & C & D & E). repeat split; try assumption. intros Heq. apply Hla, E, Heq.
Qed.

Lemma tlookup_none t s tag : tlookup t s tag = None -> ~ In (s, tag) (map fst t).
Proof.
  induction t as [|[[s' tag'] r] t IH]; cbn [tlookup map fst In]; [intros _ []|].
  destruct (Nat.eqb s s' && N.eqb tag tag') eqn:E; [discriminate|]. intros H [Heq|Hin]; [|exact (IH H Hin)].
  inversion Heq; subst. rewrite Nat.eqb_refl, N.eqb_refl in E. discriminate.
Qed.

(** what memo_transparent and run_progress give for a sub-evaluation *)
Lemma sub_eval n p s acc st r st' : wf p -> tok st -> runm n p s acc st = (r, st') ->
  tok st' /\ (forall s1 m1, r = Ok s1 m1 -> s <= s1 /\ (consumes p = true -> s < s1) /\ (s <= length toks -> s1 <= length toks)).
Proof.
  intros Hwf Hst H. destruct (memo_transparent class_ok is_trivia K_IDENT_REF g toks tag_body g_wf n p s acc st r st' Hwf Hst H) as [T X].
  split; [exact T|]. intros s1 m1 ->. destruct (X ltac:(discriminate)) as [m Hm].
  destruct (run_progress class_ok is_trivia K_IDENT_REF g cons rank R Z Hg toks _ _ _ _ _ _ Hm) as [A B].
  repeat split; [exact A|intros Hc; apply B, Hc|intros Hl; exact (run_bounded _ _ _ _ _ _ Hm Hl)].
Qed.

Lemma incl_app_l {A} (a b c : list A) : incl (a ++ b) c -> incl a c.
Proof. intros H x Hx. apply H, in_or_app. left. exact Hx. Qed.
Lemma incl_app_r {A} (a b c : list A) : incl (a ++ b) c -> incl b c.
Proof. intros H x Hx. apply H, in_or_app. right. exact Hx. Qed.


Theorem runm_new : forall n p s acc st r st',
  wf p -> incl (ptags p) tags -> tok st -> runm n p s acc st = (r, st') -> r <> Fuel ->
  exists new, table st' = new ++ table st /\ new_ok p s st new.
Proof.
  induction n as [|n IH]; intros p s acc st r st' Hwf Htg Hst H Hr.
  { cbn in H. inversion H; subst. contradiction. }
  destruct p; cbn [Peg.runm] in H; cbn [PegProofs.wf_pexp] in Hwf; cbn [ptags] in Htg.
  - (* Eps *) inversion H; subst. exists []. split; [reflexivity|apply new_ok_nil].
  - (* Tok *)
    exists []. split; [|apply new_ok_nil].
    destruct (kind_at s) as [k|]; [destruct (class_ok c k)|]; inversion H; subst; reflexivity.
  - (* Seq2 *)
    destruct Hwf as [Ha Hb]. pose proof (incl_app_l _ _ _ Htg) as Hta. pose proof (incl_app_r _ _ _ Htg) as Htb.
    destruct (runm n p1 s acc st) as [ra st1] eqn:Ea. destruct (sub_eval _ _ _ _ _ _ _ Ha Hst Ea) as [T1 P1].
    assert (Wa : forall k, lexle k (pmeas p1) -> lexle k (pmeas (Seq2 p1 p2))).
    { intros k Hk. unfold pmeas in *. cbn [PegTerm.lrank psize]. eapply lexle_mono; [exact Hk|lia|lia]. }
    destruct ra as [s1 m1| |].
    + destruct (IH _ _ _ _ _ _ Ha Hta Hst Ea ltac:(discriminate)) as (na & Hna & Oka).
      destruct (runm n p2 s1 (acc ++ m1) st1) as [rb st2] eqn:Eb.
      assert (Hrb : rb <> Fuel) by (destruct rb; inversion H; subst; congruence).
      destruct (IH _ _ _ _ _ _ Hb Htb T1 Eb Hrb) as (nb & Hnb & Okb).
      destruct (P1 s1 m1 eq_refl) as (Q1 & Q2 & Q3).
      exists (nb ++ na). split.
      * assert (st' = st2) by (destruct rb; inversion H; subst; reflexivity). subst. rewrite Hnb, Hna, app_assoc. reflexivity.
      * apply (new_ok_app (Seq2 p1 p2) p1 p2 s s1 st st1 na nb Hna Oka Okb Q1 Q3 Wa).
        intros Heq k Hk. unfold pmeas in *. cbn [PegTerm.lrank psize].
        destruct (consumes p1) eqn:Ec; [specialize (Q2 eq_refl); lia|]. eapply lexle_mono; [exact Hk|lia|lia].
    + inversion H; subst. destruct (IH _ _ _ _ _ _ Ha Hta Hst Ea ltac:(discriminate)) as (na & Hna & Oka).
      exists na. split; [exact Hna|]. apply (new_ok_weaken _ p1); assumption.
    + inversion H; subst. contradiction.
  - (* Alt2 *)
    destruct Hwf as [Ha Hb]. pose proof (incl_app_l _ _ _ Htg) as Hta. pose proof (incl_app_r _ _ _ Htg) as Htb.
    destruct (runm n p1 s acc st) as [ra st1] eqn:Ea. destruct (sub_eval _ _ _ _ _ _ _ Ha Hst Ea) as [T1 P1].
    assert (Wa : forall k, lexle k (pmeas p1) -> lexle k (pmeas (Alt2 p1 p2))).
    { intros k Hk. unfold pmeas in *. cbn [PegTerm.lrank psize]. eapply lexle_mono; [exact Hk|lia|lia]. }
    assert (Wb : forall k, lexle k (pmeas p2) -> lexle k (pmeas (Alt2 p1 p2))).
    { intros k Hk. unfold pmeas in *. cbn [PegTerm.lrank psize]. eapply lexle_mono; [exact Hk|lia|lia]. }
    destruct ra as [s1 m1| |].
    + inversion H; subst. destruct (IH _ _ _ _ _ _ Ha Hta Hst Ea ltac:(discriminate)) as (na & Hna & Oka).
      exists na. split; [exact Hna|]. apply (new_ok_weaken _ p1); assumption.
    + destruct (IH _ _ _ _ _ _ Ha Hta Hst Ea ltac:(discriminate)) as (na & Hna & Oka).
      destruct (IH _ _ _ _ _ _ Hb Htb T1 H Hr) as (nb & Hnb & Okb).
      exists (nb ++ na). split; [rewrite Hnb, Hna, app_assoc; reflexivity|].
      apply (new_ok_app (Alt2 p1 p2) p1 p2 s s st st1 na nb Hna Oka Okb (le_n _) (fun x => x) Wa). intros _. exact Wb.
    + inversion H; subst. contradiction.
  - (* Mk *)
    destruct (runm n p s [] st) as [ra st1] eqn:Ea.
    assert (Hra : ra <> Fuel) by (destruct ra; inversion H; subst; congruence).
    destruct (IH _ _ _ _ _ _ Hwf Htg Hst Ea Hra) as (na & Hna & Oka).
    exists na. split; [destruct ra; inversion H; subst; exact Hna|].
    apply (new_ok_weaken _ p); [|exact Oka]. intros x Hx. unfold pmeas in *. cbn [PegTerm.lrank psize]. eapply lexle_mono; [exact Hx|lia|lia].
  - (* Collapse *)
    destruct (runm n p s [] st) as [ra st1] eqn:Ea.
    assert (Hra : ra <> Fuel) by (destruct ra as [? [|? [|? ?]]| |]; inversion H; subst; congruence).
    destruct (IH _ _ _ _ _ _ Hwf Htg Hst Ea Hra) as (na & Hna & Oka).
    exists na. split; [destruct ra as [? [|? [|? ?]]| |]; inversion H; subst; exact Hna|].
    apply (new_ok_weaken _ p); [|exact Oka]. intros x Hx. unfold pmeas in *. cbn [PegTerm.lrank psize]. eapply lexle_mono; [exact Hx|lia|lia].
  - (* Call *)
    destruct (IH _ _ _ _ _ _ (g_wf nt) (g_tags nt) Hst H Hr) as (na & Hna & Oka).
    exists na. split; [exact Hna|]. apply (new_ok_weaken _ (g nt)); [|exact Oka].
    intros x Hx. unfold pmeas in *. cbn [PegTerm.lrank psize].
    pose proof (Hg nt) as Hok. unfold prod_okb in Hok. apply andb_prop in Hok as [Hok _]. apply andb_prop in Hok as [Hok _].
    apply andb_prop in Hok as [_ Hl]. apply Nat.leb_le in Hl.
    unfold lexle in *. destruct x as [x1 x2]. cbn [fst snd] in *. left. lia.
  - (* Memo *)
    destruct Hwf as [Hbody Hwa]. assert (Hta : incl (ptags p) tags) by (intros x Hx; apply Htg; right; exact Hx).
    destruct (tlookup (table st) s tag) as [r0|] eqn:El.
    + inversion H; subst. exists []. split; [reflexivity|apply new_ok_nil].
    + destruct (runm n p s [] st) as [r1 st1] eqn:Ea.
      assert (Hr1 : r1 <> Fuel) by (destruct r1; inversion H; subst; congruence).
      destruct (IH _ _ _ _ _ _ Hwa Hta Hst Ea Hr1) as (na & Hna & [Hnd Hk]).
      exists (((s, tag), r1) :: na). split.
      * destruct r1; inversion H; subst; cbn [table]; rewrite Hna; reflexivity || contradiction.
      * assert (Hfresh : ~ In (s, tag) (map fst na)).
        { intros Hin. destruct (Hk s tag Hin) as (_ & _ & _ & _ & E). specialize (E eq_refl).
          unfold lexle, kmeas, pmeas in E. rewrite <- Hbody in E. cbn [fst snd] in E. lia. }
        split; [cbn [map fst]; constructor; assumption|].
        intros s2 tag2 [Heq|Hin].
        -- inversion Heq; subst s2 tag2. repeat split.
           ++ apply tlookup_none, El.
           ++ lia.
           ++ auto.
           ++ apply Htg. left. reflexivity.
           ++ intros _. unfold lexle, kmeas, pmeas. rewrite <- Hbody. cbn [PegTerm.lrank psize fst snd]. right. split; lia.
        -- destruct (Hk s2 tag2 Hin) as (A & B & C & D & E). repeat split; try assumption.
           intros Heq. specialize (E Heq). unfold pmeas in *. cbn [PegTerm.lrank psize]. eapply lexle_mono; [exact E|lia|lia].
  - (* IfThen *)
    destruct Hwf as [Ha Hb]. pose proof (incl_app_l _ _ _ Htg) as Hta. pose proof (incl_app_r _ _ _ Htg) as Htb.
    destruct (runm n p1 s acc st) as [ra st1] eqn:Ea. destruct (sub_eval _ _ _ _ _ _ _ Ha Hst Ea) as [T1 P1].
    assert (Wa : forall k, lexle k (pmeas p1) -> lexle k (pmeas (IfThen p1 p2))).
    { intros k Hk. unfold pmeas in *. cbn [PegTerm.lrank psize]. eapply lexle_mono; [exact Hk|lia|lia]. }
    destruct ra as [s1 m1| |].
    + destruct (IH _ _ _ _ _ _ Ha Hta Hst Ea ltac:(discriminate)) as (na & Hna & Oka).
      destruct (runm n p2 s1 (acc ++ m1) st1) as [rb st2] eqn:Eb.
      assert (Hrb : rb <> Fuel) by (destruct rb; inversion H; subst; congruence).
      destruct (IH _ _ _ _ _ _ Hb Htb T1 Eb Hrb) as (nb & Hnb & Okb).
      destruct (P1 s1 m1 eq_refl) as (Q1 & Q2 & Q3).
      exists (nb ++ na). split.
      * assert (st' = st2) by (destruct rb; inversion H; subst; reflexivity). subst. rewrite Hnb, Hna, app_assoc. reflexivity.
      * apply (new_ok_app (IfThen p1 p2) p1 p2 s s1 st st1 na nb Hna Oka Okb Q1 Q3 Wa).
        intros Heq k Hk. unfold pmeas in *. cbn [PegTerm.lrank psize].
        destruct (consumes p1) eqn:Ec; [specialize (Q2 eq_refl); lia|]. eapply lexle_mono; [exact Hk|lia|lia].
    + inversion H; subst. destruct (IH _ _ _ _ _ _ Ha Hta Hst Ea ltac:(discriminate)) as (na & Hna & Oka).
      exists na. split; [exact Hna|]. apply (new_ok_weaken _ p1); assumption.
    + inversion H; subst. contradiction.
  - (* NotRefFunc *) inversion H; subst. exists []. split; [reflexivity|apply new_ok_nil].
Qed.

(** * the bound *)
Lemma NoDup_bounded (l : list (nat * N)) L :
  NoDup l -> (forall s t, In (s, t) l -> s <= L /\ In t tags) -> length l <= S L * length tags.
Proof.
  intros Hnd Hb. rewrite <- (seq_length (S L) 0), <- prod_length.
  apply NoDup_incl_length; [exact Hnd|]. intros [s t] Hin. destruct (Hb s t Hin) as [A B].
  apply in_prod; [apply in_seq; lia|exact B].
Qed.

Theorem memo_table_bound n p s acc r st' :
  wf p -> incl (ptags p) tags -> s <= length toks ->
  runm n p s acc (mk_mstate [] 0 0) = (r, st') -> r <> Fuel ->
  NoDup (keys st') /\ length (table st') <= S (length toks) * length tags.
Proof.
  intros Hwf Htg Hs H Hr.
  assert (Hst : tok (mk_mstate [] 0 0)) by (intros s0 tag0 r0 E; discriminate E).
  destruct (runm_new n p s acc _ r st' Hwf Htg Hst H Hr) as (new & Hnew & [Hnd Hk]).
  cbn [table] in Hnew. rewrite app_nil_r in Hnew.
  assert (Hkeys : keys st' = map fst new) by (unfold keys; rewrite Hnew; reflexivity).
  split; [rewrite Hkeys; exact Hnd|].
  rewrite <- (map_length fst (table st')). fold (keys st'). rewrite Hkeys.
  apply NoDup_bounded; [exact Hnd|]. intros s2 t2 Hin. destruct (Hk s2 t2 Hin) as (_ & _ & C & D & _). split; [apply C, Hs|exact D].
Qed.
End Bound.

(** * the oal grammar: two tags, so at most 2 (n + 1) entries, each (cursor, tag) once *)
From Oal Require Import Grammar GrammarProofs GrammarTerm.
Local Open Scope nat_scope.

Definition oal_tags : list N := [TAG_TERM; TAG_EXPRESSION].

Lemma oal_tags_checks :
  forallb (fun nt => forallb (fun t => existsb (N.eqb t) oal_tags) (ptags (oal_grammar nt))) (List.seq 0%nat NP) = true.
Proof. vm_compute. reflexivity. Qed.

Lemma oal_g_tags : forall nt, incl (ptags (oal_grammar nt)) oal_tags.
Proof.
  intros nt. destruct (Nat.lt_ge_cases nt NP) as [Hlt|Hge].
  - pose proof oal_tags_checks as H. rewrite forallb_forall in H.
    specialize (H nt ltac:(apply List.in_seq; unfold NP in *; lia)). rewrite forallb_forall in H.
    intros t Ht. specialize (H t Ht). apply existsb_exists in H as (x & Hx & E). apply N.eqb_eq in E. subst. exact Hx.
  - assert (Hg : oal_grammar nt = Tok 999).
    { unfold NP in Hge. do 63 (destruct nt as [|nt]; [lia|]). reflexivity. }
    rewrite Hg. intros t [].
Qed.

Theorem oal_memo_table_bound n toks r st :
  parse_memo n toks = (r, st) -> r <> Fuel ->
  NoDup (map fst (table st)) /\ length (table st) <= 2 * S (length toks).
Proof.
  intros H Hr. unfold parse_memo in H.
  destruct (memo_table_bound class_ok is_trivia T_IDENT_REF oal_grammar ocons orank OR OZ oal_prod_ok toks oal_tag_body oal_wf
              oal_tags oal_g_tags n (Call P_PROGRAM) (skip is_trivia toks 0) [] r st I (fun _ H => match H with end)) as [A B]; try assumption.
  - apply skip_le. lia.
  - split; [exact A|]. cbn [oal_tags length] in B. lia.
Qed.

(** with the fuel that always suffices, for every token list *)
Corollary oal_memo_bodies_run_once toks :
  let n := length toks * (S OR * S OZ) + S (orank P_PROGRAM) * S OZ + 1 in
  NoDup (map fst (table (snd (parse_memo n toks)))) /\ length (table (snd (parse_memo n toks))) <= 2 * S (length toks).
Proof.
  cbn zeta. destruct (parse_memo _ toks) as [r st] eqn:E. cbn [snd].
  apply (oal_memo_table_bound _ toks r st E).
  pose proof (oal_parse_memo_terminates toks _ (le_n _)) as H. rewrite oal_bound_is_linear in H. rewrite E in H. exact H.
Qed.
