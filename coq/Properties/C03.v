(** Property C03 — every emitted document is a closed, structurally valid OpenAPI 3
    description. Statements only; proofs in Proofs/SpecUriProofs.v.

    Proved here, for every URI / status (no size bound): path variables and required path
    parameters correspond one to one and in order; every response key is default, a code
    100-599 or 1XX-5XX; operationId uniqueness is refuted on the faithful model (K6).
    $ref closure, evaluator half, on the evaluator model (Model/Eval.v, tied to eval.rs on
    every run): in the Spec of every successful evaluation, every reference occurring in a
    relation or in a schema of the reference table names an entry of that table, and no entry
    is left pending ([C03_spec_refs_closed]; invariant: every key mentioned by a value, a scope
    or a table entry is in the table or is the variable of a recursion being evaluated). The
    emitter's half, on the model of oal-openapi's Builder (Model/Builder.v, tied to the real
    Builder on every run: identical JSON documents): the builder never hits its
    `expect("reference should exist")` on the Spec of a successful evaluation
    ([C03_builder_total_on_evaluated_specs]); a reference is written as a `$ref` exactly when
    its entry is kept as a component, and then the name in the `$ref` is a key of
    components.schemas ([C03_ref_written_iff_component_kept], [C03_refs_name_emitted_components]).
    And on the JSON document itself, by a traversal that knows nothing of the builder: wherever
    the document has a member "$ref" with a string value, at any depth, the string is
    "#/components/schemas/" followed by a key of that document's components.schemas
    ([C03_document_refs_resolve]); with the evaluator: every successful evaluation yields a
    document, and all its references resolve ([C03_evaluated_document_closed]). User-chosen map
    keys (property, header, media type, example names) may spell "$ref", but their values are
    objects and are not references. With any base description (Model/BuilderBase.v, C14): every
    reference in the generated parts of the document (the member "paths" and the schema
    components) resolves in the merged document ([C03_document_with_base_refs_resolve]); what
    the base carries outside these parts is the user's. The YAML re-parse clause is checked on
    the implementation only. *)
From Oal Require Import SpecUri SpecUriProofs.
From Oal Require Eval ClosureProofs Builder BuilderProofs RefClosure BuilderBase BaseClosure.

Theorem C03_path_params_match : forall segs,
  forallb wf_seg segs = true -> braces (pattern segs) None = path_params segs.
Proof. exact path_params_match. Qed.
Print Assumptions C03_path_params_match.

Theorem C03_number_status_valid : forall v s,
  status_of_number v = Some s -> valid_key (response_key (Some s)) = true.
Proof. exact number_status_valid. Qed.
Print Assumptions C03_number_status_valid.

Theorem C03_literal_status_valid : forall c s,
  status_of_literal c = Some s -> valid_key (response_key (Some s)) = true.
Proof. exact literal_status_valid. Qed.
Print Assumptions C03_literal_status_valid.

Theorem C03_default_key_valid : valid_key (response_key None) = true.
Proof. exact default_key_valid. Qed.
Print Assumptions C03_default_key_valid.

Theorem C03_out_of_range_rejected : forall v, v < 100 \/ 599 < v -> status_of_number v = None.
Proof. exact out_of_range_rejected. Qed.
Print Assumptions C03_out_of_range_rejected.

Theorem C03_operation_ids_refuted :
  exists m p q, pattern p <> pattern q /\ xfer_id m p = xfer_id m q.
Proof. exact operation_ids_refuted. Qed.
Print Assumptions C03_operation_ids_refuted.

Example C03_wf_inhabited :
  forallb wf_seg [SLit [97]; SVar [105; 100]; SLit []; SVar [110]] = true.
Proof. reflexivity. Qed.

(** * every reference of the evaluated Spec resolves in its reference table *)
Theorem C03_spec_refs_closed : forall P n rs rels table,
  Eval.eval_program false P n rs = Eval.Ok (rels, table) ->
  (forall k, In k (flat_map ClosureProofs.ks_relation rels) -> In k (map fst table)) /\
  (forall k sc, In (k, sc) table -> forall k', In k' (ClosureProofs.ks_schema sc) -> In k' (map fst table)).
Proof. exact ClosureProofs.spec_closed. Qed.
Print Assumptions C03_spec_refs_closed.

(** non-vacuity: two instantiations of a recursive schema, two components, both referenced *)
Example C03_two_components_referenced :
  exists rels sc1 sc2 k1 k2,
    Eval.eval_program false ClosureProofs.ex_rec_P 50 ClosureProofs.ex_rec_rs = Eval.Ok (rels, [(k1, sc1); (k2, sc2)]) /\ k1 <> k2 /\
    In k1 (flat_map ClosureProofs.ks_relation rels) /\ In k2 (flat_map ClosureProofs.ks_relation rels).
Proof. exact ClosureProofs.ex_rec_two_components. Qed.

(** * the builder on the evaluator's Spec *)
Theorem C03_builder_total_on_evaluated_specs : forall strs names P n rs rels table,
  Eval.eval_program false P n rs = Eval.Ok (rels, table) ->
  exists j, Builder.document strs table names rels = Some j.
Proof. exact BuilderProofs.builder_never_panics. Qed.
Print Assumptions C03_builder_total_on_evaluated_specs.

Theorem C03_ref_written_iff_component_kept : forall strs table names k i s,
  Builder.key_pos k table 0 = Some (i, s) ->
  (BuilderProofs.kept strs k s = true -> Builder.reference_json strs table names k = Some (Builder.jref names i)) /\
  (BuilderProofs.kept strs k s = false -> Builder.reference_json strs table names k = Builder.atomic_json strs s).
Proof. exact BuilderProofs.reference_is_ref_iff_kept. Qed.
Print Assumptions C03_ref_written_iff_component_kept.

Theorem C03_refs_name_emitted_components : forall strs table names k i s cs,
  Builder.key_pos k table 0 = Some (i, s) ->
  Builder.reference_json strs table names k = Some (Builder.jref names i) -> BuilderProofs.kept strs k s = true ->
  Builder.components strs table names table 0 [] = Some cs ->
  In (Builder.untagged (Builder.name_at names i)) (map fst cs).
Proof. exact BuilderProofs.refs_name_emitted_components. Qed.
Print Assumptions C03_refs_name_emitted_components.

(** reference closure on the JSON document, by traversal *)
Theorem C03_document_refs_resolve : forall strs table names rels doc,
  Builder.document strs table names rels = Some doc ->
  forall t, RefClosure.jref_in t doc -> RefClosure.resolves doc t.
Proof. exact RefClosure.document_refs_resolve. Qed.
Print Assumptions C03_document_refs_resolve.

Theorem C03_evaluated_document_closed : forall strs names P n rs rels table,
  Eval.eval_program false P n rs = Eval.Ok (rels, table) ->
  exists doc, Builder.document strs table names rels = Some doc /\
              forall t, RefClosure.jref_in t doc -> RefClosure.resolves doc t.
Proof. exact RefClosure.evaluated_document_closed. Qed.
Print Assumptions C03_evaluated_document_closed.

Example C03_document_with_a_reference :
  exists doc, Builder.document (fun _ => []) RefClosure.ex_table [[64; 97]%N] [] = Some doc /\
              RefClosure.jref_in (BuilderKeys.T_refprefix ++ [97%N]) doc /\ RefClosure.schema_names doc = [[97%N]].
Proof. exact RefClosure.ex_doc_has_ref. Qed.

(** with a base description: the references of the generated parts resolve in the merged document *)
Theorem C03_document_with_base_refs_resolve : forall strs table names base rels doc,
  BuilderBase.document_with_base strs table names base rels = Some doc ->
  forall part t, In part (BaseClosure.generated_parts doc) -> RefClosure.jref_in t part -> RefClosure.resolves doc t.
Proof. exact BaseClosure.document_with_base_refs_resolve. Qed.
Print Assumptions C03_document_with_base_refs_resolve.

Theorem C03_evaluated_document_with_base_closed : forall strs names P n rs rels table base,
  Eval.eval_program false P n rs = Eval.Ok (rels, table) ->
  exists doc, BuilderBase.document_with_base strs table names base rels = Some doc /\
              forall part t, In part (BaseClosure.generated_parts doc) -> RefClosure.jref_in t part -> RefClosure.resolves doc t.
Proof. exact BaseClosure.evaluated_document_with_base_closed. Qed.
Print Assumptions C03_evaluated_document_with_base_closed.
