"""Text and token-sequence generators for the front-end checks (C04, C11, C12)."""
import itertools

LEXEME = {
    "KeywordLet": "let", "KeywordRes": "res", "KeywordUse": "use", "KeywordAs": "as", "KeywordOn": "on", "KeywordRec": "rec",
    "IdentifierValue": "a", "IdentifierReference": "@r", "LiteralNumber": "200", "LiteralString": '"s"', "LiteralHttpStatus": "4XX",
    "Property": "'p", "PrimitiveNum": "num", "PrimitiveStr": "str", "PrimitiveUri": "uri", "PrimitiveBool": "bool", "PrimitiveInt": "int",
    "PathElementRoot": "/", "PathElementSegment": "/x", "MethodGet": "get", "MethodPut": "put", "ContentMedia": "media",
    "ContentHeaders": "headers", "ContentStatus": "status", "ControlBraceLeft": "{", "ControlBraceRight": "}", "ControlParenLeft": "(",
    "ControlParenRight": ")", "ControlBracketLeft": "[", "ControlBracketRight": "]", "ControlChevronLeft": "<", "ControlChevronRight": ">",
    "ControlSemicolon": ";", "ControlFullStop": ".", "ControlComma": ",", "OperatorExclamationMark": "!", "OperatorQuestionMark": "?",
    "OperatorAmpersand": "&", "OperatorTilde": "~", "OperatorVerticalBar": "|", "OperatorEqual": "=", "OperatorColon": ":",
    "OperatorDoubleColon": "::", "OperatorArrow": "->", "AnnotationLine": "# a: 1\n", "AnnotationInline": "`a: 1`",
    "Space": " ", "CommentLine": "// c\n", "CommentBlock": "/* c */",
}
ALL_KINDS = list(LEXEME)
# reduced alphabet for exhaustive enumeration: one representative per grammatical role
REDUCED = ["KeywordLet", "KeywordRes", "IdentifierValue", "OperatorEqual", "ControlSemicolon", "PrimitiveNum", "ControlBraceLeft",
           "ControlBraceRight", "Property", "ControlComma", "PathElementRoot", "KeywordOn", "MethodGet", "OperatorArrow",
           "ControlChevronLeft", "ControlChevronRight", "ControlParenLeft", "ControlParenRight", "OperatorVerticalBar", "KeywordRec",
           "AnnotationInline", "Space"]


# expression-level alphabets: sequences over them are enumerated inside `let a = ... ;` and `res ... ;`
EXPR_SMALL = ["IdentifierValue", "PrimitiveNum", "PathElementRoot", "PathElementSegment", "ControlBraceLeft", "ControlBraceRight", "Property",
              "OperatorQuestionMark", "ControlComma", "ControlChevronLeft", "ControlChevronRight", "OperatorVerticalBar", "OperatorArrow", "MethodGet"]
EXPR_LARGE = EXPR_SMALL + ["ControlParenLeft", "ControlParenRight", "ControlBracketLeft", "ControlBracketRight", "OperatorColon", "OperatorDoubleColon",
                           "OperatorAmpersand", "OperatorExclamationMark", "IdentifierReference", "LiteralString", "KeywordOn", "ContentStatus", "OperatorEqual"]
CONTEXTS = [(["KeywordLet", "IdentifierValue", "OperatorEqual"], ["ControlSemicolon"]), (["KeywordRes"], ["ControlSemicolon"])]


def seqs_upto(alphabet, n):
    for k in range(n + 1):
        for s in itertools.product(alphabet, repeat=k):
            yield list(s)


def text_of_kinds(kinds):
    return " ".join(LEXEME[k] for k in kinds)


def nested(depth, opener="(", closer=")", core="num", close=True):
    return "let a = " + opener * depth + core + (closer * depth if close else "") + ";\n"


NESTINGS = [("(", ")", "num"), ("[", "]", "num"), ("{ 'p ", " }", "num"), ("<", ">", "num"), ("{ 'p [", "] }", "num"),
            ("rec x ", "", "num"), ("'p ", "", "num"),
            # nesting with a sibling after the nested part: a later sibling that contains a repetition (a two-segment path, a
            # property list, an application) must not make the earlier one be parsed again
            ("<status=", ", media=/a/b>", "200"), ("<status=", ", media=/a/b, { 'x f a b }>", "200"), ("{ 'p ", ", 'q /a/b }", "num"),
            ("[f ", " /a/b c]", "num"), ("(", " :: /a/b on get -> <>)", "num"), ("{ 'p (", " | { 'a num, 'b str }) }", "num")]


def block_comment_texts(maxlen=4):
    """every block comment body over {*, /, a, space, newline} up to a length, closed and followed by a token, and left open"""
    import itertools
    out = []
    for k in range(0, maxlen + 1):
        for w in itertools.product(["*", "/", "a", " ", "\n"], repeat=k):
            body = "".join(w)
            out.append("/*" + body + "*/ let a = num;")
            if k >= 2 and k % 2 == 0:
                out.append("let a /*" + body + "*/ = num; /*" + body)
    return out


def mutate_text(rng, src):
    """token-ish / byte-level mutations of a valid program"""
    ops = rng.randint(1, 3)
    s = src
    for _ in range(ops):
        if not s:
            break
        i = rng.randrange(len(s))
        x = rng.random()
        if x < 0.25:
            s = s[:i] + s[i + rng.randint(1, 4):]
        elif x < 0.5:
            j = rng.randrange(len(s))
            s = s[:i] + s[j:j + rng.randint(1, 6)] + s[i:]
        elif x < 0.75:
            s = s[:i] + rng.choice(["§", "é", "😉", "\u0000", "﻿", "\"", "`", "/*", "'", "@", "#", "\r", "99999999999999999999999",
                                    "}", "{", "<", ">", "(", ")", "::", "->", "let", "res", "rec x", "."]) + s[i:]
        else:
            j = rng.randrange(len(s))
            a, b = min(i, j), max(i, j)
            s = s[:a] + s[b:b + 3] + s[a + 3:b] + s[a:a + 3] + s[b + 3:]
    return s


def unicode_garbage(rng, n):
    pool = ["a", " ", "\n", "\r\n", "é", "€", "😉", "\u0000", "﻿", " ", "\U0010ffff", "'", '"', "`", "#", "/", "*", "@", "{", "<",
            "let", "res", "=", ";", "1", "5XX", "\t", "\\", "$", "%", "~"]
    return "".join(rng.choice(pool) for _ in range(rng.randint(0, n)))
