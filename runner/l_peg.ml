(* layer L2: the parser model on token-kind codes.
   G <k>*   -> pure: <end> <tree> | memo: <end> <tree> reads=<n> hits=<n> size=<n>
   tree: a node is written (k child ...), a leaf is a bare integer *)
open Conv
open Peg
open Grammar

let rec show (t : tree) : string =
  match t with
  | Leaf i -> string_of_int (int_of_nat i)
  | Node (k, cs) -> "(" ^ String.concat " " (string_of_int (int_of_n k) :: Stdlib.List.map show cs) ^ ")"

let show_res = function
  | Ok (s, ms) -> Printf.sprintf "%d %s" (int_of_nat s) (String.concat " " (Stdlib.List.map show ms))
  | Fail -> "fail"
  | Fuel -> "fuel"

let run () =
  each_line (fun line ->
      match words line with
      | "G" :: ks ->
          let toks = Stdlib.List.map (fun w -> n_of_int (int_of_string w)) ks in
          let fuel = nat_of_int (40 * (Stdlib.List.length toks + 4)) in
          let memo_only = Stdlib.List.length toks > 40 in
          let rm, st = parse_memo fuel toks in
          let pure = if memo_only then "skipped" else show_res (parse_pure fuel toks) in
          Printf.printf "%s | %s reads=%d hits=%d size=%d\n" pure (show_res rm) (int_of_nat st.reads) (int_of_nat st.hits)
            (Stdlib.List.length st.table)
      | _ -> print_endline "?")
