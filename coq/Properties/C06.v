(** Property C06 — compilation is deterministic. In Gallina every function is
    deterministic, so the content of the property is that the output depends on nothing the
    model leaves open. Oracle.v gives the one iterated hash collection of the compile path
    an explicit iteration-order oracle: on the pinned tree two oracles give two documents
    (F3); after the fix the emitter is oracle free and keeps source order. The universal
    part is thin by nature; the weight is on the tie (unordered-collection inventory of the
    current source + byte comparison across fresh processes, threads and repetitions).
    On the evaluator model (tied to eval.rs on every run) the evaluation starts from the empty
    context (no counter, table or scope survives a compilation) and its result does not depend
    on the fuel: a stratified program has exactly one result ([C06_evaluation_has_one_result]). *)
From Coq Require Import Permutation.
From Oal Require Import Oracle OracleProofs.
From Oal Require Eval Strat TermProofs FuelProofs.

Theorem C06_examples_keep_order : forall ex, map fst (content_examples ex) = map fst ex.
Proof. exact examples_keep_order. Qed.
Print Assumptions C06_examples_keep_order.

Theorem C06_examples_lossless : forall ex, content_examples ex = ex.
Proof. exact examples_lossless. Qed.
Print Assumptions C06_examples_lossless.

Theorem C06_examples_order_pinned_refuted :
  exists (o1 o2 : examples -> examples) ex,
    (forall e, Permutation (o1 e) e) /\ (forall e, Permutation (o2 e) e) /\
    content_examples_pinned o1 ex <> content_examples_pinned o2 ex.
Proof. exact examples_order_pinned_refuted. Qed.
Print Assumptions C06_examples_order_pinned_refuted.

Theorem C06_scope_ids_shift : forall n k, scope_ids n k = map (fun i => (i + k)%N) (scope_ids n 0).
Proof. exact scope_ids_shift. Qed.
Print Assumptions C06_scope_ids_shift.

Theorem C06_static_counter_refuted : exists p1 p2, ids_of_second_run_static p1 p2 <> ids_of_run p2.
Proof. exact scope_ids_static_differs. Qed.
Print Assumptions C06_static_counter_refuted.

(** * the evaluator: one result per program, whatever the fuel *)
Theorem C06_result_independent_of_fuel : forall lx P n m rs r,
  Eval.eval_program lx P n rs = r -> r <> Eval.Fuel -> n <= m -> Eval.eval_program lx P m rs = r.
Proof. exact FuelProofs.eval_program_fuel_mono. Qed.
Print Assumptions C06_result_independent_of_fuel.

Theorem C06_evaluation_has_one_result : forall P rs,
  Strat.stratified P rs = true ->
  exists N r, r <> Eval.Fuel /\ forall n, N <= n -> Eval.eval_program false P n rs = r.
Proof. exact TermProofs.stratified_result. Qed.
Print Assumptions C06_evaluation_has_one_result.
