(** Termination of the unifier: on a triangular substitution every call of [unify] ends, with
    enough fuel, in a substitution or an error -- never in [UFuel]. The measure is the classic
    one: the number of unbound variables of a fixed finite universe, then the size of the two
    tags under the current substitution. Also: more fuel never changes an answer. *)
From Oal Require Import Tag Unify UnifyProofs.
From Coq Require Import Lia Arith.

(** * more fuel, same answer *)
Lemma map_opt_mono {A B} (f f' : A -> option B) l ys :
  (forall x y, In x l -> f x = Some y -> f' x = Some y) -> map_opt f l = Some ys -> map_opt f' l = Some ys.
Proof.
  revert ys. induction l as [|x l IH]; intros ys Hf H; cbn [map_opt] in *; [exact H|].
  destruct (f x) as [y|] eqn:Ex; [|discriminate]. rewrite (Hf x y (or_introl eq_refl) Ex).
  destruct (map_opt f l) as [ys'|] eqn:El; [|discriminate].
  rewrite (IH ys' (fun x0 y0 Hin => Hf x0 y0 (or_intror Hin)) eq_refl). exact H.
Qed.

Lemma reduce_S : forall n s t r, reduce n s t = Some r -> reduce (S n) s t = Some r.
Proof.
  induction n as [|n IH]; intros s t r H; [discriminate|].
  cbn [reduce] in H. change (reduce (S (S n)) s t) with
    (match t with
     | TVar v => match lookup s v with Some t' => reduce (S n) s t' | None => Some t end
     | TFunc bs r0 => match map_opt (reduce (S n) s) bs with
                      | Some bs' => match reduce (S n) s r0 with Some r' => Some (TFunc bs' r') | None => None end
                      | None => None end
     | TProperty t' => match reduce (S n) s t' with Some r0 => Some (TProperty r0) | None => None end
     | TBase _ => Some t
     end).
  destruct t as [b|t'|bs r0|v].
  - exact H.
  - destruct (reduce n s t') as [r1|] eqn:E; [|discriminate]. rewrite (IH _ _ _ E). exact H.
  - destruct (map_opt (reduce n s) bs) as [bs'|] eqn:Eb; [|discriminate].
    rewrite (map_opt_mono (reduce n s) (reduce (S n) s) bs bs' (fun x y _ Hx => IH s x y Hx) Eb).
    destruct (reduce n s r0) as [r1|] eqn:E; [|discriminate]. rewrite (IH _ _ _ E). exact H.
  - destruct (lookup s v) as [t'|]; [apply IH, H|exact H].
Qed.

Lemma reduce_weaken n m s t r : reduce n s t = Some r -> n <= m -> reduce m s t = Some r.
Proof. intros H Hle. induction Hle as [|m Hle IH]; [exact H|apply reduce_S, IH]. Qed.

(** the loop over the bindings of two function tags, as written inside [unify_gen] *)
Definition go_args (n : nat) : subst -> list tag -> list tag -> ures :=
  fix go (s : subst) (ls rs : list tag) {struct ls} : ures :=
    match ls with
    | [] => UOk s
    | a :: ls' =>
        match rs with
        | [] => UOk s
        | b :: rs' => match unify n s a b with UOk s' => go s' ls' rs' | e => e end
        end
    end.

Lemma unify_eq n s l r : unify (S n) s l r =
  match reduce n s l, reduce n s r with
  | Some l', Some r' =>
      if tag_eqb l' r' then UOk s
      else match l', r' with
           | TVar v, _ => if occurs v r' then UErr ERecursive else UOk ((v, r') :: s)
           | _, TVar v => if occurs v l' then UErr ERecursive else UOk ((v, l') :: s)
           | TFunc lbs lr, TFunc rbs rr =>
               if negb (Nat.eqb (length lbs) (length rbs)) then UErr EArity
               else match unify n s lr rr with UOk s1 => go_args n s1 lbs rbs | e => e end
           | TProperty a, TProperty b => unify n s a b
           | _, _ => UErr EMismatch
           end
  | _, _ => UFuel
  end.
Proof.
  unfold unify. cbn [unify_gen]. destruct (reduce n s l) as [l'|]; [|reflexivity]. destruct (reduce n s r) as [r'|]; [|reflexivity].
  destruct (tag_eqb l' r'); [reflexivity|].
  destruct l' as [lb|lp|lbs lr|lv]; destruct r' as [rb|rp|rbs rr|rv]; try reflexivity.
Qed.

Lemma go_args_S n : (forall s l r res, unify n s l r = res -> res <> UFuel -> unify (S n) s l r = res) ->
  forall ls rs s res, go_args n s ls rs = res -> res <> UFuel -> go_args (S n) s ls rs = res.
Proof.
  intros Hu. induction ls as [|a ls IH]; intros [|b rs] s res H Hr; cbn [go_args] in *; try exact H.
  destruct (unify n s a b) as [s'|e|] eqn:E.
  - rewrite (Hu _ _ _ _ E ltac:(discriminate)). apply IH; assumption.
  - rewrite (Hu _ _ _ _ E ltac:(discriminate)). exact H.
  - congruence.
Qed.

Lemma unify_S : forall n s l r res, unify n s l r = res -> res <> UFuel -> unify (S n) s l r = res.
Proof.
  induction n as [|n IH]; intros s l r res H Hr; [cbn in H; congruence|].
  rewrite unify_eq in H. rewrite unify_eq.
  destruct (reduce n s l) as [l'|] eqn:El; [|congruence]. destruct (reduce n s r) as [r'|] eqn:Er; [|congruence].
  rewrite (reduce_S _ _ _ _ El), (reduce_S _ _ _ _ Er).
  destruct (tag_eqb l' r'); [exact H|].
  destruct l' as [lb|lp|lbs lr|lv]; destruct r' as [rb|rp|rbs rr|rv]; try exact H.
  - apply IH; assumption.
  - destruct (negb (Nat.eqb (length lbs) (length rbs))); [exact H|].
    destruct (unify n s lr rr) as [s1|e|] eqn:E1.
    + rewrite (IH _ _ _ _ E1 ltac:(discriminate)). apply (go_args_S n IH); assumption.
    + rewrite (IH _ _ _ _ E1 ltac:(discriminate)). exact H.
    + congruence.
Qed.

Lemma unify_weaken n m s l r res : unify n s l r = res -> res <> UFuel -> n <= m -> unify m s l r = res.
Proof. intros H Hr Hle. induction Hle as [|m Hle IH]; [exact H|apply unify_S; assumption]. Qed.

(** * termination *)
Fixpoint tsize (t : tag) : nat :=
  match t with
  | TFunc bs r => S (tsize r + fold_right (fun b acc => tsize b + acc) 0 bs)
  | TProperty t' => S (tsize t')
  | _ => 1
  end.

Lemma tsize_in bs b : In b bs -> tsize b <= fold_right (fun b acc => tsize b + acc) 0 bs.
Proof. induction bs as [|x bs IH]; intros []; cbn [fold_right]; [subst; lia|specialize (IH H); lia]. Qed.

Section Universe.
  Variable V : list N.

  Definition cl (t : tag) : Prop := forall w, occurs w t = true -> In w V.
  Definition wfs (s : subst) : Prop := forall v t, In (v, t) s -> In v V /\ cl t.
  Definition unb (s : subst) (v : N) : bool := match lookup s v with None => true | Some _ => false end.
  Definition ub (s : subst) : nat := length (filter (unb s) V).

  Lemma filter_len_mono {A} (p q : A -> bool) l : (forall x, q x = true -> p x = true) -> length (filter q l) <= length (filter p l).
  Proof.
    intros H. induction l as [|x l IH]; cbn [filter]; [lia|].
    destruct (q x) eqn:Eq; [rewrite (H x Eq); cbn [length]; lia|destruct (p x); cbn [length]; lia].
  Qed.
  Lemma filter_len_strict {A} (p q : A -> bool) l x :
    (forall y, q y = true -> p y = true) -> In x l -> p x = true -> q x = false -> length (filter q l) < length (filter p l).
  Proof.
    intros H. induction l as [|y l IH]; intros Hin Hp Hq; [destruct Hin|].
    cbn [filter]. destruct Hin as [->|Hin].
    - rewrite Hp, Hq. cbn [length]. pose proof (filter_len_mono p q l H). lia.
    - specialize (IH Hin Hp Hq). destruct (q y) eqn:Eq; [rewrite (H y Eq); cbn [length]; lia|destruct (p y); cbn [length]; lia].
  Qed.

  Lemma ub_bind s v u : lookup s v = None -> In v V -> ub ((v, u) :: s) < ub s.
  Proof.
    intros Hl Hin. unfold ub. apply (filter_len_strict _ _ V v); [|exact Hin| |].
    - intros y Hy. unfold unb in *. cbn [lookup] in Hy. destruct (N.eqb y v); [discriminate|exact Hy].
    - unfold unb. rewrite Hl. reflexivity.
    - unfold unb. cbn [lookup]. rewrite N.eqb_refl. reflexivity.
  Qed.

  Lemma occurs_apply_one_or v u : forall t w, occurs w (apply_one v u t) = true -> occurs w t = true \/ occurs w u = true.
  Proof.
    induction t as [x|x IH|xs x IHxs IHx|y] using tag_ind'; intros w H; cbn [apply_one] in H.
    - left. exact H.
    - cbn [occurs] in *. apply IH, H.
    - rewrite occurs_func in H. apply orb_prop in H as [H|H].
      + destruct (IHx w H) as [H'|H']; [left; rewrite occurs_func, H'; reflexivity|right; exact H'].
      + apply existsb_exists in H as (b' & Hin & Hb). apply in_map_iff in Hin as (b & <- & Hin).
        rewrite Forall_forall in IHxs. destruct (IHxs b Hin w Hb) as [H'|H']; [|right; exact H'].
        left. rewrite occurs_func. apply orb_true_iff. right. apply existsb_exists. exists b. auto.
    - destruct (N.eqb y v); [right; exact H|left; exact H].
  Qed.

  Lemma cl_apply s : wfs s -> forall t, cl t -> cl (apply s t).
  Proof.
    induction s as [|[v u] s IH]; intros Hw t Ht; [exact Ht|].
    cbn [apply]. intros w Hocc. apply occurs_apply_one_or in Hocc as [H|H].
    - apply (IH (fun v0 t0 Hin => Hw v0 t0 (or_intror Hin)) t Ht w H).
    - destruct (Hw v u (or_introl eq_refl)) as [_ Hu]. apply Hu, H.
  Qed.

  Lemma cl_func bs r : cl (TFunc bs r) -> cl r /\ forall b, In b bs -> cl b.
  Proof.
    intros H. split.
    - intros w Hw. apply H. rewrite occurs_func, Hw. reflexivity.
    - intros b Hin w Hw. apply H. rewrite occurs_func. apply orb_true_iff. right. apply existsb_exists. exists b. auto.
  Qed.
  Lemma cl_property t : cl (TProperty t) -> cl t.
  Proof. intros H w Hw. apply H. exact Hw. Qed.

  Lemma reduced_func s bs r : reduced s (TFunc bs r) -> reduced s r /\ forall b, In b bs -> reduced s b.
  Proof.
    intros H. split.
    - intros w Hw. apply H. rewrite occurs_func, Hw. reflexivity.
    - intros b Hin w Hw. apply H. rewrite occurs_func. apply orb_true_iff. right. apply existsb_exists. exists b. auto.
  Qed.

  (** what a successful call guarantees besides [unify_spec] *)
  Definition post (s s' : subst) : Prop := wfs s' /\ (s' = s \/ ub s' < ub s).

  Definition goal (s : subst) (l r : tag) : Prop :=
    exists n, unify n s l r <> UFuel /\ forall s', unify n s l r = UOk s' -> post s s'.

  Lemma post_trans s s1 s2 : post s s1 -> post s1 s2 -> post s s2.
  Proof. intros [_ [->|H1]] [W2 [->|H2]]; split; auto; right; lia. Qed.

  Lemma go_args_weaken n m s ls rs res : go_args n s ls rs = res -> res <> UFuel -> n <= m -> go_args m s ls rs = res.
  Proof.
    intros H Hr Hle. induction Hle as [|m Hle IH]; [exact H|]. apply (go_args_S m (unify_S m)); assumption.
  Qed.

  Lemma reduced_apply_id s t : reduced s t -> apply s t = t.
  Proof. apply apply_reduced. Qed.

  Theorem unify_terminates : forall u z s l r,
    TRI s -> wfs s -> cl l -> cl r -> ub s <= u -> tsize (apply s l) + tsize (apply s r) <= z -> goal s l r.
  Proof.
    induction u as [u IHu] using lt_wf_ind. induction z as [z IHz] using lt_wf_ind.
    intros s l r Htri Hw Hl Hr Hu Hz.
    set (N0 := 1 + depth l + depth r + cost s).
    destruct (reduce N0 s l) as [l'|] eqn:El; [|exfalso; exact (reduce_total s l Htri N0 ltac:(unfold N0; lia) El)].
    destruct (reduce N0 s r) as [r'|] eqn:Er; [|exfalso; exact (reduce_total s r Htri N0 ltac:(unfold N0; lia) Er)].
    destruct (reduce_apply s Htri _ _ _ El) as [El1 El2]. destruct (reduce_apply s Htri _ _ _ Er) as [Er1 Er2].
    assert (Hcl : cl l') by (rewrite El1; apply cl_apply; assumption).
    assert (Hcr : cl r') by (rewrite Er1; apply cl_apply; assumption).
    rewrite <- El1, <- Er1 in Hz.
    (* the answer at fuel S m, for any m >= N0, in terms of the sub-calls at fuel m *)
    assert (Hstep : forall m, N0 <= m -> unify (S m) s l r =
              if tag_eqb l' r' then UOk s
              else match l', r' with
                   | TVar v, _ => if occurs v r' then UErr ERecursive else UOk ((v, r') :: s)
                   | _, TVar v => if occurs v l' then UErr ERecursive else UOk ((v, l') :: s)
                   | TFunc lbs lr, TFunc rbs rr =>
                       if negb (Nat.eqb (length lbs) (length rbs)) then UErr EArity
                       else match unify m s lr rr with UOk s1 => go_args m s1 lbs rbs | e => e end
                   | TProperty a, TProperty b => unify m s a b
                   | _, _ => UErr EMismatch
                   end).
    { intros m Hm. rewrite unify_eq, (reduce_weaken _ _ _ _ _ El Hm), (reduce_weaken _ _ _ _ _ Er Hm). reflexivity. }
    assert (Hbind : forall v t, lookup s v = None -> In v V -> cl t -> post s ((v, t) :: s)).
    { intros v t Hlk Hin Ht. split; [|right; apply ub_bind; assumption].
      intros v0 t0 [[= <- <-]|Hin0]; [split; assumption|apply Hw, Hin0]. }
    destruct (tag_eqb l' r') eqn:Eeq.
    { exists (S N0). rewrite (Hstep N0 (le_n _)). split; [discriminate|]. intros s' [= <-]. split; [exact Hw|left; reflexivity]. }
    destruct l' as [lb|lp|lbs lr|lv].
    - (* base on the left *)
      destruct r' as [rb|rp|rbs rr|rv]; try (exists (S N0); rewrite (Hstep N0 (le_n _)); split; [discriminate|intros s' HH; discriminate HH]).
      exists (S N0). rewrite (Hstep N0 (le_n _)). destruct (occurs rv (TBase lb)) eqn:Eo; [split; [discriminate|intros s' HH; discriminate HH]|].
      split; [discriminate|]. intros s' [= <-]. apply Hbind; [apply Er2, occurs_var|apply Hcr, occurs_var|exact Hcl].
    - (* property on the left *)
      destruct r' as [rb|rp|rbs rr|rv]; try (exists (S N0); rewrite (Hstep N0 (le_n _)); split; [discriminate|intros s' HH; discriminate HH]).
      + (* property / property *)
        assert (Ha : apply s lp = lp) by (apply reduced_apply_id; intros w Hw'; apply El2; exact Hw').
        assert (Hb : apply s rp = rp) by (apply reduced_apply_id; intros w Hw'; apply Er2; exact Hw').
        destruct (IHz (tsize lp + tsize rp) ltac:(cbn [tsize] in Hz; lia) s lp rp Htri Hw (cl_property _ Hcl) (cl_property _ Hcr) Hu
                      ltac:(rewrite Ha, Hb; lia)) as (n1 & Hn1 & Hp1).
        exists (S (Nat.max N0 n1)). rewrite (Hstep _ (Nat.le_max_l _ _)).
        rewrite (unify_weaken n1 (Nat.max N0 n1) s lp rp _ eq_refl Hn1 (Nat.le_max_r _ _)). split; [exact Hn1|exact Hp1].
      + exists (S N0). rewrite (Hstep N0 (le_n _)). destruct (occurs rv (TProperty lp)) eqn:Eo; [split; [discriminate|intros s' HH; discriminate HH]|].
        split; [discriminate|]. intros s' [= <-]. apply Hbind; [apply Er2, occurs_var|apply Hcr, occurs_var|exact Hcl].
    - (* function on the left *)
      destruct r' as [rb|rp|rbs rr|rv]; try (exists (S N0); rewrite (Hstep N0 (le_n _)); split; [discriminate|intros s' HH; discriminate HH]).
      + (* function / function *)
        destruct (negb (Nat.eqb (length lbs) (length rbs))) eqn:Ear.
        { exists (S N0). rewrite (Hstep N0 (le_n _)). cbn beta iota. split; [discriminate|intros s' HH; discriminate HH]. }
        destruct (reduced_func s lbs lr El2) as [Rlr Rlbs]. destruct (reduced_func s rbs rr Er2) as [Rrr Rrbs].
        destruct (cl_func lbs lr Hcl) as [Clr Clbs]. destruct (cl_func rbs rr Hcr) as [Crr Crbs].
        cbn [tsize] in Hz.
        set (A := fold_right (fun b acc => tsize b + acc) 0 lbs) in *.
        set (A' := fold_right (fun b acc => tsize b + acc) 0 rbs) in *.
        (* the loop over the bindings *)
        assert (Hgo : forall ls rs s2, (forall a, In a ls -> In a lbs) -> (forall b, In b rs -> In b rbs) ->
                  TRI s2 -> post s s2 ->
                  exists n, go_args n s2 ls rs <> UFuel /\ forall s', go_args n s2 ls rs = UOk s' -> post s s').
        { induction ls as [|a ls IHls]; intros rs s2 Hls Hrs T2 P2.
          - exists 0. cbn [go_args]. split; [discriminate|]. intros s' [= <-]. exact P2.
          - destruct rs as [|b rs].
            + exists 0. cbn [go_args]. split; [discriminate|]. intros s' [= <-]. exact P2.
            + assert (Hina : In a lbs) by (apply Hls; left; reflexivity).
              assert (Hinb : In b rbs) by (apply Hrs; left; reflexivity).
              assert (Gab : goal s2 a b).
              { destruct P2 as [W2 [->|Hlt]].
                - apply (IHz (tsize a + tsize b)); [|exact T2|exact W2|apply Clbs, Hina|apply Crbs, Hinb|exact Hu|].
                  + pose proof (tsize_in lbs a Hina). pose proof (tsize_in rbs b Hinb). fold A in H. fold A' in H0. lia.
                  + rewrite (reduced_apply_id s a (Rlbs a Hina)), (reduced_apply_id s b (Rrbs b Hinb)). lia.
                - apply (IHu (ub s2) ltac:(lia) (tsize (apply s2 a) + tsize (apply s2 b)));
                    [exact T2|exact W2|apply Clbs, Hina|apply Crbs, Hinb|apply le_n|apply le_n]. }
              destruct Gab as (n1 & Hn1 & Hp1).
              destruct (unify n1 s2 a b) as [s3|e|] eqn:E1; [| |contradiction].
              * assert (T3 : TRI s3) by (destruct (unify_sound n1 s2 a b s3 T2 E1) as [T _]; exact T).
                destruct (IHls rs s3 (fun x Hx => Hls x (or_intror Hx)) (fun x Hx => Hrs x (or_intror Hx)) T3 (post_trans s s2 s3 P2 (Hp1 s3 eq_refl)))
                  as (n2 & Hn2 & Hp2).
                exists (Nat.max n1 n2). cbn [go_args].
                rewrite (unify_weaken n1 (Nat.max n1 n2) s2 a b _ E1 ltac:(discriminate) (Nat.le_max_l _ _)).
                rewrite (go_args_weaken n2 (Nat.max n1 n2) s3 ls rs _ eq_refl Hn2 (Nat.le_max_r _ _)). split; [exact Hn2|exact Hp2].
              * exists n1. cbn [go_args]. rewrite E1. split; [discriminate|intros s' HH; discriminate HH]. }
        (* the range first *)
        destruct (IHz (tsize lr + tsize rr) ltac:(lia) s lr rr Htri Hw Clr Crr Hu
                      ltac:(rewrite (reduced_apply_id s lr Rlr), (reduced_apply_id s rr Rrr); lia)) as (n1 & Hn1 & Hp1).
        destruct (unify n1 s lr rr) as [s1|e|] eqn:E1; [| |contradiction].
        * assert (T1 : TRI s1) by (destruct (unify_sound n1 s lr rr s1 Htri E1) as [T _]; exact T).
          destruct (Hgo lbs rbs s1 (fun a Ha => Ha) (fun b Hb => Hb) T1 (Hp1 s1 eq_refl)) as (n2 & Hn2 & Hp2).
          exists (S (Nat.max N0 (Nat.max n1 n2))). rewrite (Hstep _ (Nat.le_max_l _ _)). cbn beta iota.
          rewrite (unify_weaken n1 (Nat.max N0 (Nat.max n1 n2)) s lr rr _ E1 ltac:(discriminate) ltac:(lia)).
          rewrite (go_args_weaken n2 (Nat.max N0 (Nat.max n1 n2)) s1 lbs rbs _ eq_refl Hn2 ltac:(lia)). split; [exact Hn2|exact Hp2].
        * exists (S (Nat.max N0 n1)). rewrite (Hstep _ (Nat.le_max_l _ _)). cbn beta iota.
          rewrite (unify_weaken n1 (Nat.max N0 n1) s lr rr _ E1 ltac:(discriminate) (Nat.le_max_r _ _)). split; [discriminate|intros s' HH; discriminate HH].
      + exists (S N0). rewrite (Hstep N0 (le_n _)). destruct (occurs rv (TFunc lbs lr)) eqn:Eo; [split; [discriminate|intros s' HH; discriminate HH]|].
        split; [discriminate|]. intros s' [= <-]. apply Hbind; [apply Er2, occurs_var|apply Hcr, occurs_var|exact Hcl].
    - (* variable on the left *)
      exists (S N0). rewrite (Hstep N0 (le_n _)). destruct (occurs lv r') eqn:Eo; [split; [discriminate|intros s' HH; discriminate HH]|].
      split; [discriminate|]. intros s' [= <-]. apply Hbind; [apply El2, occurs_var|apply Hcl, occurs_var|exact Hcr].
  Qed.
End Universe.

(** * without a universe: every call terminates *)
Definition svars (s : subst) : list N := flat_map (fun vt : N * tag => fst vt :: vars (snd vt)) s.

Theorem unify_total s l r : TRI s -> exists N, forall n, N <= n -> unify n s l r <> UFuel.
Proof.
  intros Htri. set (V := svars s ++ vars l ++ vars r).
  assert (Hw : wfs V s).
  { intros v t Hin. split.
    - apply in_or_app. left. apply in_flat_map. exists (v, t). split; [exact Hin|left; reflexivity].
    - intros w Hw. apply in_or_app. left. apply in_flat_map. exists (v, t). split; [exact Hin|right; apply occurs_vars, Hw]. }
  assert (Hl : cl V l) by (intros w Hw'; apply in_or_app; right; apply in_or_app; left; apply occurs_vars, Hw').
  assert (Hr : cl V r) by (intros w Hw'; apply in_or_app; right; apply in_or_app; right; apply occurs_vars, Hw').
  destruct (unify_terminates V (ub V s) (tsize (apply s l) + tsize (apply s r)) s l r Htri Hw Hl Hr (le_n _) (le_n _)) as (N & HN & _).
  exists N. intros n Hn. intros Hf. apply HN. destruct (unify N s l r) eqn:E; try reflexivity;
    rewrite (unify_weaken N n s l r _ E ltac:(discriminate) Hn) in Hf; discriminate Hf.
Qed.

Lemma unify_all_S : forall eqs n s i res j, unify_all n s eqs i = (res, j) -> res <> UFuel -> unify_all (S n) s eqs i = (res, j).
Proof.
  unfold unify_all. induction eqs as [|[l r] eqs IH]; intros n s i res j H Hr; cbn [unify_all_gen] in *; [exact H|].
  fold (unify n s l r) in H. fold (unify (S n) s l r).
  destruct (unify n s l r) as [s'|e|] eqn:E.
  - rewrite (unify_S _ _ _ _ _ E ltac:(discriminate)). apply IH; assumption.
  - rewrite (unify_S _ _ _ _ _ E ltac:(discriminate)). exact H.
  - injection H as <- _. contradiction.
Qed.

Lemma unify_all_weaken eqs n m s i res j : unify_all n s eqs i = (res, j) -> res <> UFuel -> n <= m -> unify_all m s eqs i = (res, j).
Proof. intros H Hr Hle. induction Hle as [|m Hle IH]; [exact H|apply unify_all_S; assumption]. Qed.

(** inference of a whole equation list terminates *)
Theorem unify_all_total : forall eqs s i, TRI s -> exists N, forall n, N <= n -> fst (unify_all n s eqs i) <> UFuel.
Proof.
  induction eqs as [|[l r] eqs IH]; intros s i Htri.
  - exists 0. intros n _. discriminate.
  - destruct (unify_total s l r Htri) as [N1 H1].
    destruct (unify N1 s l r) as [s'|e|] eqn:E; [| |exfalso; exact (H1 N1 (le_n _) E)].
    + assert (T' : TRI s') by (destruct (unify_sound N1 s l r s' Htri E) as [T _]; exact T).
      destruct (IH s' (i + 1)%N T') as [N2 H2].
      exists (Nat.max N1 N2). intros n Hn. unfold unify_all. cbn [unify_all_gen]. fold (unify n s l r).
      rewrite (unify_weaken N1 n s l r _ E ltac:(discriminate) ltac:(lia)). apply H2. lia.
    + exists N1. intros n Hn. unfold unify_all. cbn [unify_all_gen]. fold (unify n s l r).
      rewrite (unify_weaken N1 n s l r _ E ltac:(discriminate) Hn). discriminate.
Qed.
