(** Evaluation commutes with renaming the keys of the reference table and the indices of the
    declarations: if every @reference name is renamed by an injective [g] and the declarations
    of each module are permuted by an injective [fd], the evaluator model computes the same
    result with the keys and indices renamed accordingly. Two corollaries: renaming an
    @reference changes nothing but the name of its component (C18); permuting the
    declarations of a module changes nothing but the keys of implicit components (C05). *)
From Oal Require Import Eval.
From Coq Require Import Lia.
Local Open Scope N_scope.

Section KMap.
  Variable g : str -> str.                 (* on @reference names *)
  Variable fdm : N -> N -> N * N.          (* on the positions (module, index) of declarations *)
  Variable frm : N -> N -> N * N.          (* on the positions (module, node) of rec expressions *)

  Definition fk (k : rkey) : rkey :=
    match k with
    | KNamed x => KNamed (g x)
    | KDecl m i => KDecl (fst (fdm m i)) (snd (fdm m i))
    | KRec m i sc => KRec (fst (frm m i)) (snd (frm m i)) sc
    end.

  Fixpoint km_schema (s : schema) : schema :=
    match s with Schema e d t r x => Schema (km_sexpr e) d t r x end
  with km_sexpr (e : sexpr) : sexpr :=
    match e with
    | SRel r => SRel (km_relation r)
    | SUri u => SUri (km_uri u)
    | SArr i => SArr (km_schema i)
    | SObj ps => SObj (map km_property ps)
    | SOp o ss => SOp o (map km_schema ss)
    | SRef k => SRef (fk k)
    | _ => e
    end
  with km_property (p : property) : property :=
    match p with Prop_ n s d r => Prop_ n (km_schema s) d r end
  with km_uri (u : uri) : uri :=
    match u with
    | Uri path prm ex => Uri (map km_useg path) (match prm with Some ps => Some (map km_property ps) | None => None end) ex
    end
  with km_useg (u : useg) : useg :=
    match u with ULit s => ULit s | UVar p => UVar (km_property p) end
  with km_relation (r : relation) : relation :=
    match r with
    | Rel u xs => Rel (km_uri u) (map (fun o => match o with Some t => Some (km_transfer t) | None => None end) xs)
    end
  with km_transfer (t : transfer) : transfer :=
    match t with
    | Xfer ms dom rg prm d s tags id =>
        Xfer ms (km_content dom) (map (fun kc => match kc with (k, c) => (k, km_content c) end) rg)
             (match prm with Some ps => Some (map km_property ps) | None => None end) d s tags id
    end
  with km_content (c : content) : content :=
    match c with
    | Content s st media hd d ex =>
        Content (match s with Some s' => Some (km_schema s') | None => None end) st media
                (match hd with Some ps => Some (map km_property ps) | None => None end) d ex
    end.

  Definition km_props (ps : list property) : list property := map km_property ps.
  Definition km_oprops (o : option (list property)) : option (list property) := match o with Some ps => Some (km_props ps) | None => None end.
  Definition km_ranges (r : ranges) : ranges := map (fun kc : rgkey * content => match kc with (k, c) => (k, km_content c) end) r.
  Definition km_oxfer (o : option transfer) : option transfer := match o with Some t => Some (km_transfer t) | None => None end.

  Fixpoint km_value (v : value) : value :=
    match v with
    | VUri u => VUri (km_uri u)
    | VRel r => VRel (km_relation r)
    | VXfer t => VXfer (km_transfer t)
    | VCont c => VCont (km_content c)
    | VObj ps => VObj (km_props ps)
    | VRanges r => VRanges (km_ranges r)
    | VProp p => VProp (km_property p)
    | VPrim e => VPrim (km_sexpr e)
    | VOp o ss => VOp o (map km_schema ss)
    | VRef k v' a => VRef (fk k) (km_value v') a
    | VArr i => VArr (km_schema i)
    | VLamExt m i => VLamExt (fst (fdm m i)) (snd (fdm m i))
    | VRecur k => VRecur (fk k)
    | _ => v
    end.

  Definition km_aval (va : aval) : aval := (km_value (fst va), snd va).
  Definition km_scope (sc : scope) : scope := map (fun xv : N * aval => (fst xv, km_aval (snd xv))) sc.
  Definition km_scopes (ss : list (N * scope)) : list (N * scope) := map (fun f : N * scope => (fst f, km_scope (snd f))) ss.
  Definition km_refs (r : list (rkey * option aval)) : list (rkey * option aval) :=
    map (fun kv : rkey * option aval => (fk (fst kv), option_map km_aval (snd kv))) r.
  Definition km_st (s : st) : st := mk_st (km_refs (refs s)) (km_scopes (scopes s)) (seq s).

  Definition rmap {A B} (f : A -> B) (r : res A) : res B :=
    match r with Ok a => Ok (f a) | Err e => Err e | Panic p => Panic p | Fuel => Fuel end.

  (** ** casts commute *)
  Lemma km_schema_like v : is_schema_like (km_value v) = is_schema_like v.
  Proof. destruct v; reflexivity. Qed.
  Lemma km_content_like v : is_content_like (km_value v) = is_content_like v.
  Proof. destruct v; reflexivity. Qed.

  Lemma cast_schema_km va : cast_schema (km_aval va) = rmap km_schema (cast_schema va).
  Proof. destruct va as [v a]. destruct v; reflexivity. Qed.

  Lemma bind_rmap {A B C} (f : A -> B) (r : res A) (k : B -> res C) : bind (rmap f r) k = bind r (fun a => k (f a)).
  Proof. destruct r; reflexivity. Qed.
  Lemma rmap_bind {A B C} (f : B -> C) (r : res A) (k : A -> res B) : rmap f (bind r k) = bind r (fun a => rmap f (k a)).
  Proof. destruct r; reflexivity. Qed.

  Lemma cast_content_km va : cast_content (km_aval va) = rmap km_content (cast_content va).
  Proof. destruct va as [v a]. destruct v; reflexivity. Qed.

  Lemma content_key_km c : content_key (km_content c) = content_key c.
  Proof. destruct c; reflexivity. Qed.

  Lemma cast_ranges_km va : cast_ranges (km_aval va) = rmap km_ranges (cast_ranges va).
  Proof.
    destruct va as [v a]. destruct v; try reflexivity.
    unfold cast_ranges, km_aval. cbn [fst km_value is_content_like is_schema_like cast_content bind rmap km_ranges map snd].
    rewrite content_key_km. reflexivity.
  Qed.

  Lemma cast_string_km v : cast_string (km_value v) = cast_string v.
  Proof. induction v; cbn [km_value cast_string]; try reflexivity; assumption. Qed.
  Lemma cast_property_km v : cast_property (km_value v) = rmap km_property (cast_property v).
  Proof. induction v; cbn [km_value cast_property rmap]; try reflexivity; assumption. Qed.
  Lemma cast_http_status_km v : cast_http_status (km_value v) = cast_http_status v.
  Proof. induction v; cbn [km_value cast_http_status]; try reflexivity; assumption. Qed.
  Lemma cast_object_km v : cast_object (km_value v) = rmap km_props (cast_object v).
  Proof. induction v; cbn [km_value cast_object rmap]; try reflexivity; assumption. Qed.
  Lemma cast_transfer_km v : cast_transfer (km_value v) = rmap km_transfer (cast_transfer v).
  Proof. induction v; cbn [km_value cast_transfer rmap]; try reflexivity; assumption. Qed.
  Lemma cast_uri_km v : cast_uri (km_value v) = rmap km_uri (cast_uri v).
  Proof. induction v; cbn [km_value cast_uri rmap]; try reflexivity; try assumption. destruct r; reflexivity. Qed.
  Lemma cast_relation_km v : cast_relation (km_value v) = rmap km_relation (cast_relation v).
  Proof. induction v; cbn [km_value cast_relation rmap]; try reflexivity; assumption. Qed.
  Lemma cast_lambda_km v : cast_lambda (km_value v) = rmap km_value (cast_lambda v).
  Proof. induction v; cbn [km_value cast_lambda rmap]; try reflexivity; assumption. Qed.

  (** ** helpers commute *)
  Lemma prim_value_km p a : rmap km_value (prim_value p a) = prim_value p a.
  Proof. unfold prim_value. destruct p as [|p]; [reflexivity|]. do 3 (destruct p as [p|p|]; try reflexivity). Qed.

  Lemma km_useg_empty u : useg_is_empty (km_useg u) = useg_is_empty u.
  Proof. destruct u; reflexivity. Qed.

  Lemma uri_append_km l r : uri_append (km_uri l) (km_uri r) = rmap km_uri (uri_append l r).
  Proof.
    destruct l as [lp lprm lex], r as [rp rprm rex]. cbn [km_uri uri_append].
    rewrite <- map_rev. destruct (rev lp) as [|lastseg before] eqn:E; cbn [map rmap]; [reflexivity|].
    rewrite km_useg_empty. destruct (useg_is_empty lastseg); cbn [km_uri]; rewrite map_app; [rewrite map_rev|]; reflexivity.
  Qed.

  Lemma set_required_km p b : set_required (km_property p) b = km_property (set_required p b).
  Proof. destruct p; reflexivity. Qed.

  Lemma set_nth_map {A B} (f : A -> B) n a l : set_nth n (f a) (map f l) = map f (set_nth n a l).
  Proof. revert n. induction l as [|x l IH]; intros [|n]; cbn [set_nth map]; try reflexivity. rewrite IH. reflexivity. Qed.

  Lemma add_xfer_km xs t : add_xfer (map km_oxfer xs) (km_transfer t) = map km_oxfer (add_xfer xs t).
  Proof.
    destruct t as [ms dom rg prm d s tags id]. cbn [km_transfer add_xfer].
    set (t := Xfer ms dom rg prm d s tags id).
    set (t' := Xfer ms (km_content dom) (map (fun kc => match kc with (k, c) => (k, km_content c) end) rg)
                    (match prm with Some ps => Some (map km_property ps) | None => None end) d s tags id).
    assert (Ht : Some t' = km_oxfer (Some t)) by reflexivity.
    assert (G : forall bs xs i,
              fst (fold_left (fun '(xs, i) (b : bool) => (if b then set_nth i (Some t') xs else xs, S i)) bs (map km_oxfer xs, i)) =
              map km_oxfer (fst (fold_left (fun '(xs, i) (b : bool) => (if b then set_nth i (Some t) xs else xs, S i)) bs (xs, i)))).
    { induction bs as [|b bs IH]; intros xs0 i; cbn [fold_left]; [reflexivity|].
      destruct b; [|apply IH]. rewrite Ht, set_nth_map. apply IH. }
    apply G.
  Qed.

  Lemma no_xfers_km : map km_oxfer no_xfers = no_xfers.
  Proof. reflexivity. Qed.

  Lemma fold_add_xfer_km ts : forall xs,
    fold_left add_xfer (map km_transfer ts) (map km_oxfer xs) = map km_oxfer (fold_left add_xfer ts xs).
  Proof. induction ts as [|t ts IH]; intros xs; cbn [fold_left map]; [reflexivity|]. rewrite add_xfer_km. apply IH. Qed.

  (** ranges: the keys (status, media) are untouched *)
  Lemma im_insert_ranges k c (m : ranges) :
    im_insert rgkey_eqb k (km_content c) (km_ranges m) = km_ranges (im_insert rgkey_eqb k c m).
  Proof.
    induction m as [|[k' c'] m IH]; cbn [im_insert km_ranges map fst snd]; [reflexivity|].
    destruct (rgkey_eqb k k'); cbn [map fst snd]; [reflexivity|]. f_equal. exact IH.
  Qed.
  Lemma im_extend_ranges (o : ranges) : forall m : ranges,
    im_extend rgkey_eqb (km_ranges m) (km_ranges o) = km_ranges (im_extend rgkey_eqb m o).
  Proof.
    unfold im_extend. induction o as [|[k c] o IH]; intros m; cbn [fold_left km_ranges map fst snd]; [reflexivity|].
    rewrite im_insert_ranges. apply IH.
  Qed.
  Lemma fold_extend_ranges rs : forall acc : ranges,
    fold_left (im_extend rgkey_eqb) (map km_ranges rs) (km_ranges acc) = km_ranges (fold_left (im_extend rgkey_eqb) rs acc).
  Proof. induction rs as [|r rs IH]; intros acc; cbn [fold_left map]; [reflexivity|]. rewrite im_extend_ranges. apply IH. Qed.

  (** ** the state *)
  Hypothesis g_inj : forall x y, g x = g y -> x = y.
  Hypothesis fdm_inj : forall m i m' i', fdm m i = fdm m' i' -> m = m' /\ i = i'.
  Hypothesis frm_inj : forall m i m' i', frm m i = frm m' i' -> m = m' /\ i = i'.

  Lemma pair_eqb (p q : N * N) : N.eqb (fst p) (fst q) && N.eqb (snd p) (snd q) = true <-> p = q.
  Proof.
    destruct p as [a b], q as [c d]. cbn [fst snd]. split.
    - intros H. apply andb_prop in H as [H1 H2]. apply N.eqb_eq in H1, H2. congruence.
    - intros [= -> ->]. rewrite !N.eqb_refl. reflexivity.
  Qed.

  Lemma map_eqb (f : N -> N -> N * N) (Hinj : forall m i m' i', f m i = f m' i' -> m = m' /\ i = i') m i m' i' :
    N.eqb (fst (f m i)) (fst (f m' i')) && N.eqb (snd (f m i)) (snd (f m' i')) = N.eqb m m' && N.eqb i i'.
  Proof.
    destruct (N.eqb m m' && N.eqb i i') eqn:E.
    - apply andb_prop in E as [E1 E2]. apply N.eqb_eq in E1, E2. subst. apply pair_eqb. reflexivity.
    - destruct (N.eqb (fst (f m i)) (fst (f m' i')) && N.eqb (snd (f m i)) (snd (f m' i'))) eqn:E'; [|reflexivity].
      apply pair_eqb in E'. apply Hinj in E' as [-> ->]. rewrite !N.eqb_refl in E. discriminate E.
  Qed.

  Lemma fk_eqb a b : rkey_eqb (fk a) (fk b) = rkey_eqb a b.
  Proof.
    destruct a as [x|m i|m i sc], b as [y|m' i'|m' i' sc']; cbn [fk rkey_eqb]; try reflexivity.
    - destruct (N.eqb_spec x y) as [->|Hne]; [apply N.eqb_refl|]. apply N.eqb_neq. intros H. apply Hne, g_inj, H.
    - apply (map_eqb fdm fdm_inj).
    - rewrite (map_eqb frm frm_inj). reflexivity.
  Qed.

  Lemma rget_km k r : rget (fk k) (km_refs r) = option_map (option_map km_aval) (rget k r).
  Proof.
    unfold rget. induction r as [|[k' v] r IH]; cbn [km_refs map im_get fst snd]; [reflexivity|].
    rewrite fk_eqb. destruct (rkey_eqb k k'); [reflexivity|exact IH].
  Qed.

  Lemma rinsert_km k v r : rinsert (fk k) (option_map km_aval v) (km_refs r) = km_refs (rinsert k v r).
  Proof.
    unfold rinsert. induction r as [|[k' v'] r IH]; cbn [km_refs map im_insert fst snd]; [reflexivity|].
    rewrite fk_eqb. destruct (rkey_eqb k k'); cbn [map fst snd]; [reflexivity|]. f_equal. exact IH.
  Qed.

  Lemma im_get_scope x sc : im_get N.eqb x (km_scope sc) = option_map km_aval (im_get N.eqb x sc).
  Proof. induction sc as [|[y v] sc IH]; cbn [km_scope map im_get fst snd]; [reflexivity|]. destruct (N.eqb x y); [reflexivity|exact IH]. Qed.

  Lemma im_insert_scope x v sc : im_insert N.eqb x (km_aval v) (km_scope sc) = km_scope (im_insert N.eqb x v sc).
  Proof.
    induction sc as [|[y w] sc IH]; cbn [km_scope map im_insert fst snd]; [reflexivity|].
    destruct (N.eqb x y); cbn [map fst snd]; [reflexivity|]. f_equal. exact IH.
  Qed.

  Lemma lookup_km x ss : lookup_binding x (km_scopes ss) = option_map km_aval (lookup_binding x ss).
  Proof.
    induction ss as [|[id sc] ss IH]; cbn [km_scopes map lookup_binding fst snd]; [reflexivity|].
    rewrite im_get_scope. destruct (im_get N.eqb x sc); [reflexivity|exact IH].
  Qed.

  Lemma top_scope_km s : top_scope_id (km_st s) = top_scope_id s.
  Proof. unfold top_scope_id. destruct s as [r [|[id sc] ss] q]; reflexivity. Qed.

  Lemma push_scope_km s sc : push_scope (km_st s) (km_scope sc) = km_st (push_scope s sc).
  Proof. reflexivity. Qed.
  Lemma pop_scope_km s : pop_scope (km_st s) = km_st (pop_scope s).
  Proof. destruct s as [r [|f ss] q]; reflexivity. Qed.
  Lemma set_refs_km s r : set_refs (km_st s) (km_refs r) = km_st (set_refs s r).
  Proof. reflexivity. Qed.

  (** ** the program *)
  Fixpoint km_expr (e : expr) : expr :=
    match e with
    | ETerm anns e' => ETerm anns (km_expr e')
    | ESub e' => ESub (km_expr e')
    | EPrim p => EPrim p
    | ELitStr x => ELitStr x
    | ELitNum x => ELitNum x
    | ELitStat x => ELitStat x
    | EDecl m i => EDecl (fst (fdm m i)) (snd (fdm m i))
    | EConcat => EConcat
    | EBind x => EBind x
    | EApp f args => EApp (km_expr f) (map km_expr args)
    | ERec m i x e' => ERec (fst (frm m i)) (snd (frm m i)) x (km_expr e')
    | EObj ps => EObj (map km_expr ps)
    | EProp name req e' => EProp name req (km_expr e')
    | EUnary b e' => EUnary b (km_expr e')
    | EArr e' => EArr (km_expr e')
    | EOp op es => EOp op (map km_expr es)
    | ECont body metas =>
        ECont (option_map km_expr body) (map (fun ke => match ke with (k, e') => (k, km_expr e') end) metas)
    | EXfer ms dom rg prm => EXfer ms (option_map km_expr dom) (km_expr rg) (option_map km_expr prm)
    | EUri segs prm =>
        EUri (map (fun sg => match sg with inl x => inl x | inr e' => inr (km_expr e') end) segs) (option_map km_expr prm)
    | ERel u xs => ERel (km_expr u) (map km_expr xs)
    end.

  Definition km_decl (d : decl) : decl :=
    mk_decl (option_map g (d_ref d)) (d_rec d) (d_anns d) (d_params d) (km_expr (d_rhs d)).

  Definition kres {B} (h : B -> B) (r : res (st * B)) : res (st * B) := rmap (fun sb => (km_st (fst sb), h (snd sb))) r.

  Lemma kres_bind {B C} (h : B -> B) (h' : C -> C) (r : res (st * B)) (k k' : st * B -> res (st * C)) :
    (forall s b, k' (km_st s, h b) = kres h' (k (s, b))) ->
    bind (kres h r) k' = kres h' (bind r k).
  Proof. intros H. destruct r as [[s b]| | |]; cbn [kres rmap bind fst snd]; try reflexivity. apply H. Qed.

  Lemma pure_bind_kres {A C} (h' : C -> C) (c : res A) (k k' : A -> res (st * C)) :
    (forall x, k' x = kres h' (k x)) -> bind c k' = kres h' (bind c k).
  Proof. intros H. destruct c; cbn [bind kres rmap]; try reflexivity. apply H. Qed.

  Lemma map_bind_kres {A C} (f : A -> A) (h' : C -> C) (c : res A) (k k' : A -> res (st * C)) :
    (forall x, k' (f x) = kres h' (k x)) -> bind (rmap f c) k' = kres h' (bind c k).
  Proof. intros H. destruct c; cbn [bind kres rmap]; try reflexivity. apply H. Qed.

  Section Lists.
    Context {X B : Type}.
    Variable em : X -> X.
    Variable h : B -> B.
    Variables f f' : st -> X -> res (st * B).
    Hypothesis Hf : forall s x, f' (km_st s) (em x) = kres h (f s x).

    Lemma map_st_km l : forall s, map_st f' (km_st s) (map em l) = kres (map h) (map_st f s l).
    Proof.
      induction l as [|x l IH]; intros s; cbn [map map_st]; [reflexivity|].
      rewrite Hf. apply kres_bind. intros s1 b. rewrite IH. apply kres_bind. intros s2 bs. reflexivity.
    Qed.

    Lemma opt_st_km o s : opt_st f' (km_st s) (option_map em o) = kres (option_map h) (opt_st f s o).
    Proof.
      destruct o as [x|]; cbn [option_map opt_st]; [|reflexivity].
      rewrite Hf. apply kres_bind. intros s1 b. reflexivity.
    Qed.
  End Lists.

  Definition km_acc (acc : meta_acc) : meta_acc := match acc with (status, media, headers) => (status, media, km_oprops headers) end.

  Section ArgsKm.
    Variables ev ev' : st -> expr -> res (st * aval).
    Hypothesis Hev : forall s e, ev' (km_st s) (km_expr e) = kres km_aval (ev s e).

    Lemma bind_args_km args : forall s ps sc,
      bind_args ev' (km_st s) ps (map km_expr args) (km_scope sc) = kres km_scope (bind_args ev s ps args sc).
    Proof.
      induction args as [|a args IH]; intros s ps sc; [destruct ps; reflexivity|].
      destruct ps as [|p ps]; [reflexivity|]. cbn [map bind_args].
      rewrite Hev. apply kres_bind. intros s1 v. rewrite im_insert_scope. apply IH.
    Qed.

    Lemma eval_metas_km ms : forall s acc,
      eval_metas ev' (km_st s) (map (fun ke : N * expr => match ke with (k, e') => (k, km_expr e') end) ms) (km_acc acc) =
      kres km_acc (eval_metas ev s ms acc).
    Proof.
      induction ms as [|[k rhs] ms IH]; intros s acc; cbn [map eval_metas]; [reflexivity|].
      rewrite Hev. apply kres_bind. intros s1 v. destruct acc as [[status media] headers]. cbn [km_acc km_aval fst].
      destruct k as [|[p|p|]].
      - rewrite cast_string_km. apply pure_bind_kres. intros x. apply (IH s1 (status, Some x, headers)).
      - rewrite cast_http_status_km. apply pure_bind_kres. intros x. apply (IH s1 (Some x, media, headers)).
      - rewrite cast_http_status_km. apply pure_bind_kres. intros x. apply (IH s1 (Some x, media, headers)).
      - rewrite cast_object_km. apply map_bind_kres. intros x. apply (IH s1 (status, media, Some x)).
    Qed.

    Lemma step_km {B} (h : B -> B) (c c' : aval -> res B) s e :
      (forall v, c' (km_aval v) = rmap h (c v)) ->
      (do (s', v) <- ev' (km_st s) (km_expr e); do x <- c' v; Ok (s', x)) =
      kres h (do (s', v) <- ev s e; do x <- c v; Ok (s', x)).
    Proof.
      intros Hc. rewrite Hev. apply kres_bind. intros s1 v. rewrite Hc. destruct (c v); reflexivity.
    Qed.
  End ArgsKm.

  Variable lx : bool.
  Variables P P' : prog.
  Hypothesis HP' : forall m i, get_decl P' (fst (fdm m i)) (snd (fdm m i)) = option_map km_decl (get_decl P m i).

  Theorem eval_km : forall n s e a, eval lx P' n (km_st s) (km_expr e) a = kres km_aval (eval lx P n s e a).
  Proof.
    induction n as [|n IH]; intros s e a; [reflexivity|].
    set (EV := fun s e => eval lx P n s e []) in *.
    set (EV' := fun s e => eval lx P' n s e []) in *.
    assert (IH0 : forall s e, EV' (km_st s) (km_expr e) = kres km_aval (EV s e)) by (intros; apply IH).
    destruct e; cbn [eval km_expr]; fold EV EV'.
    - (* ETerm *) apply pure_bind_kres. intros x. apply IH.
    - (* ESub *) apply IH.
    - (* EPrim *) rewrite <- (prim_value_km p a) at 1. apply map_bind_kres. intros v. reflexivity.
    - reflexivity.
    - reflexivity.
    - reflexivity.
    - (* EDecl *)
      rewrite HP'. destruct (get_decl P m i) as [d|]; cbn [option_map]; [|reflexivity].
      cbn [km_decl d_params d_anns d_ref d_rec d_rhs].
      destruct (d_params d); [|reflexivity].
      apply pure_bind_kres. intros da.
      assert (Ecut : (match option_map g (d_ref d) with Some _ => true | None => false end) = (match d_ref d with Some _ => true | None => false end))
        by (destruct (d_ref d); reflexivity).
      rewrite Ecut. destruct ((match d_ref d with Some _ => true | None => false end) || d_rec d); [|apply IH].
      assert (Ekey : match option_map g (d_ref d) with Some x => KNamed x | None => KDecl (fst (fdm m i)) (snd (fdm m i)) end =
                     fk (match d_ref d with Some x => KNamed x | None => KDecl m i end)) by (destruct (d_ref d); reflexivity).
      rewrite Ekey. set (key := match d_ref d with Some x => KNamed x | None => KDecl m i end).
      change (refs (km_st s)) with (km_refs (refs s)). rewrite rget_km.
      destruct (rget key (refs s)) as [[v|]|]; cbn [option_map]; try reflexivity.
      change None with (option_map km_aval None) at 1. rewrite rinsert_km, set_refs_km, IH.
      apply kres_bind. intros s2 v. cbn [kres rmap fst snd].
      change (refs (km_st s2)) with (km_refs (refs s2)).
      change (Some (km_aval v)) with (option_map km_aval (Some v)). rewrite rinsert_km, set_refs_km. reflexivity.
    - reflexivity.
    - (* EBind *)
      change (scopes (km_st s)) with (km_scopes (scopes s)). rewrite lookup_km.
      destruct (lookup_binding x (scopes s)) as [[v prev]|]; reflexivity.
    - (* EApp *)
      rewrite IH. apply kres_bind. intros s1 fv. cbn [km_aval fst]. rewrite cast_lambda_km. apply map_bind_kres. intros lam.
      assert (Hconcat :
        (do (s2, vs) <- map_st EV' (km_st s1) (map km_expr args);
         match vs with
         | [va1; va2] => do ru <- cast_uri (fst va2); do lu <- cast_uri (fst va1); do u <- uri_append lu ru; Ok (s2, (VUri u, a))
         | _ => Panic P_concat_arity
         end) =
        kres km_aval
          (do (s2, vs) <- map_st EV s1 args;
           match vs with
           | [va1; va2] => do ru <- cast_uri (fst va2); do lu <- cast_uri (fst va1); do u <- uri_append lu ru; Ok (s2, (VUri u, a))
           | _ => Panic P_concat_arity
           end)).
      { rewrite (map_st_km km_expr km_aval EV EV' IH0). apply kres_bind. intros s2 vs.
        destruct vs as [|va1 [|va2 [|va3 vs]]]; cbn [map]; try reflexivity.
        cbn [km_aval fst]. rewrite !cast_uri_km. apply map_bind_kres. intros ru. apply map_bind_kres. intros lu.
        rewrite uri_append_km. apply map_bind_kres. intros u. reflexivity. }
      destruct lam; cbn [km_value]; try exact Hconcat. clear Hconcat.
      rewrite HP'. destruct (get_decl P m i) as [d|]; cbn [option_map]; [|reflexivity].
      cbn [km_decl d_params d_anns d_ref d_rec d_rhs].
      change (@nil (N * aval)) with (km_scope []) at 1.
      rewrite (bind_args_km EV EV' IH0). apply kres_bind. intros s2 sc.
      apply pure_bind_kres. intros da. rewrite map_length. destruct lx.
      + destruct (Nat.ltb _ _); [reflexivity|].
        change (mk_st (refs (km_st s2)) [(seq (km_st s2) + 1, km_scope sc)] (seq (km_st s2) + 1))
          with (km_st (mk_st (refs s2) [(seq s2 + 1, sc)] (seq s2 + 1))).
        rewrite IH. apply kres_bind. intros s3 r. reflexivity.
      + rewrite push_scope_km, IH. apply kres_bind. intros s3 r. cbn [kres rmap fst snd]. rewrite pop_scope_km. reflexivity.
    - (* ERec *)
      rewrite top_scope_km.
      change (push_scope (km_st s) [(x, (VRecur (KRec (fst (frm m i)) (snd (frm m i)) (top_scope_id s)), []))])
        with (km_st (push_scope s [(x, (VRecur (KRec m i (top_scope_id s)), []))])).
      rewrite IH. apply kres_bind. intros s1 rhs. cbn [kres rmap fst snd].
      rewrite pop_scope_km. change (refs (km_st (pop_scope s1))) with (km_refs (refs (pop_scope s1))).
      change (KRec (fst (frm m i)) (snd (frm m i)) (top_scope_id s)) with (fk (KRec m i (top_scope_id s))) at 1.
      change (Some (km_aval rhs)) with (option_map km_aval (Some rhs)). rewrite rinsert_km, set_refs_km. reflexivity.
    - (* EObj *)
      rewrite (map_st_km km_expr km_property _ _ (fun s0 x => step_km EV EV' IH0 km_property _ _ s0 x (fun v => cast_property_km (fst v)))).
      apply kres_bind. intros s1 props. reflexivity.
    - (* EProp *)
      rewrite IH. apply kres_bind. intros s1 v. rewrite cast_schema_km. apply map_bind_kres. intros sc. reflexivity.
    - (* EUnary *)
      rewrite IH. apply kres_bind. intros s1 v. cbn [km_aval fst]. rewrite cast_property_km. apply map_bind_kres. intros p.
      cbn [kres rmap fst snd km_aval km_value]. rewrite set_required_km. reflexivity.
    - (* EArr *)
      rewrite IH. apply kres_bind. intros s1 v. rewrite cast_schema_km. apply map_bind_kres. intros sc. reflexivity.
    - (* EOp *)
      destruct (N.eqb op 3).
      + rewrite (map_st_km km_expr km_ranges _ _ (fun s0 x => step_km EV EV' IH0 km_ranges _ _ s0 x cast_ranges_km)).
        apply kres_bind. intros s1 rs. cbn [kres rmap fst snd km_aval km_value].
        change (@nil (rgkey * content)) with (km_ranges []) at 1. rewrite fold_extend_ranges. reflexivity.
      + destruct (vop_of op) as [vo|]; [|reflexivity].
        rewrite (map_st_km km_expr km_schema _ _ (fun s0 x => step_km EV EV' IH0 km_schema _ _ s0 x cast_schema_km)).
        apply kres_bind. intros s1 ss. reflexivity.
    - (* ECont *)
      rewrite (opt_st_km km_expr km_schema _ _ (fun s0 x => step_km EV EV' IH0 km_schema _ _ s0 x cast_schema_km)).
      apply kres_bind. intros s1 schema.
      assert (Es : match option_map km_schema schema with None => Some (StCode 204) | Some _ => None end =
                   match schema with None => Some (StCode 204) | Some _ => None end) by (destruct schema; reflexivity).
      rewrite Es.
      change (match schema with None => Some (StCode 204) | Some _ => None end, @None str, @None (list property))
        with (km_acc (match schema with None => Some (StCode 204) | Some _ => None end, @None str, @None (list property))).
      rewrite (eval_metas_km EV EV' IH0). apply kres_bind. intros s2 [[status media] headers]. destruct schema; reflexivity.
    - (* EXfer *)
      rewrite (opt_st_km km_expr km_content _ _ (fun s0 x => step_km EV EV' IH0 km_content _ _ s0 x cast_content_km)).
      apply kres_bind. intros s1 dom. rewrite IH. apply kres_bind. intros s2 rv. rewrite cast_ranges_km. apply map_bind_kres. intros rg.
      rewrite (opt_st_km km_expr km_props _ _ (fun s0 x => step_km EV EV' IH0 km_props _ _ s0 x (fun v => cast_object_km (fst v)))).
      apply kres_bind. intros s3 prm. destruct dom, prm; reflexivity.
    - (* EUri *)
      rewrite (map_st_km (fun sg : str + expr => match sg with inl x => inl x | inr e' => inr (km_expr e') end) km_useg
                 (fun s (sg : str + expr) => match sg with inl x => Ok (s, ULit x) | inr v => do (s', pv) <- EV s v; do p <- cast_property (fst pv); Ok (s', UVar p) end)).
      + apply kres_bind. intros s1 path.
        rewrite (opt_st_km km_expr km_props _ _ (fun s0 x => step_km EV EV' IH0 km_props _ _ s0 x (fun v => cast_object_km (fst v)))).
        apply kres_bind. intros s2 prm. destruct prm; reflexivity.
      + intros s0 [x|v]; [reflexivity|]. unfold EV', EV. rewrite IH. apply kres_bind. intros s1 pv. cbn [km_aval fst]. rewrite cast_property_km.
        apply map_bind_kres. intros p. reflexivity.
    - (* ERel *)
      rewrite IH. apply kres_bind. intros s1 uv. cbn [km_aval fst]. rewrite cast_uri_km. apply map_bind_kres. intros ur.
      rewrite (map_st_km km_expr km_transfer _ _ (fun s0 x => step_km EV EV' IH0 km_transfer _ _ s0 x (fun v => cast_transfer_km (fst v)))).
      apply kres_bind. intros s2 ts. cbn [kres rmap fst snd km_aval km_value km_relation].
      rewrite <- no_xfers_km. change (map (fun o => match o with Some t => Some (km_transfer t) | None => None end)) with (map km_oxfer).
      rewrite fold_add_xfer_km. reflexivity.
  Qed.

  (** ** whole programs *)
  Definition km_table (t : list (rkey * schema)) : list (rkey * schema) := map (fun ks : rkey * schema => (fk (fst ks), km_schema (snd ks))) t.
  Definition km_result (r : list relation * list (rkey * schema)) : list relation * list (rkey * schema) :=
    (map km_relation (fst r), km_table (snd r)).

  Lemma refs_table_km r : refs_table (km_refs r) = rmap km_table (refs_table r).
  Proof.
    induction r as [|[k [v|]] r IH]; cbn [km_refs map refs_table fst snd option_map]; [reflexivity| |exact IH].
    rewrite cast_schema_km. destruct (cast_schema v) as [sc| | |]; cbn [rmap bind]; try reflexivity.
    fold (km_refs r). rewrite IH. destruct (refs_table r); reflexivity.
  Qed.

  Theorem eval_program_km n rs : eval_program lx P' n (map km_expr rs) = rmap km_result (eval_program lx P n rs).
  Proof.
    unfold eval_program. change st0 with (km_st st0) at 1.
    rewrite (map_st_km km_expr km_relation
               (fun s r => do (s', v) <- eval lx P n s r []; do rel <- cast_relation (fst v); Ok (s', rel))).
    - destruct (map_st _ st0 rs) as [[s1 rels]| | |]; cbn [kres rmap bind fst snd]; try reflexivity.
      change (refs (km_st s1)) with (km_refs (refs s1)). rewrite refs_table_km. destruct (refs_table (refs s1)); reflexivity.
    - intros s x. rewrite eval_km. apply kres_bind. intros s1 v. cbn [km_aval fst]. rewrite cast_relation_km.
      apply map_bind_kres. intros rel. reflexivity.
  Qed.
End KMap.

(** * renaming @references (C18) *)
Definition idp (m i : N) : N * N := (m, i).
Lemma idp_inj m i m' i' : idp m i = idp m' i' -> m = m' /\ i = i'.
Proof. unfold idp. intros [= -> ->]. split; reflexivity. Qed.

Section RenameRefs.
  Variable g : str -> str.
  Hypothesis g_inj : forall x y, g x = g y -> x = y.

  Lemma km_expr_id : forall e, km_expr idp idp e = e.
  Proof.
    fix IH 1. intros e. destruct e; cbn [km_expr idp fst snd]; try reflexivity; try (rewrite (IH e); reflexivity).
    - rewrite (IH e). f_equal. induction args as [|x args IHa]; [reflexivity|]. cbn [map]. rewrite (IH x), IHa. reflexivity.
    - f_equal. induction ps as [|x ps IHp]; [reflexivity|]. cbn [map]. rewrite (IH x), IHp. reflexivity.
    - f_equal. induction es as [|x es IHe]; [reflexivity|]. cbn [map]. rewrite (IH x), IHe. reflexivity.
    - f_equal.
      + destruct body as [b|]; [cbn [option_map]; rewrite (IH b); reflexivity|reflexivity].
      + induction metas as [|[k x] metas IHm]; [reflexivity|]. cbn [map]. rewrite (IH x), IHm. reflexivity.
    - f_equal.
      + destruct domain as [b|]; [cbn [option_map]; rewrite (IH b); reflexivity|reflexivity].
      + apply IH.
      + destruct params as [b|]; [cbn [option_map]; rewrite (IH b); reflexivity|reflexivity].
    - f_equal.
      + induction segs as [|[x|x] segs IHs]; [reflexivity| |]; cbn [map]; [rewrite IHs; reflexivity|rewrite (IH x), IHs; reflexivity].
      + destruct params as [b|]; [cbn [option_map]; rewrite (IH b); reflexivity|reflexivity].
    - rewrite (IH e). f_equal. induction xfers as [|x xfers IHx]; [reflexivity|]. cbn [map]. rewrite (IH x), IHx. reflexivity.
  Qed.

  (** the program with every @reference name [x] written [g x]; uses are resolved, so only declarations change *)
  Definition rename_refs (P : prog) : prog := map (map (km_decl g idp idp)) P.

  Lemma get_decl_rename P m i :
    get_decl (rename_refs P) (fst (idp m i)) (snd (idp m i)) = option_map (km_decl g idp idp) (get_decl P m i).
  Proof.
    unfold get_decl, rename_refs, idp. cbn [fst snd]. rewrite nth_error_map. destruct (nth_error P (N.to_nat m)) as [ds|]; cbn [option_map]; [|reflexivity].
    rewrite nth_error_map. reflexivity.
  Qed.

  Theorem rename_reference_keeps_document lx P n rs :
    eval_program lx (rename_refs P) n rs = rmap (km_result g idp idp) (eval_program lx P n rs).
  Proof.
    rewrite <- (eval_program_km g idp idp g_inj idp_inj idp_inj lx P (rename_refs P) (get_decl_rename P) n rs).
    f_equal. symmetry. rewrite <- (map_id rs) at 2. apply map_ext. intros x. apply km_expr_id.
  Qed.
End RenameRefs.

(** * moving declarations: to other positions of their module, or to other modules (C05) *)
Definition ids (x : str) : str := x.

Section Move.
  Variables fdm frm : N -> N -> N * N.
  Hypothesis fdm_inj : forall m i m' i', fdm m i = fdm m' i' -> m = m' /\ i = i'.
  Hypothesis frm_inj : forall m i m' i', frm m i = frm m' i' -> m = m' /\ i = i'.

  (** [P'] is [P] with every declaration moved to the position [fdm] gives (possibly in another
      module), every use re-addressed, and the rec expressions renumbered by [frm] *)
  Definition moved (P P' : prog) : Prop :=
    forall m i, get_decl P' (fst (fdm m i)) (snd (fdm m i)) = option_map (km_decl ids fdm frm) (get_decl P m i).

  Theorem moving_declarations_is_free lx P P' n rs : moved P P' ->
    eval_program lx P' n (map (km_expr fdm frm) rs) = rmap (km_result ids fdm frm) (eval_program lx P n rs).
  Proof. intros H. exact (eval_program_km ids fdm frm (fun x y E => E) fdm_inj frm_inj lx P P' H n rs). Qed.
End Move.

(** permuting the declarations inside each module *)
Section Permute.
  Variable fd : N -> N -> N.
  Hypothesis fd_inj : forall m i j, fd m i = fd m j -> i = j.
  Definition within (m i : N) : N * N := (m, fd m i).

  Lemma within_inj m i m' i' : within m i = within m' i' -> m = m' /\ i = i'.
  Proof. unfold within. intros [= -> H]. split; [reflexivity|]. apply (fd_inj m'), H. Qed.

  Definition permuted (P P' : prog) : Prop := moved within idp P P'.

  Theorem declaration_order_is_free lx P P' n rs : permuted P P' ->
    eval_program lx P' n (map (km_expr within idp) rs) = rmap (km_result ids within idp) (eval_program lx P n rs).
  Proof. apply (moving_declarations_is_free within idp within_inj idp_inj). Qed.
End Permute.

(** * non-vacuity *)
(** [let @a = { 'p num }; res /x on get -> <@a>;] and the same with the reference renamed *)
Example ex_ref_P : prog := [[ mk_decl (Some 5) false [] [] (EObj [EProp 20 None (ETerm [] (EPrim 2))]) ]].
Example ex_ref_rs : list expr :=
  [ERel (ETerm [] (EUri [inl 30] None)) [EXfer [0] None (ECont (Some (ETerm [] (EDecl 0 0))) []) None]].
Definition swap56 (x : str) : str := if N.eqb x 5 then 6 else if N.eqb x 6 then 5 else x.
Lemma swap56_inj x y : swap56 x = swap56 y -> x = y.
Proof.
  unfold swap56. repeat match goal with |- context [N.eqb ?a ?b] => destruct (N.eqb_spec a b) end; intros; subst; try reflexivity; try lia.
Qed.
Example ex_rename_reference :
  rename_refs swap56 ex_ref_P <> ex_ref_P /\
  exists rels sc sc',
    eval_program false ex_ref_P 50 ex_ref_rs = Ok (rels, [(KNamed 5, sc)]) /\
    eval_program false (rename_refs swap56 ex_ref_P) 50 ex_ref_rs = Ok (map (km_relation swap56 idp idp) rels, [(KNamed 6, sc')]).
Proof. split; [discriminate|]. eexists _, _, _. split; vm_compute; reflexivity. Qed.

(** [let t = { 'p num }; let f x = { 'q x, 'r t }; res /a on get -> <f t>;] and the two declarations swapped *)
Example ex_perm_P : prog :=
  [[ mk_decl None false [] [] (EObj [EProp 20 None (ETerm [] (EPrim 2))]);
     mk_decl None false [] [7] (EObj [EProp 21 None (ETerm [] (EBind 7)); EProp 22 None (ETerm [] (EDecl 0 0))]) ]].
Example ex_perm_P' : prog :=
  [[ mk_decl None false [] [7] (EObj [EProp 21 None (ETerm [] (EBind 7)); EProp 22 None (ETerm [] (EDecl 0 1))]);
     mk_decl None false [] [] (EObj [EProp 20 None (ETerm [] (EPrim 2))]) ]].
Example ex_perm_rs : list expr :=
  [ERel (ETerm [] (EUri [inl 30] None)) [EXfer [0] None (ECont (Some (EApp (EDecl 0 1) [ETerm [] (EDecl 0 0)])) []) None]].
Definition swap01 (m i : N) : N := if N.eqb i 0 then 1 else if N.eqb i 1 then 0 else i.
Lemma swap01_inj m i j : swap01 m i = swap01 m j -> i = j.
Proof.
  unfold swap01. repeat match goal with |- context [N.eqb ?a ?b] => destruct (N.eqb_spec a b) end; intros; subst; try reflexivity; try lia.
Qed.
Lemma ex_permuted : permuted swap01 ex_perm_P ex_perm_P'.
Proof.
  intros m i. unfold within. cbn [fst snd]. unfold get_decl, ex_perm_P, ex_perm_P'.
  destruct m as [|m]; [|destruct (Pos2Nat.is_succ m) as [k Hk]; cbn [N.to_nat]; rewrite Hk; cbn [nth_error]; destruct k; reflexivity].
  cbn [N.to_nat nth_error]. unfold swap01.
  destruct i as [|[p|p|]]; try reflexivity.
  - (* 2p+1 >= 3 *) cbn [N.eqb Pos.eqb]. destruct (Pos2Nat.is_succ p) as [k Hk].
    cbn [N.to_nat]. rewrite Pos2Nat.inj_xI, Hk. cbn [Nat.mul Nat.add nth_error]. rewrite Nat.add_succ_r. cbn [nth_error]. destruct (k + (k + 0))%nat; reflexivity.
  - (* 2p >= 2 *) cbn [N.eqb Pos.eqb]. destruct (Pos2Nat.is_succ p) as [k Hk].
    cbn [N.to_nat]. rewrite Pos2Nat.inj_xO, Hk. cbn [Nat.mul Nat.add nth_error]. rewrite Nat.add_succ_r. cbn [nth_error]. destruct (k + (k + 0))%nat; reflexivity.
Qed.
Example ex_permute_declarations :
  ex_perm_P' <> ex_perm_P /\
  exists r, eval_program false ex_perm_P 50 ex_perm_rs = Ok r /\
            eval_program false ex_perm_P' 50 (map (km_expr (within swap01) idp) ex_perm_rs) = Ok (km_result ids (within swap01) idp r).
Proof. split; [discriminate|]. eexists. split; vm_compute; reflexivity. Qed.

(** [let t = { 'p num }; let f x = { 'q x, 'r t }; res /a on get -> <f t>;] and the same with [t]
    moved into a second module *)
Example ex_move_P' : prog :=
  [[ mk_decl None false [] [7] (EObj [EProp 21 None (ETerm [] (EBind 7)); EProp 22 None (ETerm [] (EDecl 1 0))]) ];
   [ mk_decl None false [] [] (EObj [EProp 20 None (ETerm [] (EPrim 2))]) ]].
(** the three-cycle (0,0) -> (1,0) -> (0,1) -> (0,0) on positions; every other position stays *)
Definition rot (m i : N) : N * N :=
  if N.eqb m 0 && N.eqb i 0 then (1, 0) else if N.eqb m 1 && N.eqb i 0 then (0, 1) else if N.eqb m 0 && N.eqb i 1 then (0, 0) else (m, i).
Lemma rot_inj m i m' i' : rot m i = rot m' i' -> m = m' /\ i = i'.
Proof.
  unfold rot. repeat match goal with |- context [N.eqb ?a ?b] => destruct (N.eqb_spec a b) end; cbn [andb]; intros E; inversion E; subst; split; try reflexivity; try lia; try congruence.
Qed.

Lemma get_decl_short (P : prog) m i : (length P <= N.to_nat m)%nat -> get_decl P m i = None.
Proof. intros H. unfold get_decl. rewrite (proj2 (nth_error_None P (N.to_nat m)) H). reflexivity. Qed.
Lemma get_decl_short_row (P : prog) m i ds : nth_error P (N.to_nat m) = Some ds -> (length ds <= N.to_nat i)%nat -> get_decl P m i = None.
Proof. intros H Hi. unfold get_decl. rewrite H. apply nth_error_None, Hi. Qed.

Lemma ex_moved : moved rot idp ex_perm_P ex_move_P'.
Proof.
  intros m i. unfold rot.
  destruct (N.eqb_spec m 0) as [->|Hm0]; cbn [andb].
  - destruct (N.eqb_spec i 0) as [->|Hi0]; [reflexivity|].
    destruct (N.eqb_spec i 1) as [->|Hi1]; [reflexivity|]. cbn [N.eqb Pos.eqb andb]. simpl fst. simpl snd.
    assert (Hi : (2 <= N.to_nat i)%nat) by lia.
    rewrite (get_decl_short_row ex_perm_P 0 i _ eq_refl) by (cbn; lia).
    rewrite (get_decl_short_row ex_move_P' 0 i _ eq_refl) by (cbn; lia). reflexivity.
  - destruct (N.eqb_spec m 1) as [->|Hm1]; cbn [andb].
    + destruct (N.eqb_spec i 0) as [->|Hi0]; cbn [N.eqb Pos.eqb andb]; simpl fst; simpl snd.
      * reflexivity.
      * rewrite (get_decl_short ex_perm_P 1 i) by (cbn; lia).
        rewrite (get_decl_short_row ex_move_P' 1 i _ eq_refl) by (cbn; lia). reflexivity.
    + simpl fst. simpl snd. rewrite (get_decl_short ex_perm_P m i) by (cbn; lia). rewrite (get_decl_short ex_move_P' m i) by (cbn; lia). reflexivity.
Qed.

Example ex_move_declarations :
  exists r, eval_program false ex_perm_P 50 ex_perm_rs = Ok r /\
            eval_program false ex_move_P' 50 (map (km_expr rot idp) ex_perm_rs) = Ok (km_result ids rot idp r).
Proof. eexists. split; vm_compute; reflexivity. Qed.
