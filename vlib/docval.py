"""Independent validator of emitted OpenAPI documents (monitor O03 and helpers)."""
import re


def walk(v, path=()):
    yield path, v
    if isinstance(v, dict):
        for k, x in v.items():
            yield from walk(x, path + (k,))
    elif isinstance(v, list):
        for i, x in enumerate(v):
            yield from walk(x, path + (i,))


def refs_of(v):
    return [(p, x["$ref"]) for p, x in walk(v) if isinstance(x, dict) and "$ref" in x and isinstance(x["$ref"], str)]


def dangling_refs(doc, part=None):
    schemas = ((doc.get("components") or {}).get("schemas") or {})
    out = []
    for p, r in refs_of(doc if part is None else part):
        m = re.match(r"^#/components/schemas/(.+)$", r)
        if not m or m.group(1) not in schemas:
            out.append(("/".join(map(str, p)), r))
    return out


METHODS = ["get", "put", "post", "patch", "delete", "options", "head", "trace"]


def path_param_problems(doc):
    out = []
    for key, item in (doc.get("paths") or {}).items():
        names = re.findall(r"\{([^}]*)\}", key)
        params = [p for p in (item.get("parameters") or []) if isinstance(p, dict) and p.get("in") == "path"]
        pn = [p.get("name") for p in params]
        if sorted(names) != sorted(pn):
            out.append((key, "variables %s vs path parameters %s" % (names, pn)))
        for p in params:
            if p.get("required") is not True:
                out.append((key, "path parameter %s is not required" % p.get("name")))
    return out


def response_key_problems(doc):
    out = []
    for key, item in (doc.get("paths") or {}).items():
        for m in METHODS:
            op = item.get(m)
            if not op:
                continue
            for rk in (op.get("responses") or {}):
                if rk == "default" or re.match(r"^[1-5]XX$", rk):
                    continue
                if re.match(r"^[0-9]+$", rk) and 100 <= int(rk) <= 599:
                    continue
                out.append((key, m, rk))
    return out


def operation_ids(doc):
    out = []
    for key, item in (doc.get("paths") or {}).items():
        for m in METHODS:
            op = item.get(m)
            if op and "operationId" in op:
                out.append((op["operationId"], key, m))
    return out


def duplicate_operation_ids(doc):
    seen = {}
    dups = []
    for oid, key, m in operation_ids(doc):
        if oid in seen:
            dups.append((oid, seen[oid], (key, m)))
        else:
            seen[oid] = (key, m)
    return dups
