(** Model of the diagnostics bookkeeping of the language server (oal-client/src/lsp/mod.rs
    Workspace::diagnostics, oal-lsp.rs refresh): what is published after a refresh, given
    the documents in the store, the locators whose last published diagnostics were not empty
    ([reported]) and the errors of the compilation just made. Locators and diagnostics are
    numbered; the published batch is a map (the code's HashMap: its order is not observable
    by a client that applies every notification). *)
From Coq Require Export List NArith Bool.
Export ListNotations.

Definition loc := N.
Definition diag := N.
Definition dmap := list (loc * list diag).

Fixpoint dget (l : loc) (m : dmap) : option (list diag) :=
  match m with [] => None | (l', ds) :: m' => if N.eqb l l' then Some ds else dget l m' end.

(** entry(loc).or_default() *)
Fixpoint dtouch (l : loc) (m : dmap) : dmap :=
  match m with
  | [] => [(l, [])]
  | (l', ds) :: m' => if N.eqb l l' then (l', ds) :: m' else (l', ds) :: dtouch l m'
  end.

(** push a diagnostic on the entry of its locator, creating it if absent *)
Fixpoint dpush (l : loc) (d : diag) (m : dmap) : dmap :=
  match m with
  | [] => [(l, [d])]
  | (l', ds) :: m' => if N.eqb l l' then (l', ds ++ [d]) :: m' else (l', ds) :: dpush l d m'
  end.

Definition nonempty (kv : loc * list diag) : bool := match snd kv with [] => false | _ => true end.

(** Workspace::diagnostics: the batch to publish and the new [reported] *)
Definition diagnostics (docs reported : list loc) (errs : list (loc * diag)) : dmap * list loc :=
  let m0 := fold_left (fun m l => dtouch l m) docs [] in
  let m1 := fold_left (fun m l => dtouch l m) reported m0 in
  let m2 := fold_left (fun m ld => dpush (fst ld) (snd ld) m) errs m1 in
  (m2, map fst (filter nonempty m2)).

(** the client: what it shows for each locator; a notification replaces the list of its locator *)
Definition view := list (loc * list diag).
Definition vget (v : view) (l : loc) : list diag := match dget l v with Some ds => ds | None => [] end.
Fixpoint vset (l : loc) (ds : list diag) (v : view) : view :=
  match v with
  | [] => [(l, ds)]
  | (l', ds') :: v' => if N.eqb l l' then (l', ds) :: v' else (l', ds') :: vset l ds v'
  end.
Definition apply_batch (v : view) (b : dmap) : view := fold_left (fun v kv => vset (fst kv) (snd kv) v) b v.

(** the errors of one locator, in the order they were reported *)
Definition errs_of (l : loc) (errs : list (loc * diag)) : list diag :=
  map snd (filter (fun ld => N.eqb (fst ld) l) errs).

(** server and client together: a refresh with the current store and the errors of the compilation *)
Record sc := mk_sc { s_reported : list loc; s_view : view }.
Definition refresh (st : sc) (docs : list loc) (errs : list (loc * diag)) : sc :=
  let '(b, rep) := diagnostics docs (s_reported st) errs in
  mk_sc rep (apply_batch (s_view st) b).

(** the pinned code before F7 (no [reported]): diagnostics of documents that are no longer in the store stay *)
Definition diagnostics_pinned (docs : list loc) (errs : list (loc * diag)) : dmap :=
  fold_left (fun m ld => dpush (fst ld) (snd ld) m) errs (fold_left (fun m l => dtouch l m) docs []).
