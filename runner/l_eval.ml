(* layer eval: one program per line as an s-expression; prints the result s-expression of the
   extracted EvalIO.run_eval *)
open BinNums

let z_of_int (n : int) : coq_Z =
  if n = 0 then Z0 else if n > 0 then Zpos (Conv.pos_of_int n) else Zneg (Conv.pos_of_int (-n))

let int_of_z (z : coq_Z) : int =
  match z with Z0 -> 0 | Zpos p -> Conv.int_of_pos p | Zneg p -> - (Conv.int_of_pos p)

let parse (s : string) : EvalIO.sx =
  let n = String.length s in
  let pos = ref 0 in
  let rec skip () = if !pos < n && s.[!pos] = ' ' then (incr pos; skip ()) in
  let rec item () : EvalIO.sx =
    skip ();
    if !pos >= n then failwith "eof"
    else if s.[!pos] = '(' then begin
      incr pos;
      let acc = ref [] in
      let rec loop () =
        skip ();
        if !pos >= n then failwith "unclosed"
        else if s.[!pos] = ')' then incr pos
        else begin acc := item () :: !acc; loop () end in
      loop ();
      EvalIO.L (Stdlib.List.rev !acc)
    end else begin
      let st = !pos in
      while !pos < n && s.[!pos] <> ' ' && s.[!pos] <> '(' && s.[!pos] <> ')' do incr pos done;
      EvalIO.A (z_of_int (int_of_string (String.sub s st (!pos - st))))
    end in
  item ()

let rec print (b : Buffer.t) (x : EvalIO.sx) : unit =
  match x with
  | EvalIO.A z -> Buffer.add_string b (string_of_int (int_of_z z))
  | EvalIO.L l ->
      Buffer.add_char b '(';
      Stdlib.List.iteri (fun i y -> if i > 0 then Buffer.add_char b ' '; print b y) l;
      Buffer.add_char b ')'

let run_with f () =
  Conv.each_line (fun line ->
      let out =
        try
          let b = Buffer.create 1024 in
          print b (f (parse line));
          Buffer.contents b
        with e -> "ERROR " ^ Printexc.to_string e in
      print_endline out)

let run = run_with EvalIO.run_eval
let run_lexical = run_with EvalIO.run_eval_lexical
let run_typing = run_with EvalIO.run_typing
let run_strat = run_with EvalIO.run_strat
let run_doc = run_with EvalIO.run_doc
let run_doc_base = run_with EvalIO.run_doc_base
let run_edges = run_with EvalIO.run_edges
