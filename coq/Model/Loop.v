(** Model of the main loop of the language server (oal-client/src/bin/oal-lsp.rs: [main_loop],
    [refresh]) around the diagnostics bookkeeping of Diag.v: a notification changes the texts
    (the document store; the files on disk are part of the world too) and marks the state
    stale; a request, or an idle second, first refreshes — if stale: every folder is
    evaluated again on the current texts ([Folder::eval] forgets what it held) and the
    diagnostics are published — and a request is then answered from the folder states of that
    evaluation and the current texts.
    The texts, the evaluation of the folders, the handlers and the requests are parameters:
    [eval_folders] is a function of the current texts alone (C06: compilation is deterministic). *)
From Oal Require Export Diag.

Section Loop.
Variables world fstate req ans : Type.
Variable docs_of : world -> list loc.                              (* the documents of the store *)
Variable eval_folders : world -> fstate * list (loc * diag).       (* Folder::eval of every folder; the errors recorded *)
Variable handle : fstate -> world -> req -> ans.                   (* handlers.rs *)

Record lstate := mk_l { l_world : world; l_stale : bool; l_fs : fstate; l_sc : sc }.

Inductive event :=
| Notify (f : world -> world)      (* didOpen / didChange / didClose / didChangeWorkspaceFolders *)
| Request (r : req)
| Idle.

Definition do_refresh (s : lstate) : lstate :=
  if l_stale s then
    mk_l (l_world s) false (fst (eval_folders (l_world s)))
         (Diag.refresh (l_sc s) (docs_of (l_world s)) (snd (eval_folders (l_world s))))
  else s.

Definition step (s : lstate) (e : event) : lstate * option ans :=
  match e with
  | Notify f => (mk_l (f (l_world s)) true (l_fs s) (l_sc s), None)
  | Request r => let s' := do_refresh s in (s', Some (handle (l_fs s') (l_world s') r))
  | Idle => (do_refresh s, None)
  end.

(** the answers given along a history, the final state *)
Fixpoint run (s : lstate) (h : list event) : lstate * list ans :=
  match h with
  | [] => (s, [])
  | e :: h' =>
      let '(s1, a) := step s e in
      let '(s2, l) := run s1 h' in
      (s2, match a with Some x => x :: l | None => l end)
  end.

(** a server just started on these texts: stale, nothing published, folders not evaluated yet *)
Definition start (w : world) (fs0 : fstate) : lstate := mk_l w true fs0 (mk_sc [] []).

(** the texts after a history *)
Fixpoint world_after (w : world) (h : list event) : world :=
  match h with
  | [] => w
  | Notify f :: h' => world_after (f w) h'
  | _ :: h' => world_after w h'
  end.

(** the variant in which some notification forgets to mark the state stale (what a skipped
    re-evaluation amounts to) *)
Definition step_lazy (s : lstate) (e : event) : lstate * option ans :=
  match e with
  | Notify f => (mk_l (f (l_world s)) (l_stale s) (l_fs s) (l_sc s), None)
  | _ => step s e
  end.
End Loop.

Arguments mk_l {world fstate}.
Arguments l_world {world fstate}.
Arguments l_stale {world fstate}.
Arguments l_fs {world fstate}.
Arguments l_sc {world fstate}.
Arguments Notify {world req}.
Arguments Request {world req}.
Arguments Idle {world req}.
Arguments do_refresh {world fstate}.
Arguments step {world fstate req ans}.
Arguments run {world fstate req ans}.
Arguments start {world fstate}.
Arguments world_after {world req}.
Arguments step_lazy {world fstate req ans}.
