(** Model of oal_openapi::Builder::xfer_responses (after the fixes K4 and F9): how the range
    entries of a transfer — an ordered map from (status, media type) to contents — become the
    responses of an operation. Status keys, media types, header names, schemas and
    descriptions are numbers; [None] as status is the `default` response, [None] as media
    type stands for the default media type. *)
From Coq Require Export List NArith Bool.
Export ListNotations.

Definition DEFAULT_MEDIA : N := 0%N.
Definition eff (m : option N) : N := match m with Some x => x | None => DEFAULT_MEDIA end.

Record content := mk_content {
  c_schema : option N;
  c_headers : list (N * N);       (* header name, header *)
  c_desc : option N
}.

Record response := mk_response {
  r_content : list (N * N);       (* media type, schema *)
  r_headers : list (N * N);
  r_desc : option N
}.

Definition empty_response := mk_response [] [] None.

Fixpoint get {A} (k : N) (m : list (N * A)) : option A :=
  match m with [] => None | (k', v) :: m' => if N.eqb k k' then Some v else get k m' end.
Fixpoint set {A} (k : N) (v : A) (m : list (N * A)) : list (N * A) :=
  match m with
  | [] => [(k, v)]
  | (k', v') :: m' => if N.eqb k k' then (k, v) :: m' else (k', v') :: set k v m'
  end.

(** responses keyed by status; the default response has key [None] *)
Definition skey := option N.
Definition skey_eqb (a b : skey) : bool :=
  match a, b with None, None => true | Some x, Some y => N.eqb x y | _, _ => false end.
Fixpoint rget (k : skey) (m : list (skey * response)) : option response :=
  match m with [] => None | (k', v) :: m' => if skey_eqb k k' then Some v else rget k m' end.
Fixpoint rset (k : skey) (v : response) (m : list (skey * response)) : list (skey * response) :=
  match m with
  | [] => [(k, v)]
  | (k', v') :: m' => if skey_eqb k k' then (k, v) :: m' else (k', v') :: rset k v m'
  end.

Definition entry := ((skey * option N) * content)%type.

Definition step (acc : list (skey * response)) (e : entry) : list (skey * response) :=
  let '((st, md), c) := e in
  let r := match rget st acc with Some r => r | None => empty_response end in
  let r' := mk_response
              (match c_schema c with Some s => set (eff md) s (r_content r) | None => r_content r end)
              (fold_left (fun hs h => set (fst h) (snd h) hs) (c_headers c) (r_headers r))
              (match c_desc c with Some d => Some d | None => r_desc r end) in
  rset st r' acc.

Definition xfer_responses (rs : list entry) : list (skey * response) := fold_left step rs [].

(** the pinned tree: each status-less entry replaced the default response (K4), and every
    entry replaced the headers and description of its response (F9) *)
Definition step_pinned (acc : list (skey * response)) (e : entry) : list (skey * response) :=
  let '((st, md), c) := e in
  let r := match st with
           | None => empty_response
           | Some _ => match rget st acc with Some r => r | None => empty_response end
           end in
  let r' := mk_response
              (match c_schema c with Some s => set (eff md) s (r_content r) | None => r_content r end)
              (c_headers c)
              (c_desc c) in
  rset st r' acc.
