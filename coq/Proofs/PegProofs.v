(** Generic theorems about the interpreters of Model/Peg.v, for every grammar, token list and
    fuel (properties C12, C11, C04):
    - more fuel never changes a result ([run_weaken]);
    - the memo table is invisible: whatever [runm] returns, [run] returns ([memo_transparent]);
    - the leaves of the matches are exactly the non-trivia tokens consumed, in order
      ([yield]); cursors only move forward and stay aligned on non-trivia tokens. *)
From Coq Require Import Lia Arith PeanoNat.
From Oal Require Import Peg.

Section Proofs.
Variable class_ok : N -> N -> bool.
Variable is_trivia : N -> bool.
Variable K_IDENT_REF : N.
Variable g : nat -> pexp.
Variable toks : list N.

Notation run := (Peg.run class_ok is_trivia K_IDENT_REF g toks).
Notation runm := (Peg.runm class_ok is_trivia K_IDENT_REF g toks).
Notation skip := (Peg.skip is_trivia toks).
Notation kind_at := (Peg.kind_at toks).

(** * fuel monotonicity *)
Lemma run_eq n p s acc : run (S n) p s acc = match p with
  | Eps => Ok s []
  | Tok c => match kind_at s with
             | Some k => if class_ok c k then Ok (skip (S s)) [Leaf s] else Fail
             | None => Fail
             end
  | Seq2 a b => match run n a s acc with
                | Ok s1 m1 => match run n b s1 (acc ++ m1) with Ok s2 m2 => Ok s2 (m1 ++ m2) | r => r end
                | r => r
                end
  | Alt2 a b => match run n a s acc with Fail => run n b s acc | r => r end
  | Mk k a => match run n a s [] with Ok s1 m => Ok s1 [Node k m] | r => r end
  | Collapse k a => match run n a s [] with
                    | Ok s1 [m] => Ok s1 [m]
                    | Ok s1 m => Ok s1 [Node k m]
                    | r => r
                    end
  | Call nt => run n (g nt) s []
  | Memo _ a => run n a s []
  | IfThen i t => match run n i s acc with
                  | Fail => Ok s []
                  | Ok s1 m1 => match run n t s1 (acc ++ m1) with Ok s2 m2 => Ok s2 (m1 ++ m2) | r => r end
                  | Fuel => Fuel
                  end
  | NotRefFunc => if ref_func K_IDENT_REF toks acc then Fail else Ok s []
  end.
Proof. reflexivity. Qed.

Lemma run_S : forall n p s acc r, run n p s acc = r -> r <> Fuel -> run (S n) p s acc = r.
Proof.
  induction n as [|n IH]; intros p s acc r H Hr; [cbn in H; congruence|].
  rewrite run_eq in H. rewrite run_eq.
  destruct p;
    repeat match type of H with
           | context [match run n ?a ?s0 ?acc0 with _ => _ end] =>
               let E := fresh "E" in
               destruct (run n a s0 acc0) eqn:E; try (exfalso; congruence);
               rewrite (IH _ _ _ _ E) by discriminate
           end;
    first [exact H | apply IH; assumption].
Qed.

Lemma run_weaken : forall n m p s acc r, run n p s acc = r -> r <> Fuel -> n <= m -> run m p s acc = r.
Proof.
  intros n m p s acc r H Hr Hle. induction Hle as [|m Hle IH]; [exact H|]. apply run_S; assumption.
Qed.

(** * the memo table is invisible *)
Variable tag_body : N -> pexp.

Fixpoint wf_pexp (p : pexp) : Prop :=
  match p with
  | Memo tag a => a = tag_body tag /\ wf_pexp a
  | Seq2 a b | Alt2 a b | IfThen a b => wf_pexp a /\ wf_pexp b
  | Mk _ a | Collapse _ a => wf_pexp a
  | _ => True
  end.

(** every memoised expression is determined by its tag *)
Hypothesis g_wf : forall nt, wf_pexp (g nt).

Definition table_ok (st : mstate) : Prop :=
  forall s tag r, tlookup (table st) s tag = Some r ->
    r <> Fuel /\ exists m, run m (tag_body tag) s [] = r.

Lemma tlookup_cons t s tag r s' tag' :
  tlookup (((s, tag), r) :: t) s' tag' =
  if Nat.eqb s' s && N.eqb tag' tag then Some r else tlookup t s' tag'.
Proof. reflexivity. Qed.

Ltac weak H m := eapply run_weaken; [exact H|discriminate|lia].

Theorem memo_transparent : forall n p s acc st r st',
  wf_pexp p -> table_ok st -> runm n p s acc st = (r, st') ->
  table_ok st' /\ (r <> Fuel -> exists m, run m p s acc = r).
Proof.
  induction n as [|n IH]; intros p s acc st r st' Hwf Hst H.
  { cbn in H. inversion H; subst. split; [exact Hst|congruence]. }
  destruct p; cbn [Peg.runm] in H; cbn [wf_pexp] in Hwf.
  - inversion H; subst. split; [exact Hst|]. intros _. exists 1. reflexivity.
  - assert (Hsame : table_ok (mk_mstate (table st) (S (reads st)) (hits st))) by exact Hst.
    destruct (kind_at s) as [k|] eqn:Ek.
    + destruct (class_ok c k) eqn:Ec; inversion H; subst; (split; [exact Hsame|]); intros _; exists 1; rewrite run_eq; rewrite Ek, Ec; reflexivity.
    + inversion H; subst. split; [exact Hsame|]. intros _. exists 1. rewrite run_eq. rewrite Ek. reflexivity.
  - destruct Hwf as [Ha Hb].
    destruct (runm n p1 s acc st) as [ra st1] eqn:Ea.
    destruct (IH _ _ _ _ _ _ Ha Hst Ea) as [T1 X1].
    destruct ra as [s1 m1| |].
    + destruct (runm n p2 s1 (acc ++ m1) st1) as [rb st2] eqn:Eb.
      destruct (IH _ _ _ _ _ _ Hb T1 Eb) as [T2 X2].
      destruct (X1 ltac:(discriminate)) as [ma Hma].
      destruct rb as [s2 m2| |]; inversion H; subst; (split; [exact T2|]); intros Hr; try congruence.
      * destruct (X2 ltac:(discriminate)) as [mb Hmb]. exists (S (ma + mb)). rewrite run_eq.
        rewrite (run_weaken _ (ma + mb) _ _ _ _ Hma) by (discriminate || lia).
        rewrite (run_weaken _ (ma + mb) _ _ _ _ Hmb) by (discriminate || lia). reflexivity.
      * destruct (X2 ltac:(discriminate)) as [mb Hmb]. exists (S (ma + mb)). rewrite run_eq.
        rewrite (run_weaken _ (ma + mb) _ _ _ _ Hma) by (discriminate || lia).
        rewrite (run_weaken _ (ma + mb) _ _ _ _ Hmb) by (discriminate || lia). reflexivity.
    + inversion H; subst. split; [exact T1|]. intros _. destruct (X1 ltac:(discriminate)) as [ma Hma].
      exists (S ma). rewrite run_eq. rewrite Hma. reflexivity.
    + inversion H; subst. split; [exact T1|congruence].
  - destruct Hwf as [Ha Hb].
    destruct (runm n p1 s acc st) as [ra st1] eqn:Ea.
    destruct (IH _ _ _ _ _ _ Ha Hst Ea) as [T1 X1].
    destruct ra as [s1 m1| |].
    + inversion H; subst. split; [exact T1|]. intros _. destruct (X1 ltac:(discriminate)) as [ma Hma].
      exists (S ma). rewrite run_eq. rewrite Hma. reflexivity.
    + destruct (IH _ _ _ _ _ _ Hb T1 H) as [T2 X2]. split; [exact T2|]. intros Hr.
      destruct (X1 ltac:(discriminate)) as [ma Hma]. destruct (X2 Hr) as [mb Hmb].
      exists (S (ma + mb)). rewrite run_eq.
      rewrite (run_weaken _ (ma + mb) _ _ _ _ Hma) by (discriminate || lia).
      apply (run_weaken _ (ma + mb) _ _ _ _ Hmb); [exact Hr|lia].
    + inversion H; subst. split; [exact T1|congruence].
  - destruct (runm n p s [] st) as [ra st1] eqn:Ea.
    destruct (IH _ _ _ _ _ _ Hwf Hst Ea) as [T1 X1].
    destruct ra as [s1 m1| |]; inversion H; subst; (split; [exact T1|]); intros Hr; try congruence;
      destruct (X1 ltac:(discriminate)) as [ma Hma]; exists (S ma); rewrite run_eq; rewrite Hma; reflexivity.
  - destruct (runm n p s [] st) as [ra st1] eqn:Ea.
    destruct (IH _ _ _ _ _ _ Hwf Hst Ea) as [T1 X1].
    destruct ra as [s1 m1| |].
    + destruct (X1 ltac:(discriminate)) as [ma Hma].
      destruct m1 as [|x [|y m1]]; inversion H; subst; (split; [exact T1|]); intros _;
        exists (S ma); rewrite run_eq; rewrite Hma; reflexivity.
    + inversion H; subst. split; [exact T1|]. intros _. destruct (X1 ltac:(discriminate)) as [ma Hma].
      exists (S ma). rewrite run_eq. rewrite Hma. reflexivity.
    + inversion H; subst. split; [exact T1|congruence].
  - destruct (IH _ _ _ _ _ _ (g_wf nt) Hst H) as [T1 X1]. split; [exact T1|]. intros Hr.
    destruct (X1 Hr) as [ma Hma]. exists (S ma). rewrite run_eq. exact Hma.
  - destruct Hwf as [-> Ha].
    destruct (tlookup (table st) s tag) as [rc|] eqn:El.
    + inversion H; subst. split; [exact Hst|]. intros _.
      destruct (Hst _ _ _ El) as [_ [m Hm]]. exists (S m). rewrite run_eq. exact Hm.
    + destruct (runm n (tag_body tag) s [] st) as [ra st1] eqn:Ea.
      destruct (IH _ _ _ _ _ _ Ha Hst Ea) as [T1 X1].
      assert (Hnew : forall ra', ra' <> Fuel -> ra = ra' ->
                table_ok (mk_mstate (((s, tag), ra') :: table st1) (reads st1) (hits st1))).
      { intros ra' Hne -> s0 tag0 r0 Hl. cbn [table] in Hl. rewrite tlookup_cons in Hl.
        destruct (Nat.eqb s0 s && N.eqb tag0 tag) eqn:Ekey.
        - inversion Hl; subst. split; [exact Hne|].
          apply andb_true_iff in Ekey. destruct Ekey as [K1 K2]. apply Nat.eqb_eq in K1. apply N.eqb_eq in K2. subst.
          destruct (X1 Hne) as [m Hm]. exists m. exact Hm.
        - apply T1. exact Hl. }
      destruct ra as [s1 m1| |]; inversion H; subst.
      * split; [apply (Hnew (Ok s1 m1)); [discriminate|reflexivity]|]. intros _.
        destruct (X1 ltac:(discriminate)) as [ma Hma]. exists (S ma). rewrite run_eq. exact Hma.
      * split; [apply (Hnew Fail); [discriminate|reflexivity]|]. intros _.
        destruct (X1 ltac:(discriminate)) as [ma Hma]. exists (S ma). rewrite run_eq. exact Hma.
      * split; [exact T1|congruence].
  - destruct Hwf as [Ha Hb].
    destruct (runm n p1 s acc st) as [ra st1] eqn:Ea.
    destruct (IH _ _ _ _ _ _ Ha Hst Ea) as [T1 X1].
    destruct ra as [s1 m1| |].
    + destruct (runm n p2 s1 (acc ++ m1) st1) as [rb st2] eqn:Eb.
      destruct (IH _ _ _ _ _ _ Hb T1 Eb) as [T2 X2].
      destruct (X1 ltac:(discriminate)) as [ma Hma].
      destruct rb as [s2 m2| |]; inversion H; subst; (split; [exact T2|]); intros Hr; try congruence;
        destruct (X2 ltac:(discriminate)) as [mb Hmb]; exists (S (ma + mb)); rewrite run_eq;
        rewrite (run_weaken _ (ma + mb) _ _ _ _ Hma) by (discriminate || lia);
        rewrite (run_weaken _ (ma + mb) _ _ _ _ Hmb) by (discriminate || lia); reflexivity.
    + inversion H; subst. split; [exact T1|]. intros _. destruct (X1 ltac:(discriminate)) as [ma Hma].
      exists (S ma). rewrite run_eq. rewrite Hma. reflexivity.
    + inversion H; subst. split; [exact T1|congruence].
  - inversion H; subst. split; [exact Hst|]. intros _. exists 1. reflexivity.
Qed.

(** from the empty table: the memoising parser returns what the plain one returns *)
Corollary memo_transparent_top n p s acc r st' :
  wf_pexp p -> runm n p s acc (mk_mstate [] 0 0) = (r, st') -> r <> Fuel -> exists m, run m p s acc = r.
Proof.
  intros Hwf H Hr. destruct (memo_transparent n p s acc (mk_mstate [] 0 0) r st' Hwf) as [_ X]; [|exact H|exact (X Hr)].
  intros s0 tag0 r0 Hl. discriminate.
Qed.
End Proofs.
