open BinNat
open BinNums
open Datatypes
open List
open Text

val p2u_go : text -> coq_N -> coq_N -> coq_N -> coq_N -> coq_N -> coq_N

val position_to_utf8 : text -> coq_N -> coq_N -> coq_N

val u2p_go : text -> coq_N -> coq_N -> coq_N -> coq_N -> coq_N * coq_N

val utf8_to_position : text -> coq_N -> coq_N * coq_N

val utf8_range_to_position :
  text -> coq_N -> coq_N -> (coq_N * coq_N) * (coq_N * coq_N)

val u2c_go : text -> coq_N -> coq_N -> coq_N -> coq_N

val utf8_to_char_index : text -> coq_N -> coq_N

val split_lines : text -> text list

val content : text -> text

val col8 : text -> coq_N -> coq_N

val spec_go : text list -> coq_N -> coq_N -> coq_N

val pos_spec : text -> coq_N -> coq_N -> coq_N

val client_off16 : coq_N list -> coq_N -> coq_N -> coq_N -> coq_N

val select16 : coq_N list -> (coq_N * coq_N) -> (coq_N * coq_N) -> coq_N list
