(* layer handlers: Folder.f_goto / f_references / f_rename on a resolved folder.
   Input, one line per folder: sections separated by "|":
     "H <internal ids...>"
     then per module three sections
       "U <s e is ie def qs qe qn>..."   (def = -1: none; qs = -1: unqualified)
       "N <id s e is ie decl>..."
       "Q <s e name>..."
     then "X <kind m idx>..."             (kind 0 = definition, 1 = references, 2 = rename, 3 = prepareRename)
   Output: one answer per query separated by ";": "m:s:e" items separated by spaces ("-" = none / empty) *)
open Conv

let split_bar = L_diag.split_bar

let rec uses = function
  | s :: e :: is :: ie :: d :: qs :: qe :: qn :: r ->
      let u = { Handlers.u_start = n_of_int s; u_end = n_of_int e; u_istart = n_of_int is; u_iend = n_of_int ie;
                u_def = (if d < 0 then None else Some (n_of_int d)) } in
      { Folder.v_use = u; v_q = (if qs < 0 then None else Some ((n_of_int qs, n_of_int qe), n_of_int qn)) } :: uses r
  | _ -> []

let rec nodes = function
  | id :: s :: e :: is :: ie :: d :: r ->
      { Folder.n_id = n_of_int id; n_start = n_of_int s; n_end = n_of_int e; n_istart = n_of_int is; n_iend = n_of_int ie; n_decl = (d <> 0) } :: nodes r
  | _ -> []

let rec quals = function
  | s :: e :: x :: r -> { Folder.q_start = n_of_int s; q_end = n_of_int e; q_name = n_of_int x } :: quals r
  | _ -> []

let rec mods = function
  | ("U" :: us) :: ("N" :: ns) :: ("Q" :: qs) :: r ->
      { Folder.fm_uses = uses (ints us); fm_nodes = nodes (ints ns); fm_quals = quals (ints qs) } :: mods r
  | _ -> []

let item ((m, s), e) = Printf.sprintf "%d:%d:%d" (int_of_nat m) (int_of_n s) (int_of_n e)
let items l = if l = [] then "-" else String.concat " " (Stdlib.List.map item l)

let run () =
  each_line (fun line ->
      match split_bar (words line) with
      | ("H" :: hs) :: rest ->
          let rec last_and_init acc = function
            | [ x ] -> (Stdlib.List.rev acc, x)
            | x :: r -> last_and_init (x :: acc) r
            | [] -> ([], []) in
          let (ms, x) = last_and_init [] rest in
          (match x with
           | "X" :: qs ->
               let f = { Folder.f_mods = mods ms; f_internal = Stdlib.List.map n_of_int (ints hs) } in
               let rec go = function
                 | k :: m :: idx :: r ->
                     let m' = nat_of_int m and i = n_of_int idx in
                     let a =
                       if k = 0 then (match Folder.f_goto f m' i with Some x -> item x | None -> "-")
                       else if k = 1 then items (Folder.f_references f m' i)
                       else if k = 2 then items (Folder.f_rename f m' i)
                       else (match Folder.f_prepare f m' i with Some (s, e) -> item ((m', s), e) | None -> "-") in
                     a :: go r
                 | _ -> [] in
               print_endline (String.concat ";" (go (ints qs)))
           | _ -> print_endline "ERROR bad request")
      | _ -> print_endline "ERROR bad request")
