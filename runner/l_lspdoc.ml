(* the document store of the language server on event lists (same protocol as harness/src/l_lspdoc.rs) *)
open Conv
open Lsp

let run () =
  each_line (fun line ->
      match words line with
      | "H" :: rest ->
          let toks = ref rest in
          let next () = match !toks with w :: r -> toks := r; w | [] -> failwith "eof" in
          let take_text () =
            let n = int_of_string (next ()) in
            Stdlib.List.init n (fun _ -> n_of_int (int_of_string (next ())))
          in
          let evs = ref [] in
          (try
             while !toks <> [] do
               match next () with
               | "O" ->
                   let u = n_of_int (int_of_string (next ())) in
                   let t = take_text () in
                   evs := EOpen (u, t) :: !evs
               | "X" -> evs := EClose (n_of_int (int_of_string (next ()))) :: !evs
               | "C" ->
                   let u = n_of_int (int_of_string (next ())) in
                   let k = int_of_string (next ()) in
                   let cs =
                     Stdlib.List.init k (fun _ ->
                         match next () with
                         | "F" -> CFull (take_text ())
                         | _ ->
                             let a = n_of_int (int_of_string (next ())) in
                             let b = n_of_int (int_of_string (next ())) in
                             let c = n_of_int (int_of_string (next ())) in
                             let d = n_of_int (int_of_string (next ())) in
                             let t = take_text () in
                             CIncr (a, b, c, d, t))
                   in
                   evs := EChange (u, cs) :: !evs
               | _ -> ()
             done
           with Failure _ -> ());
          (match run [] (Stdlib.List.rev !evs) with
          | None -> print_endline "dead"
          | Some s ->
              let docs = Stdlib.List.sort compare (Stdlib.List.map (fun (u, t) -> (int_of_n u, t)) s) in
              print_endline
                ("ok "
                ^ String.concat ";"
                    (Stdlib.List.map
                       (fun (u, t) ->
                         Printf.sprintf "%d:%d:%s" u (Stdlib.List.length t)
                           (String.concat "," (Stdlib.List.map (fun c -> string_of_int (int_of_n c)) t)))
                       docs)))
      | _ -> print_endline "?")
