//! The playground entry point (oal_wasm::compile, built natively). One JSON string per line in,
//! {"api": ..., "error": ...} out.
use serde_json::{json, Value};
use std::io::{BufRead, Write};

pub fn run() {
    crate::l_compile::install_panic_hook();
    let stdin = std::io::stdin();
    let stdout = std::io::stdout();
    let mut out = stdout.lock();
    for line in stdin.lock().lines() {
        let line = line.unwrap();
        let req: Value = serde_json::from_str(&line).unwrap_or(Value::Null);
        let src = req["source"].as_str().unwrap_or("").to_owned();
        let res = crate::l_compile::guarded(std::panic::AssertUnwindSafe(|| {
            let r = oal_wasm::compile(&src);
            json!({"status": "done", "api": r.api, "error": r.error})
        }));
        writeln!(out, "{}", res).unwrap();
        out.flush().unwrap();
    }
}
