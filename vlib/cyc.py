"""Generator of programs with cyclic definition graphs (C09, C01) and the reference verdict:
a program passes the recursion check iff every cycle of the definition graph goes through a
declaration that evaluates to a reference (a schema that is not uri-like)."""

CORPUS = [
    "let a = { 'b [a] };\nres /a on get -> <a>;\n",
    "let f x = { 'n (f x) };\nres /f on get -> <f num>;\n",
    "let a = b;\nlet b = a;\nres /ab on get -> <a>;\n",
    "let c = <d>;\nlet d = { 'c c };\nres /c on get -> c;\n",
    "let page item = { 'items [item], 'next (page item), 'owner user };\nlet user = { 'name str, 'friends (page str) };\nres /users on get -> <user>;\n",
    "let wrap x = nest x;\nlet nest x = wrap x;\nlet s = { 'a [s] };\nres /w on get -> <s>;\n",
    "let tree t = rec x { 'v t, 'kids [x] };\nres /ints on get -> <tree int>;\nres /strs on get -> <tree str>;\n",
    "let a = { 'n b };\nlet b = { 'm [a] };\nres /m on get -> <a> :: <status=404, b>;\n",
    "let u = /x/{ 'id num }?{ 'next u };\nres u on get -> <>;\n",
    "let p = 'self q;\nlet q = { p };\nres /pq on get -> <q>;\n",
    "let node = { 'labels rec x [x], 'owner owner };\nlet owner = { 'name str, 'nodes [node] };\nres /nodes on get -> <node>;\n",
    "let f x = { 'l rec y [y], 'n (g x) };\nlet g x = f x;\nres / on get -> <f str>;\n",
    # a recursion point that is the whole range or domain of a transfer (object <-> relation, rec in an applied function)
    "let item = { 'name str, 'self rel };\nlet rel = /items/{ 'id int } on get -> item;\nres /items on get -> [item];\nres rel;\n",
    "let page x = rec p { 'items [x], 'next (/more on get -> p) };\nres /nums on get -> <page num>;\nres /strs on get -> <page str>;\n",
    "let node = { 'kids (/kids on put : node -> <>) };\nres /n on get -> <node>;\n",
    # cycles of URI declarations (through concat, through query parameters): never a schema to cut at
    "let a = concat /a a;\nres a;\n",
    "let a = concat /a b;\nlet b = concat /b a;\nres a on get -> <>;\n",
    "let a = /x?{ 'n b };\nlet b = concat a /y;\nres b on get -> <>;\n",
    "let a = /x/{ 'id a };\nres a on get -> <>;\n",
    # cycles through properties only (no schema to cut at), at several depths: rejected by the occurs check of the inference
    "let a = 'p a;\nres / on get -> { a };\n",
    "let a = 'p ('q a);\nres / on get -> { a };\n",
    "let a = 'p ('q ('r ('s a)));\nres / on get -> { a };\n",
    "let f x = 'p (g x);\nlet g y = 'q (f y);\nres / on get -> { f str };\n",
    "let f x = 'p ('q ('r (f x)));\nres / on get -> { f num };\n",
    "let a = 'p b;\nlet b = 'q c;\nlet c = 'r a;\nres / on get -> { a };\n",
]


def gen_cyclic(rng):
    """returns (program, info) where info = {'kinds': {...}, 'edges': [...], 'expect_cycle_error': bool}"""
    n = rng.randint(2, 6)
    kinds = [rng.choice("SSSFAC") for _ in range(n)]
    names = ["n%d" % i for i in range(n)]
    edges = {i: [] for i in range(n)}
    for i in range(n):
        k = rng.choice([0, 1, 1, 2])
        for _ in range(k):
            edges[i].append(rng.randrange(n))
    lines = []
    for i in range(n):
        tg = edges[i]

        def use(j):
            # how declaration j is mentioned: functions are applied to a primitive
            return "(%s num)" % names[j] if kinds[j] == "F" else names[j]

        def schema_use(j):
            # a content cannot sit in schema position: wrap nothing, the checker will reject; keep it well kinded
            return "num" if kinds[j] == "C" else use(j)
        # a local recursion (rec) before, between or after the mentions: no edge of the declaration graph
        recs = rng.random() < 0.3

        def with_rec(ps):
            if recs:
                ps.insert(rng.randint(0, len(ps)), "'r%d rec y%d [y%d]" % (i, i, i))
            return ", ".join(ps)
        if kinds[i] == "S":
            props = with_rec(["'p%d [%s]" % (t, schema_use(j)) for t, j in enumerate(tg)]) or "'z num"
            lines.append("let %s = { %s };" % (names[i], props))
        elif kinds[i] == "F":
            props = with_rec(["'p%d %s" % (t, schema_use(j)) for t, j in enumerate(tg)])
            lines.append("let %s x = { 'x x%s };" % (names[i], (", " + props) if props else ""))
        elif kinds[i] == "A":
            if tg and kinds[tg[0]] != "C":
                lines.append("let %s = %s;" % (names[i], use(tg[0])))
                edges[i] = tg[:1]
            else:
                lines.append("let %s = str;" % names[i])
                edges[i] = []
        else:
            body = schema_use(tg[0]) if tg else "num"
            lines.append("let %s = <%s>;" % (names[i], body))
            edges[i] = tg[:1] if tg and kinds[tg[0]] != "C" else []
    # real edges: a content mentioned in schema position was replaced by num
    real = {i: [j for j in edges[i] if not (kinds[j] == "C" and kinds[i] != "C" and True)] for i in range(n)}
    for i in range(n):
        if kinds[i] in "SF":
            real[i] = [j for j in edges[i] if kinds[j] != "C"]
    root = rng.randrange(n)
    r = names[root] if kinds[root] != "F" else "(%s str)" % names[root]
    if kinds[root] == "C":
        lines.append("res /r on get -> %s;" % r)
    else:
        lines.append("res /r on get -> <%s>;" % r)
    src = "\n".join(lines) + "\n"
    # alias chains: an alias of a referential schema is referential too
    def referential(i, seen=()):
        if kinds[i] == "S":
            return True
        if kinds[i] == "A" and real[i] and i not in seen:
            j = real[i][0]
            # an alias of an application takes the function's range tag (an object here)
            return kinds[j] == "F" or referential(j, seen + (i,))
        return False
    nonref = [i for i in range(n) if not referential(i)]
    color = {}

    def dfs(i):
        color[i] = 1
        for j in real[i]:
            if j not in nonref:
                continue
            if color.get(j) == 1 or (color.get(j) is None and dfs(j)):
                return True
        color[i] = 2
        return False
    bad = any(color.get(i) is None and dfs(i) for i in nonref)
    prog = {"mods": {"file:///w/main.oal": src}, "main": "file:///w/main.oal", "features": ["cyclic"], "ast": None}
    ref_flags = [1 if referential(i) else 0 for i in range(n)]
    model_line = "Y %d %s | %s" % (n, " ".join(map(str, ref_flags)), " ".join("%d:%d" % (i, j) for i in range(n) for j in real[i]))
    return prog, {"kinds": kinds, "edges": real, "expect_cycle_error": bad, "model_line": model_line}
