open Datatypes

(** val firstn : nat -> 'a1 list -> 'a1 list **)

let rec firstn n l =
  match n with
  | O -> []
  | S n0 -> (match l with
             | [] -> []
             | a :: l0 -> a :: (firstn n0 l0))

(** val skipn : nat -> 'a1 list -> 'a1 list **)

let rec skipn n l =
  match n with
  | O -> l
  | S n0 -> (match l with
             | [] -> []
             | _ :: l0 -> skipn n0 l0)
