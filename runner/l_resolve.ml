(* layer L3: name resolution of one module.
   R <imports> ; <stmts>
   imports: I <q|-> <k> (<name> <def>)*k   (repeated)
   stmts:   D <node> <name> <np> (<bnode> <bname>)*np <tree>  |  S <tree>
   tree:    v <use> <q|-> <x>  |  r <bind> <b> <tree>  |  n <k> <tree>*k
   output:  ok <use>:<def> ...   |  err notinscope <use>  |  err dup <node>   (builtin = B) *)
open Conv
open Resolve

let num w = n_of_int (int_of_string w)
let opt w = if w = "-" then None else Some (num w)

let rec parse_tree (ws : string list) : rtree * string list =
  match ws with
  | "v" :: u :: q :: x :: rest -> (RVar (num u, opt q, num x), rest)
  | "r" :: bind :: b :: rest ->
      let t, rest = parse_tree rest in
      (RRec (num bind, num b, t), rest)
  | "n" :: k :: rest ->
      let rec go k acc rest =
        if k = 0 then (Stdlib.List.rev acc, rest)
        else
          let t, rest = parse_tree rest in
          go (k - 1) (t :: acc) rest
      in
      let cs, rest = go (int_of_string k) [] rest in
      (RNode cs, rest)
  | _ -> failwith "tree"

let show_def = function DExt n -> string_of_int (int_of_n n) | DBuiltin _ -> "B"

let run () =
  each_line (fun line ->
      match words line with
      | "R" :: rest ->
          let imports = ref [] and stmts = ref [] in
          let rec go ws =
            match ws with
            | [] -> ()
            | ";" :: ws -> go ws
            | "I" :: q :: k :: ws ->
                let k = int_of_string k in
                let rec take k acc ws =
                  if k = 0 then (Stdlib.List.rev acc, ws)
                  else match ws with a :: b :: ws' -> take (k - 1) ((num a, num b) :: acc) ws' | _ -> failwith "imp"
                in
                let ex, ws = take k [] ws in
                imports := (opt q, ex) :: !imports;
                go ws
            | "D" :: node :: name :: np :: ws ->
                let np = int_of_string np in
                let rec take k acc ws =
                  if k = 0 then (Stdlib.List.rev acc, ws)
                  else match ws with a :: b :: ws' -> take (k - 1) ((num a, num b) :: acc) ws' | _ -> failwith "par"
                in
                let ps, ws = take np [] ws in
                let t, ws = parse_tree ws in
                stmts := SDecl { d_node = num node; d_name = num name; d_params = ps; d_rhs = t } :: !stmts;
                go ws
            | "S" :: ws ->
                let t, ws = parse_tree ws in
                stmts := SRes t :: !stmts;
                go ws
            | _ -> failwith "stmt"
          in
          go rest;
          (match resolve_module (Stdlib.List.rev !imports) (Stdlib.List.rev !stmts) with
          | Coq_inl ds ->
              print_endline
                ("ok " ^ String.concat " " (Stdlib.List.map (fun (u, d) -> string_of_int (int_of_n u) ^ ":" ^ show_def d) ds))
          | Coq_inr (NotInScope u) -> Printf.printf "err notinscope %d\n" (int_of_n u)
          | Coq_inr (DuplicateDecl n) -> Printf.printf "err dup %d\n" (int_of_n n))
      | _ -> print_endline "?")
