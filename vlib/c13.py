"""C13 — front ends agree, and the CLI writes the target only on success.
Proof: coq/Properties/C13.v (glue state machine). Monitor O13 on the real binaries: oal-cli in
temporary directories for sources rejected at each phase and accepted ones, options vs config
file, with / without / bad base, existing / missing target; the playground entry point
(oal_wasm::compile, native) and the language server on the same sources."""
import json
import os
import re
import shutil
import subprocess
from . import core, progs, lsp, lspws
from .c14 import rand_base

REJECTED = [
    ("lexical", "res / on get -> <>;\n§\n"),
    ("lexical-number", "res / on get -> <{ 'p 99999999999999999999999 }>;\n"),
    ("syntax", "let a = ;\nres / on get -> <>;\n"),
    ("syntax-trailing", "res / on get -> <>;\n}\n"),
    ("syntax-trailing-at-end-of-text", "res / on get -> {}; }"),
    ("lexical-at-end-of-text", "res / on get -> {};\n$"),
    ("scope-at-end-of-text", "res / on get -> <nosuch>"),
    ("not-in-scope", "res / on get -> <nosuch>;\n"),
    ("duplicate", "let a = num;\nlet a = str;\nres / on get -> <a>;\n"),
    ("type", "res / on get -> <{ 5XX }>;\n"),
    ("recursion", "let f x = { 'n (f x) };\nres / on get -> <f num>;\n"),
    ("eval-status", "let s = 999;\nres / on get -> <status=s, {}>;\n"),
    ("eval-status-beyond-u16", "res / on get -> <status=70000, {}>;\n"),
    ("import-missing", 'use "nosuch.oal";\nres / on get -> <>;\n'),
    ("import-cycle", 'use "main.oal";\nres / on get -> <>;\n'),
    ("annotation-yaml", "res / on get -> <num `minimum: [`>;\n"),
]


DECOY = b"# the target named by the configuration file, not the one asked for\n"


def run_cli(root, mode, main="main.oal", target="out.yaml", base=None, timeout=60):
    if mode == "options":
        args = ["-m", main, "-t", target] + (["-b", base] if base else [])
    elif mode == "mixed":
        # options and configuration file together: every option given on the command line wins
        # (Config::main, target, base: `args.or(file)`); the entries of the file name decoys
        with open(os.path.join(root, "cfgmain.oal"), "w") as f:
            f.write("let a = ;\n")
        with open(os.path.join(root, "cfgbase.yaml"), "w") as f:
            f.write("openapi: [unclosed\n")
        with open(os.path.join(root, "cfgout.yaml"), "wb") as f:
            f.write(DECOY)
        with open(os.path.join(root, "conf.toml"), "w") as f:
            f.write('[api]\nmain = "cfgmain.oal"\ntarget = "cfgout.yaml"\n' + ('base = "cfgbase.yaml"\n' if base else ""))
        args = ["-c", "conf.toml", "-m", main, "-t", target] + (["-b", base] if base else [])
    elif mode == "mixed-target":
        # the file gives main (and base), the command line only the target
        with open(os.path.join(root, "cfgout.yaml"), "wb") as f:
            f.write(DECOY)
        with open(os.path.join(root, "conf.toml"), "w") as f:
            f.write('[api]\nmain = "%s"\ntarget = "cfgout.yaml"\n' % main + ('base = "%s"\n' % base if base else ""))
        args = ["-c", "conf.toml", "-t", target]
    else:
        with open(os.path.join(root, "conf.toml"), "w") as f:
            f.write('[api]\nmain = "%s"\ntarget = "%s"\n' % (main, target) + ('base = "%s"\n' % base if base else ""))
        args = ["-c", "conf.toml"]
    try:
        p = subprocess.run([core.CLI] + args, cwd=root, capture_output=True, timeout=timeout)
        return p.returncode, p.stderr.decode("utf8", "replace"), p.stdout.decode("utf8", "replace")
    except subprocess.TimeoutExpired:
        return "timeout", "", ""


def read(path):
    try:
        with open(path, "rb") as f:
            return f.read()
    except OSError:
        return None


LOCATED = re.compile(r"(file://|\.oal)[^\n]*:\d+:\d+|╭─\[|file://[^\s]+\.oal")


def one_case(ctx, idx, kind, files, mode, base_kind, target_exists, expect_ok_hint=None):
    root = lspws.fresh_dir("c13_%d" % idx)
    for n, t in files.items():
        path = os.path.join(root, n)
        os.makedirs(os.path.dirname(path), exist_ok=True)
        with open(path, "w") as f:
            f.write(t)
    base = None
    base_json = None
    if base_kind == "good":
        base_json = rand_base(ctx.rng)
        with open(os.path.join(root, "base.yaml"), "w") as f:
            f.write(json.dumps(base_json))
        base = "base.yaml"
    elif base_kind == "bad":
        with open(os.path.join(root, "base.yaml"), "w") as f:
            f.write("openapi: [unclosed\n")
        base = "base.yaml"
    elif base_kind == "missing":
        base = "nobase.yaml"
    tpath = os.path.join(root, "out.yaml")
    old = None
    if target_exists:
        old = ("# previous content\n" + "x" * 9000 + "\n").encode()
        with open(tpath, "wb") as f:
            f.write(old)
    rc, err, _ = run_cli(root, mode, base=base)
    after = read(tpath)
    inp = {"kind": kind, "files": files, "mode": mode, "base": base_kind, "target_existed": target_exists}
    ctx.cov["evaluations"] += 1
    # the reference outcome: the same pipeline in memory
    mods = {"file://%s/%s" % (root, n): t for n, t in files.items()}
    req = {"mods": mods, "main": "file://%s/main.oal" % root}
    if base_kind == "good":
        req["base"] = json.dumps(base_json)
    ref = progs.compile_many([req])[0]
    ref_ok = ref.get("status") == "ok" and base_kind not in ("bad", "missing")
    if rc == "timeout" or (isinstance(rc, int) and rc not in (0, 1)):
        ctx.violation("oal-cli hangs or ends abnormally", inp, "exit 0 or 1", "%s %s" % (rc, err[-300:]))
        return ref_ok
    if rc == 0:
        if not ref_ok:
            ctx.violation("oal-cli exits with success although the sources (or the base) are rejected", inp, "failure", err[-300:])
            return ref_ok
        if after is None:
            ctx.violation("oal-cli exits with success without writing the target", inp, "target written", "no file")
            return ref_ok
        if after.decode("utf8", "replace") != ref["yaml"]:
            ctx.violation("oal-cli exits with success but the target does not hold exactly the complete document",
                          inp, "%d bytes" % len(ref["yaml"].encode()), "%d bytes" % len(after))
    else:
        if ref_ok:
            ctx.violation("oal-cli fails although the sources are accepted", inp, "success", err[-300:])
            return ref_ok
        if after != old:
            ctx.violation("oal-cli fails but the target was created or modified", inp, "untouched", "modified")
        if not err.strip():
            ctx.violation("oal-cli fails without any diagnostic", inp, "a diagnostic on stderr", "(empty)")
        elif kind not in ("config",) and base_kind not in ("bad", "missing") and not LOCATED.search(err):
            ctx.violation("the diagnostic of oal-cli is not located in the sources", inp, "a reference to the source file", err[-300:])
    if mode.startswith("mixed") and read(os.path.join(root, "cfgout.yaml")) != DECOY:
        ctx.violation("oal-cli wrote to the target of the configuration file although another target was given on the command line",
                      inp, "cfgout.yaml untouched", "modified")
    for other in files:
        if read(os.path.join(root, other)) != files[other].encode():
            ctx.violation("oal-cli modified a source file", inp, "untouched", other)
    ctx.count("cli_%s_%s" % ("ok" if rc == 0 else "fail", kind))
    return ref_ok


def odd_names(ctx):
    """main, import, base and target whose names contain characters a URL percent-encodes: the files named are the files used"""
    src = 'use "my lib é.oal" as l;\nres /a on get -> <l.t>;\n'
    lib = "let t = { 'n num };\n"
    for k, (mainn, targ, basen) in enumerate([("my main é.oal", "my api é.yaml", None), ("100%.oal", "out 100%.yaml", "my base.yaml"),
                                              ("main.oal", "sub dir/out.yaml", None)]):
        root = lspws.fresh_dir("c13_odd_%d" % k)
        os.makedirs(os.path.join(root, "sub dir"), exist_ok=True)
        for n, t in ((mainn, src), ("my lib é.oal", lib)):
            with open(os.path.join(root, n), "w") as f:
                f.write(t)
        if basen:
            with open(os.path.join(root, basen), "w") as f:
                f.write(json.dumps({"openapi": "3.0.3", "info": {"title": "odd", "version": "1"}, "paths": {}}))
        old = b"# previous content\n"
        with open(os.path.join(root, targ), "wb") as f:
            f.write(old)
        before = set(os.listdir(root)) | set("sub dir/" + x for x in os.listdir(os.path.join(root, "sub dir")))
        rc, err, _ = run_cli(root, "options", main=mainn, target=targ, base=basen)
        after = read(os.path.join(root, targ))
        now = set(os.listdir(root)) | set("sub dir/" + x for x in os.listdir(os.path.join(root, "sub dir")))
        ctx.cov["evaluations"] += 1
        inp = {"main": mainn, "target": targ, "base": basen, "files": {mainn: src, "my lib é.oal": lib}}
        if rc != 0:
            ctx.violation("oal-cli fails on accepted sources whose file names need percent-encoding in a URL", inp, "success", err[-300:])
        elif after is None or after == old or b"/a" not in after:
            ctx.violation("oal-cli exits with success but the requested target does not hold the document (file names that need percent-encoding)",
                          inp, "the document in %r" % targ, "new files: %s" % sorted(now - before))
        elif now - before:
            ctx.violation("oal-cli creates a file other than the target", inp, "no new file", sorted(now - before))
        else:
            ctx.count("odd_names_ok")


def front_ends_agree(ctx, idx, kind, src):
    """single import-free source: wasm entry point vs the in-memory pipeline (= CLI, checked above) vs LSP diagnostics"""
    w = core.run_stateless(core.IMPL, "wasm", [json.dumps({"source": src})])[0]
    ctx.cov["evaluations"] += 1
    inp = {"kind": kind, "source": src}
    try:
        wj = json.loads(w)
    except Exception:
        ctx.violation("the playground entry point crashes", inp, "a result", str(w)[:200])
        return
    if wj.get("status") != "done":
        ctx.violation("the playground entry point panics", inp, "a result", str(wj)[:300])
        return
    ref = progs.compile_many([{"mods": {"file:///main.oal": src}, "main": "file:///main.oal"}])[0]
    if (ref.get("status") == "ok") != (wj["api"] != ""):
        ctx.violation("the CLI pipeline and the playground entry point disagree on acceptance", inp, ref.get("status"), "api" if wj["api"] else wj["error"][:200])
    elif ref.get("status") == "ok" and wj["api"] != ref["yaml"]:
        ctx.violation("the CLI pipeline and the playground entry point produce different documents", inp, ref["yaml"][:300], wj["api"][:300])
    elif ref.get("status") != "ok" and not wj["error"].strip():
        ctx.violation("the playground entry point fails without a diagnostic", inp, "a diagnostic", "(empty)")
    # language server: at least one diagnostic iff failure
    root = lspws.fresh_dir("c13_lsp_%d" % idx)
    lsp.write_workspace(root, {"main.oal": src})
    srv = lsp.Server(root)
    try:
        srv.initialize()
        uri = "file://%s/main.oal" % root
        srv.open(uri, src)
        r = srv.pos_request("textDocument/definition", uri, 0, 0)
        srv.drain(0.05)
        n = sum(len(d) for d in srv.diags.values())
        if "dead" in r or not srv.alive():
            ctx.violation("the language server dies on these sources", inp, "alive", "".join(srv.stderr[-3:])[:300])
        elif (n > 0) != (ref.get("status") != "ok"):
            ctx.violation("the language server publishes a diagnostic exactly when the other front ends fail: violated", inp,
                          "diagnostics" if ref.get("status") != "ok" else "no diagnostic", "%d diagnostics" % n)
        else:
            ctx.count("front_ends_agree")
        if ref.get("status") == "ok" and srv.alive():
            # the same sources reached through an edit: the buffer is first a rejected text (each phase in turn), the
            # server shows it, then the buffer becomes the accepted source again: no diagnostic may remain
            for bad_kind, bad_src in [r for r in REJECTED if not r[0].startswith("import")][idx % 3::3]:
                srv.change(uri, [{"text": bad_src}], version=5)
                srv.pos_request("textDocument/definition", uri, 0, 0)
                srv.drain(0.05)
                shown = sum(len(d) for d in srv.diags.values())
                srv.change(uri, [{"text": src}], version=6)
                r = srv.pos_request("textDocument/definition", uri, 0, 0)
                srv.drain(0.05)
                ctx.cov["evaluations"] += 1
                left = sum(len(d) for d in srv.diags.values())
                if "dead" in r or not srv.alive():
                    ctx.violation("the language server dies on these sources", dict(inp, through=bad_kind), "alive", "".join(srv.stderr[-3:])[:300])
                    break
                if shown == 0:
                    ctx.violation("the language server publishes no diagnostic for sources the other front ends reject", {"kind": bad_kind, "source": bad_src},
                                  "diagnostics", "0 diagnostics")
                    break
                if left != 0:
                    ctx.violation("the language server still publishes a diagnostic although the sources (reached by an edit that repairs a rejected "
                                  "buffer) are accepted by the other front ends", dict(inp, through=bad_kind, rejected_buffer=bad_src), "no diagnostic", "%d diagnostics" % left)
                    break
                ctx.count("repaired_buffers_clear")
            if srv.alive() and not ctx.violations:
                # ... and the same sources reached by closing a document whose unsaved buffer was rejected: the file on disk counts again
                bad_kind, bad_src = [r for r in REJECTED if not r[0].startswith("import")][idx % 5]
                srv.change(uri, [{"text": bad_src}], version=7)
                srv.pos_request("textDocument/definition", uri, 0, 0)
                srv.drain(0.05)
                srv.close_doc(uri)
                r = srv.pos_request("textDocument/definition", uri, 0, 0)
                srv.drain(0.05)
                ctx.cov["evaluations"] += 1
                left = sum(len(d) for d in srv.diags.values())
                if "dead" in r or not srv.alive():
                    ctx.violation("the language server dies when a document with a rejected buffer is closed", dict(inp, through=bad_kind), "alive", "".join(srv.stderr[-3:])[:300])
                elif left != 0:
                    ctx.violation("the language server still publishes a diagnostic for a closed document although the sources on disk are accepted by the "
                                  "other front ends", dict(inp, closed_buffer=bad_src), "no diagnostic", "%d diagnostics" % left)
                else:
                    ctx.count("closed_buffers_clear")
    finally:
        srv.stop()


def check(ctx):
    ctx.proof = core.proof_stage("C13", thorough=ctx.thorough)
    ok, out = core.ensure_harness()
    ok2, out2 = core.ensure_repo_bins()
    if not ok or not ok2:
        ctx.broken.append("build against /repo failed: " + (out + out2)[-600:])
        return core.finish(ctx)
    for k in core.known_findings("C13"):
        if k.get("status") == "known":
            root = lspws.fresh_dir("c13_known")
            with open(os.path.join(root, "main.oal"), "w") as f:
                f.write(k["witness"]["source"])
            rc, err, _ = run_cli(root, "options")
            if rc == 1 and not LOCATED.search(err):
                ctx.known(k["what"])
            else:
                core.log("stale known finding " + k["id"])
    idx = 0
    cases = []
    for kind, src in REJECTED:
        cases.append((kind, {"main.oal": src}))
    acc = progs.gen_programs(ctx, 90 if ctx.thorough else 8)
    for p in acc:
        files = {l.rsplit("/", 1)[1]: t for l, t in p["mods"].items()}
        cases.append(("accepted", files))
    cases.append(("accepted-long-then-short", {"main.oal": "res / on get -> <>;\n"}))
    # accepted programs that describe nothing: the document (with empty paths) is still what success means
    cases.append(("accepted-no-resource", {"main.oal": "let a = { 'n num };\nlet @named = [a];\n"}))
    cases.append(("accepted-empty", {"main.oal": ""}))
    cases.append(("accepted-comment-only", {"main.oal": "// nothing yet\n"}))
    cases.append(("accepted-library-only", {"main.oal": 'use "lib.oal";\n', "lib.oal": "let t = str;\n"}))
    for ci, (kind, files) in enumerate(cases):
        for mode in (["options", "config", "mixed", "mixed-target"] if ctx.thorough else [["options", "config"], ["mixed"], ["options", "mixed-target"], ["config", "mixed"]][ci % 4]):
            for base_kind in (["none", "good", "bad"] if ctx.thorough else [["none", "good"], ["none", "bad"], ["good", "missing"]][idx % 3]):
                idx += 1
                one_case(ctx, idx, kind, files, mode, base_kind, target_exists=(idx % 3 != 0))
                if len(ctx.violations) > 4:
                    return core.finish(ctx)
    # missing main / target options
    root = lspws.fresh_dir("c13_cfg")
    with open(os.path.join(root, "main.oal"), "w") as f:
        f.write("res / on get -> <>;\n")
    try:
        p = subprocess.run([core.CLI, "-m", "main.oal"], cwd=root, capture_output=True, timeout=60)
        ctx.cov["evaluations"] += 1
        if p.returncode == 0 or os.path.exists(os.path.join(root, "out.yaml")):
            ctx.violation("oal-cli succeeds without a target", {"args": ["-m", "main.oal"]}, "failure", p.returncode)
    except subprocess.TimeoutExpired:
        ctx.violation("oal-cli hangs", {"args": ["-m", "main.oal"]}, "exit", "timeout")
    odd_names(ctx)
    k = 0
    for kind, src in REJECTED:
        if kind.startswith("import"):
            continue
        k += 1
        front_ends_agree(ctx, k, kind, src)
    for p in acc[: (10 if ctx.thorough else 4)]:
        if len(p["mods"]) == 1:
            k += 1
            front_ends_agree(ctx, k, "accepted", p["mods"][p["main"]])
    ctx.cov["distinct_nontrivial"] = len([c for c in cases])
    ctx.cov["traces_validated_against_impl"] = ctx.cov["evaluations"]
    ctx.cov["rule"] = ("12 sources rejected at each phase (lexical, syntax, scope, duplicate, type, recursion, evaluation, imports, annotation YAML) and generated "
                       "accepted programs (1-3 modules) x {options, config file, options over a config file naming decoys, target option over a config file} x {no base, good base, bad base, missing base} x {target exists with longer "
                       "content, target absent}; outcome compared with the same pipeline run in memory; single-file sources also through oal_wasm::compile and a "
                       "fresh oal-lsp. distinct_nontrivial = number of distinct source sets")
    ctx.assumptions = ["crash atomicity of std::fs::write is a run-time/OS matter outside the model",
                       "`located` means that stderr carries a file:line:column reference (ariadne report)"]
    return core.finish(ctx)
