From Oal Require Import Tag.
Theorem C12_placeholder : True. Proof. exact I. Qed.
Print Assumptions C12_placeholder.
