"""C04 — any text is answered with a result or diagnostics, never a crash.
Monitor O04: arbitrary texts (token sequences exhaustively up to a small length, mutations of
valid programs, Unicode garbage, nesting to depth 200, corpus of past crashes) through the
tokenizer+parser, the playground entry point, the CLI pipeline (in memory and the real binary
for a sample) and the language server's load/evaluate cycle; a panic, abort, stack overflow or
hang is a violation unless it falls in a recorded class of C01."""
import json
import os
import subprocess
from . import core, progs, texts, known, lsp, lspws

CORPUS = [
    "res / on get -> <{ 'p 99999999999999999999999 }>;\n",            # F1
    "let a = 'p a;\nres / on get -> <{a}>;\n",                           # F2
    "let f x = 'p (f x);\nres / on get -> <{ f num }>;\n",
    "res / on get -> <>;\né",
    "let a = { € 'price num };\n",
    "res / on get -> <num `minimum: [`>;\n",
    "# : : :\nlet a = num;\nres / on get -> <a>;\n",
    "let a = num `{`;\nres / on get -> <a>;\n",
    'use "";\n', 'use "http://[::1";\nres / on get -> <>;\n', 'use "main.oal";\n',
    "res", "let", "let a", "let a =", "res /", "res / on", "res / on get", "res / on get ->", "rec", "rec x", "'p", "@", "a.b.c", "a.", ".a",
    "let b = a. ;", "res a. on get -> <>;", "let b = a.b.c;", "let b = m. x;", "res / on get -> <a.>;", "let a = num;\nlet b = a.;\nres / on get -> <b>;\n",
    "let b = a . ;", "let b = .a;", "let b = a..b;", "let f x = x. ;\nres / on get -> <f num>;\n",
    "let @f x = x;", "res concat;", "res concat /a;", "res (concat (/a) (/b) (/c));", "let concat = num;", "res / on get -> concat;",
    "let a = b; let b = a; res a;", "let a = a; res / on get -> <a>;", "let f x = f; res / on get -> <f num>;",
    "res / on get -> <status=0, {}>;", "res / on get -> <status=18446744073709551615, {}>;", "res / on get -> <status=18446744073709551616, {}>;",
]


def check(ctx):
    ctx.proof = core.proof_stage("C04", thorough=ctx.thorough)
    ok, out = core.ensure_harness()
    ok2, out2 = core.ensure_repo_bins()
    if not ok or not ok2:
        ctx.broken.append("build against /repo failed: " + (out + out2)[-600:])
        return core.finish(ctx)
    from . import inventory
    for d in inventory.compare("panics", inventory.panic_inventory()):
        ctx.broken.append("inventory of panic sites changed: " + d)
    if ctx.replay:
        v = json.load(open(ctx.replay))
        tx = [v["input"]["text"]]
    else:
        tx = list(CORPUS)
        L = 4 if ctx.thorough else 3
        for s in texts.seqs_upto(texts.REDUCED[:16], L):
            tx.append(texts.text_of_kinds(s))
        ctx.count("exhaustive_token_texts", len(tx) - len(CORPUS))
        ps = progs.gen_programs(ctx, 1800 if ctx.thorough else 150)
        valid = [p["mods"][p["main"]] for p in ps if len(p["mods"]) == 1]
        for t in valid:
            tx.append(t)
            for _ in range(3):
                tx.append(texts.mutate_text(ctx.rng, t))
        for _ in range(9000 if ctx.thorough else 600):
            tx.append(texts.unicode_garbage(ctx.rng, 60))
        # well-formed texts that stress the phases after parsing: cyclic declaration graphs (functions, contents, aliases,
        # schemas; recursion check and evaluation) and applications with an argument too few or too many (inference)
        from . import cyc, c01
        for _ in range(1500 if ctx.thorough else 250):
            p = cyc.gen_cyclic(ctx.rng)[0]
            tx.append(p["mods"][p["main"]])
        tx += list(cyc.CORPUS) + list(c01.ARITY) + c01.concat_nests() + texts.block_comment_texts(3)
        # ... and accepted programs with one kind error injected (the checks after inference are the only guard of some casts)
        for t in valid[: (900 if ctx.thorough else 120)]:
            tx.append(c01.mutate_illtyped(ctx.rng, t))
        tx += ["let @pair = { 'first rec x { 'next x }, 'second x };\nres / on get -> <@pair>;\n",
               "res /tree on get -> (rec x { 'label str, 'children [x] });\nres /node on get -> <x>;\n",
               "let f y = { 'a y };\nlet g = { 'b y };\nres / on get -> <g>;\n",
               'res /items on delete -> <status="gone">;\n', "let s = { 'code int };\nlet empty = <status=s>;\nres /items on delete -> empty;\n",
               'res /i on get -> <media=12>;\n', "res /i on get -> <headers=num>;\n"]
        tx += ["let a = { 'p (f a) };\nlet f x = g x;\nlet g x = f x | a;\nres / on get -> a;\n",
               "let f x = f x;\nlet a = { 'x a };\nres / on get -> <f a>;\n",
               "let a = { 'x a };\nlet f x = f x;\nres / on get -> <f a>;\n"]
        tx += [p["mods"][p["main"]] for p in progs.shared_corpus() if len(p["mods"]) == 1]
        for op, cl, corev in texts.NESTINGS:
            for d in (50, 200):
                tx.append(texts.nested(d, op, cl, corev) + "res / on get -> <a>;\n")
                tx.append(texts.nested(d, op, cl, corev, close=False))
        tx.append("res / on get -> " + "<" * 200 + ">" * 200 + ";")
        tx.append("let a = " + "num | " * 300 + "num;\nres / on get -> <a>;\n")
        tx.append("let a = " + "{ 'p " * 200 + "a" + " }" * 200 + ";\nres / on get -> <a>;\n")
    # 1. tokenizer + parser
    so = core.run_stateless(core.IMPL, "syntax", [json.dumps({"text": t, "tree": False}) for t in tx], timeout=40, per_case_timeout=10, budget=100)
    bad = [i for i, s in enumerate(so) if s is None or s.startswith(("CRASH", "HANG", "SLOW"))]
    if len(bad) >= 3:
        # the front end already fails on several texts: report them, do not spend the time budget on the later stages
        for i in bad[:5]:
            t = tx[i]
            ctx.violation("the tokenizer/parser panics, aborts or hangs on this text", {"text": t if len(t) < 4000 else t[:300] + " ... " + t[-300:], "length": len(t)},
                          "tokens, tree or diagnostics", str(so[i])[:200])
        ctx.cov["evaluations"] += len(tx)
        return core.finish(ctx)
    # 2. whole pipeline in memory (= CLI glue without the file system) and the playground entry point
    co = progs.compile_many([{"mods": {"file:///main.oal": t}, "main": "file:///main.oal"} for t in tx], timeout=60)
    wo = core.run_stateless(core.IMPL, "wasm", [json.dumps({"source": t}) for t in tx], timeout=60, per_case_timeout=10, budget=100)
    seen = set()
    for t, s, c, w in zip(tx, so, co, wo):
        ctx.cov["evaluations"] += 3
        inp = {"text": t if len(t) < 4000 else t[:300] + " ... " + t[-300:], "length": len(t)}
        if s == "SKIPPED" or c.get("status") == "skipped" or w == "SKIPPED":
            continue
        if s is None or s.startswith(("CRASH", "HANG", "SLOW")) or '"status":"panic"' in s[:40]:
            ctx.violation("the tokenizer/parser panics, aborts or hangs on this text", inp, "tokens, tree or diagnostics", str(s)[:300])
            continue
        if c.get("status") in ("crash", "panic"):
            kid = known.classify_panic(c.get("msg"), {"m": t}) if c.get("status") == "panic" else None
            if kid:
                ctx.count("known_class_" + kid)
            else:
                ctx.violation("the compile pipeline panics, aborts, overflows the stack or hangs on this text", inp, "a document or diagnostics", str(c.get("msg"))[:300])
                continue
        if w is None or w.startswith("CRASH") or w.startswith("HANG"):
            if c.get("status") == "panic" and known.classify_panic(c.get("msg"), {"m": t}):
                pass
            else:
                ctx.violation("the playground entry point aborts or hangs on this text", inp, "a result", str(w)[:300])
                continue
        else:
            wj = json.loads(w)
            if wj.get("status") == "panic" and not known.classify_panic(wj.get("msg"), {"m": t}):
                ctx.violation("the playground entry point panics on this text", inp, "a result", str(wj.get("msg"))[:300])
                continue
            if wj.get("status") == "done" and not wj["api"] and not wj["error"].strip():
                ctx.violation("the playground entry point reports neither output nor diagnostics", inp, "api or error", wj)
                continue
        ctx.count("outcome_" + str(c.get("status")) + "_" + str(c.get("kind") or ""))
        if t not in seen:
            seen.add(t)
            if c.get("status") == "error" and len(t) > 8:
                ctx.count("nontrivial")
        if len(ctx.cov["samples"]) < 4 and c.get("status") == "error" and 8 < len(t) < 100:
            ctx.sample({"text": t, "outcome": [c.get("phase"), c.get("kind")]})
    # 3. the real binaries on a sample (process-level outcome)
    sample = CORPUS + [t for i, t in enumerate(tx[len(CORPUS):]) if i % (97 if not ctx.thorough else 23) == 0]
    root = lspws.fresh_dir("c04")
    lsp.write_workspace(root, {"main.oal": ""})
    srv = lsp.Server(root)
    uri = "file://%s/main.oal" % root
    try:
        srv.initialize()
        srv.open(uri, "")
        for t in sample:
            if len(ctx.violations) >= 3:
                break
            ctx.cov["evaluations"] += 2
            inp = {"text": t if len(t) < 4000 else t[:300] + " ... " + t[-300:], "length": len(t)}
            with open(os.path.join(root, "main.oal"), "w") as f:
                f.write(t)
            try:
                p = subprocess.run([core.CLI, "-m", "main.oal", "-t", "out.yaml"], cwd=root, capture_output=True, timeout=25)
                if p.returncode not in (0, 1):
                    msg = p.stderr.decode("utf8", "replace")
                    if not known.classify_panic(msg, {"m": t}):
                        ctx.violation("oal-cli ends abnormally on this text", inp, "exit 0 or 1", "%s %s" % (p.returncode, msg[-300:]))
            except subprocess.TimeoutExpired:
                ctx.violation("oal-cli hangs on this text", inp, "exit", "timeout")
            srv.change(uri, [{"text": t}])
            r = srv.pos_request("textDocument/definition", uri, 0, 0, None)
            if "dead" in r or "timeout" in r or not srv.alive():
                msg = "".join(srv.stderr[-4:])
                if known.classify_panic(msg, {"m": t}):
                    ctx.count("lsp_known_class")
                else:
                    ctx.violation("the language server dies or hangs in its load/evaluate cycle on this text", inp, "alive", msg[-300:])
                srv.stop()
                srv = lsp.Server(root)
                srv.initialize()
                srv.open(uri, "")
    finally:
        srv.stop()
    ctx.cov["distinct_nontrivial"] = ctx.cov["distribution"].get("nontrivial", 0)
    ctx.cov["traces_validated_against_impl"] = ctx.cov["evaluations"]
    ctx.cov["panic_site_inventory"] = inventory.panic_inventory()
    ctx.cov["rule"] = ("corpus of past crashes and edge inputs; every sequence of <= 3 (thorough 4) tokens over 16 kinds as text; generated programs with three "
                       "mutations each; random Unicode garbage (<= 60 characters); every bracket kind nested to depth 50 and 200, closed and unclosed; through "
                       "the tokenizer+parser, the whole pipeline in memory, oal_wasm::compile, and a sample through the real oal-cli and oal-lsp processes. "
                       "distinct_nontrivial = distinct texts of more than 8 characters answered with a diagnostic")
    ctx.assumptions = ["native stack depth and wall-clock are observed on the real code only (nesting depth 200, 20-60 s per case)",
                       "panics that fall in the recorded classes of C01 (K1, K2, K10, K11, K12, K16) are attributed there"]
    return core.finish(ctx)
