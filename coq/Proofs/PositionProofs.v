(** Proofs about Model/Position.v (property C16). *)
From Coq Require Import Lia Arith PeanoNat.
From Oal Require Import Text Position.

Arguments N.add : simpl never.
Arguments N.sub : simpl never.
Arguments N.eqb : simpl never.
Arguments N.ltb : simpl never.
Arguments N.leb : simpl never.

Lemma len8_pos c : 1 <= len8 c.
Proof. unfold len8. repeat (destruct (N.ltb _ _)); lia. Qed.

Lemma len16_pos c : 1 <= len16 c.
Proof. unfold len16. destruct (N.ltb _ _); lia. Qed.

Lemma len8_lf c : is_lf c = true -> len8 c = 1.
Proof. unfold is_lf, LF. intros H. apply N.eqb_eq in H. subst. reflexivity. Qed.

Lemma len8s_app a b : len8s (a ++ b) = len8s a + len8s b.
Proof. induction a as [|c a IH]; cbn [len8s app]; lia. Qed.

Lemma len16s_app a b : len16s (a ++ b) = len16s a + len16s b.
Proof. induction a as [|c a IH]; cbn [len16s app]; lia. Qed.

Lemma count_lf_app a b : count_lf (a ++ b) = count_lf a + count_lf b.
Proof. induction a as [|c a IH]; cbn [count_lf app]; lia. Qed.

Lemma last_line_nolf t : count_lf t = 0 -> last_line t = t.
Proof. destruct t as [|c t]; [reflexivity|]. intros H. cbn [last_line]. rewrite H. reflexivity. Qed.

Lemma last_line_cons c t :
  count_lf (c :: t) <> 0 -> last_line (c :: t) = last_line t.
Proof. intros H. cbn [last_line]. destruct (N.eqb_spec (count_lf (c :: t)) 0); [contradiction|reflexivity]. Qed.

(** * utf8_to_position on a boundary *)

Definition pos_of (pre : text) : N * N := (count_lf pre, len16s (last_line pre)).

Definition pc_of (pre : text) (ch : N) : N :=
  if N.eqb (count_lf pre) 0 then ch + len16s pre else len16s (last_line pre).

Lemma u2p_go_prefix pre : forall suf line ch idx,
  u2p_go (pre ++ suf) (idx + len8s pre) line ch idx = (line + count_lf pre, pc_of pre ch).
Proof.
  induction pre as [|c pre IH]; intros suf line ch idx.
  - unfold pc_of. cbn [app len8s count_lf len16s]. rewrite !N.add_0_r.
    destruct suf as [|d suf]; cbn [u2p_go]; [reflexivity|].
    rewrite N.leb_refl. reflexivity.
  - cbn [app u2p_go len8s].
    pose proof (len8_pos c) as Hc.
    destruct (N.leb_spec (idx + (len8 c + len8s pre)) idx) as [Hle|_]; [lia|].
    replace (idx + (len8 c + len8s pre)) with ((idx + len8 c) + len8s pre) by lia.
    destruct (is_lf c) eqn:Elf.
    + rewrite IH. unfold pc_of. cbn [count_lf]. rewrite Elf.
      destruct (N.eqb_spec (1 + count_lf pre) 0) as [E|_]; [lia|].
      rewrite last_line_cons by (cbn [count_lf]; rewrite Elf; lia).
      f_equal; [lia|].
      destruct (N.eqb_spec (count_lf pre) 0) as [E0|E0].
      * rewrite (last_line_nolf _ E0). lia.
      * reflexivity.
    + rewrite IH. unfold pc_of. cbn [count_lf]. rewrite Elf. rewrite N.add_0_l.
      f_equal.
      destruct (N.eqb_spec (count_lf pre) 0) as [E0|E0].
      * cbn [len16s]. lia.
      * rewrite last_line_cons by (cbn [count_lf]; rewrite Elf; lia). reflexivity.
Qed.

Lemma pc_of_0 pre : pc_of pre 0 = len16s (last_line pre).
Proof.
  unfold pc_of. destruct (N.eqb_spec (count_lf pre) 0) as [E|E]; [|reflexivity].
  rewrite (last_line_nolf _ E). lia.
Qed.

Lemma utf8_to_position_boundary pre suf :
  utf8_to_position (pre ++ suf) (len8s pre) = pos_of pre.
Proof.
  unfold utf8_to_position, pos_of.
  pose proof (u2p_go_prefix pre suf 0 0 0) as H.
  rewrite N.add_0_l in H. rewrite H. rewrite pc_of_0. f_equal.
Qed.

(** * position_to_utf8 walks back to the same boundary *)

Fixpoint no_cr (t : text) : bool :=
  match t with [] => true | c :: t' => negb (is_cr c) && no_cr t' end.

Definition ends_cr (pre : text) : bool :=
  match rev pre with c :: _ => is_cr c | [] => false end.

Definition starts_lf (suf : text) : bool :=
  match suf with c :: _ => is_lf c | [] => false end.

(** offset [len8s pre] lies strictly inside a CRLF pair *)
Definition inside_crlf (pre suf : text) : bool := ends_cr pre && starts_lf suf.

Lemma p2u_go_prefix pre : forall suf line ch idx,
  (count_lf pre <> 0 -> ch = 0) ->
  no_cr (last_line pre) = true ->
  p2u_go (pre ++ suf) (line + count_lf pre) (pc_of pre ch) line ch idx = idx + len8s pre.
Proof.
  induction pre as [|c pre IH]; intros suf line ch idx Hch Hcr.
  - unfold pc_of. cbn [app count_lf len16s len8s]. rewrite !N.add_0_r.
    destruct suf as [|d suf]; cbn [p2u_go]; [reflexivity|].
    rewrite N.eqb_refl, N.leb_refl. reflexivity.
  - cbn [app p2u_go len8s].
    destruct (is_lf c) eqn:Elf.
    + assert (Hne : count_lf (c :: pre) <> 0) by (cbn [count_lf]; rewrite Elf; lia).
      specialize (Hch Hne). subst ch.
      destruct (N.eqb_spec line (line + count_lf (c :: pre))) as [E|_]; [lia|].
      rewrite last_line_cons in Hcr by exact Hne.
      replace (line + count_lf (c :: pre)) with ((line + 1) + count_lf pre)
        by (cbn [count_lf]; rewrite Elf; lia).
      replace (pc_of (c :: pre) 0) with (pc_of pre 0).
      2:{ rewrite !pc_of_0. rewrite last_line_cons by exact Hne. reflexivity. }
      rewrite IH; [lia| reflexivity | exact Hcr].
    + destruct (N.eqb_spec (count_lf pre) 0) as [E0|E0].
      * (* on the target line *)
        assert (Ecl : count_lf (c :: pre) = 0) by (cbn [count_lf]; rewrite Elf; lia).
        rewrite (last_line_nolf _ Ecl) in Hcr. cbn [no_cr] in Hcr.
        apply andb_true_iff in Hcr. destruct Hcr as [Hc Hcr].
        apply negb_true_iff in Hc.
        unfold pc_of. rewrite Ecl, N.add_0_r, !N.eqb_refl. cbn [len16s].
        pose proof (len16_pos c) as H16.
        destruct (N.leb_spec (ch + (len16 c + len16s pre)) ch) as [E|_]; [lia|].
        rewrite Hc. cbn [orb].
        specialize (IH suf line (ch + len16 c) (idx + len8 c)).
        rewrite E0, N.add_0_r in IH. unfold pc_of in IH. rewrite E0 in IH.
        rewrite N.eqb_refl in IH.
        replace (ch + (len16 c + len16s pre)) with (ch + len16 c + len16s pre) by lia.
        rewrite IH; [lia | intros; lia | rewrite (last_line_nolf _ E0); exact Hcr].
      * assert (Hne : count_lf (c :: pre) <> 0) by (cbn [count_lf]; rewrite Elf; lia).
        specialize (Hch Hne). subst ch.
        destruct (N.eqb_spec line (line + count_lf (c :: pre))) as [E|_]; [lia|].
        rewrite last_line_cons in Hcr by exact Hne.
        replace (line + count_lf (c :: pre)) with (line + count_lf pre)
          by (cbn [count_lf]; rewrite Elf; lia).
        replace (pc_of (c :: pre) 0) with (pc_of pre 0).
        2:{ rewrite !pc_of_0. rewrite last_line_cons by exact Hne. reflexivity. }
        rewrite IH; [lia | reflexivity | exact Hcr].
Qed.

(** a CR in the last line of [pre] would have to be followed by LF *)
Lemma crlf_wf_app_inv a b : crlf_wf (a ++ b) = true -> crlf_wf b = true.
Proof.
  induction a as [|c a IH]; [trivial|].
  cbn [app crlf_wf]. intros H. apply andb_true_iff in H. apply IH, H.
Qed.

Lemma no_cr_last_line pre : forall suf,
  crlf_wf (pre ++ suf) = true -> inside_crlf pre suf = false ->
  no_cr (last_line pre) = true.
Proof.
  induction pre as [|c pre IH]; intros suf Hwf Hin; [reflexivity|].
  destruct (N.eqb_spec (count_lf (c :: pre)) 0) as [E0|E0].
  - rewrite (last_line_nolf _ E0).
    assert (Epre : count_lf pre = 0).
    { cbn [count_lf] in E0. destruct (is_lf c); lia. }
    cbn [no_cr]. apply andb_true_iff. split.
    + apply negb_true_iff. destruct (is_cr c) eqn:Ecr; [|reflexivity].
      cbn [app crlf_wf] in Hwf. rewrite Ecr in Hwf.
      apply andb_true_iff in Hwf. destruct Hwf as [Hnext _].
      destruct pre as [|d pre].
      * cbn [app] in Hnext. unfold inside_crlf, ends_cr in Hin. cbn [rev app] in Hin.
        rewrite Ecr in Hin. cbn [andb] in Hin. unfold starts_lf in Hin.
        destruct suf; congruence.
      * cbn [app] in Hnext. cbn [count_lf] in Epre. rewrite Hnext in Epre. lia.
    + specialize (IH suf). rewrite (last_line_nolf _ Epre) in IH. apply IH.
      * cbn [app crlf_wf] in Hwf. apply andb_true_iff in Hwf. apply Hwf.
      * unfold inside_crlf in *. destruct pre as [|d pre]; [reflexivity|].
        unfold ends_cr in *. cbn [rev] in *.
        destruct (rev pre ++ [d]) eqn:Er.
        { destruct (rev pre); discriminate. }
        cbn [app] in Hin. exact Hin.
  - rewrite last_line_cons by exact E0. apply (IH suf).
    + cbn [app crlf_wf] in Hwf. apply andb_true_iff in Hwf. apply Hwf.
    + unfold inside_crlf in *. destruct pre as [|d pre]; [reflexivity|].
      unfold ends_cr in *. cbn [rev] in *.
      destruct (rev pre ++ [d]) eqn:Er.
      { destruct (rev pre); discriminate. }
      cbn [app] in Hin. exact Hin.
Qed.

Theorem roundtrip pre suf :
  crlf_wf (pre ++ suf) = true ->
  inside_crlf pre suf = false ->
  let t := pre ++ suf in
  let p := utf8_to_position t (len8s pre) in
  position_to_utf8 t (fst p) (snd p) = len8s pre.
Proof.
  intros Hwf Hin t p. subst p t.
  rewrite utf8_to_position_boundary. unfold pos_of. cbn [fst snd].
  unfold position_to_utf8.
  pose proof (p2u_go_prefix pre suf 0 0 0) as H.
  rewrite pc_of_0, !N.add_0_l in H. apply H.
  - reflexivity.
  - eapply no_cr_last_line; eassumption.
Qed.

(** K7: the one boundary class where the round trip fails *)
Lemma roundtrip_crlf_refuted :
  exists pre suf,
    crlf_wf (pre ++ suf) = true /\ inside_crlf pre suf = true /\
    let t := pre ++ suf in
    let p := utf8_to_position t (len8s pre) in
    position_to_utf8 t (fst p) (snd p) <> len8s pre.
Proof. exists [CR], [LF]. vm_compute. repeat split; discriminate. Qed.

(** * position_to_utf8 equals the independent reference for every text and position *)

Lemma split_lines_nonempty t : exists l ls, split_lines t = l :: ls.
Proof.
  induction t as [|c t [l [ls IH]]]; cbn [split_lines]; [eauto|].
  rewrite IH. destruct (is_lf c); eauto.
Qed.

Lemma col8_0 l : col8 l 0 = 0.
Proof. destruct l; cbn [col8]; [reflexivity|]. rewrite N.eqb_refl. reflexivity. Qed.

Definition line1 (t : text) : text := match split_lines t with l :: _ => l | [] => [] end.

Lemma line1_cons c t :
  line1 (c :: t) = if is_lf c then [] else c :: line1 t.
Proof.
  unfold line1. cbn [split_lines]. destruct (split_lines_nonempty t) as [l [ls E]].
  rewrite E. destruct (is_lf c); reflexivity.
Qed.

Lemma p2u_on_line_over t : forall pl pc ch idx,
  pc <= ch ->
  p2u_go t pl pc pl ch idx = idx.
Proof.
  destruct t as [|c t]; intros pl pc ch idx Hle; [reflexivity|].
  cbn [p2u_go]. rewrite N.eqb_refl.
  destruct (N.leb_spec pc ch) as [_|H]; [reflexivity|lia].
Qed.

Lemma p2u_on_line t : forall pl pc ch idx,
  ch <= pc ->
  p2u_go t pl pc pl ch idx = idx + col8 (content (line1 t)) (pc - ch).
Proof.
  induction t as [|c t IH]; intros pl pc ch idx Hle.
  - cbn. lia.
  - cbn [p2u_go]. rewrite N.eqb_refl. rewrite line1_cons.
    destruct (N.leb_spec pc ch) as [E|Ene].
    { replace (pc - ch) with 0 by lia. rewrite col8_0. cbn [orb]. lia. }
    cbn [orb].
    destruct (is_lf c) eqn:Elf; cbn [orb]; [cbn; lia|].
    destruct (is_cr c) eqn:Ecr; cbn [orb content]; rewrite ?Ecr; [cbn; lia|].
    cbn [col8].
    destruct (N.eqb_spec (pc - ch) 0) as [E|_]; [lia|].
    destruct (N.le_gt_cases (ch + len16 c) pc) as [Hin|Hover].
    + rewrite IH by lia. replace (pc - (ch + len16 c)) with (pc - ch - len16 c) by lia. lia.
    + rewrite p2u_on_line_over by lia. replace (pc - ch - len16 c) with 0 by lia. rewrite col8_0. lia.
Qed.

Lemma p2u_before_line t : forall pl pc line idx,
  line < pl ->
  p2u_go t pl pc line 0 idx = idx + spec_go (split_lines t) (pl - line) pc.
Proof.
  induction t as [|c t IH]; intros pl pc line idx Hlt.
  - cbn [p2u_go split_lines spec_go].
    destruct (N.eqb_spec (pl - line) 0) as [E|_]; [lia|]. cbn. lia.
  - cbn [p2u_go]. destruct (N.eqb_spec line pl) as [E|_]; [lia|].
    cbn [split_lines]. destruct (split_lines_nonempty t) as [l [ls E]]. rewrite E.
    destruct (is_lf c) eqn:Elf.
    + cbn [spec_go]. destruct (N.eqb_spec (pl - line) 0) as [E0|_]; [lia|].
      rewrite (len8_lf _ Elf). cbn [len8s].
      destruct (N.eq_dec (line + 1) pl) as [Eq|Hne].
      * subst pl. rewrite p2u_on_line by lia.
        replace (line + 1 - line - 1) with 0 by lia.
        cbn [spec_go]. rewrite N.eqb_refl.
        unfold line1. rewrite E. rewrite N.sub_0_r. lia.
      * rewrite IH by lia. rewrite E.
        replace (pl - (line + 1)) with (pl - line - 1) by lia. cbn [spec_go]. lia.
    + rewrite IH by lia. rewrite E. cbn [spec_go].
      destruct (N.eqb_spec (pl - line) 0) as [E0|_]; [lia|].
      destruct ls as [|l2 ls]; cbn [len8s]; lia.
Qed.

Theorem position_to_utf8_spec t pl pc : position_to_utf8 t pl pc = pos_spec t pl pc.
Proof.
  unfold position_to_utf8, pos_spec.
  destruct (N.eq_dec pl 0) as [E|Hne].
  - subst. rewrite p2u_on_line by lia. rewrite N.sub_0_r, N.add_0_l.
    unfold line1. destruct (split_lines_nonempty t) as [l [ls E]]. rewrite E.
    cbn [spec_go]. rewrite N.eqb_refl. reflexivity.
  - rewrite p2u_before_line by lia. rewrite N.sub_0_r. lia.
Qed.

(** readable corollaries of the reference: clamping *)

Lemma spec_go_beyond ls : forall pl pc,
  N.of_nat (length ls) <= pl ->
  ls <> [] ->
  spec_go ls pl pc + 1 = fold_right (fun l acc => len8s l + 1 + acc) 0 ls.
Proof.
  induction ls as [|l ls IH]; intros pl pc Hlen Hne; [contradiction|].
  cbn [spec_go fold_right]. cbn [length] in Hlen.
  destruct (N.eqb_spec pl 0) as [E|_]; [lia|].
  destruct ls as [|l2 ls]; [cbn; lia|].
  rewrite <- (IH (pl - 1) pc); [lia | cbn [length] in *; lia | discriminate].
Qed.

Lemma split_lines_len8s t :
  fold_right (fun l acc => len8s l + 1 + acc) 0 (split_lines t) = len8s t + 1.
Proof.
  induction t as [|c t IH]; [reflexivity|].
  cbn [split_lines]. destruct (split_lines_nonempty t) as [l [ls E]]. rewrite E in *.
  destruct (is_lf c) eqn:Elf; cbn [fold_right len8s] in *.
  - rewrite (len8_lf _ Elf). lia.
  - lia.
Qed.

Lemma split_lines_length t : N.of_nat (length (split_lines t)) = count_lf t + 1.
Proof.
  induction t as [|c t IH]; [reflexivity|].
  cbn [split_lines count_lf]. destruct (split_lines_nonempty t) as [l [ls E]]. rewrite E in *.
  destruct (is_lf c); cbn [length] in *; lia.
Qed.

(** a line number beyond the last line is clamped to the end of the text *)
Theorem clamp_text_end t pl pc : count_lf t < pl -> position_to_utf8 t pl pc = len8s t.
Proof.
  intros H. rewrite position_to_utf8_spec. unfold pos_spec.
  pose proof (spec_go_beyond (split_lines t) pl pc) as Hb.
  rewrite split_lines_len8s in Hb.
  destruct (split_lines_nonempty t) as [l [ls E]].
  assert (spec_go (split_lines t) pl pc + 1 = len8s t + 1); [|lia].
  apply Hb; [rewrite split_lines_length; lia | rewrite E; discriminate].
Qed.

Lemma col8_exact p : forall q, col8 (p ++ q) (len16s p) = len8s p.
Proof.
  induction p as [|c p IH]; intros q; cbn [app len16s len8s col8].
  - apply col8_0.
  - pose proof (len16_pos c).
    destruct (N.eqb_spec (len16 c + len16s p) 0) as [E|_]; [lia|].
    replace (len16 c + len16s p - len16 c) with (len16s p) by lia. rewrite IH. reflexivity.
Qed.

Lemma col8_beyond l : forall k, len16s l <= k -> col8 l k = len8s l.
Proof.
  induction l as [|c l IH]; intros k Hk; cbn [col8 len8s len16s] in *; [reflexivity|].
  pose proof (len16_pos c).
  destruct (N.eqb_spec k 0) as [E|_]; [lia|].
  rewrite IH by lia. reflexivity.
Qed.

(** the shape "text = A ++ L ++ R" where A holds exactly the first [pl] lines
    with their terminators, L is the content of line [pl] and R starts with the
    line terminator (or is empty) *)
Definition line_shape (a l r : text) : Prop :=
  (a = [] \/ exists a', a = a' ++ [LF]) /\
  no_cr l = true /\ count_lf l = 0 /\
  match r with [] => True | c :: _ => is_lf c = true \/ is_cr c = true end.

Lemma spec_go_cons l ls pl pc :
  spec_go (l :: ls) pl pc =
  if N.eqb pl 0 then col8 (content l) pc
  else match ls with [] => len8s l | _ :: _ => len8s l + 1 + spec_go ls (pl - 1) pc end.
Proof. reflexivity. Qed.

Lemma spec_go_skip a : forall rest pc,
  (a = [] \/ exists a', a = a' ++ [LF]) ->
  spec_go (split_lines (a ++ rest)) (count_lf a) pc =
  len8s a + col8 (content (line1 rest)) pc.
Proof.
  induction a as [|c a IH]; intros rest pc Ha.
  - cbn [app count_lf len8s spec_go]. unfold line1.
    destruct (split_lines_nonempty rest) as [l [ls E]]. rewrite E.
    cbn [spec_go]. rewrite N.eqb_refl. lia.
  - assert (Ha' : a = [] \/ exists a', a = a' ++ [LF]).
    { destruct Ha as [Ha|[a' Ha]]; [discriminate|].
      destruct a' as [|d a']; cbn [app] in Ha; inversion Ha; subst; [left; reflexivity|].
      right. eauto. }
    cbn [app split_lines count_lf len8s].
    destruct (split_lines_nonempty (a ++ rest)) as [l [ls E]]. rewrite E.
    destruct (is_lf c) eqn:Elf.
    + rewrite spec_go_cons. destruct (N.eqb_spec (1 + count_lf a) 0) as [E0|_]; [lia|].
      cbv beta iota.
      rewrite <- E. replace (1 + count_lf a - 1) with (count_lf a) by lia.
      rewrite IH by exact Ha'. rewrite (len8_lf _ Elf). cbn [len8s]. lia.
    + (* c is not LF, so a is non-empty and ends with LF: the first line continues *)
      rewrite N.add_0_l.
      destruct Ha' as [Ha'|[a' Ha']].
      { subst a. destruct Ha as [Ha|[a' Ha]]; [discriminate|].
        destruct a' as [|d a']; cbn [app] in Ha; inversion Ha; subst.
        - unfold is_lf in Elf. rewrite N.eqb_refl in Elf. discriminate.
        - destruct a'; discriminate. }
      assert (Hcl : count_lf a <> 0).
      { subst a. rewrite count_lf_app. change (count_lf [LF]) with 1. lia. }
      specialize (IH rest pc (or_intror (ex_intro _ a' Ha'))). rewrite E in IH.
      rewrite spec_go_cons in *.
      destruct (N.eqb_spec (count_lf a) 0) as [E0|_]; [contradiction|].
      destruct ls as [|l2 ls]; cbn [len8s] in *; lia.
Qed.

Lemma content_line1 l : forall r,
  no_cr l = true -> count_lf l = 0 ->
  match r with [] => True | c :: _ => is_lf c = true \/ is_cr c = true end ->
  content (line1 (l ++ r)) = l.
Proof.
  induction l as [|c l IH]; intros r Hcr Hlf Hr.
  - cbn [app]. destruct r as [|d r]; [reflexivity|].
    rewrite line1_cons. destruct Hr as [Hd|Hd].
    + rewrite Hd. reflexivity.
    + destruct (is_lf d); [reflexivity|]. cbn [content]. rewrite Hd. reflexivity.
  - cbn [app]. rewrite line1_cons.
    cbn [no_cr] in Hcr. apply andb_true_iff in Hcr. destruct Hcr as [Hc Hcr].
    apply negb_true_iff in Hc.
    cbn [count_lf] in Hlf.
    destruct (is_lf c) eqn:Elf; [lia|].
    cbn [content]. rewrite Hc. f_equal. apply IH; [assumption|lia|assumption].
Qed.

(** a column inside the line selects exactly that many UTF-16 units *)
Theorem exact_column a p q r :
  line_shape a (p ++ q) r ->
  position_to_utf8 (a ++ (p ++ q) ++ r) (count_lf a) (len16s p) = len8s a + len8s p.
Proof.
  intros (Ha & Hcr & Hlf & Hr).
  rewrite position_to_utf8_spec. unfold pos_spec.
  rewrite spec_go_skip by exact Ha.
  rewrite content_line1 by assumption.
  rewrite col8_exact. reflexivity.
Qed.

(** a column beyond the end of the line is clamped to the end of its content
    (before the CR of a CRLF terminator) *)
Theorem clamp_line_end a l r pc :
  line_shape a l r -> len16s l <= pc ->
  position_to_utf8 (a ++ l ++ r) (count_lf a) pc = len8s a + len8s l.
Proof.
  intros (Ha & Hcr & Hlf & Hr) Hpc.
  rewrite position_to_utf8_spec. unfold pos_spec.
  rewrite spec_go_skip by exact Ha.
  rewrite content_line1 by assumption.
  rewrite col8_beyond by exact Hpc. reflexivity.
Qed.

(** F5 (fixed): a column strictly inside a surrogate pair is rounded up to the end of that
    character, so that positions stay monotone; before the fix it ran to the end of the line *)
Theorem mid_surrogate_rounds_up a p c q r :
  line_shape a (p ++ c :: q) r -> len16 c = 2 ->
  position_to_utf8 (a ++ (p ++ c :: q) ++ r) (count_lf a) (len16s p + 1)
  = len8s a + len8s (p ++ [c]).
Proof.
  intros (Ha & Hcr & Hlf & Hr) Hc.
  rewrite position_to_utf8_spec. unfold pos_spec.
  rewrite spec_go_skip by exact Ha.
  rewrite content_line1 by assumption. f_equal.
  clear - Hc. induction p as [|d p IH]; cbn [app len16s col8 len8s].
  - rewrite N.add_0_l. rewrite Hc. cbn [N.eqb].
    destruct (N.eqb_spec 1 0) as [E|_]; [lia|].
    replace (1 - 2) with 0 by lia. rewrite col8_0. lia.
  - pose proof (len16_pos d).
    destruct (N.eqb_spec (len16 d + len16s p + 1) 0) as [E|_]; [lia|].
    replace (len16 d + len16s p + 1 - len16 d) with (len16s p + 1) by lia.
    rewrite IH. cbn [len8s]. reflexivity.
Qed.

(** positions are monotone: a later column never maps to an earlier offset (what
    String::replace_range needs of a change range) *)
Lemma col8_mono l : forall j k, j <= k -> col8 l j <= col8 l k.
Proof.
  induction l as [|c l IH]; intros j k Hjk; cbn [col8]; [lia|].
  destruct (N.eqb_spec j 0) as [->|Hj].
  - destruct (N.eqb k 0); lia.
  - destruct (N.eqb_spec k 0) as [->|Hk]; [lia|]. specialize (IH (j - len16 c) (k - len16 c)). lia.
Qed.

Theorem position_mono_in_line t pl j k : j <= k -> position_to_utf8 t pl j <= position_to_utf8 t pl k.
Proof.
  intros Hjk. unfold position_to_utf8.
  destruct (N.eq_dec pl 0) as [->|Hne].
  - rewrite !p2u_on_line by lia. rewrite !N.sub_0_r. pose proof (col8_mono (content (line1 t)) j k Hjk). lia.
  - rewrite !p2u_before_line by lia. rewrite N.sub_0_r.
    generalize (split_lines t). clear t. intros ls. revert pl Hne.
    induction ls as [|l ls IH]; intros pl Hne; cbn [spec_go]; [lia|].
    destruct (N.eqb_spec pl 0) as [E|_]; [contradiction|].
    destruct ls as [|l2 ls]; [lia|].
    destruct (N.eq_dec (pl - 1) 0) as [E|Hn].
    + rewrite E. cbn [spec_go]. rewrite N.eqb_refl. pose proof (col8_mono (content l2) j k Hjk). lia.
    + specialize (IH (pl - 1) Hn). lia.
Qed.

(** ... and across lines: a position on an earlier line never maps after one on a later line *)
Lemma col8_le_len8s l : forall k, col8 l k <= len8s l.
Proof.
  induction l as [|c l IH]; intros k; cbn [col8 len8s]; [lia|].
  destruct (N.eqb k 0); [lia|]. specialize (IH (k - len16 c)). lia.
Qed.

Lemma len8s_content_le l : len8s (content l) <= len8s l.
Proof.
  induction l as [|c l IH]; cbn [content len8s]; [lia|].
  destruct (is_cr c); cbn [len8s]; lia.
Qed.

Lemma spec_go_lines_mono ls : forall pl pl' pc pc', pl < pl' -> spec_go ls pl pc <= spec_go ls pl' pc'.
Proof.
  induction ls as [|l ls IH]; intros pl pl' pc pc' Hlt; cbn [spec_go]; [lia|].
  destruct (N.eqb_spec pl' 0) as [E|Hn']; [lia|].
  destruct (N.eqb_spec pl 0) as [E|Hn].
  - pose proof (col8_le_len8s (content l) pc). pose proof (len8s_content_le l).
    destruct ls; lia.
  - destruct ls as [|l2 ls]; [lia|].
    specialize (IH (pl - 1) (pl' - 1) pc pc'). lia.
Qed.

Definition pos_le (l c l' c' : N) : Prop := l < l' \/ (l = l' /\ c <= c').

Theorem position_mono t l c l' c' :
  pos_le l c l' c' -> position_to_utf8 t l c <= position_to_utf8 t l' c'.
Proof.
  intros [Hlt|[-> Hle]].
  - rewrite !position_to_utf8_spec. unfold pos_spec. apply spec_go_lines_mono, Hlt.
  - apply position_mono_in_line, Hle.
Qed.

(** * ranges: the client selects exactly the span's UTF-16 units *)

Lemma utf16_app a b : utf16 (a ++ b) = utf16 a ++ utf16 b.
Proof. induction a as [|c a IH]; cbn [app utf16]; [reflexivity|]. rewrite IH, app_assoc. reflexivity. Qed.

Lemma utf16_length t : N.of_nat (length (utf16 t)) = len16s t.
Proof.
  induction t as [|c t IH]; [reflexivity|].
  cbn [utf16 len16s]. rewrite app_length. unfold units16, len16.
  destruct (N.ltb c 65536); cbn [length]; lia.
Qed.

Lemma client_off16_prefix pre : forall rest c off,
  client_off16 (utf16 pre ++ rest) (count_lf pre) c off + len16s (last_line pre)
  = off + len16s pre + c.
Proof.
  induction pre as [|x pre IH]; intros rest c off.
  - cbn [utf16 app count_lf last_line len16s].
    destruct rest; cbn [client_off16]; rewrite N.eqb_refl; lia.
  - destruct (N.eqb_spec (count_lf (x :: pre)) 0) as [E0|E0].
    + rewrite (last_line_nolf _ E0). rewrite E0.
      destruct (utf16 (x :: pre) ++ rest); cbn [client_off16]; rewrite N.eqb_refl; lia.
    + rewrite last_line_cons by exact E0.
      cbn [utf16 len16s]. unfold units16, len16.
      destruct (N.ltb_spec x 65536) as [Hb|Ha].
      * cbn [app client_off16].
        destruct (N.eqb_spec (count_lf (x :: pre)) 0) as [E|_]; [contradiction|].
        cbn [count_lf] in *. unfold is_lf in *.
        destruct (N.eqb_spec x LF) as [El|El].
        -- replace (1 + count_lf pre - 1) with (count_lf pre) by lia.
           specialize (IH rest c (off + 1)). lia.
        -- rewrite N.add_0_l in *. specialize (IH rest c (off + 1)). lia.
      * cbn [app client_off16].
        destruct (N.eqb_spec (count_lf (x :: pre)) 0) as [E|_]; [contradiction|].
        assert (Hx : is_lf x = false).
        { unfold is_lf, LF. apply N.eqb_neq. lia. }
        cbn [count_lf] in *. rewrite Hx in *. rewrite N.add_0_l in *.
        destruct (N.eqb_spec (55296 + N.shiftr (x - 65536) 10) LF) as [E|_]; [unfold LF in E; lia|].
        destruct (N.eqb_spec (count_lf pre) 0) as [E|_]; [contradiction|].
        destruct (N.eqb_spec (56320 + N.land (x - 65536) 1023) LF) as [E|_]; [unfold LF in E; lia|].
        specialize (IH rest c (off + 1 + 1)). lia.
Qed.

Lemma client_off16_boundary pre suf :
  client_off16 (utf16 (pre ++ suf)) (fst (pos_of pre)) (snd (pos_of pre)) 0 = len16s pre.
Proof.
  rewrite utf16_app. unfold pos_of. cbn [fst snd].
  pose proof (client_off16_prefix pre (utf16 suf) (len16s (last_line pre)) 0). lia.
Qed.

Theorem range_selects_span a b c :
  let t := a ++ b ++ c in
  let r := utf8_range_to_position t (len8s a) (len8s (a ++ b)) in
  select16 (utf16 t) (fst r) (snd r) = utf16 b.
Proof.
  intros t r. subst r t. unfold utf8_range_to_position. cbn [fst snd].
  rewrite utf8_to_position_boundary.
  rewrite app_assoc. rewrite utf8_to_position_boundary. rewrite <- app_assoc.
  unfold select16.
  rewrite client_off16_boundary.
  rewrite (app_assoc a b c). rewrite client_off16_boundary. rewrite <- app_assoc.
  rewrite len16s_app. replace (len16s a + len16s b - len16s a) with (len16s b) by lia.
  rewrite !utf16_app.
  rewrite <- (utf16_length a), <- (utf16_length b). rewrite !Nnat.Nat2N.id.
  rewrite skipn_app, skipn_all, Nat.sub_diag. cbn [skipn app].
  rewrite firstn_app, firstn_all, Nat.sub_diag. cbn [firstn]. apply app_nil_r.
Qed.

(** the position sent for a boundary stays inside its line, so a client that
    clamps columns to the line length reads it unchanged *)
Theorem position_inside_line pre suf :
  snd (utf8_to_position (pre ++ suf) (len8s pre)) = len16s (last_line pre)
  /\ fst (utf8_to_position (pre ++ suf) (len8s pre)) = count_lf pre.
Proof. rewrite utf8_to_position_boundary. split; reflexivity. Qed.

(** * utf8_to_char_index *)

Lemma u2c_go_prefix pre : forall suf idx ci,
  u2c_go (pre ++ suf) (idx + len8s pre) idx ci = ci + N.of_nat (length pre).
Proof.
  induction pre as [|c pre IH]; intros suf idx ci.
  - cbn [app len8s length]. rewrite N.add_0_r.
    destruct suf; cbn [u2c_go]; [lia|]. rewrite N.leb_refl. cbn. lia.
  - cbn [app u2c_go len8s length]. pose proof (len8_pos c).
    destruct (N.leb_spec (idx + (len8 c + len8s pre)) idx) as [Hle|_]; [lia|].
    replace (idx + (len8 c + len8s pre)) with ((idx + len8 c) + len8s pre) by lia.
    rewrite IH. lia.
Qed.

Theorem char_index_boundary pre suf :
  utf8_to_char_index (pre ++ suf) (len8s pre) = N.of_nat (length pre).
Proof.
  unfold utf8_to_char_index. pose proof (u2c_go_prefix pre suf 0 0) as H.
  rewrite !N.add_0_l in H. exact H.
Qed.

Lemma u2c_go_bound t : forall i idx ci,
  ci <= u2c_go t i idx ci <= ci + N.of_nat (length t).
Proof.
  induction t as [|c t IH]; intros i idx ci; cbn [u2c_go length]; [lia|].
  destruct (N.leb i idx); [lia|]. specialize (IH i (idx + len8 c) (ci + 1)). lia.
Qed.

Theorem char_index_bound t i : utf8_to_char_index t i <= N.of_nat (length t).
Proof. unfold utf8_to_char_index. pose proof (u2c_go_bound t i 0 0). lia. Qed.

Lemma u2c_go_mono t : forall i j idx ci,
  i <= j -> u2c_go t i idx ci <= u2c_go t j idx ci.
Proof.
  induction t as [|c t IH]; intros i j idx ci Hij; cbn [u2c_go]; [lia|].
  destruct (N.leb_spec i idx) as [Hi|Hi]; destruct (N.leb_spec j idx) as [Hj|Hj]; try lia.
  - pose proof (u2c_go_bound t j (idx + len8 c) (ci + 1)). lia.
  - apply IH. exact Hij.
Qed.

Theorem char_index_mono t i j : i <= j -> utf8_to_char_index t i <= utf8_to_char_index t j.
Proof. apply u2c_go_mono. Qed.

(** any offset (boundary or not): the number of characters that start before it *)
Fixpoint starts_before (t : text) (i idx : N) : N :=
  match t with
  | [] => 0
  | c :: t' => (if N.ltb idx i then 1 else 0) + starts_before t' i (idx + len8 c)
  end.

Lemma starts_before_ge t : forall i idx, i <= idx -> starts_before t i idx = 0.
Proof.
  induction t as [|c t IH]; intros i idx H; cbn [starts_before]; [reflexivity|].
  destruct (N.ltb_spec idx i); [lia|]. pose proof (len8_pos c). rewrite IH by lia. reflexivity.
Qed.

Theorem char_index_counts t : forall i idx ci,
  u2c_go t i idx ci = ci + starts_before t i idx.
Proof.
  induction t as [|c t IH]; intros i idx ci; cbn [u2c_go starts_before]; [lia|].
  destruct (N.leb_spec i idx) as [H|H].
  - destruct (N.ltb_spec idx i); [lia|]. pose proof (len8_pos c).
    rewrite starts_before_ge by lia. lia.
  - destruct (N.ltb_spec idx i); [|lia]. rewrite IH. lia.
Qed.

(** the character span of a byte span whose ends are character boundaries counts exactly the
    characters before it and the characters in it *)
Theorem char_span_exact pre mid suf :
  char_span (pre ++ mid ++ suf) (len8s pre) (len8s (pre ++ mid)) = (N.of_nat (length pre), N.of_nat (length pre + length mid)).
Proof.
  unfold char_span. rewrite char_index_boundary. f_equal.
  rewrite app_assoc, char_index_boundary, app_length. reflexivity.
Qed.
