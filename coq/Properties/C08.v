(** Property C08 — identifiers bind lexically and evaluation honours the same binding.

    Proved here, for every syntax tree (any nesting of rec binders, any parameters, any
    global scope): the code's cursor walk with a mutable stack of scopes computes exactly
    the lexical binding relation [lex] (environment passing), leaves the stack balanced and
    fails exactly on a use without a binder; the precedence rec binder > parameter (last
    duplicate wins) > module scope, qualified imports by qualifier; duplicate declarations
    are errors. Refuted on the faithful model: a declaration does not shadow an unqualified
    import / built-in (K8), two unqualified imports make the binding order dependent (K9).
    Carried by the correspondence (not proved): that the evaluator's by-name lookup in its
    dynamic scope stack returns the value bound at the lexical binder (monitor O08 with a
    lexical reference interpreter). *)
From Oal Require Import Resolve ResolveProofs.

Theorem C08_stack_walk_is_lexical : forall t rest en acc,
  run (linearize t ++ rest) en acc =
  match lex en t with inl ds => run rest en (acc ++ ds) | inr e => inr e end.
Proof. exact run_is_lex. Qed.
Print Assumptions C08_stack_walk_is_lexical.

Theorem C08_resolve_decl_is_lexical : forall g d, resolve_decl_run g d = resolve_decl_lex g d.
Proof. exact resolve_decl_is_lexical. Qed.
Print Assumptions C08_resolve_decl_is_lexical.

Theorem C08_rec_binder_innermost : forall en bind b u,
  lex en (RRec bind b (RVar u None b)) = inl [(u, DExt bind)].
Proof. exact rec_binder_innermost. Qed.
Print Assumptions C08_rec_binder_innermost.

Theorem C08_param_shadows_global : forall g bind x ps u,
  sc_get (x, None) (param_scope ps) = Some (DExt bind) ->
  lex [param_scope ps; g] (RVar u None x) = inl [(u, DExt bind)].
Proof. exact param_shadows_global. Qed.
Print Assumptions C08_param_shadows_global.

Theorem C08_last_duplicate_param_wins : forall n1 n2 x,
  sc_get (x, None) (param_scope [(n1, x); (n2, x)]) = Some (DExt n2).
Proof. exact last_duplicate_param_wins. Qed.
Print Assumptions C08_last_duplicate_param_wins.

Theorem C08_global_when_not_local : forall g ps u q x,
  sc_get (x, q) (param_scope ps) = None ->
  lex [param_scope ps; g] (RVar u q x) =
  match sc_get (x, q) g with Some d => inl [(u, d)] | None => inr (NotInScope u) end.
Proof. exact global_when_not_local. Qed.
Print Assumptions C08_global_when_not_local.

Theorem C08_unbound_is_error : forall en u q x,
  lookup (x, q) en = None <-> lex en (RVar u q x) = inr (NotInScope u).
Proof. exact unbound_is_error. Qed.
Print Assumptions C08_unbound_is_error.

Theorem C08_duplicate_decl_is_error : forall s d1 d2 ds,
  d_name d1 = d_name d2 -> sc_get (d_name d1, None) s = None ->
  declare_all s (d1 :: d2 :: ds) = inr (DuplicateDecl (d_node d2)).
Proof. exact duplicate_decl_is_error. Qed.
Print Assumptions C08_duplicate_decl_is_error.

Theorem C08_qualifier_separates : forall s x q d,
  sc_get (x, None) (sc_insert (x, Some q) d s) = sc_get (x, None) s.
Proof. exact qualifier_separates. Qed.
Print Assumptions C08_qualifier_separates.

Theorem C08_decl_import_clash_refuted :
  exists imports d, global_scope imports [d] = inr (DuplicateDecl (d_node d)).
Proof. exact decl_import_clash_refuted. Qed.
Print Assumptions C08_decl_import_clash_refuted.

Theorem C08_import_order_refuted :
  exists i1 i2 x, (exists s, global_scope [i1; i2] [] = inl s /\ exists s', global_scope [i2; i1] [] = inl s' /\
                   sc_get (x, None) s <> sc_get (x, None) s').
Proof. exact import_order_refuted. Qed.
Print Assumptions C08_import_order_refuted.
