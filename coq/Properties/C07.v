(** Property C07 — type inference terminates and its verdict is independent of
    order and names. Statements only; proofs in Proofs/UnifyProofs.v.

    Proved (for every substitution, tag and equation list, no size bound):
    the unifier keeps its substitution triangular (acyclic), [reduce] terminates
    on such substitutions within an explicit fuel bound, an accepted system is
    solved by the result, and the self-containing type that the pinned tree let
    through (F2) is rejected by the fixed occurs check.
    Termination: on a triangular substitution every call of [unify], and the inference of
    every equation list, ends with enough fuel in a substitution or an error, never in
    [UFuel], and more fuel never changes the answer ([C07_unify_terminates],
    [C07_inference_terminates], [C07_answer_stable_under_fuel]; measure: unbound variables of a
    finite universe, then size of the tags under the substitution).
    Completeness: a system that has a solution (any valuation of the variables) is never
    rejected, and every solution still satisfies the substitution the unifier has built (it is
    most general) ([C07_unify_complete]). Together: inference terminates and accepts exactly the
    solvable systems ([C07_full_proved], the statement kept visible as [C07_full] since the
    first version), so acceptance does not depend on the order of the equations
    ([C07_acceptance_permutation]) nor on the names of the type variables
    ([C07_acceptance_renaming], for every bijective renaming). *)
From Oal Require Import Tag Unify UnifyProofs.
From Oal Require UnifyTerm UnifyComplete UnifyRename.
From Coq Require Import Permutation.

Theorem C07_unify_sound_partial : forall n eqs s i s' j,
  TRI s -> unify_all n s eqs i = (UOk s', j) ->
  TRI s' /\ extends s s' /\ solves s' eqs.
Proof. exact unify_all_sound. Qed.
Print Assumptions C07_unify_sound_partial.

Theorem C07_reduce_total : forall s t,
  TRI s -> forall m, 1 + depth t + cost s <= m -> reduce m s t <> None.
Proof. exact reduce_total. Qed.
Print Assumptions C07_reduce_total.

Theorem C07_reduce_is_apply : forall s, TRI s -> forall n t r,
  reduce n s t = Some r -> r = apply s t /\ reduced s r.
Proof. exact reduce_apply. Qed.
Print Assumptions C07_reduce_is_apply.

Theorem C07_substitute_total : forall n eqs s' j t,
  unify_all n [] eqs 0 = (UOk s', j) ->
  forall m, 1 + depth t + cost s' <= m -> exists r, reduce m s' t = Some r /\ r = apply s' t.
Proof. exact substitute_total. Qed.
Print Assumptions C07_substitute_total.

Theorem C07_occurs_is_membership : forall v t, occurs v t = true <-> In v (vars t).
Proof. exact occurs_vars. Qed.
Print Assumptions C07_occurs_is_membership.

(** F2 on the pinned tree: the binding a |-> 'p a was accepted and reduce diverged *)
Theorem C07_reduce_diverges_pinned_refuted :
  unify_gen occurs_pinned 3 [] (TVar 0) (TProperty (TVar 0)) = UOk [(0%N, TProperty (TVar 0))]
  /\ forall n, reduce n [(0%N, TProperty (TVar 0))] (TVar 0) = None.
Proof. exact reduce_diverges_pinned. Qed.
Print Assumptions C07_reduce_diverges_pinned_refuted.

Theorem C07_self_property_rejected :
  unify 3 [] (TVar 0) (TProperty (TVar 0)) = UErr ERecursive.
Proof. exact self_property_rejected. Qed.
Print Assumptions C07_self_property_rejected.

(** the full statement *)
Definition C07_full : Prop :=
  (forall eqs, exists n, fst (unify_all n [] eqs 0) <> UFuel) /\
  (forall eqs, (exists th, solves th eqs /\ TRI th) <->
               (exists n s j, unify_all n [] eqs 0 = (UOk s, j))).

(** non-vacuity: a system with a function tag and shared variables is accepted,
    its result is triangular and solves it *)
Example C07_accepts_something :
  let eqs := [(TVar 0, TFunc [TVar 1] (TVar 2)); (TVar 1, TBase BNumber);
              (TVar 0, TFunc [TBase BNumber] (TProperty (TVar 3)))] in
  exists s j, unify_all 10 [] eqs 0 = (UOk s, j) /\ TRI s.
Proof.
  cbv zeta.
  destruct (fst (unify_all 10 [] [(TVar 0, TFunc [TVar 1] (TVar 2)); (TVar 1, TBase BNumber);
              (TVar 0, TFunc [TBase BNumber] (TProperty (TVar 3)))] 0)) as [s| |] eqn:E;
    try (vm_compute in E; discriminate E).
  exists s. eexists. assert (H : unify_all 10 [] [(TVar 0, TFunc [TVar 1] (TVar 2)); (TVar 1, TBase BNumber);
              (TVar 0, TFunc [TBase BNumber] (TProperty (TVar 3)))] 0 = (UOk s, 3%N)).
  { vm_compute in E. vm_compute. congruence. }
  split; [exact H|]. exact (proj1 (unify_all_sound _ _ [] _ _ _ I H)).
Qed.

(** * termination *)
Theorem C07_unify_terminates : forall s l r, TRI s -> exists N, forall n, N <= n -> unify n s l r <> UFuel.
Proof. exact UnifyTerm.unify_total. Qed.
Print Assumptions C07_unify_terminates.

Theorem C07_inference_terminates : forall eqs s i, TRI s ->
  exists N, forall n, N <= n -> fst (unify_all n s eqs i) <> UFuel.
Proof. exact UnifyTerm.unify_all_total. Qed.
Print Assumptions C07_inference_terminates.

Theorem C07_answer_stable_under_fuel : forall eqs n m s i res j,
  unify_all n s eqs i = (res, j) -> res <> UFuel -> n <= m -> unify_all m s eqs i = (res, j).
Proof. exact UnifyTerm.unify_all_weaken. Qed.
Print Assumptions C07_answer_stable_under_fuel.

(** * completeness *)
Theorem C07_unify_complete : forall sg n s l r,
  TRI s -> UnifyComplete.sat sg s -> UnifyComplete.inst sg l = UnifyComplete.inst sg r ->
  match unify n s l r with UErr _ => False | UOk s' => UnifyComplete.sat sg s' | UFuel => True end.
Proof. exact UnifyComplete.unify_complete. Qed.
Print Assumptions C07_unify_complete.

Theorem C07_full_proved : C07_full.
Proof. exact UnifyComplete.C07_full_holds. Qed.
Print Assumptions C07_full_proved.

Theorem C07_acceptance_permutation : forall eqs eqs', Permutation eqs eqs' ->
  (exists n s j, unify_all n [] eqs 0 = (UOk s, j)) -> exists n s j, unify_all n [] eqs' 0 = (UOk s, j).
Proof. exact UnifyComplete.acceptance_permutation. Qed.
Print Assumptions C07_acceptance_permutation.

(** acceptance does not depend on the names of the variables *)
Theorem C07_acceptance_renaming : forall rho rho' eqs, (forall v, rho' (rho v) = v) -> (forall v, rho (rho' v) = v) ->
  (exists n s j, unify_all n [] eqs 0 = (UOk s, j)) <->
  (exists n s j, unify_all n [] (map (UnifyRename.req rho) eqs) 0 = (UOk s, j)).
Proof. exact UnifyRename.acceptance_renaming_iff. Qed.
Print Assumptions C07_acceptance_renaming.

Theorem C07_acceptance_swap : forall eqs,
  (exists n s j, unify_all n [] eqs 0 = (UOk s, j)) ->
  exists n s j, unify_all n [] (map (fun e : tag * tag => (snd e, fst e)) eqs) 0 = (UOk s, j).
Proof. exact UnifyRename.acceptance_swap. Qed.
Print Assumptions C07_acceptance_swap.
