"""C08 — identifiers bind lexically and evaluation honours the same binding.
Monitor O08: programs with heavy shadowing among rec binders, parameters, declarations,
qualified and unqualified imports, in which every binder carries a distinct marker; an
independent reference interpreter (lexical environments, closed top-level functions)
predicts the marker every use must evaluate to; unbound uses and duplicate declarations must
be reported as errors."""
import json
from . import core, progs, evaltie

POOL = ["a", "b", "c"]


class G:
    def __init__(self, rng):
        self.rng = rng
        self.k = 0
        self.funcs = {}      # name -> (params, body)
        self.decls = {}      # name -> expr
        self.libq = {}       # qualified import m: name -> title
        self.libu = {}       # unqualified import: name -> title
        self.unbound = False
        self.clash = None
        self.pool = list(POOL)
        self.bpool = list(POOL)       # names of parameters and rec binders
        self.binders_seen = []        # names bound so far by parameters and rec binders

    def fresh(self, p):
        self.k += 1
        return "%s%d" % (p, self.k)

    def expr(self, scope, depth, fn_ok=True):
        """scope: names lexically visible (params / rec binders), for choosing; any pool name may be used"""
        r = self.rng
        x = r.random()
        if x < 0.45 or depth <= 0:
            names = list(scope) + list(self.decls) + list(self.libu)
            if r.random() < 0.04:
                self.unbound = True
                # a name that no binder in scope declares: sometimes the name of a binder whose scope has ended (a parameter of
                # another function, the binder of a rec that is closed) - it must not leak
                gone = [b for b in self.binders_seen if b not in names and b != "concat"]
                return ["var", r.choice(gone) if gone and r.random() < 0.6 else "zz"]
            if self.libq and r.random() < 0.15:
                return ["qvar", "m", r.choice(list(self.libq))]
            if self.libq and r.random() < 0.03:
                missing = [n for n in POOL + ["d"] if n not in self.libq]
                if missing:                 # a qualified name the imported module does not declare (a local `m$x` must not capture it)
                    self.unbound = True
                    return ["qvar", "m", r.choice(missing)]
            if names:
                return ["var", r.choice(names)]
            return ["mark", self.fresh("K")]
        if x < 0.6:
            return ["mark", self.fresh("K")]
        if x < 0.75 and depth > 0:
            b = r.choice(self.bpool)
            self.binders_seen.append(b)
            body = ["obj", [(self.fresh("u"), self.expr(scope + [b], depth - 1, fn_ok)), (self.fresh("s"), ["arr", ["var", b]])]]
            return ["rec", b, body]
        if x < 0.9 and fn_ok and self.funcs:
            f = r.choice(list(self.funcs))
            return ["app", f, [self.expr(scope, depth - 1, False) if r.random() < 0.5 else self.simple(scope) for _ in self.funcs[f][0]]]
        return ["obj", [(self.fresh("u"), self.expr(scope, depth - 1, fn_ok)) for _ in range(r.randint(1, 2))]]

    def simple(self, scope):
        r = self.rng
        names = list(scope) + list(self.decls)
        if names and r.random() < 0.6:
            return ["var", r.choice(names)]
        return ["mark", self.fresh("K")]

    def program(self):
        r = self.rng
        mods = {}
        uses = []
        if r.random() < 0.4:
            self.libq = {n: "Q:" + n for n in r.sample(POOL + ["d"], r.randint(1, 3))}
            mods["file:///w/q.oal"] = "".join('let %s = num `title: "%s"`;\n' % (n, t) for n, t in self.libq.items())
            uses.append('use "q.oal" as m;')
        if r.random() < 0.3:
            self.libu = {n: "U:" + n for n in r.sample(["d", "e"], r.randint(1, 2))}
            mods["file:///w/u.oal"] = "".join('let %s = num `title: "%s"`;\n' % (n, t) for n, t in self.libu.items())
            uses.append('use "u.oal";')
        if self.libq or r.random() < 0.2:
            # identifiers that spell a qualified name with another separator: `m$a` is one identifier, `m.a` is not
            self.pool = POOL + ["m$" + n for n in POOL[:2]]
        self.bpool = list(self.pool)
        if r.random() < 0.3:
            # a parameter or a rec binder may carry the name of a built-in: the inner binder wins
            self.bpool = self.pool + ["concat", "concat"]
        for n in r.sample(self.pool, r.randint(0, 3)):
            self.decls[n] = ["mark", "D:" + n]
        nf = r.randint(1, 3)
        for i in range(nf):
            params = [r.choice(self.bpool) for _ in range(r.randint(1, 3))]
            if r.random() < 0.7:
                params = list(dict.fromkeys(params))        # mostly distinct parameter names
            fname = "f%d" % i
            self.binders_seen += params
            body = ["obj", [(self.fresh("u"), self.expr(params, 2)) for _ in range(r.randint(1, 3))]]
            self.funcs[fname] = (params, body)
        res = []
        for i in range(r.randint(1, 3)):
            res.append(self.expr([], 2))
        if r.random() < 0.25:
            # a function applied twice to different arguments, whose body applies another function to a compound argument that
            # contains its parameter: each application sees the binding of its own call
            pa, pb = r.choice(self.bpool), r.choice(self.bpool)
            self.binders_seen += [pa, pb]
            self.funcs["fd"] = ([pa], ["obj", [(self.fresh("u"), ["var", pa])]])
            inner = r.choice([["arr", ["var", pb]], ["obj", [(self.fresh("u"), ["var", pb])]],
                              ["obj", [(self.fresh("u"), ["arr", ["var", pb]]), (self.fresh("u"), ["mark", self.fresh("K")])]]])
            self.funcs["fe"] = ([pb], ["obj", [(self.fresh("u"), ["app", "fd", [inner]]), (self.fresh("u"), ["var", pb])]])
            res.append(["app", "fe", [["mark", self.fresh("K")]]])
            res.append(["obj", [(self.fresh("u"), ["app", "fe", [["mark", self.fresh("K")]]])]])     # parameters are monomorphic: a mark again
        dup = None
        if r.random() < 0.05 and self.decls:
            dup = r.choice(list(self.decls))
        if self.libu and r.random() < 0.08:
            # a declaration with the name of an unqualified import: an error in the code (K8), never a silent choice
            self.clash = r.choice(list(self.libu))
        lines = []
        for n, e in self.decls.items():
            lines.append("let %s = %s;" % (n, render(e)))
        if dup:
            lines.append("let %s = str;" % dup)
        if self.clash:
            lines.append('let %s = num `title: "D:%s"`;' % (self.clash, self.clash))
        for f, (ps, b) in self.funcs.items():
            lines.append("let %s %s = %s;" % (f, " ".join(ps), render(b)))
        # top-level declarations are visible in the whole module: a use may come before the declaration it denotes
        shuffled = r.random() < 0.35
        if shuffled:
            r.shuffle(lines)
        # imports usually come first; the language also allows them between or after the declarations
        if uses and r.random() < 0.25:
            for u in uses:
                lines.insert(r.randint(0, len(lines)), u)
        else:
            lines = list(uses) + lines
        for i, e in enumerate(res):
            line = "res /r%d on get -> <%s>;" % (i, render(e))
            if shuffled and r.random() < 0.5:
                lines.insert(r.randint(0, len(lines)), line)     # a resource before the declarations it uses
            else:
                lines.append(line)
        mods["file:///w/main.oal"] = "\n".join(lines) + "\n"
        return {"mods": mods, "main": "file:///w/main.oal", "features": ["binding"], "ast": None}, res, dup


def render(e):
    k = e[0]
    if k == "var":
        return e[1]
    if k == "qvar":
        return "%s.%s" % (e[1], e[2])
    if k == "mark":
        return 'num `title: "%s"`' % e[1]
    if k == "obj":
        return "{ " + ", ".join("'%s %s" % (p, atom(x)) for p, x in e[1]) + " }"
    if k == "arr":
        return "[" + render(e[1]) + "]"
    if k == "rec":
        return "rec %s %s" % (e[1], render(e[2]))
    if k == "app":
        return "%s %s" % (e[1], " ".join(atom(a) for a in e[2]))
    raise ValueError(k)


def atom(e):
    return render(e) if e[0] in ("var", "qvar", "obj", "arr") else "(" + render(e) + ")"


class Unbound(Exception):
    pass


class Ref:
    """reference interpreter: lexical environments; top-level functions are closed"""

    def __init__(self, g):
        self.g = g
        self.n = 0

    def ev(self, e, lex):
        k = e[0]
        if k == "mark":
            return ("mark", e[1])
        if k == "var":
            for n, v in lex:
                if n == e[1]:
                    return v
            if e[1] in self.g.decls:
                return self.ev(self.g.decls[e[1]], [])
            if e[1] in self.g.libu:
                return ("mark", self.g.libu[e[1]])
            raise Unbound(e[1])
        if k == "qvar":
            if e[2] in self.g.libq:
                return ("mark", self.g.libq[e[2]])
            raise Unbound(e[2])
        if k == "obj":
            return ("obj", [(p, self.ev(x, lex)) for p, x in e[1]])
        if k == "arr":
            return ("arr", self.ev(e[1], lex))
        if k == "rec":
            self.n += 1
            i = self.n
            return ("rec", i, self.ev(e[2], [(e[1], ("recref", i))] + lex))
        if k == "app":
            ps, body = self.g.funcs[e[1]]
            args = [self.ev(a, lex) for a in e[2]]
            new = []
            for p, a in zip(ps, args):
                new = [(p, a)] + [x for x in new if x[0] != p]     # a later duplicate parameter wins
            return self.ev(body, new)
        raise ValueError(k)


def unfold_value(v, depth, recs=None):
    recs = recs or {}
    k = v[0]
    if k == "mark":
        return {"mark": v[1]}
    if k == "obj":
        return {"obj": {p: unfold_value(x, depth, recs) for p, x in v[1]}}
    if k == "arr":
        return {"arr": unfold_value(v[1], depth, recs)}
    if k == "rec":
        if depth <= 0:
            return {"ref": "..."}
        r2 = dict(recs)
        r2[v[1]] = v
        return {"ref": unfold_value(v[2], depth - 1, r2)}
    if k == "recref":
        if depth <= 0 or v[1] not in recs:
            return {"ref": "..."}
        return {"ref": unfold_value(recs[v[1]][2], depth - 1, recs)}
    raise ValueError(k)


def unfold_schema(s, doc, depth):
    if "$ref" in s:
        if depth <= 0:
            return {"ref": "..."}
        name = s["$ref"].rsplit("/", 1)[1]
        comp = ((doc.get("components") or {}).get("schemas") or {}).get(name)
        if comp is None:
            return {"ref": "dangling"}
        return {"ref": unfold_schema(comp, doc, depth - 1)}
    if s.get("type") == "object":
        return {"obj": {p: unfold_schema(x, doc, depth) for p, x in (s.get("properties") or {}).items()}}
    if s.get("type") == "array":
        return {"arr": unfold_schema(s.get("items") or {}, doc, depth)}
    return {"mark": s.get("title")}


def model_line(r):
    """the harness' dump of a module -> the runner's input line and the maps needed to read the answer"""
    names = {"concat": 0}
    ext = {}

    def nm(s):
        if s not in names:
            names[s] = len(names)
        return names[s]

    def ex(s):
        if s not in ext:
            ext[s] = 100000 + len(ext)
        return ext[s]

    def tree(t):
        if t["k"] == "var":
            return "v %d %s %d" % (t["id"], "-" if t["q"] is None else nm(t["q"]), nm(t["x"]))
        if t["k"] == "rec":
            return "r %d %d %s" % (t["bind"], nm(t["b"]), tree(t["body"]))
        return "n %d %s" % (len(t["c"]), " ".join(tree(c) for c in t["c"]))
    parts = []
    for imp in r["imports"]:
        parts.append("I %s %d %s" % ("-" if imp["q"] is None else nm(imp["q"]), len(imp["exports"]),
                                     " ".join("%d %d" % (nm(n), ex(d)) for n, d in imp["exports"])))
    for st in r["stmts"]:
        if st["k"] == "decl":
            parts.append("D %d %d %d %s %s" % (st["node"], nm(st["name"]), len(st["params"]),
                                               " ".join("%d %d" % (b, nm(n)) for b, n in st["params"]), tree(st["rhs"])))
        else:
            parts.append("S " + tree(st["tree"]))
    return "R " + " ; ".join(" ".join(p.split()) for p in parts), ext


def impl_outcome(r, ext):
    o = r["outcome"]
    if "error" in o:
        start = o.get("start")
        if o["error"] == "NotInScope":
            def find(t):
                if t["k"] == "var":
                    return t["id"] if t["s"] == start else None
                if t["k"] == "rec":
                    return find(t["body"])
                for c in t["c"]:
                    x = find(c)
                    if x is not None:
                        return x
                return None
            for st in r["stmts"]:
                x = find(st["rhs"] if st["k"] == "decl" else st["tree"])
                if x is not None:
                    return "err notinscope %d" % x
            return "err notinscope ?"
        if o["error"] == "InvalidIdentifier":
            for st in r["stmts"]:
                if st["k"] == "decl" and st["ident_start"] == start:
                    return "err dup %d" % st["node"]
            return "err dup ?"
        return "err " + o["error"]
    items = []
    for u, d in o["defs"].items():
        if isinstance(d, str) and d != "B":
            d = ext.get(d, d)
        items.append((int(u), str(d)))
    return "ok " + " ".join("%d:%s" % x for x in sorted(items))


def resolve_tie(ctx, programs):
    ok, out = core.ensure_runner()
    if not ok:
        ctx.broken.append("runner build failed: " + out[-300:])
        return
    lines = [json.dumps({"mods": p["mods"], "main": p["main"]}) for p in programs]
    dumps = core.run_stateless(core.IMPL, "resolve", lines)
    ml, keep = [], []
    for p, d in zip(programs, dumps):
        try:
            r = json.loads(d)
        except Exception:
            continue
        if r.get("status") != "ok":
            continue
        line, ext = model_line(r)
        ml.append(line)
        keep.append((p, r, ext))
    model = core.run_stateless(core.RUNNER, "resolve", ml)
    for (p, r, ext), m in zip(keep, model):
        ctx.cov["evaluations"] += 1
        got = impl_outcome(r, ext)
        if m is not None and m.startswith("ok "):
            m = "ok " + " ".join("%d:%s" % x for x in sorted((int(a), b) for a, b in (w.split(":") for w in m.split()[1:])))
        if got.strip() != (m or "").strip():
            gi, mi = got.split(), (m or "").split()
            if gi[:1] == ["ok"] and mi[:1] == ["ok"] and [w.split(":")[0] for w in gi[1:]] == [w.split(":")[0] for w in mi[1:]]:
                # both resolve every use, to different binders: the lexical reference (Resolve.resolve_module, proved to be
                # the innermost enclosing binder) against what the compiler attached to the use
                diff = [(a.split(":")[0], a.split(":")[1], b.split(":")[1]) for a, b in zip(gi[1:], mi[1:]) if a != b]
                if len(ctx.violations) < 4:
                    ctx.violation("an identifier use is not bound to its lexically innermost binder (Variable node %s in pre-order: compiler %s, lexical %s; "
                                  "B = built-in, numbers = pre-order numbers of the binding nodes, 100000+ = imported)" % diff[0],
                                  {"program": progs.source_of(p)}, " ".join(mi), " ".join(gi))
            elif len(ctx.broken) < 20:
                ctx.broken.append("L3 disagreement on %s: impl=[%s] model=[%s]" % (json.dumps(p["mods"])[:300], got[:200], (m or "")[:200]))
        else:
            ctx.cov["traces_validated_against_impl"] += 1
    ctx.count("resolve_tie_cases", len(keep))


def twin_modules(ctx):
    """declarations at the same place of the trees of two modules are different binders: each use evaluates to the value of
    the declaration of the module it names"""
    cases = [
        ({"file:///w/main.oal": 'use "v1.oal" as a;\nuse "v2.oal" as b;\nres /a on get -> a.node;\nres /b on get -> b.node;\n',
          "file:///w/v1.oal": "let node = { 'value int, 'children [node] };\n", "file:///w/v2.oal": "let node = { 'label str, 'children [node] };\n"},
         {"/a": "value", "/b": "label"}),
        ({"file:///w/main.oal": 'use "x/m.oal" as x;\nuse "y/m.oal" as y;\nres /a on get -> <x.t>;\nres /b on get -> <y.t>;\n',
          "file:///w/x/m.oal": "let t = rec r { 'left [r] };\n", "file:///w/y/m.oal": "let t = rec r { 'right [r] };\n"},
         {"/a": "left", "/b": "right"}),
    ]
    res = progs.compile_many([{"mods": m, "main": "file:///w/main.oal"} for m, _ in cases])
    for (m, want), r in zip(cases, res):
        ctx.cov["evaluations"] += 1
        inp = {"program": {"mods": m, "main": "file:///w/main.oal"}}
        if r.get("status") != "ok":
            ctx.violation("a program importing two modules of the same shape is not compiled", inp, "ok", str(r.get("msg"))[:200])
            continue
        doc = r["doc"]
        comps = (doc.get("components") or {}).get("schemas") or {}
        for path, prop in want.items():
            try:
                sch = list(doc["paths"][path]["get"]["responses"].values())[0]["content"]["application/json"]["schema"]
                n = 0
                while "$ref" in sch and n < 5:
                    sch = comps[sch["$ref"].rsplit("/", 1)[1]]
                    n += 1
                props = list((sch.get("properties") or {}))
            except Exception as ex:
                props = ["<%r>" % (ex,)]
            if prop not in props:
                ctx.violation("a use of a declaration of one module evaluates to the declaration at the same place of another module",
                              dict(inp, path=path), "a schema with property %r" % prop, props)
                break
        else:
            ctx.count("twin_modules_ok")


def check(ctx):
    ctx.proof = core.proof_stage("C08", thorough=ctx.thorough)
    ok, out = core.ensure_harness()
    if not ok:
        ctx.broken.append("harness build against /repo failed: " + out[-600:])
        return core.finish(ctx)
    for k in core.known_findings("C08"):
        if k.get("status") == "known":
            r = progs.compile_many([{"mods": k["witness"]["mods"], "main": k["witness"]["main"]}])[0]
            if k["id"] == "K8" and r.get("status") == "error" and r.get("kind") == "InvalidIdentifier":
                ctx.known(k["what"])
            elif k["id"] == "K9":
                m2 = dict(k["witness"]["mods"])
                m2[k["witness"]["main"]] = k["witness"]["swapped_main"]
                r2 = progs.compile_many([{"mods": m2, "main": k["witness"]["main"]}])[0]
                if r.get("status") == "ok" and r2.get("status") == "ok" and r["doc"] != r2["doc"]:
                    ctx.known(k["what"])
                else:
                    core.log("stale known finding K9")
            else:
                core.log("stale known finding " + k["id"])
    cases = []
    if ctx.replay:
        v = json.load(open(ctx.replay))
        p = dict(v["input"]["program"], features=[], ast=None)
        r = progs.compile_many([p])[0]
        core.log(str({k: x for k, x in r.items() if k not in ("yaml",)})[:1500])
        resolve_tie(ctx, [p])
        ctx.cov["evaluations"] = 1
        return core.finish(ctx)
    twin_modules(ctx)
    n = 18000 if ctx.thorough else 1200
    for i in range(n):
        g = G(ctx.rng)
        p, res, dup = g.program()
        cases.append((g, p, res, dup))
    out = progs.compile_many([c[1] for c in cases])
    resolve_tie(ctx, [c[1] for c in cases] + progs.gen_programs(ctx, 1200 if ctx.thorough else 120))
    # the evaluator tie (eval.rs vs Model/Eval.v) and the hypotheses / conclusion of C08_evaluation_is_lexical
    evaltie.run(ctx, [c[1] for c in cases[: (4500 if ctx.thorough else 300)]] + progs.gen_programs(ctx, 900 if ctx.thorough else 60, start=5000)
                + evaltie.repo_corpus())
    seen = set()
    for (g, p, res, dup), r in zip(cases, out):
        ctx.cov["evaluations"] += 1
        inp = {"program": progs.source_of(p)}
        st = r.get("status")
        if st == "skipped":
            continue
        if st in ("crash", "panic"):
            ctx.violation("name resolution / evaluation does not finish normally on a shadowing-heavy program", inp, "a result", r.get("msg"))
            continue
        if g.clash and not dup:
            if st == "error" and r.get("kind") == "InvalidIdentifier":
                ctx.count("clash_with_import_rejected_K8")
            elif st == "ok":
                ctx.violation("a declaration with the name of an unqualified import is accepted: which of the two its uses denote is decided "
                              "silently by the order of the statements", inp, "identifier already exists (K8)", "accepted")
            continue
        # expected outcome
        try:
            ref = Ref(g)
            exp = [ref.ev(e, []) for e in res]
            # function bodies are resolved even when never applied
            for f, (ps, b) in g.funcs.items():
                Ref(g).ev(b, [(q, ("mark", "?")) for q in ps])
            unbound = None
        except Unbound as u:
            unbound = str(u)
        if dup:
            if not (st == "error" and r.get("kind") == "InvalidIdentifier"):
                ctx.violation("a duplicate declaration is not reported as an error", inp, "InvalidIdentifier", r.get("kind") or st)
            ctx.count("expected_duplicate")
            continue
        if unbound is not None:
            if not (st == "error" and r.get("kind") == "NotInScope"):
                ctx.violation("a use with no binder is not reported as an error", dict(inp, unbound=unbound), "NotInScope", r.get("kind") or st)
            ctx.count("expected_not_in_scope")
            continue
        if st == "error":
            if r.get("kind") in ("NotInScope", "InvalidIdentifier"):
                ctx.violation("a program in which every use has a binder and no declaration is duplicated is rejected by name resolution", inp, "accepted", r.get("msg"))
            else:
                ctx.count("rejected_by_inference")      # monomorphic parameters: not a binding matter
            continue
        doc = r["doc"]
        for i, v in enumerate(exp):
            try:
                sch = doc["paths"]["/r%d" % i]["get"]["responses"]["default"]["content"]["application/json"]["schema"]
            except KeyError:
                ctx.violation("resource missing from the document", inp, "/r%d" % i, list(doc.get("paths") or {}))
                continue
            want = unfold_value(v, 3)
            got = unfold_schema(sch, doc, 3)
            if want != got:
                ctx.violation("an identifier evaluates to a value other than the one bound at its lexical binder",
                              dict(inp, resource="/r%d" % i), want, got)
                break
        key = p["mods"][p["main"]]
        if key not in seen:
            seen.add(key)
            ctx.count("nontrivial")
        if len(ctx.cov["samples"]) < 3 and "rec" in key and "m." in key:
            ctx.sample({"program": p["mods"]})
        ctx.count("accepted")
    ctx.cov["distinct_nontrivial"] = ctx.cov["distribution"].get("nontrivial", 0)
    ctx.cov["rule"] = ("programs over the name pool {a,b,c} (parameters and rec binders also `concat`, the name of a built-in): module declarations, 1-3 functions with (possibly repeated) parameter names from the pool, "
                       "nested rec binders from the pool, qualified and unqualified imports, applications passing parameters / rec variables on; every binder "
                       "carries a distinct title marker; expected document from a lexical reference interpreter, compared after unfolding $refs to depth 3; "
                       "4% unbound uses and 5% duplicate declarations expected to be rejected. distinct_nontrivial = distinct accepted programs")
    ctx.assumptions = ["declarations clashing with an unqualified import are an error in the code (K8): generated, and required to be rejected; clashes with a builtin are not generated",
                       "two unqualified imports exporting one name (K9) are not generated"]
    return core.finish(ctx)
