open BinNat
open BinNums
open Datatypes

type text = coq_N list

(** val coq_LF : coq_N **)

let coq_LF =
  Npos (Coq_xO (Coq_xI (Coq_xO Coq_xH)))

(** val coq_CR : coq_N **)

let coq_CR =
  Npos (Coq_xI (Coq_xO (Coq_xI Coq_xH)))

(** val is_lf : coq_N -> bool **)

let is_lf c =
  N.eqb c coq_LF

(** val is_cr : coq_N -> bool **)

let is_cr c =
  N.eqb c coq_CR

(** val len8 : coq_N -> coq_N **)

let len8 c =
  if N.ltb c (Npos (Coq_xO (Coq_xO (Coq_xO (Coq_xO (Coq_xO (Coq_xO (Coq_xO
       Coq_xH))))))))
  then Npos Coq_xH
  else if N.ltb c (Npos (Coq_xO (Coq_xO (Coq_xO (Coq_xO (Coq_xO (Coq_xO
            (Coq_xO (Coq_xO (Coq_xO (Coq_xO (Coq_xO Coq_xH))))))))))))
       then Npos (Coq_xO Coq_xH)
       else if N.ltb c (Npos (Coq_xO (Coq_xO (Coq_xO (Coq_xO (Coq_xO (Coq_xO
                 (Coq_xO (Coq_xO (Coq_xO (Coq_xO (Coq_xO (Coq_xO (Coq_xO
                 (Coq_xO (Coq_xO (Coq_xO Coq_xH)))))))))))))))))
            then Npos (Coq_xI Coq_xH)
            else Npos (Coq_xO (Coq_xO Coq_xH))

(** val len16 : coq_N -> coq_N **)

let len16 c =
  if N.ltb c (Npos (Coq_xO (Coq_xO (Coq_xO (Coq_xO (Coq_xO (Coq_xO (Coq_xO
       (Coq_xO (Coq_xO (Coq_xO (Coq_xO (Coq_xO (Coq_xO (Coq_xO (Coq_xO
       (Coq_xO Coq_xH)))))))))))))))))
  then Npos Coq_xH
  else Npos (Coq_xO Coq_xH)

(** val len8s : text -> coq_N **)

let rec len8s = function
| [] -> N0
| c :: t' -> N.add (len8 c) (len8s t')

(** val len16s : text -> coq_N **)

let rec len16s = function
| [] -> N0
| c :: t' -> N.add (len16 c) (len16s t')

(** val units16 : coq_N -> coq_N list **)

let units16 c =
  if N.ltb c (Npos (Coq_xO (Coq_xO (Coq_xO (Coq_xO (Coq_xO (Coq_xO (Coq_xO
       (Coq_xO (Coq_xO (Coq_xO (Coq_xO (Coq_xO (Coq_xO (Coq_xO (Coq_xO
       (Coq_xO Coq_xH)))))))))))))))))
  then c :: []
  else (N.add (Npos (Coq_xO (Coq_xO (Coq_xO (Coq_xO (Coq_xO (Coq_xO (Coq_xO
         (Coq_xO (Coq_xO (Coq_xO (Coq_xO (Coq_xI (Coq_xI (Coq_xO (Coq_xI
         Coq_xH))))))))))))))))
         (N.shiftr
           (N.sub c (Npos (Coq_xO (Coq_xO (Coq_xO (Coq_xO (Coq_xO (Coq_xO
             (Coq_xO (Coq_xO (Coq_xO (Coq_xO (Coq_xO (Coq_xO (Coq_xO (Coq_xO
             (Coq_xO (Coq_xO Coq_xH)))))))))))))))))) (Npos (Coq_xO (Coq_xI
           (Coq_xO Coq_xH)))))) :: ((N.add (Npos (Coq_xO (Coq_xO (Coq_xO
                                      (Coq_xO (Coq_xO (Coq_xO (Coq_xO (Coq_xO
                                      (Coq_xO (Coq_xO (Coq_xI (Coq_xI (Coq_xI
                                      (Coq_xO (Coq_xI Coq_xH))))))))))))))))
                                      (N.coq_land
                                        (N.sub c (Npos (Coq_xO (Coq_xO
                                          (Coq_xO (Coq_xO (Coq_xO (Coq_xO
                                          (Coq_xO (Coq_xO (Coq_xO (Coq_xO
                                          (Coq_xO (Coq_xO (Coq_xO (Coq_xO
                                          (Coq_xO (Coq_xO
                                          Coq_xH)))))))))))))))))) (Npos
                                        (Coq_xI (Coq_xI (Coq_xI (Coq_xI
                                        (Coq_xI (Coq_xI (Coq_xI (Coq_xI
                                        (Coq_xI Coq_xH)))))))))))) :: [])

(** val utf16 : text -> coq_N list **)

let rec utf16 = function
| [] -> []
| c :: t' -> app (units16 c) (utf16 t')

(** val crlf_wf : text -> bool **)

let rec crlf_wf = function
| [] -> true
| c :: t' ->
  (&&)
    (if is_cr c then (match t' with
                      | [] -> false
                      | d :: _ -> is_lf d) else true) (crlf_wf t')

(** val split_at8 : text -> coq_N -> (text * text) option **)

let rec split_at8 t i =
  if N.eqb i N0
  then Some ([], t)
  else (match t with
        | [] -> None
        | c :: t' ->
          if N.ltb i (len8 c)
          then None
          else (match split_at8 t' (N.sub i (len8 c)) with
                | Some p -> let (a, b) = p in Some ((c :: a), b)
                | None -> None))
