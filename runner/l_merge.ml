(* layer L6m: the base merge of into_openapi on abstract documents.
   M <paths id> <schemas id | -> | N            (no base)
   M <paths id> <schemas id | -> | B <member>*  with <member> = k=o:<id> | k=m:<k>:<id>,<k>:<id>...
   output: members of the result in the same syntax *)
open Conv
open Merge

let default_base = [ (n_of_int 4, Opaque (n_of_int 100)); (n_of_int 5, Opaque (n_of_int 101)); (n_of_int 6, Opaque (n_of_int 102)) ]

let parse_member (w : string) : BinNums.coq_N * value =
  match String.split_on_char '=' w with
  | [ k; v ] ->
      let k = n_of_int (int_of_string k) in
      if String.length v >= 2 && String.sub v 0 2 = "o:" then
        (k, Opaque (n_of_int (int_of_string (String.sub v 2 (String.length v - 2)))))
      else
        let body = String.sub v 2 (String.length v - 2) in
        let ms =
          if body = "" then []
          else
            Stdlib.List.map
              (fun p ->
                match String.split_on_char ':' p with
                | [ a; b ] -> (n_of_int (int_of_string a), n_of_int (int_of_string b))
                | _ -> failwith "member")
              (String.split_on_char ',' body)
        in
        (k, Members ms)
  | _ -> failwith "member"

let show_member (k, v) =
  match v with
  | Opaque id -> Printf.sprintf "%d=o:%d" (int_of_n k) (int_of_n id)
  | Members ms ->
      Printf.sprintf "%d=m:%s" (int_of_n k)
        (String.concat "," (Stdlib.List.map (fun (a, b) -> Printf.sprintf "%d:%d" (int_of_n a) (int_of_n b)) ms))

let run () =
  each_line (fun line ->
      match words line with
      | "M" :: p :: s :: "|" :: rest ->
          let schemas = if s = "-" then None else Some (n_of_int (int_of_string s)) in
          let base =
            match rest with
            | "B" :: ms -> Some (Stdlib.List.map parse_member ms)
            | _ -> None
          in
          let d = into_openapi default_base (n_of_int (int_of_string p)) schemas base in
          print_endline (String.concat " " (Stdlib.List.map show_member d))
      | _ -> print_endline "?")
