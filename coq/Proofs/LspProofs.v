(** Proofs about Model/Lsp.v (property C15): the server's copy of a document follows the
    client's through any history of well-formed edits. *)
From Coq Require Import Lia.
From Oal Require Import Text Position PositionProofs Lsp.

Arguments N.add : simpl never.
Arguments N.sub : simpl never.
Arguments N.eqb : simpl never.
Arguments N.ltb : simpl never.
Arguments N.leb : simpl never.

Lemma split_at8_app pre : forall suf, split_at8 (pre ++ suf) (len8s pre) = Some (pre, suf).
Proof.
  induction pre as [|c pre IH]; intros suf.
  - cbn [app len8s]. destruct suf; cbn [split_at8]; rewrite N.eqb_refl; reflexivity.
  - cbn [app len8s split_at8]. pose proof (len8_pos c).
    destruct (N.eqb_spec (len8 c + len8s pre) 0) as [E|_]; [lia|].
    destruct (N.ltb_spec (len8 c + len8s pre) (len8 c)) as [E|_]; [lia|].
    replace (len8 c + len8s pre - len8 c) with (len8s pre) by lia. rewrite IH. reflexivity.
Qed.

Lemma replace_range_span a b c w :
  replace_range (a ++ b ++ c) (len8s a) (len8s (a ++ b)) w = Some (a ++ w ++ c).
Proof.
  unfold replace_range. rewrite split_at8_app.
  rewrite (app_assoc a b c). rewrite split_at8_app.
  rewrite len8s_app. destruct (N.leb_spec (len8s a) (len8s a + len8s b)); [reflexivity|lia].
Qed.

(** the position a client computes for the boundary after [pre] *)
Definition client_pos (pre : text) : N * N := (count_lf pre, len16s (last_line pre)).

(** an edit sent for the text span [b] of the document a ++ b ++ c replaces exactly that span *)
Theorem edit_applies_exactly a b c w :
  crlf_wf (a ++ b ++ c) = true ->
  inside_crlf a (b ++ c) = false -> inside_crlf (a ++ b) c = false ->
  apply_change (a ++ b ++ c)
    (CIncr (fst (client_pos a)) (snd (client_pos a)) (fst (client_pos (a ++ b))) (snd (client_pos (a ++ b))) w)
  = Some (a ++ w ++ c).
Proof.
  intros Hwf H1 H2. cbn [apply_change]. unfold client_pos. cbn [fst snd].
  pose proof (roundtrip a (b ++ c) Hwf H1) as R1. cbv zeta in R1.
  rewrite utf8_to_position_boundary in R1. unfold pos_of in R1. cbn [fst snd] in R1.
  assert (Hwf2 : crlf_wf ((a ++ b) ++ c) = true) by (rewrite <- app_assoc; exact Hwf).
  pose proof (roundtrip (a ++ b) c Hwf2 H2) as R2. cbv zeta in R2.
  rewrite utf8_to_position_boundary in R2. unfold pos_of in R2. cbn [fst snd] in R2.
  rewrite <- app_assoc in R2.
  rewrite R1, R2. apply replace_range_span.
Qed.

(** * histories *)
Inductive cchange :=
| KFull (t : text)
| KSpan (a b c w : text).        (* the client's document is a ++ b ++ c; it replaces b by w *)

Definition to_server (k : cchange) : change :=
  match k with
  | KFull t => CFull t
  | KSpan a b c w => CIncr (fst (client_pos a)) (snd (client_pos a)) (fst (client_pos (a ++ b))) (snd (client_pos (a ++ b))) w
  end.

(** what the client's own buffer becomes; the change is well formed for document [doc] *)
Definition client_apply (k : cchange) : text :=
  match k with KFull t => t | KSpan a b c w => a ++ w ++ c end.

Definition wf_change (doc : text) (k : cchange) : Prop :=
  match k with
  | KFull _ => True
  | KSpan a b c _ => doc = a ++ b ++ c /\ crlf_wf doc = true /\
                     inside_crlf a (b ++ c) = false /\ inside_crlf (a ++ b) c = false
  end.

Fixpoint wf_changes (doc : text) (ks : list cchange) : Prop :=
  match ks with [] => True | k :: ks' => wf_change doc k /\ wf_changes (client_apply k) ks' end.

Fixpoint client_applies (doc : text) (ks : list cchange) : text :=
  match ks with [] => doc | k :: ks' => client_applies (client_apply k) ks' end.

Lemma changes_track doc ks : wf_changes doc ks ->
  apply_changes doc (map to_server ks) = Some (client_applies doc ks).
Proof.
  revert doc. induction ks as [|k ks IH]; intros doc H; [reflexivity|].
  cbn [map apply_changes wf_changes client_applies] in *. destruct H as [Hk Hks].
  destruct k as [t|a b c w]; cbn [to_server client_apply] in *.
  - cbn [apply_change]. apply IH, Hks.
  - destruct Hk as (-> & Hwf & H1 & H2). rewrite (edit_applies_exactly a b c w Hwf H1 H2). apply IH, Hks.
Qed.

Inductive cevent := COpen (u : N) (t : text) | CChange (u : N) (ks : list cchange) | CClose (u : N).

Definition ev_to_server (e : cevent) : event :=
  match e with
  | COpen u t => EOpen u t
  | CChange u ks => EChange u (map to_server ks)
  | CClose u => EClose u
  end.

(** the client's view of its open documents *)
Definition client_step (s : store) (e : cevent) : store :=
  match e with
  | COpen u t => st_set u t s
  | CClose u => st_del u s
  | CChange u ks => match st_get u s with Some doc => st_set u (client_applies doc ks) s | None => s end
  end.

Definition wf_event (s : store) (e : cevent) : Prop :=
  match e with
  | CChange u ks => match st_get u s with Some doc => wf_changes doc ks | None => True end
  | _ => True
  end.

Fixpoint wf_history (s : store) (h : list cevent) : Prop :=
  match h with [] => True | e :: h' => wf_event s e /\ wf_history (client_step s e) h' end.

Fixpoint client_run (s : store) (h : list cevent) : store :=
  match h with [] => s | e :: h' => client_run (client_step s e) h' end.

(** after any well-formed history the server is alive and holds exactly the client's texts *)
Theorem docs_track_client : forall h s,
  wf_history s h -> run s (map ev_to_server h) = Some (client_run s h).
Proof.
  induction h as [|e h IH]; intros s H; [reflexivity|].
  cbn [map run wf_history client_run] in *. destruct H as [He Hh].
  assert (Hs : step s (ev_to_server e) = Some (client_step s e)).
  { destruct e as [u t|u ks|u]; cbn [ev_to_server step client_step wf_event] in *; try reflexivity.
    destruct (st_get u s) as [doc|]; [|reflexivity]. rewrite (changes_track doc ks He). reflexivity. }
  rewrite Hs. apply IH, Hh.
Qed.

(** * F5: the pinned position_to_utf8 let a range start after its end *)
Lemma mid_surrogate_crash_pinned :
  let doc := [128521; 97; 98; 99] in
  replace_range doc (p2u_go_pinned doc 0 1 0 0 0) (p2u_go_pinned doc 0 3 0 0 0) [122] = None
  /\ apply_change doc (CIncr 0 1 0 3 [122]) = Some [128521; 122; 98; 99].
Proof. vm_compute. split; reflexivity. Qed.

(** after the fix a range inside one line never panics: positions are boundaries and monotone *)
Lemma p2u_go_boundary t : forall pl pc line ch idx pre,
  idx = len8s pre ->
  exists p, len8s (pre ++ p) = p2u_go t pl pc line ch idx /\ exists q, t = p ++ q.
Proof.
  induction t as [|c t IH]; intros pl pc line ch idx pre E.
  - exists []. cbn [p2u_go]. rewrite app_nil_r. split; [congruence|exists []; reflexivity].
  - cbn [p2u_go].
    assert (Hstop : exists p, len8s (pre ++ p) = idx /\ exists q, c :: t = p ++ q).
    { exists []. rewrite app_nil_r. split; [congruence|exists (c :: t); reflexivity]. }
    assert (Hgo : forall line' ch', exists p, len8s (pre ++ p) = p2u_go t pl pc line' ch' (idx + len8 c) /\ exists q, c :: t = p ++ q).
    { intros line' ch'. destruct (IH pl pc line' ch' (idx + len8 c) (pre ++ [c])) as (p & Hp & q & Hq).
      - rewrite len8s_app. cbn [len8s]. lia.
      - exists (c :: p). rewrite <- app_assoc in Hp. cbn [app] in Hp. split; [exact Hp|]. exists q. cbn [app]. congruence. }
    destruct (N.eqb line pl).
    + destruct (N.leb pc ch || is_lf c || is_cr c); [exact Hstop|apply Hgo].
    + destruct (is_lf c); apply Hgo.
Qed.

Lemma position_is_boundary t pl pc : exists p q, t = p ++ q /\ position_to_utf8 t pl pc = len8s p.
Proof.
  destruct (p2u_go_boundary t pl pc 0 0 0 [] eq_refl) as (p & Hp & q & Hq).
  exists p, q. split; [exact Hq|]. cbn [app] in Hp. unfold position_to_utf8. congruence.
Qed.

Theorem change_in_line_never_panics doc l sc ec w :
  sc <= ec -> apply_change doc (CIncr l sc l ec w) <> None.
Proof.
  intros Hle. cbn [apply_change]. unfold replace_range.
  destruct (position_is_boundary doc l sc) as (p1 & q1 & E1 & H1).
  destruct (position_is_boundary doc l ec) as (p2 & q2 & E2 & H2).
  rewrite H1, H2.
  rewrite E1 at 1. rewrite split_at8_app. rewrite E2 at 1. rewrite split_at8_app.
  pose proof (position_mono_in_line doc l sc ec Hle) as Hm. rewrite H1, H2 in Hm.
  destruct (N.leb_spec (len8s p1) (len8s p2)); [discriminate|lia].
Qed.

(** any ordered range, across lines too, never panics, whatever the positions (beyond the
    line, beyond the text, inside a surrogate pair, inside a CRLF pair) *)
Theorem change_never_panics doc sl sc el ec w :
  pos_le sl sc el ec -> apply_change doc (CIncr sl sc el ec w) <> None.
Proof.
  intros Hle. cbn [apply_change]. unfold replace_range.
  destruct (position_is_boundary doc sl sc) as (p1 & q1 & E1 & H1).
  destruct (position_is_boundary doc el ec) as (p2 & q2 & E2 & H2).
  rewrite H1, H2.
  rewrite E1 at 1. rewrite split_at8_app. rewrite E2 at 1. rewrite split_at8_app.
  pose proof (position_mono doc sl sc el ec Hle) as Hm. rewrite H1, H2 in Hm.
  destruct (N.leb_spec (len8s p1) (len8s p2)); [discriminate|lia].
Qed.

(** a reversed range (end before start) is outside the protocol; the server dies on it *)
Lemma reversed_range_panics : apply_change [97; 98] (CIncr 0 1 0 0 []) = None.
Proof. reflexivity. Qed.

(** whole histories: if every incremental change of every notification is an ordered range,
    the server survives, whatever the positions and whatever the store *)
Definition ordered_change (c : change) : Prop :=
  match c with CFull _ => True | CIncr sl sc el ec _ => pos_le sl sc el ec end.
Definition ordered_event (e : event) : Prop :=
  match e with EChange _ cs => Forall ordered_change cs | _ => True end.

Lemma changes_never_panic cs : Forall ordered_change cs -> forall doc, apply_changes doc cs <> None.
Proof.
  induction 1 as [|c cs Hc _ IH]; intros doc; cbn [apply_changes]; [discriminate|].
  destruct (apply_change doc c) as [d|] eqn:E.
  - apply IH.
  - exfalso. destruct c as [t|sl sc el ec t]; [discriminate|].
    exact (change_never_panics doc sl sc el ec t Hc E).
Qed.

Theorem server_survives h : Forall ordered_event h -> forall s, run s h <> None.
Proof.
  induction 1 as [|e h He _ IH]; intros s; cbn [run]; [discriminate|].
  destruct (step s e) as [s'|] eqn:E; [apply IH|].
  exfalso. destruct e as [u t|u cs|u]; cbn [step] in E; try discriminate.
  destruct (st_get u s) as [doc|]; [|discriminate].
  destruct (apply_changes doc cs) as [d|] eqn:E2; [discriminate|].
  exact (changes_never_panic cs He doc E2).
Qed.
