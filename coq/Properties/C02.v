(** Property C02 — the emitted document means what the program says.

    Partial, and said so. Proved here (responses of an operation, any number of range entries):
    every (status, media type) content with a schema is emitted under its status and media
    type unless a later entry of the same transfer has the same status and the same effective
    media type (K20, refuted by a witness and recorded); the two defects of the pinned tree in
    this function (K4: only the last status-less content reached `default`; F9: headers and
    description of earlier contents of a status were dropped) are refuted for the pinned step
    and hold for the fixed one. On the evaluator and builder models (Model/Eval.v,
    Model/Builder.v, tied to eval.rs and to oal-openapi on every run: identical Spec, identical
    JSON document): a relation holds, for every method, the last of its transfers that
    declares the method, and none when no transfer declares it
    ([C02_relation_keeps_last_transfer_per_method], [C02_declared_method_has_transfer]); a path
    item lists exactly the operations of the methods that have a transfer, in method order
    ([C02_operations_are_the_declared_methods]); the keys of `paths` are the patterns of the
    relations, each once, in order of first appearance ([C02_path_keys_are_the_patterns]; a
    repeated pattern keeps the item of the last relation: K3). The full statement — the whole document equals the denotation
    of the program — is carried by monitor O02: an independent reference semantics (lexical
    environments, declarations by (module, name), top-down annotation flow, named components)
    computed from the generator's abstract syntax and compared with the emitted document up to
    implicit component names, on every generated accepted program. *)
From Oal Require Import Responses ResponsesProofs.
From Oal Require Eval Builder FaithProofs.

Theorem C02_responses_lossless_partial : forall before st md c after s,
  c_schema c = Some s ->
  forallb (fun e => negb (collides st (eff md) e)) after = true ->
  found (xfer_responses (before ++ ((st, md), c) :: after)) st (eff md) = Some s.
Proof. exact responses_lossless. Qed.
Print Assumptions C02_responses_lossless_partial.

Theorem C02_media_collision_refuted :
  exists rs st md c s, In ((st, md), c) rs /\ c_schema c = Some s /\ found (xfer_responses rs) st (eff md) <> Some s.
Proof. exact media_collision_refuted. Qed.
Print Assumptions C02_media_collision_refuted.

Theorem C02_default_overwritten_pinned_refuted :
  let rs := [((None, Some 5%N), mk_content (Some 1%N) [] None); ((None, Some 6%N), mk_content (Some 2%N) [] None)] in
  found (fold_left step_pinned rs []) None 5%N = None /\ found (xfer_responses rs) None 5%N = Some 1%N.
Proof. exact default_overwritten_pinned. Qed.
Print Assumptions C02_default_overwritten_pinned_refuted.

Theorem C02_headers_overwritten_pinned_refuted :
  let rs := [((Some 200%N, Some 5%N), mk_content (Some 1%N) [(7%N, 70%N)] (Some 9%N)); ((Some 200%N, Some 6%N), mk_content (Some 2%N) [] None)] in
  (match rget (Some 200%N) (fold_left step_pinned rs []) with Some r => get 7%N (r_headers r) | None => None end) = None /\
  (match rget (Some 200%N) (xfer_responses rs) with Some r => (get 7%N (r_headers r), r_desc r) | None => (None, None) end) = (Some 70%N, Some 9%N).
Proof. exact headers_overwritten_pinned. Qed.
Print Assumptions C02_headers_overwritten_pinned_refuted.

(** * nothing dropped or duplicated, at the level of methods and paths *)
Theorem C02_relation_keeps_last_transfer_per_method : forall ts, Forall FaithProofs.wf_xfer ts ->
  forall xs, length xs = 7%nat ->
  length (fold_left Eval.add_xfer ts xs) = 7%nat /\
  forall m, (m < 7)%nat -> nth m (fold_left Eval.add_xfer ts xs) None = FaithProofs.last_with m ts (nth m xs None).
Proof. exact FaithProofs.relation_slots. Qed.
Print Assumptions C02_relation_keeps_last_transfer_per_method.

Theorem C02_declared_method_has_transfer : forall ts m, Forall FaithProofs.wf_xfer ts -> (m < 7)%nat ->
  (exists t, In t ts /\ FaithProofs.has_method t m = true) <-> nth m (fold_left Eval.add_xfer ts Eval.no_xfers) None <> None.
Proof. exact FaithProofs.declared_method_has_transfer. Qed.
Print Assumptions C02_declared_method_has_transfer.

Theorem C02_operations_are_the_declared_methods : forall strs table names u xs m l,
  Builder.ops_json strs table names u xs m = Some l -> map fst l = FaithProofs.some_labels xs m.
Proof. exact FaithProofs.ops_are_the_declared_methods. Qed.
Print Assumptions C02_operations_are_the_declared_methods.

Theorem C02_path_keys_are_the_patterns : forall strs table names rels m,
  Builder.paths_json strs table names rels = Some (Builder.JObj m) ->
  exists items, Builder.oall (map (Builder.path_item_json strs table names) rels) = Some items /\
                map fst m = FaithProofs.dedup (map fst items) [].
Proof. exact FaithProofs.path_keys_are_the_patterns. Qed.
Print Assumptions C02_path_keys_are_the_patterns.
