(** Model of the glue of oal-client/src/bin/oal-cli.rs ([run] / [main]) over an abstract
    file system: resolve the configuration, load + evaluate the program, optionally read and
    parse a base, emit, serialise, write the target — the write is the last fallible step.
    The compiler pipeline and the serialiser are parameters. *)
From Coq Require Export List NArith Bool.
Export ListNotations.

Definition path := N.
Definition bytes := list N.
Definition fsys := path -> option bytes.

Definition fs_write (p : path) (b : bytes) (fs : fsys) : fsys :=
  fun q => if N.eqb q p then Some b else fs q.

Record config := mk_config { c_main : option path; c_target : option path; c_base : option path }.

Inductive exit := Success | Failure.

(** Config::main / target / base (oal-client/src/config.rs): an option of the command line
    wins over the entry of the configuration file *)
Definition orp (a b : option path) : option path := match a with Some x => Some x | None => b end.
Definition resolve (args file : config) : config :=
  mk_config (orp (c_main args) (c_main file)) (orp (c_target args) (c_target file)) (orp (c_base args) (c_base file)).

Section Cli.
Variable Doc Spec Base : Type.
Variable load_eval : fsys -> path -> option Spec.          (* Processor::load + eval; None = diagnostics printed *)
Variable parse_base : bytes -> option Base.                (* serde_yaml::from_reader *)
Variable emit : Spec -> option Base -> Doc.                (* Builder::into_openapi *)
Variable to_yaml : Doc -> option bytes.                    (* serde_yaml::to_string *)
Variable writable : fsys -> path -> bool.                  (* whether std::fs::write succeeds *)

Definition run (cfg : config) (fs : fsys) : exit * fsys :=
  match c_main cfg, c_target cfg with
  | Some m, Some t =>
      match load_eval fs m with
      | None => (Failure, fs)
      | Some spec =>
          let base :=
            match c_base cfg with
            | None => Some None
            | Some b => match fs b with
                        | None => None
                        | Some raw => match parse_base raw with Some x => Some (Some x) | None => None end
                        end
            end in
          match base with
          | None => (Failure, fs)
          | Some ob =>
              match to_yaml (emit spec ob) with
              | None => (Failure, fs)
              | Some y => if writable fs t then (Success, fs_write t y fs) else (Failure, fs)
              end
          end
      end
  | _, _ => (Failure, fs)
  end.

(** the playground entry point: one in-memory source, no base, no file system *)
Definition wasm (load_eval1 : bytes -> option Spec) (src : bytes) : option bytes :=
  match load_eval1 src with
  | None => None
  | Some spec => to_yaml (emit spec None)
  end.
End Cli.
