open BinNat
open BinNums
open Datatypes

type text = coq_N list

val coq_LF : coq_N

val coq_CR : coq_N

val is_lf : coq_N -> bool

val is_cr : coq_N -> bool

val len8 : coq_N -> coq_N

val len16 : coq_N -> coq_N

val len8s : text -> coq_N

val len16s : text -> coq_N

val units16 : coq_N -> coq_N list

val utf16 : text -> coq_N list

val crlf_wf : text -> bool

val split_at8 : text -> coq_N -> (text * text) option
