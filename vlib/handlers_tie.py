"""Tie of the folder-level handlers model (coq/Model/Folder.v: f_goto, f_references, f_rename,
extracted) to the real oal-lsp: the folder is transcribed from the compiler's own resolution
of every module (harness layer `resolve`: Variable nodes with spans and definitions, the
nodes definitions point to, import qualifiers); the model answers definition / references /
rename requests at byte offsets, its answers (module, byte span) are turned into LSP
locations and compared with what the server answers at the same positions."""
import json
from . import core, lspws


class Folder:
    def __init__(self, b, texts):
        self.locs = sorted(b)
        self.texts = texts
        self.mi = {l: i for i, l in enumerate(self.locs)}
        self.ids = {}
        self.internal = {}
        self.names = {}
        self.b = b
        secs = []
        for loc in self.locs:
            info = b[loc]
            us = []
            for u in sorted(info["uses"], key=lambda u: u["s"]):
                d = info["defs"].get(str(u["id"]))
                if d is None or d == "undefined":
                    did = -1
                elif d == "B":
                    did = self.internal.setdefault(u["x"], 900000 + len(self.internal))
                else:
                    tgt = lspws.def_target(b, loc, u)
                    did = self.ids.setdefault(tgt, len(self.ids))
                if u.get("qs") is not None:
                    q = [u["qs"], u["qe"], self.names.setdefault(u["q"], len(self.names))]
                else:
                    q = [-1, -1, -1]
                us += [u["s"], u["e"], u["is"], u["ie"], did] + q
            ns = []
            qs = []
            for n, sp in sorted(info["spans"].items(), key=lambda kv: kv[1]["ident"][0]):
                if sp["kind"] in ("decl", "binding"):
                    nid = self.ids.setdefault((loc, n), len(self.ids))
                    ns += [nid, sp["span"][0], sp["span"][1], sp["ident"][0], sp["ident"][1], 1 if sp["kind"] == "decl" else 0]
                elif sp["kind"] == "qualifier":
                    qs += [sp["ident"][0], sp["ident"][1], self.names.setdefault(sp["name"], len(self.names))]
            secs.append("U " + " ".join(map(str, us)) + " | N " + " ".join(map(str, ns)) + " | Q " + " ".join(map(str, qs)))
        self.head = "H " + " ".join(str(v) for v in self.internal.values()) + " | " + " | ".join(secs)

    def ask(self, queries):
        """queries: [(kind, loc, offset)], kind 0 definition / 1 references / 2 rename / 3 prepareRename; returns per query a list of (loc, s, e)"""
        line = self.head + " | X " + " ".join("%d %d %d" % (k, self.mi[l], o) for k, l, o in queries)
        out = core.run_stateless(core.RUNNER, "handlers", [line])[0]
        if out is None or out.startswith("ERROR") or out.startswith("CRASH"):
            return None
        res = []
        for a in out.split(";"):
            items = []
            if a.strip() != "-":
                for it in a.split():
                    m, s, e = it.split(":")
                    items.append((self.locs[int(m)], int(s), int(e)))
            res.append(items)
        return res if len(res) == len(queries) else None

    def key(self, item):
        loc, s, e = item
        r = lspws.rng_of(self.texts[loc], s, e)
        return (loc, r["start"]["line"], r["start"]["character"], r["end"]["line"], r["end"]["character"])


def loc_key(l):
    r = l["range"]
    return (l["uri"], r["start"]["line"], r["start"]["character"], r["end"]["line"], r["end"]["character"])


def probe_offsets(b, texts, rng, per_module):
    """offsets of interest: inside every kind of identifier, and positions that are no identifier"""
    out = []
    for loc, info in b.items():
        text = texts[loc]
        n = len(text.encode("utf8"))
        offs = set()
        for u in info["uses"]:
            offs.update([u["s"], u["e"] - 1, u["is"], u["ie"] - 1, u["e"]])
            if u.get("qs") is not None:
                offs.update([u["qs"], u["qe"] - 1, u["qe"]])
        for sp in info["spans"].values():
            offs.update([sp["ident"][0], sp["ident"][1] - 1, sp["span"][0], max(sp["span"][0], sp["span"][1] - 1)])
        offs.update([0, n, max(0, n - 1)])
        offs = sorted(o for o in offs if 0 <= o <= n)
        # only offsets that are character boundaries denote a position
        raw = text.encode("utf8")
        offs = [o for o in offs if o == n or (raw[o] & 0xC0) != 0x80]
        if len(offs) > per_module:
            offs = sorted(rng.sample(offs, per_module))
        out += [(loc, o) for o in offs]
    return out


def run(ctx, srv, b, texts, inp, kinds, per_module=40):
    """returns False when a violation was reported"""
    ok, out = core.ensure_runner()
    if not ok:
        ctx.broken.append("runner build failed: " + out[-300:])
        return True
    f = Folder(b, texts)
    probes = probe_offsets(b, texts, ctx.rng, per_module)
    queries = [(k, loc, o) for loc, o in probes for k in kinds]
    ans = f.ask(queries)
    if ans is None:
        ctx.broken.append("handlers tie: the model runner gave no answer for a folder of %d modules" % len(f.locs))
        return True
    for (k, loc, off), model in zip(queries, ans):
        line, col = lspws.pos_of(texts[loc], off)
        where = dict(inp, file=loc, position=[line, col], offset=off)
        if k == 0:
            r = srv.pos_request("textDocument/definition", loc, line, col)
            ctx.cov["evaluations"] += 1
            if "result" not in r:
                ctx.violation("the server does not answer a definition request (error, exit or timeout)", where, "a result", str(r)[:300])
                return False
            got = r["result"]
            gset = [] if got in ([], None) else [loc_key(got)] if isinstance(got, dict) else [loc_key(x) for x in got]
            mset = [f.key(x) for x in model]
            if gset != mset:
                ctx.violation("go-to-definition: the server and the handlers model (Folder.f_goto on the compiler's binding relation) disagree",
                              where, mset, gset)
                return False
        elif k == 1:
            r = srv.pos_request("textDocument/references", loc, line, col, {"context": {"includeDeclaration": False}})
            ctx.cov["evaluations"] += 1
            if "result" not in r:
                ctx.violation("the server does not answer a references request", where, "a result", str(r)[:300])
                return False
            got = [loc_key(x) for x in (r["result"] or [])]
            mset = [f.key(x) for x in model]
            if sorted(got) != sorted(mset):
                ctx.violation("find-references: the server and the handlers model (Folder.f_references on the compiler's binding relation) disagree",
                              where, sorted(mset), sorted(got))
                return False
        elif k == 3:
            r = srv.pos_request("textDocument/prepareRename", loc, line, col)
            ctx.cov["evaluations"] += 1
            if "result" not in r:
                ctx.violation("the server does not answer a prepareRename request", where, "a result", str(r)[:300])
                return False
            got = r["result"]
            gset = [] if not got else [(loc, got["start"]["line"], got["start"]["character"], got["end"]["line"], got["end"]["character"])]
            mset = [f.key(x) for x in model]
            if gset != mset:
                ctx.violation("prepareRename: the server and the handlers model (Folder.f_prepare on the compiler's binding relation) disagree",
                              where, mset, gset)
                return False
        else:
            r = srv.pos_request("textDocument/rename", loc, line, col, {"newName": "zzq"})
            ctx.cov["evaluations"] += 1
            if "result" not in r:
                if not srv.alive():
                    ctx.violation("a rename request kills the server", where, "an answer", "".join(srv.stderr[-3:])[:300])
                    return False
                ctx.count("rename_error_answer")
                continue
            ch = (r["result"] or {}).get("changes") or {}
            got = sorted((u, e["range"]["start"]["line"], e["range"]["start"]["character"], e["range"]["end"]["line"], e["range"]["end"]["character"])
                         for u, es in ch.items() for e in es)
            mset = sorted(f.key(x) for x in model)
            if got != mset:
                ctx.violation("rename: the edits of the server and of the handlers model (Folder.f_rename on the compiler's binding relation) disagree",
                              where, mset, got)
                return False
        ctx.count("handlers_tie_%s" % ("definition", "references", "rename", "prepareRename")[k])
    ctx.cov["traces_validated_against_impl"] = ctx.cov.get("traces_validated_against_impl", 0) + len(queries)
    return True
