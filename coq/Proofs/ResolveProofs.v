(** Proofs about Model/Resolve.v (property C08): the cursor walk with a mutable scope stack
    computes exactly the lexical binding relation. *)
From Oal Require Import Resolve.

Section TreeInd.
  Variable P : rtree -> Prop.
  Hypothesis Hv : forall u q x, P (RVar u q x).
  Hypothesis Hr : forall bind b body, P body -> P (RRec bind b body).
  Hypothesis Hn : forall cs, Forall P cs -> P (RNode cs).
  Fixpoint rtree_ind' (t : rtree) : P t :=
    match t with
    | RVar u q x => Hv u q x
    | RRec bind b body => Hr bind b body (rtree_ind' body)
    | RNode cs => Hn cs ((fix go (l : list rtree) : Forall P l :=
                            match l with [] => Forall_nil P | x :: l' => Forall_cons x (rtree_ind' x) (go l') end) cs)
    end.
End TreeInd.

(** the walk of a subtree leaves the stack as it found it, appends exactly the lexical
    resolution of the subtree, and fails exactly when the lexical definition fails *)
Theorem run_is_lex : forall t rest en acc,
  run (linearize t ++ rest) en acc =
  match lex en t with
  | inl ds => run rest en (acc ++ ds)
  | inr e => inr e
  end.
Proof.
  induction t as [u q x|bind b body IH|cs IH] using rtree_ind'; intros rest en acc.
  - cbn [linearize app run lex]. destruct (lookup (x, q) en); reflexivity.
  - cbn [linearize lex]. cbn [app run]. rewrite <- app_assoc. rewrite IH.
    cbn [sc_insert]. destruct (lex _ body); [|reflexivity]. cbn [app run tl]. reflexivity.
  - cbn [linearize lex]. revert rest en acc.
    induction IH as [|c cs Hc _ IHcs]; intros rest en acc.
    + cbn [flat_map app seq_results]. rewrite app_nil_r. reflexivity.
    + cbn [flat_map seq_results]. rewrite <- app_assoc. rewrite Hc.
      destruct (lex en c) as [ds|e]; [|reflexivity].
      rewrite IHcs.
      destruct (seq_results (lex en) cs) as [ds'|e]; [|reflexivity].
      rewrite app_assoc. reflexivity.
Qed.

Corollary resolve_decl_is_lexical g d : resolve_decl_run g d = resolve_decl_lex g d.
Proof.
  unfold resolve_decl_run, resolve_decl_lex.
  pose proof (run_is_lex (d_rhs d) [] [param_scope (d_params d); g] []) as H.
  rewrite app_nil_r in H. rewrite H. destruct (lex _ (d_rhs d)); reflexivity.
Qed.

(** * the precedence of binders *)
Lemma entry_eqb_refl e : entry_eqb e e = true.
Proof. destruct e as [x [q|]]; unfold entry_eqb; cbn; rewrite ?N.eqb_refl; reflexivity. Qed.

Lemma sc_get_insert_same e d s : sc_get e (sc_insert e d s) = Some d.
Proof.
  induction s as [|[e' d'] s IH]; cbn [sc_insert sc_get]; [rewrite entry_eqb_refl; reflexivity|].
  destruct (entry_eqb e e') eqn:E; cbn [sc_get]; rewrite ?entry_eqb_refl, ?E; auto.
Qed.

Lemma entry_eqb_eq a b : entry_eqb a b = true -> a = b.
Proof.
  destruct a as [x [q|]], b as [y [r|]]; unfold entry_eqb; cbn; intros H;
    try (rewrite andb_false_r in H; discriminate);
    apply andb_true_iff in H; destruct H as [H1 H2]; apply N.eqb_eq in H1; subst; try reflexivity.
  apply N.eqb_eq in H2. subst. reflexivity.
Qed.

Lemma sc_get_insert_other e e' d s : entry_eqb e e' = false -> sc_get e (sc_insert e' d s) = sc_get e s.
Proof.
  intros H. induction s as [|[e2 d2] s IH]; cbn [sc_insert sc_get]; [rewrite H; reflexivity|].
  destruct (entry_eqb e' e2) eqn:E; cbn [sc_get].
  - apply entry_eqb_eq in E. subst. rewrite H. reflexivity.
  - destruct (entry_eqb e e2); [reflexivity|exact IH].
Qed.

(** a rec binder is the innermost binder of its name inside its body *)
Theorem rec_binder_innermost en bind b u :
  lex en (RRec bind b (RVar u None b)) = inl [(u, DExt bind)].
Proof. cbn [lex lookup sc_get]. rewrite entry_eqb_refl. reflexivity. Qed.

(** a parameter shadows every global of the same name *)
Theorem param_shadows_global g bind x ps u :
  sc_get (x, None) (param_scope ps) = Some (DExt bind) ->
  lex [param_scope ps; g] (RVar u None x) = inl [(u, DExt bind)].
Proof. intros H. cbn [lex lookup]. rewrite H. reflexivity. Qed.

(** of two parameters with the same name the later one binds *)
Theorem last_duplicate_param_wins n1 n2 x :
  sc_get (x, None) (param_scope [(n1, x); (n2, x)]) = Some (DExt n2).
Proof. unfold param_scope. cbn [fold_left sc_insert fst snd]. rewrite entry_eqb_refl. cbn [sc_get]. rewrite entry_eqb_refl. reflexivity. Qed.

(** a use that is not a parameter or rec variable is looked up in the module scope *)
Theorem global_when_not_local g ps u q x :
  sc_get (x, q) (param_scope ps) = None ->
  lex [param_scope ps; g] (RVar u q x) =
  match sc_get (x, q) g with Some d => inl [(u, d)] | None => inr (NotInScope u) end.
Proof. intros H. cbn [lex lookup]. rewrite H. destruct (sc_get (x, q) g); reflexivity. Qed.

(** a use with no binder is an error *)
Theorem unbound_is_error en u q x : lookup (x, q) en = None <-> lex en (RVar u q x) = inr (NotInScope u).
Proof. cbn [lex]. destruct (lookup (x, q) en); split; congruence. Qed.

(** two declarations of one name are an error *)
Theorem duplicate_decl_is_error s d1 d2 ds :
  d_name d1 = d_name d2 -> sc_get (d_name d1, None) s = None ->
  declare_all s (d1 :: d2 :: ds) = inr (DuplicateDecl (d_node d2)).
Proof.
  intros E H. cbn [declare_all]. rewrite H. rewrite <- E. rewrite sc_get_insert_same. reflexivity.
Qed.

(** K8: a declaration does not shadow an unqualified import (or the built-in) of the same
    name: it is rejected *)
Lemma decl_import_clash_refuted :
  exists imports d, global_scope imports [d] = inr (DuplicateDecl (d_node d)).
Proof.
  exists [(None, [(5%N, 77%N)])], (mk_rdecl 9 5 [] (RNode [])). reflexivity.
Qed.

(** K9: two unqualified imports exporting one name: the later one wins, so the binder of a
    use depends on the order of the use statements *)
Lemma import_order_refuted :
  exists i1 i2 x, (exists s, global_scope [i1; i2] [] = inl s /\ exists s', global_scope [i2; i1] [] = inl s' /\
                   sc_get (x, None) s <> sc_get (x, None) s').
Proof.
  exists (None, [(5%N, 70%N)]), (None, [(5%N, 71%N)]), 5%N.
  eexists. split; [reflexivity|]. eexists. split; [reflexivity|]. cbn. discriminate.
Qed.

(** qualified imports are looked up by qualifier: a qualified and an unqualified entry of
    one name do not interfere *)
Theorem qualifier_separates s x q d :
  sc_get (x, None) (sc_insert (x, Some q) d s) = sc_get (x, None) s.
Proof. apply sc_get_insert_other. unfold entry_eqb. cbn. apply andb_false_r. Qed.
