"""C16 — editor positions and byte offsets convert exactly in both directions.
Proof: coq/Properties/C16.v. Tie: layer L0 (positions), exhaustive enumeration.
Monitor O16: the property's clauses evaluated on the implementation's answers
against an independent python reference."""
import itertools
from . import core

SEEN = set()
UNITS = [[97], [233], [8364], [128521], [10], [13, 10]]


def u8(cp):
    return 1 if cp < 0x80 else 2 if cp < 0x800 else 3 if cp < 0x10000 else 4


def u16(cp):
    return 1 if cp < 0x10000 else 2


def texts_upto(n):
    for k in range(n + 1):
        for combo in itertools.product(UNITS, repeat=k):
            yield [cp for u in combo for cp in u]


def crlf_wf(cps):
    return all(not (c == 13) or (i + 1 < len(cps) and cps[i + 1] == 10) for i, c in enumerate(cps))


def boundaries(cps):
    b = [0]
    for c in cps:
        b.append(b[-1] + u8(c))
    return b


def py_spec(cps, l, c):
    """LSP meaning of a position (independent of the model): returns (offset, exact?)
    where exact? is False when the column falls strictly inside a surrogate pair."""
    lines = [[]]
    for cp in cps:
        if cp == 10:
            lines.append([])
        else:
            lines[-1].append(cp)
    total = sum(u8(x) for x in cps)
    if l >= len(lines):
        return total, True
    off = sum(sum(u8(x) for x in ln) + 1 for ln in lines[:l])
    content = lines[l]
    if 13 in content:
        content = content[:content.index(13)]
    u = 0
    b = 0
    for cp in content:
        if u == c:
            return off + b, True
        if u > c:
            return None, False
        u += u16(cp)
        b += u8(cp)
    if u > c:
        return None, False
    return off + b, True


def utf16_units(cps):
    out = []
    for cp in cps:
        if cp < 0x10000:
            out.append(cp)
        else:
            v = cp - 0x10000
            out += [0xD800 + (v >> 10), 0xDC00 + (v & 0x3FF)]
    return out


def client_select(cps, l1, c1, l2, c2):
    """What an LSP client selects for the range: works on UTF-16 units, lines split at LF,
    columns clamped to the line length (line terminator CR/LF excluded)."""
    units = utf16_units(cps)
    starts = [0]
    for i, x in enumerate(units):
        if x == 10:
            starts.append(i + 1)

    def off(l, c):
        if l >= len(starts):
            return len(units)
        s = starts[l]
        e = starts[l + 1] - 1 if l + 1 < len(starts) else len(units)
        if e > s and units[e - 1] == 13 and e < len(units):
            e -= 1  # CR of a CRLF terminator is not line content
        return min(s + c, e)

    a, b = off(l1, c1), off(l2, c2)
    return units[a:b]


def group_for(cps, dense_ranges=True):
    b = boundaries(cps)
    total = b[-1]
    nl = cps.count(10) + 1
    maxc = 0
    cur = 0
    for cp in cps:
        if cp == 10:
            cur = 0
        else:
            cur += u16(cp)
            maxc = max(maxc, cur)
    g = ["T %d %s" % (len(cps), " ".join(map(str, cps)))]
    q = [("T",)]
    for i in range(total + 3):
        g.append("U %d" % i)
        q.append(("U", i))
        g.append("C %d" % i)
        q.append(("C", i))
    for l in range(nl + 2):
        for c in range(maxc + 3):
            g.append("P %d %d" % (l, c))
            q.append(("P", l, c))
    for si in range(len(b)):
        for ei in range(si, len(b)):
            g.append("R %d %d" % (b[si], b[ei]))
            q.append(("R", b[si], b[ei], si, ei))
            g.append("K %d %d" % (b[si], b[ei]))
            q.append(("K", b[si], b[ei], si, ei))
    return g, q


def monitor(ctx, cps, qs, outs):
    """The clauses of C16 on the implementation's answers for one text."""
    b = boundaries(cps)
    bset = set(b)
    wf = crlf_wf(cps)
    P = {}
    U = {}
    for q, o in zip(qs, outs):
        if q[0] == "P":
            P[(q[1], q[2])] = int(o)
        elif q[0] == "U":
            l, c = o.split()
            U[q[1]] = (int(l), int(c))
    nchars_before = lambda i: sum(1 for x in b[:-1] if x < i)
    for q, o in zip(qs, outs):
        if q[0] == "P":
            exp, exact = py_spec(cps, q[1], q[2])
            if exact and int(o) != exp:
                ctx.violation("position_to_utf8 differs from the LSP meaning of the position (clamping included)",
                              {"text": cps, "line": q[1], "character": q[2]}, exp, int(o))
        elif q[0] == "C":
            if int(o) != nchars_before(q[1]):
                ctx.violation("utf8_to_char_index is not the number of characters starting before the offset",
                              {"text": cps, "offset": q[1]}, nchars_before(q[1]), int(o))
        elif q[0] == "U" and wf and q[1] in bset:
            k = b.index(q[1])
            inside = k > 0 and cps[k - 1] == 13 and k < len(cps) and cps[k] == 10
            if inside:
                continue
            back = P.get(U[q[1]])
            if back is None:
                exp, _ = py_spec(cps, *U[q[1]])
                back = exp
            if back != q[1]:
                ctx.violation("offset -> position -> offset does not return the offset",
                              {"text": cps, "offset": q[1], "position": U[q[1]]}, q[1], back)
        elif q[0] == "K":
            a, z = map(int, o.split())
            if (a, z) != (q[3], q[4]):
                ctx.violation("the character span of a byte span (CharSpan::from, what the CLI and the playground attach to a diagnostic) is not "
                              "(characters before its start, characters before its end)", {"text": cps, "span": [q[1], q[2]]}, [q[3], q[4]], [a, z])
        elif q[0] == "R" and wf:
            si, ei = q[3], q[4]
            ins = lambda k: k > 0 and cps[k - 1] == 13 and k < len(cps) and cps[k] == 10
            if ins(si) or ins(ei):
                continue
            l1, c1, l2, c2 = map(int, o.split())
            sel = client_select(cps, l1, c1, l2, c2)
            exp = utf16_units(cps[si:ei])
            if sel != exp:
                ctx.violation("the range sent for a span does not select the span's text in the client's document",
                              {"text": cps, "span": [q[1], q[2]], "range": [l1, c1, l2, c2]}, exp, sel)


def charspans(triples):
    """[(text, s, e)] -> [(start, end) | None]: CharSpan::from of the implementation for byte spans of python strings"""
    lines = []
    for t, a, z in triples:
        cps = [ord(c) for c in t]
        lines.append("T %d %s" % (len(cps), " ".join(map(str, cps))))
        lines.append("K %d %d" % (a, z))
    if not lines:
        return []
    rc, out, err = core.run_layer(core.IMPL, "pos", None, shards=[lines])[0]
    res = []
    for k in range(len(triples)):
        try:
            a, z = out[2 * k + 1].split()
            res.append((int(a), int(z)))
        except Exception:
            res.append(None)
    return res


def run_texts(ctx, texts, with_model=True, label="enum"):
    groups = []
    metas = []
    for cps in texts:
        g, q = group_for(cps)
        groups.append(g)
        metas.append((cps, q))
    # shard keeping the association: shard i gets groups i, i+n, ...
    n = core.NCPU
    shards = [[] for _ in range(n)]
    idx = [[] for _ in range(n)]
    for k, g in enumerate(groups):
        shards[k % n].extend(g)
        idx[k % n].append(k)
    live = [i for i in range(n) if shards[i]]
    impl = core.run_layer(core.IMPL, "pos", None, shards=[shards[i] for i in live])
    model = core.run_layer(core.RUNNER, "pos", None, shards=[shards[i] for i in live]) if with_model else None
    for j, i in enumerate(live):
        rc, out, err = impl[j]
        if rc != 0 or len(out) != len(shards[i]):
            ctx.violation("the implementation crashed or stopped answering on layer L0",
                          {"shard": i, "stderr": err[-400:], "first_text": metas[idx[i][0]][0]}, "one answer per query", "rc=%s, %d/%d answers" % (rc, len(out), len(shards[i])))
            continue
        mout = None
        if with_model:
            mrc, mout, merr = model[j]
            if mrc != 0 or len(mout) != len(shards[i]):
                ctx.broken.append("model runner failed on layer L0: rc=%s %s" % (mrc, merr[-200:]))
                mout = None
        pos = 0
        for k in idx[i]:
            cps, qs = metas[k]
            o = out[pos:pos + len(qs)]
            if mout is not None:
                m = mout[pos:pos + len(qs)]
                if o != m:
                    d = next(t for t in range(len(qs)) if o[t] != m[t])
                    if len(ctx.broken) < 20:
                        ctx.broken.append("L0 disagreement: text=%s query=%s impl=%s model=%s" % (cps, qs[d], o[d], m[d]))
                    ctx.count("tie_disagreements")
                else:
                    ctx.cov["traces_validated_against_impl"] += 1
            pos += len(qs)
            ctx.cov["evaluations"] += len(qs) - 1
            monitor(ctx, cps, qs, o)
            if len(ctx.violations) > 50:
                return
            ctx.count("%s_texts" % label)
            key = tuple(cps)
            if key not in SEEN:
                SEEN.add(key)
                if any(c > 127 for c in cps) and 10 in cps:
                    ctx.count("nontrivial")
            ctx.count("%s_len%d" % (label, len(cps)))
            if len(cps) >= 4 and 128521 in cps and 13 in cps:
                ctx.sample({"text": cps, "queries": len(qs), "first": [list(map(str, qs[t])) + [o[t]] for t in (1, len(qs) // 2, len(qs) - 1)]})


def malformed_texts(ctx, n):
    """texts outside the property's alphabet (lone CR, NUL, BOM, U+FFFF, U+10FFFF): tie only +
    the universally valid clauses."""
    pool = [97, 13, 10, 0, 0xFEFF, 0xFFFF, 0x10FFFF, 0x7FF, 0x800, 0x80, 9, 0x2028]
    out = []
    for _ in range(n):
        k = ctx.rng.randint(1, 9)
        out.append([ctx.rng.choice(pool) for _ in range(k)])
    return out


E2E = [
    {"main.oal": 'use "lib.oal" as l;\nlet local = { \'id! num };\nres /items on get -> <l.item>;\nres /locals on get -> <local>;\n',
     "lib.oal": "// é€😉 a comment line with 2-, 3- and 4-byte characters\r\nlet item = { 'name! str };\r\n"},
    {"main.oal": '// 😉😉\n\n\nuse "deep/lib.oal" as l;\nres /a on get -> <l.a> :: <status=404, l.b>;\n',
     "deep/lib.oal": "let a = num; let b = {\n  'x a,\n  'y [b] };\n"},
]


def check(ctx):
    ctx.proof = core.proof_stage("C16", thorough=ctx.thorough)
    ok, out = core.ensure_runner()
    if not ok:
        ctx.broken.append("runner build failed: " + out[-300:])
    ok, out = core.ensure_harness()
    if not ok:
        ctx.broken.append("harness build against /repo failed: " + out[-600:])
        return core.finish(ctx)
    for k in core.known_findings("C16"):
        if k.get("status") == "known":
            # K7: replay the witness on the implementation
            res = core.run_layer(core.IMPL, "pos", None, shards=[["T 2 13 10", "U 1", "P 0 1"]])
            rc, o, _ = res[0]
            if rc == 0 and len(o) == 3 and o[1] == "0 1" and o[2] == "0":
                ctx.known(k["what"])
            else:
                core.log("stale known finding (no longer reproduces): " + k["id"])
    L = 6 if ctx.thorough else 5
    if ctx.replay:
        import json
        v = json.load(open(ctx.replay))
        if "files" in v["input"]:
            core.ensure_repo_bins()
            from . import c17
            c17.check_workspace(ctx, v["input"]["files"], "c16replay")
        else:
            run_texts(ctx, [v["input"]["text"]], label="replay")
        return core.finish(ctx)
    run_texts(ctx, list(texts_upto(L)))
    run_texts(ctx, malformed_texts(ctx, 3000 if ctx.thorough else 600), label="malformed")
    if ctx.broken and not ctx.violations and not ctx.thorough:
        # search deeper on the implementation alone before giving up
        run_texts(ctx, [t for t in texts_upto(L + 1) if sum(1 for _ in t) > 0 and len(t) >= L], with_model=False, label="search")
    # end to end: the ranges the language server sends for spans of another document (converted with that document's text)
    # select the span's text in the client's copy: two workspaces whose modules have different line layouts
    ok2, out2 = core.ensure_repo_bins()
    if ok2:
        from . import c17
        for k, files in enumerate(E2E):
            c17.check_workspace(ctx, files, "c16e2e%d" % k)
    else:
        ctx.broken.append("build of the binaries of /repo failed: " + out2[-300:])
    ctx.cov["exhaustive"] = True
    ctx.cov["rule"] = ("every text over the units {a, e-acute(2B), euro(3B), winking-face(4B, 2 UTF-16 units), LF, CRLF} "
                       "of at most %d units; for each: every offset 0..len+2 (utf8_to_position, utf8_to_char_index), every "
                       "position line 0..#lines+1 x character 0..maxcol+2 (position_to_utf8), every pair of boundaries "
                       "(utf8_range_to_position); plus random texts with lone CR / NUL / BOM / U+10FFFF. "
                       "distinct_nontrivial counts distinct texts with at least one multi-byte character and one line break." % L)
    ctx.cov["distinct_nontrivial"] = ctx.cov["distribution"].get("nontrivial", 0)
    return core.finish(ctx)
