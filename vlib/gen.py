"""Type-directed generator of oal programs (mostly accepted by the checker), with an AST that
can be rendered, rewritten (C05) and interpreted by the reference semantics (C02).

AST: nested python lists  [kind, ...]  where every expression may carry an inline
annotation dict under key 'ann' via the wrapper  ['ann', expr, {k: v}].

Tags (the checker's view): 'prim' 'obj' 'arr' 'uri' 'any' 'rel' for schemas;
'prop:<tag>' properties; 'content'; 'xfer'; 'text'; 'num'; 'status'.
"""
import json

KEYWORDS = {"num", "str", "uri", "bool", "int", "get", "put", "post", "patch", "delete", "options", "head",
            "media", "headers", "status", "let", "res", "use", "as", "on", "rec", "concat"}
METHODS = ["get", "put", "post", "patch", "delete", "options", "head"]
PRIMS = ["num", "str", "int", "bool"]


# ------------------------------------------------------------------ rendering

def yaml_flow(v):
    """flow-YAML subset that serde_yaml reads back as the same value"""
    if isinstance(v, bool):
        return "true" if v else "false"
    if isinstance(v, (int, float)):
        return repr(v)
    if isinstance(v, str):
        return json.dumps(v)
    if isinstance(v, list):
        return "[" + ", ".join(yaml_flow(x) for x in v) + "]"
    if isinstance(v, dict):
        return "{ " + ", ".join("%s: %s" % (k, yaml_flow(x)) for k, x in v.items()) + " }"
    raise ValueError(v)


def ann_text(a):
    return ", ".join("%s: %s" % (k, yaml_flow(v)) for k, v in a.items())


ATOMIC = {"prim", "var", "qvar", "obj", "arr", "content", "paren", "lit", "uri", "prop"}


def atom(e):
    """render e as a term (parenthesised unless it already is one)"""
    k = e[0]
    if k == "ann":
        inner = e[1]
        s = atom(inner) if inner[0] != "prop" else "(" + render(inner) + ")"
        return "%s `%s`" % (s, ann_text(e[2]))
    if k in ATOMIC and k != "prop":
        return render(e)
    return "(" + render(e) + ")"


def render(e):
    k = e[0]
    if k == "ann":
        return atom(e)
    if k == "prim":
        return e[1]
    if k == "var":
        return e[1]
    if k == "qvar":
        return "%s.%s" % (e[1], e[2])
    if k == "lit":
        return e[1]
    if k == "paren":
        return "(" + render(e[1]) + ")"
    if k == "obj":
        return "{ " + ", ".join(render_prop_item(p) for p in e[1]) + " }" if e[1] else "{}"
    if k == "arr":
        return "[" + render(e[1]) + "]"
    if k == "prop":       # ['prop', name, mark, rhs]
        return "'%s%s %s" % (e[1], e[2], render(e[3]))
    if k == "unary":      # ['unary', op, operand]
        return atom(e[2]) + e[1]
    if k == "op":         # ['op', sym, operands]
        return (" %s " % e[1]).join(atom(x) for x in e[2])
    if k == "app":        # ['app', fn(var/qvar), args]
        return render(e[1]) + " " + " ".join(atom(a) for a in e[2])
    if k == "rec":        # ['rec', binder, body]
        return "rec %s %s" % (e[1], atom(e[2]))
    if k == "content":    # ['content', metas [(kind, expr)], body|None]
        parts = ["%s=%s" % (m, atom(x)) for m, x in e[1]]
        if e[2] is not None:
            parts.append(render_body(e[2]))
        return "<" + ", ".join(parts) + ">"
    if k == "xfer":       # ['xfer', methods, params|None, domain|None, range]
        s = ", ".join(e[1])
        if e[2] is not None:
            s += " " + render(e[2])
        if e[3] is not None:
            s += " : " + atom(e[3])
        return s + " -> " + render_range(e[4])
    if k == "uri":        # ['uri', segs [('lit', s) | ('var', propexpr)], params|None]
        s = ""
        for seg in e[1]:
            if seg[0] == "lit":
                s += "/" + seg[1]
            else:
                s += "/{ " + render(seg[1]) + " }"
        if not e[1]:
            s = "/"
        if e[2] is not None:
            s += "?" + render(e[2])
        return s
    if k == "rel":        # ['rel', uriexpr, xfers]
        return atom(e[1]) + " on " + ", ".join(render_xfer_item(x) for x in e[2])
    raise ValueError(k)


def render_prop_item(p):
    return render(p) if p[0] in ("prop", "var", "qvar", "unary") else atom(p)


def render_body(b):
    return render(b) if b[0] in ATOMIC or b[0] in ("ann", "app", "op") and False else atom(b)


def render_range(r):
    if r[0] == "op" and r[1] == "::":
        return " :: ".join(atom(x) for x in r[2])
    return atom(r)


def render_xfer_item(x):
    return render(x) if x[0] == "xfer" else atom(x)


def render_decl(d):
    """d = {'name':..., 'params':[...], 'rhs': expr, 'anns': [dict,...]}"""
    s = "".join("# %s\n" % ann_text(a) for a in d.get("anns", []))
    return s + "let %s%s = %s;" % (d["name"], "".join(" " + p for p in d["params"]), render(d["rhs"]))


def render_module(m):
    """m = {'uses': [(path, qualifier|None)], 'decls': [...], 'res': [expr]}"""
    lines = []
    for path, q in m["uses"]:
        lines.append('use "%s"%s;' % (path, " as " + q if q else ""))
    for d in m["decls"]:
        lines.append(render_decl(d))
    for r in m["res"]:
        lines.append("res %s;" % render(r))
    return "\n".join(lines) + "\n"


# ------------------------------------------------------------------ generation

class Gen:
    def __init__(self, rng, rich_ann=True, safe=True):
        self.rng = rng
        self.n = 0
        self.rich_ann = rich_ann
        self.safe = safe         # stay outside the known-finding classes
        self.features = set()
        self.paths = 0
        self.strdecls = set()

    def fresh(self, prefix):
        self.n += 1
        return "%s%d" % (prefix, self.n)

    def feat(self, f):
        self.features.add(f)

    # -- annotations
    def prim_ann(self, prim):
        r = self.rng
        a = {}
        if prim in ("num", "int"):
            if r.random() < 0.5:
                a["minimum"] = r.randint(0, 5) if prim == "int" else r.choice([0, 1.5, 2])
            if r.random() < 0.4:
                a["maximum"] = r.randint(10, 99)
            if r.random() < 0.2:
                a["multipleOf"] = 2
            if r.random() < 0.3:
                a["example"] = 7
        elif prim == "str":
            if r.random() < 0.4:
                a["pattern"] = r.choice(["^[a-z]+$", "^x.*"])
            if r.random() < 0.3:
                a["enum"] = r.sample(["a", "b", "c", "dd"], r.randint(1, 3))
            if r.random() < 0.3:
                a["format"] = r.choice(["email", "date"])
            if r.random() < 0.3:
                a["minLength"] = r.randint(0, 3)
            if r.random() < 0.2:
                a["example"] = "ex"
        if r.random() < 0.3:
            a["title"] = self.fresh("T")
        if r.random() < 0.2:
            a["description"] = self.fresh("D")
        return a

    def maybe_ann(self, e, a):
        if a and self.rich_ann:
            self.feat("inline-ann")
            return ["ann", e, a]
        return e

    # -- schemas
    def prim(self, tagged=True):
        p = self.rng.choice(PRIMS)
        e = ["prim", p]
        if tagged and self.rng.random() < 0.5:
            return self.maybe_ann(e, self.prim_ann(p))
        return e

    def names_of(self, env, tag):
        return [n for n, t in env.items() if t == tag]

    def schema(self, env, tag=None, depth=2):
        r = self.rng
        if tag is None:
            tag = r.choice(["prim", "prim", "obj", "obj", "arr", "any", "uri"])
        cands = self.names_of(env, tag)
        if cands and r.random() < 0.35:
            self.feat("var-use")
            name = r.choice(cands)
            if tag == "prim" and not str(name if not isinstance(name, tuple) else name[1]).startswith("@") \
                    and name in self.strdecls and r.random() < 0.5 and self.rich_ann:
                self.feat("ann-on-use")
                return ["ann", self.varref(name), {"enum": r.sample(["a", "b", "c", "dd"], 2)}]
            return self.varref(name)
        if depth <= 0:
            if tag == "prim":
                return self.prim()
            if tag == "obj":
                return ["obj", [self.prop(env, 0)]]
            if tag == "arr":
                return ["arr", self.prim()]
            if tag == "uri":
                return ["prim", "uri"]
            if tag == "any":
                return ["op", "~", [self.prim(), ["prim", "str"]]]
        if tag == "prim":
            if r.random() < 0.2:
                self.feat("sum")
                return ["op", "|", [self.prim(False), self.prim(False)]]
            if r.random() < 0.07:
                # an implicit reference to an atomic schema: the emitter inlines it and keeps no component
                self.feat("implicit-atomic-ref")
                return ["rec", self.fresh("r"), self.prim(False)]
            return self.prim()
        if tag == "obj":
            x = r.random()
            objs = self.names_of(env, "obj")
            if x < 0.15 and depth > 0:
                self.feat("join")
                return ["op", "&", [self.schema(env, "obj", depth - 1), self.schema(env, "obj", depth - 1)]]
            if x < 0.25 and depth > 0:
                self.feat("sum")
                return ["op", "|", [self.schema(env, "obj", depth - 1), self.schema(env, "obj", depth - 1)]]
            if x < 0.33 and depth > 0:
                self.feat("rec")
                b = self.fresh("r")
                env2 = dict(env)
                env2[b] = "obj"
                props = [self.prop(env, depth - 1), ["prop", self.fresh("k"), "", ["arr", ["var", b]]]]
                if r.random() < 0.5:
                    props.append(["prop", self.fresh("k"), "?", ["var", b]])
                return ["rec", b, ["obj", props]]
            fs = [n for n, t in env.items() if isinstance(t, tuple) and t[0] == "fn" and t[2] == "obj"]
            if fs and x < 0.5:
                return self.apply(env, r.choice(fs), depth)
            return ["obj", [self.prop(env, depth - 1) for _ in range(r.randint(0, 3))]]
        if tag == "arr":
            fs = [n for n, t in env.items() if isinstance(t, tuple) and t[0] == "fn" and t[2] == "arr"]
            if fs and r.random() < 0.3:
                return self.apply(env, r.choice(fs), depth)
            return ["arr", self.schema(env, None, depth - 1)]
        if tag == "uri":
            if r.random() < 0.5:
                return ["prim", "uri"]
            return self.uri(env, params=r.random() < 0.3)
        if tag == "any":
            self.feat("any")
            return ["op", "~", [self.schema(env, None, depth - 1) for _ in range(r.randint(2, 3))]]
        raise ValueError(tag)

    def varref(self, name):
        if isinstance(name, tuple):
            return ["qvar", name[0], name[1]]
        return ["var", name]

    def apply(self, env, fname, depth):
        self.feat("application")
        t = env[fname]
        args = []
        for ptag in t[1]:
            if ptag.startswith("prop"):
                args.append(self.prop(env, depth - 1))
            else:
                a = self.schema(env, ptag, depth - 1)
                if a[0] != "ann" and a[0] in ("prim", "obj", "arr") and self.rng.random() < 0.5 and self.rich_ann:
                    # an argument that brings its own schema-level annotations
                    a = ["ann", a, {"title": self.fresh("T"), "description": self.fresh("D")}]
                args.append(a)
        return ["app", self.varref(fname), args]

    def prop(self, env, depth, prim_only=False):
        r = self.rng
        name = self.fresh("p")
        mark = r.choice(["", "", "!", "?"])
        rhs = self.prim() if prim_only else self.schema(env, None, depth)
        if not mark and not prim_only and self.rich_ann and r.random() < 0.25:
            # the requirement stated on the property's schema instead of a mark
            self.feat("schema-level-required")
            if rhs[0] == "ann":
                rhs = ["ann", rhs[1], dict(rhs[2], required=r.random() < 0.7)]
            elif rhs[0] in ATOMIC:
                rhs = ["ann", rhs, {"required": r.random() < 0.7}]
        e = ["prop", name, mark, rhs]
        if mark:
            self.feat("prop-mark")
        if r.random() < 0.15 and not prim_only and self.rich_ann:
            a = {}
            if r.random() < 0.6:
                a["description"] = self.fresh("D")
            if r.random() < 0.4:
                a["required"] = r.random() < 0.5
            if a:
                return ["ann", e, a]
        return e

    def obj_literal(self, env, depth, n=None):
        k = self.rng.randint(1, 3) if n is None else n
        return ["obj", [self.prop(env, depth) for _ in range(k)]]

    def uri(self, env, params=False, base=None):
        r = self.rng
        self.paths += 1
        segs = [("lit", base or "u%d" % self.paths)]
        for _ in range(r.randint(0, 2)):
            if r.random() < 0.4:
                self.feat("uri-var")
                pn = [n for n, t in env.items() if t == "prop:prim"]
                if pn and r.random() < 0.3 and False:
                    segs.append(("var", self.varref(r.choice(pn))))
                else:
                    segs.append(("var", ["prop", self.fresh("v"), r.choice(["", "", "?", "!"]), ["prim", r.choice(PRIMS)]]))
            else:
                segs.append(("lit", r.choice(["a", "b", "items", "x-y", "v1"])))
        p = None
        if params:
            self.feat("uri-params")
            p = ["obj", [self.prop(env, 0, prim_only=True) for _ in range(r.randint(1, 2))]]
        return ["uri", segs, p]

    def content(self, env, depth, allow_status=True, status=None):
        r = self.rng
        metas = []
        if allow_status and (status is not None or r.random() < 0.6):
            self.feat("status")
            st = status if status is not None else r.choice(["200", "201", "404", "4XX", "5XX", "500"])
            metas.append(("status", ["lit", st]))
        if r.random() < 0.35:
            self.feat("media")
            metas.append(("media", ["lit", '"%s"' % r.choice(["application/json", "text/plain", "application/vnd.x+json"])]))
        if r.random() < 0.3:
            self.feat("headers")
            metas.append(("headers", ["obj", [self.prop(env, 0, prim_only=True) for _ in range(r.randint(1, 2))]]))
        body = None
        if r.random() < 0.8:
            body = self.schema(env, None, depth)
        r.shuffle(metas)
        e = ["content", metas, body]
        if r.random() < 0.25 and self.rich_ann:
            a = {"description": self.fresh("D")}
            if r.random() < 0.4:
                a["examples"] = {"default": "ex/%s.json" % self.fresh("e")}
            return ["ann", e, a]
        return e

    def ranges(self, env, depth):
        r = self.rng
        cf = [n for n, t in env.items() if isinstance(t, tuple) and t[0] == "cfn"]
        if cf and r.random() < 0.5:
            self.feat("content-function")
            f = r.choice(cf)
            st = ["lit", r.choice(["200", "201", "404"])]
            body = self.schema(env, env[f][2], depth)
            args = [st, body] if env[f][1] == "sb" else [body, st]
            return ["app", self.varref(f), args]
        n = r.choice([1, 1, 2, 3])
        if n == 1:
            if r.random() < 0.3:
                return self.schema(env, None, depth)       # a bare schema as range
            return self.content(env, depth)
        self.feat("ranges")
        if r.random() < 0.25:
            # several contents for one status, told apart by their media types
            self.feat("same-status-media")
            st = r.choice(["200", "404", "4XX"])
            medias = r.sample(["application/json", "text/plain", "application/vnd.x+json", "application/xml"], n)
            out = []
            for md in medias:
                metas = [("status", ["lit", st]), ("media", ["lit", '"%s"' % md])]
                if r.random() < 0.4:
                    metas.append(("headers", ["obj", [self.prop(env, 0, prim_only=True)]]))
                c = ["content", metas, self.schema(env, None, depth)]
                if r.random() < 0.4 and self.rich_ann:
                    c = ["ann", c, {"description": self.fresh("D")}]
                out.append(c)
            return ["op", "::", out]
        sts = r.sample(["200", "201", "404", "4XX", "5XX", "500", "204"], n)
        return ["op", "::", [self.content(env, depth, status=s) for s in sts]]

    def xfer(self, env, depth, methods=None):
        r = self.rng
        ms = methods or r.sample(METHODS, r.choice([1, 1, 2]))
        params = None
        if r.random() < 0.3:
            self.feat("xfer-params")
            params = ["obj", [self.prop(env, 0, prim_only=True) for _ in range(r.randint(1, 2))]]
        domain = None
        if r.random() < 0.4:
            self.feat("domain")
            domain = self.content(env, depth, allow_status=False)
            if r.random() < 0.3:
                domain = self.schema(env, "obj", depth)
        return ["xfer", ms, params, domain, self.ranges(env, depth)]

    def relation(self, env, depth):
        r = self.rng
        u = self.uri(env, params=r.random() < 0.25)
        pool = list(METHODS)
        r.shuffle(pool)
        xs = []
        for _ in range(r.choice([1, 1, 2, 3])):
            k = r.choice([1, 1, 2])
            ms, pool = pool[:k], pool[k:]
            if not ms:
                break
            xs.append(self.xfer(env, depth, methods=ms))
        return ["rel", u, xs]

    # -- declarations
    def decl_anns(self, kind):
        r = self.rng
        if not self.rich_ann or r.random() > 0.3:
            return []
        a = {}
        if kind in ("schema", "content"):
            a["description"] = self.fresh("D")
            if r.random() < 0.3:
                a["title"] = self.fresh("T")
        elif kind == "xfer":
            a["summary"] = self.fresh("S")
            if r.random() < 0.5:
                a["tags"] = r.sample(["t1", "t2", "t3"], r.randint(1, 2))
            if r.random() < 0.3:
                a["operationId"] = self.fresh("op")
        self.feat("line-ann")
        return [a] if a else []

    def module(self, env, ndecl, nres, allow_fn=True, depth=2):
        r = self.rng
        decls = []
        for _ in range(ndecl):
            x = r.random()
            if x < 0.08:
                name = self.fresh("d")
                decls.append({"name": name, "params": [], "rhs": ["ann", ["prim", "str"], {"enum": r.sample(["a", "b", "c", "dd"], 2)}], "anns": []})
                env[name] = "prim"
                self.strdecls.add(name)
            elif x < 0.25:
                tag = r.choice(["prim", "obj", "obj", "arr", "any"])
                name = self.fresh("d")
                decls.append({"name": name, "params": [], "rhs": self.schema(env, tag, depth), "anns": self.decl_anns("schema")})
                env[name] = tag
            elif x < 0.4:
                name = "@" + self.fresh("R")
                tag = r.choice(["obj", "obj", "prim", "arr"])
                self.feat("reference")
                decls.append({"name": name, "params": [], "rhs": self.schema(env, tag, depth), "anns": self.decl_anns("schema")})
                env[name] = tag
            elif x < 0.55 and allow_fn:
                name = self.fresh("f")
                np_ = r.choice([1, 1, 2])
                params = [self.fresh("x") for _ in range(np_)]
                ptags = [r.choice(["prim", "obj", "arr"]) for _ in params]
                env2 = dict(env)
                for p, t in zip(params, ptags):
                    env2[p] = t
                rt = r.choice(["obj", "arr", "obj"])
                if rt == "obj" and r.random() < 0.35:
                    self.feat("rec-in-function")
                    b = self.fresh("r")
                    props = [["prop", self.fresh("k"), "", ["var", p]] for p in params]
                    props.append(["prop", self.fresh("k"), "", ["arr", ["var", b]]])
                    body = ["rec", b, ["obj", props]]
                elif rt == "arr":
                    body = ["arr", ["var", params[0]]] if np_ == 1 else ["arr", ["op", "~", [["var", p] for p in params]]]
                else:
                    props = []
                    for p in params:
                        use = ["var", p]
                        if r.random() < 0.6 and self.rich_ann:
                            self.feat("ann-on-parameter-use")
                            use = ["ann", use, {"title": self.fresh("T")} if r.random() < 0.6 else {"description": self.fresh("D")}]
                        props.append(["prop", self.fresh("k"), r.choice(["", "!"]), use])
                    props.append(self.prop(env2, 0))
                    body = ["obj", props]
                    objp = [p for p, t in zip(params, ptags) if t == "obj"]
                    if objp and r.random() < 0.4:
                        body = ["op", "&", [body, ["var", objp[0]]]]
                self.feat("function")
                decls.append({"name": name, "params": params, "rhs": body, "anns": []})
                env[name] = ("fn", ptags, rt)
            elif x < 0.62 and allow_fn:
                # a content-building function and a forwarder whose parameter names are permuted
                w = self.fresh("w")
                self.feat("forwarding-function")
                decls.append({"name": w, "params": ["s", "b"], "rhs": ["content", [("status", ["var", "s"])], ["var", "b"]], "anns": []})
                bt = r.choice(["obj", "prim", "arr"])
                env[w] = ("cfn", "sb", bt)
                g = self.fresh("g")
                if r.random() < 0.5:
                    decls.append({"name": g, "params": ["b", "s"], "rhs": ["app", ["var", w], [["var", "b"], ["var", "s"]]], "anns": []})
                    env[g] = ("cfn", "sb", bt)  # g's first parameter (named b) is the status
                else:
                    decls.append({"name": g, "params": ["b", "s"], "rhs": ["app", ["var", w], [["var", "s"], ["var", "b"]]], "anns": []})
                    env[g] = ("cfn", "bs", bt)
            elif x < 0.65:
                # recursive declaration through itself
                name = self.fresh("d")
                self.feat("recursive-decl")
                env2 = dict(env)
                props = [self.prop(env, 0), ["prop", self.fresh("k"), "", ["arr", ["var", name]]]]
                decls.append({"name": name, "params": [], "rhs": ["obj", props], "anns": []})
                env[name] = "obj"
            elif x < 0.75:
                name = self.fresh("c")
                decls.append({"name": name, "params": [], "rhs": self.content(env, depth - 1), "anns": self.decl_anns("content")})
                env[name] = "content"
            elif x < 0.85:
                name = self.fresh("o")
                decls.append({"name": name, "params": [], "rhs": self.xfer(env, depth - 1), "anns": self.decl_anns("xfer")})
                env[name] = ("xferdecl", decls[-1]["rhs"][1])
            else:
                name = self.fresh("h")
                decls.append({"name": name, "params": [], "rhs": ["lit", '"application/x-%s"' % name], "anns": []})
                env[name] = "text"
        res = []
        for _ in range(nres):
            x = r.random()
            xd = [(n, t[1]) for n, t in env.items() if isinstance(t, tuple) and t[0] == "xferdecl"]
            if xd and x < 0.3:
                n, ms = r.choice(xd)
                self.feat("named-xfer")
                use = self.varref(n)
                if r.random() < 0.5 and self.rich_ann:
                    self.feat("ann-on-use")
                    use = ["ann", use, {"tags": r.sample(["t1", "t2", "t3", "t4"], 2)}]
                res.append(["rel", self.uri(env), [use]])
            else:
                res.append(self.relation(env, depth - 1))
        return decls, res

    def program(self, multi=None):
        """returns (mods {loc: text}, main loc, features, ast)"""
        r = self.rng
        multi = r.random() < 0.3 if multi is None else multi
        mods = {}
        ast = {}
        env = {}
        uses = []
        if multi:
            self.feat("imports")
            nlib = r.choice([1, 1, 2])
            for i in range(nlib):
                lenv = {}
                ldecls, _ = self.module(lenv, r.randint(1, 4), 0, depth=1)
                q = self.fresh("m") if r.random() < 0.6 else None
                path = "lib%d.oal" % i
                m = {"uses": [], "decls": ldecls, "res": []}
                ast["file:///w/" + path] = m
                uses.append((path, q))
                for n, t in lenv.items():
                    if n.startswith("@"):
                        env[(q, n) if q else n] = t if False else t
                    else:
                        env[(q, n) if q else n] = t
        decls, res = self.module(env, r.randint(0, 6), r.randint(1, 3))
        main = {"uses": uses, "decls": decls, "res": res}
        ast["file:///w/main.oal"] = main
        for loc, m in ast.items():
            mods[loc] = render_module(m)
        return mods, "file:///w/main.oal", set(self.features), ast
