(** Property C05 — abstraction is free: naming, inlining, wrapping, reordering keep the
    output.

    Proved here, on the evaluator model (tied to eval.rs on every run): consistently renaming
    the bound identifiers of a whole program (parameters and rec binders, any injective
    renaming) changes nothing in the evaluation: same relations, same reference table, same
    error or panic ([C05_alpha_evaluation]). Parentheses are free in evaluation: removing every
    parenthesis node from a whole program leaves every result unchanged ([C05_paren_strip]);
    two programs that differ only in where parentheses stand end alike whenever both end
    ([C05_parentheses_are_free]); and adding parentheses never makes an evaluation that ends
    run out: fuel [n * (d + 1) + d] suffices, [d] the deepest nest of parentheses
    ([C05_parenthesised_program_evaluates]). Inlining and naming are free in evaluation: replacing
    every use of a plain declaration (no parameters, no annotations of its own, not an
    @reference, not flagged recursive, not mentioning itself) by its right-hand side leaves every
    result unchanged ([C05_inline_keeps_result]); read backwards, naming a sub-expression with
    such a let keeps the result and needs at most twice the fuel plus one
    ([C05_naming_keeps_result]); both programs end alike whenever both end
    ([C05_inlining_is_free]). The copies made by the inlining function keep the identifiers of
    the recursion nodes of the declaration; the real front end numbers the copies afresh,
    which changes only generated names of implicit components (monitor O05 compares up to
    those). Declaration order is free in evaluation: a program whose declarations stand at other
    positions, with every use re-indexed, evaluates to the same result up to the positions
    recorded in the keys of implicit components and in function values
    ([C05_declaration_order_is_free]); the same holds when declarations move to other modules
    (a dependency-closed group moved into an imported module: the resolved trees differ only in
    the positions of declarations and rec expressions, [C05_moving_declarations_is_free]).
    Both semantics (the code's and the lexical one). Comments and blanks between tokens are free
    in parsing: the parser's answer on a token list is its answer on the list without trivia
    tokens, cursors and leaves counted among the non-trivia tokens
    ([C05_parse_ignores_trivia], for the plain parser of the oal grammar, any fuel), so token
    lists that differ only by trivia parse alike ([C05_parse_same_up_to_trivia]).
    Proved here (partial), for every syntax tree and environment: parenthesising a
    sub-expression and renaming identifiers by any injective renaming leave the binding
    relation computed by name resolution unchanged (hence acceptance by the resolver and the
    binder of every use). The remaining clauses (let-naming, inlining, eta-wrapping,
    permutation of declarations, trivia, moving declarations to a module: same acceptance
    by inference and same document) need the evaluator model and are carried by the
    rewrite engine of the check (monitor O05) on generated programs; two annotation-related
    exceptions are recorded as known findings (K13, K15). *)
From Oal Require Import Resolve ResolveProofs RewriteProofs.
From Oal Require Eval EvalProofs FuelProofs ParenProofs InlineProofs KeyMap.
From Oal Require Peg Grammar TriviaProofs.

Theorem C05_paren_resolution_partial : forall en t, lex en (RNode [t]) = lex en t.
Proof. exact paren_resolution. Qed.
Print Assumptions C05_paren_resolution_partial.

Theorem C05_alpha_resolution_partial : forall f, (forall a b, f a = f b -> a = b) ->
  forall t en, lex (ren_env f en) (ren f t) = lex en t.
Proof. exact alpha_resolution. Qed.
Print Assumptions C05_alpha_resolution_partial.

Theorem C05_alpha_walk_partial : forall f, (forall a b, f a = f b -> a = b) -> forall t en,
  run (linearize (ren f t)) (ren_env f en) [] =
  match lex en t with inl ds => inl (ren_env f en, ds) | inr e => inr e end.
Proof. exact alpha_walk. Qed.
Print Assumptions C05_alpha_walk_partial.

(** renaming binders: the evaluation of the renamed program is the evaluation of the program *)
Theorem C05_alpha_evaluation : forall rho : N -> N, (forall x y, rho x = rho y -> x = y) ->
  forall P n rs,
  Eval.eval_program false (EvalProofs.ren_prog rho P) n (map (EvalProofs.ren rho) rs) = Eval.eval_program false P n rs.
Proof. exact EvalProofs.eval_program_rename. Qed.
Print Assumptions C05_alpha_evaluation.

Theorem C05_alpha_evaluation_state : forall rho : N -> N, (forall x y, rho x = rho y -> x = y) ->
  forall P n s e a,
  Eval.eval false (EvalProofs.ren_prog rho P) n (EvalProofs.rst rho s) (EvalProofs.ren rho e) a =
  EvalProofs.rres rho (Eval.eval false P n s e a).
Proof. exact EvalProofs.eval_rename. Qed.
Print Assumptions C05_alpha_evaluation_state.

Example C05_renaming_changes_the_tree :
  let rho := fun x : N => if N.eqb x 7%N then 8%N else if N.eqb x 8%N then 7%N else x in
  EvalProofs.ren_prog rho EvalProofs.ex_P <> EvalProofs.ex_P /\
  Eval.eval_program false (EvalProofs.ren_prog rho EvalProofs.ex_P) 50 (map (EvalProofs.ren rho) EvalProofs.ex_rs) =
  Eval.eval_program false EvalProofs.ex_P 50 EvalProofs.ex_rs.
Proof. exact EvalProofs.ex_rename_changes_tree. Qed.

Example C05_injective_renaming_exists : forall a b : N, N.succ a = N.succ b -> a = b.
Proof. exact N.succ_inj. Qed.

(** parentheses: stripping them all changes no result *)
Theorem C05_paren_strip : forall lx P n rs,
  FuelProofs.lef (Eval.eval_program lx P n rs)
                 (Eval.eval_program lx (ParenProofs.strip_prog P) n (map ParenProofs.strip rs)).
Proof. exact ParenProofs.eval_program_strip. Qed.
Print Assumptions C05_paren_strip.

Theorem C05_parentheses_are_free : forall lx P1 P2 rs1 rs2 n1 n2,
  ParenProofs.strip_prog P1 = ParenProofs.strip_prog P2 -> map ParenProofs.strip rs1 = map ParenProofs.strip rs2 ->
  Eval.eval_program lx P1 n1 rs1 <> Eval.Fuel -> Eval.eval_program lx P2 n2 rs2 <> Eval.Fuel ->
  Eval.eval_program lx P1 n1 rs1 = Eval.eval_program lx P2 n2 rs2.
Proof. exact ParenProofs.parentheses_are_free. Qed.
Print Assumptions C05_parentheses_are_free.

Theorem C05_parenthesised_program_evaluates : forall lx P1 P2 rs1 rs2 n r d,
  ParenProofs.strip_prog P1 = ParenProofs.strip_prog P2 -> map ParenProofs.strip rs1 = map ParenProofs.strip rs2 ->
  (ParenProofs.pd_prog P2 <= d)%nat -> (forall x, In x rs2 -> (ParenProofs.pd x <= d)%nat) ->
  Eval.eval_program lx P1 n rs1 = r -> r <> Eval.Fuel ->
  Eval.eval_program lx P2 (n * S d + d) rs2 = r.
Proof. exact ParenProofs.parenthesised_program_evaluates. Qed.
Print Assumptions C05_parenthesised_program_evaluates.

Example C05_parentheses_nonvacuous :
  ParenProofs.strip_prog ParenProofs.ex_paren_P <> ParenProofs.ex_paren_P /\ ParenProofs.pd_prog ParenProofs.ex_paren_P = 2%nat /\
  exists r, Eval.eval_program false ParenProofs.ex_paren_P 50 ParenProofs.ex_paren_rs = Eval.Ok r /\
            Eval.eval_program false (ParenProofs.strip_prog ParenProofs.ex_paren_P) 50 (map ParenProofs.strip ParenProofs.ex_paren_rs) = Eval.Ok r.
Proof. exact ParenProofs.ex_parentheses. Qed.

(** inlining a plain declaration at all its uses; naming with let is the same read backwards *)
Theorem C05_inline_keeps_result : forall lx P m0 k0 d0,
  Eval.get_decl P m0 k0 = Some d0 -> InlineProofs.plain d0 -> InlineProofs.occ m0 k0 (Eval.d_rhs d0) = false ->
  forall n rs r, Eval.eval_program lx P n rs = r -> r <> Eval.Fuel ->
  Eval.eval_program lx (InlineProofs.inline_prog P m0 k0 d0) n (map (InlineProofs.inline_expr m0 k0 d0) rs) = r.
Proof. exact InlineProofs.inline_keeps_result. Qed.
Print Assumptions C05_inline_keeps_result.

Theorem C05_naming_keeps_result : forall lx P m0 k0 d0,
  Eval.get_decl P m0 k0 = Some d0 -> InlineProofs.plain d0 -> InlineProofs.occ m0 k0 (Eval.d_rhs d0) = false ->
  forall n rs r, Eval.eval_program lx (InlineProofs.inline_prog P m0 k0 d0) n (map (InlineProofs.inline_expr m0 k0 d0) rs) = r ->
  r <> Eval.Fuel -> Eval.eval_program lx P (n * 2 + 1) rs = r.
Proof. exact InlineProofs.naming_keeps_result. Qed.
Print Assumptions C05_naming_keeps_result.

Theorem C05_inlining_is_free : forall lx P m0 k0 d0,
  Eval.get_decl P m0 k0 = Some d0 -> InlineProofs.plain d0 -> InlineProofs.occ m0 k0 (Eval.d_rhs d0) = false ->
  forall n1 n2 rs,
  Eval.eval_program lx P n1 rs <> Eval.Fuel ->
  Eval.eval_program lx (InlineProofs.inline_prog P m0 k0 d0) n2 (map (InlineProofs.inline_expr m0 k0 d0) rs) <> Eval.Fuel ->
  Eval.eval_program lx P n1 rs = Eval.eval_program lx (InlineProofs.inline_prog P m0 k0 d0) n2 (map (InlineProofs.inline_expr m0 k0 d0) rs).
Proof. exact InlineProofs.inlining_is_free. Qed.
Print Assumptions C05_inlining_is_free.

Example C05_inlining_nonvacuous :
  let d := Eval.mk_decl None false [] [] (Eval.EObj [Eval.EProp 20%N None (Eval.ETerm [] (Eval.EPrim 2%N))]) in
  InlineProofs.plain d /\ InlineProofs.inline_prog InlineProofs.ex_inl_P 0%N 0%N d <> InlineProofs.ex_inl_P /\
  exists r, Eval.eval_program false InlineProofs.ex_inl_P 50 InlineProofs.ex_inl_rs = Eval.Ok r /\
            Eval.eval_program false (InlineProofs.inline_prog InlineProofs.ex_inl_P 0%N 0%N d) 50
                              (map (InlineProofs.inline_expr 0%N 0%N d) InlineProofs.ex_inl_rs) = Eval.Ok r.
Proof. exact InlineProofs.ex_inlining. Qed.

(** moving declarations: inside their module (order) or to another module *)
Theorem C05_declaration_order_is_free : forall fd : N -> N -> N, (forall m i j, fd m i = fd m j -> i = j) ->
  forall lx P P' n rs, KeyMap.permuted fd P P' ->
  Eval.eval_program lx P' n (map (KeyMap.km_expr (KeyMap.within fd) KeyMap.idp) rs) =
  KeyMap.rmap (KeyMap.km_result KeyMap.ids (KeyMap.within fd) KeyMap.idp) (Eval.eval_program lx P n rs).
Proof. exact KeyMap.declaration_order_is_free. Qed.
Print Assumptions C05_declaration_order_is_free.

Theorem C05_moving_declarations_is_free : forall fdm frm : N -> N -> N * N,
  (forall m i m' i', fdm m i = fdm m' i' -> m = m' /\ i = i') -> (forall m i m' i', frm m i = frm m' i' -> m = m' /\ i = i') ->
  forall lx P P' n rs, KeyMap.moved fdm frm P P' ->
  Eval.eval_program lx P' n (map (KeyMap.km_expr fdm frm) rs) =
  KeyMap.rmap (KeyMap.km_result KeyMap.ids fdm frm) (Eval.eval_program lx P n rs).
Proof. exact KeyMap.moving_declarations_is_free. Qed.
Print Assumptions C05_moving_declarations_is_free.

Example C05_declaration_order_nonvacuous :
  KeyMap.permuted KeyMap.swap01 KeyMap.ex_perm_P KeyMap.ex_perm_P' /\ KeyMap.ex_perm_P' <> KeyMap.ex_perm_P /\
  exists r, Eval.eval_program false KeyMap.ex_perm_P 50 KeyMap.ex_perm_rs = Eval.Ok r /\
            Eval.eval_program false KeyMap.ex_perm_P' 50 (map (KeyMap.km_expr (KeyMap.within KeyMap.swap01) KeyMap.idp) KeyMap.ex_perm_rs) =
            Eval.Ok (KeyMap.km_result KeyMap.ids (KeyMap.within KeyMap.swap01) KeyMap.idp r).
Proof. split; [exact KeyMap.ex_permuted|exact KeyMap.ex_permute_declarations]. Qed.

(** comments and blanks between tokens *)
Theorem C05_parse_ignores_trivia : forall n toks,
  Grammar.parse_pure n (TriviaProofs.strip_trivia toks) = TriviaProofs.rmap Grammar.is_trivia toks (Grammar.parse_pure n toks).
Proof. exact TriviaProofs.oal_parse_ignores_trivia. Qed.
Print Assumptions C05_parse_ignores_trivia.

Theorem C05_parse_same_up_to_trivia : forall n toks1 toks2,
  TriviaProofs.strip_trivia toks1 = TriviaProofs.strip_trivia toks2 ->
  TriviaProofs.rmap Grammar.is_trivia toks1 (Grammar.parse_pure n toks1) = TriviaProofs.rmap Grammar.is_trivia toks2 (Grammar.parse_pure n toks2).
Proof. exact TriviaProofs.oal_parse_same_up_to_trivia. Qed.
Print Assumptions C05_parse_same_up_to_trivia.

Example C05_trivia_nonvacuous :
  let t1 := [20; 0; 26; 0; 48; 0; 5; 40; 1]%N in
  let t2 := [20; 26; 48; 5; 40]%N in
  TriviaProofs.strip_trivia t1 = t2 /\ t1 <> t2 /\
  exists s ms, Grammar.parse_pure 200 t2 = Peg.Ok s ms /\ TriviaProofs.rmap Grammar.is_trivia t1 (Grammar.parse_pure 200 t1) = Peg.Ok s ms /\ s = 5%nat.
Proof. exact TriviaProofs.ex_trivia. Qed.

Theorem C05_memo_parse_ignores_trivia : forall n1 n2 toks r1 st1 r2 st2,
  Grammar.parse_memo n1 toks = (r1, st1) -> Grammar.parse_memo n2 (TriviaProofs.strip_trivia toks) = (r2, st2) ->
  r1 <> Peg.Fuel -> r2 <> Peg.Fuel -> r2 = TriviaProofs.rmap Grammar.is_trivia toks r1.
Proof. exact TriviaProofs.oal_parse_memo_ignores_trivia. Qed.
Print Assumptions C05_memo_parse_ignores_trivia.

Example C05_moving_nonvacuous :
  KeyMap.moved KeyMap.rot KeyMap.idp KeyMap.ex_perm_P KeyMap.ex_move_P' /\
  exists r, Eval.eval_program false KeyMap.ex_perm_P 50 KeyMap.ex_perm_rs = Eval.Ok r /\
            Eval.eval_program false KeyMap.ex_move_P' 50 (map (KeyMap.km_expr KeyMap.rot KeyMap.idp) KeyMap.ex_perm_rs) =
            Eval.Ok (KeyMap.km_result KeyMap.ids KeyMap.rot KeyMap.idp r).
Proof. split; [exact KeyMap.ex_moved|exact KeyMap.ex_move_declarations]. Qed.
