"""C09 — recursion is cut into named components, finitely and without aliasing.
Monitors O09: (a) the recursion check's verdict on random cyclic declaration graphs equals
"every cycle goes through a schema declaration"; (b) corpus of recursion shapes with expected
component structure; (c) relocation: moving the modules of a program to same-named files in
different directories leaves the document unchanged up to implicit names (no aliasing of
recursive schemas across modules); every outcome within the time bound."""
import json
from . import core, progs, cyc, docval, canon


def relocate(p):
    """same program with every library in its own directory under one file name"""
    mods = {}
    main = p["main"]
    libs = [l for l in p["mods"] if l != main]
    ren = {}
    for i, l in enumerate(sorted(libs)):
        ren[l.rsplit("/", 1)[1]] = "d%d/types.oal" % i
        mods["file:///w/d%d/types.oal" % i] = p["mods"][l]
    src = p["mods"][main]
    for old, new in ren.items():
        src = src.replace('use "%s"' % old, 'use "%s"' % new)
    mods[main] = src
    return {"mods": mods, "main": main, "features": p["features"], "ast": None}


TEMPLATES = [
    # (sources, main, check(doc) -> problem or None)
    ({"file:///w/main.oal": "let tree t = rec x { 'v t, 'kids [x] };\nres /ints on get -> <tree int>;\nres /strs on get -> <tree str>;\n"},
     lambda d: None if len(hashes(d)) == 2 and component_types(d) == ["integer", "string"] else "two instantiations of a recursive schema must give two components: %s" % component_types(d)),
    ({"file:///w/main.oal": "let d = rec r { 'n [r] };\nres /a on get -> <d>;\nres /b on get -> <d>;\n"},
     lambda d: None if len(hashes(d)) == 1 else "one instantiation must be emitted once: %d components" % len(hashes(d))),
    ({"file:///w/main.oal": 'use "users/types.oal" as u;\nuse "orders/types.oal" as o;\nres /users on get -> <u.t>;\nres /orders on get -> <o.t>;\n',
      "file:///w/users/types.oal": "let t = { 'name str, 'kids [t] };\n",
      "file:///w/orders/types.oal": "let t = { 'sku str, 'parts [t] };\n"},
     lambda d: None if len(hashes(d)) == 2 and sorted(sum([list((c.get("properties") or {})) for c in comps(d).values()], [])) == ["kids", "name", "parts", "sku"]
     else "recursive schemas of two modules with the same file name must not share a component: %s" % list(comps(d).values())),
    ({"file:///w/main.oal": "let a = { 'n b };\nlet b = { 'm [a] };\nres /m on get -> <a>;\n"},
     lambda d: None if len(hashes(d)) >= 1 and not docval.dangling_refs(d) else "mutual recursion must be cut at a component"),
]


def comps(d):
    return ((d.get("components") or {}).get("schemas") or {})


def hashes(d):
    return [k for k in comps(d) if canon.HASH.fullmatch(k)]


def component_types(d):
    out = []
    for k in hashes(d):
        c = comps(d)[k]
        v = ((c.get("properties") or {}).get("v") or {})
        out.append(v.get("type"))
    return sorted(x for x in out if x)


JT = [("num", "number"), ("str", "string"), ("bool", "boolean"), ("int", "integer")]


def inst_program(rng):
    """a recursive schema instantiated several times, directly and from inside other functions (1 and 2 levels), with
    different arguments; returns the program and, for each response status, the expected head type at every leaf path"""
    a, b, c = rng.sample(JT, 3)
    d = rng.choice(JT)
    src = ("let list x = rec l { 'head x, 'tail [l] };\n"
           "let pair x y = { 'left (list x), 'right (list y) };\n"
           "let deep x y z = { 'p (pair x y), 'q (pair y z), 'r (list z), 's (pair z z) };\n"
           "res /inst on get -> <status=200, (deep %s %s %s)> :: <status=404, (pair %s %s)> :: <status=500, (list %s)> :: <status=501, (deep %s %s %s)>;\n"
           % (a[0], b[0], c[0], c[0], a[0], b[0], d[0], a[0], d[0]))
    deep = lambda x, y, z: {("p", "left"): x, ("p", "right"): y, ("q", "left"): y, ("q", "right"): z, ("r",): z, ("s", "left"): z, ("s", "right"): z}
    exp = {"200": deep(a[1], b[1], c[1]), "404": {("left",): c[1], ("right",): a[1]}, "500": {(): b[1]}, "501": deep(d[1], a[1], d[1])}
    return src, exp


def inst_check(doc, exp):
    comps = (doc.get("components") or {}).get("schemas") or {}

    def deref(s):
        n = 0
        while isinstance(s, dict) and "$ref" in s and n < 10:
            s = comps.get(s["$ref"].rsplit("/", 1)[1])
            n += 1
        return s
    try:
        rs = doc["paths"]["/inst"]["get"]["responses"]
        for status, leaves in exp.items():
            media = list(rs[status]["content"].values())[0]
            root = media["schema"]
            for path, jt in leaves.items():
                node = root
                for f in path:
                    node = deref(node)["properties"][f]
                if "$ref" not in node:
                    return "an instantiation of a recursive schema is not a $ref to a component (response %s, %s)" % (status, "/".join(path))
                comp = deref(node)
                got = deref(comp["properties"]["head"]).get("type")
                if got != jt:
                    return ("two instantiations of a recursive schema share a component: response %s, %s holds head type %s, the program says %s"
                            % (status, "/".join(path) or "(root)", got, jt))
                tail = comp["properties"]["tail"]["items"]
                if tail.get("$ref") != node["$ref"]:
                    return "the recursion point of an instantiation does not refer to its own component (response %s, %s)" % (status, "/".join(path))
    except Exception as ex:    # the document does not have the expected shape
        return "the document of an instantiation program does not have the declared shape: %r" % (ex,)
    return None


def check(ctx):
    ctx.proof = core.proof_stage("C09", thorough=ctx.thorough)
    ok, out = core.ensure_harness()
    if not ok:
        ctx.broken.append("harness build against /repo failed: " + out[-600:])
        return core.finish(ctx)
    if ctx.replay:
        v = json.load(open(ctx.replay))
        ps = [dict(v["input"]["program"], features=[], ast=None)]
        res = progs.compile_many(ps)
        core.log(str({k: x for k, x in res[0].items() if k not in ("doc", "yaml")}))
        if res[0].get("status") in ("crash", "panic"):
            ctx.violation("the compiler does not finish normally on this recursive program", v["input"], "a result", res[0].get("msg"))
        ctx.cov["evaluations"] = 1
        return core.finish(ctx)
    # (a) verdicts on cyclic graphs
    n = 18000 if ctx.thorough else 1200
    cy = [cyc.gen_cyclic(ctx.rng) for _ in range(n)]
    for s in cyc.CORPUS:
        cy.append(({"mods": {"file:///w/main.oal": s}, "main": "file:///w/main.oal", "features": ["corpus"], "ast": None}, None))
    res = progs.compile_many([c[0] for c in cy])
    ok, out = core.ensure_runner()
    model = None
    if ok:
        model = core.run_stateless(core.RUNNER, "cycles", [c[1]["model_line"] if c[1] else "?" for c in cy])
    else:
        ctx.broken.append("runner build failed: " + out[-300:])
    seen = set()
    for idx, ((p, info), r) in enumerate(zip(cy, res)):
        ctx.cov["evaluations"] += 1
        if model is not None and info is not None and r.get("status") in ("ok", "error"):
            rec_err = r.get("status") == "error" and "ill-formed recursion" in (r.get("msg") or "")
            other = r.get("status") == "error" and not rec_err
            if not other:
                if (model[idx] == "err") != rec_err:
                    if len(ctx.broken) < 20:
                        ctx.broken.append("recursion-check disagreement: %s impl=%s model=%s" % (p["mods"][p["main"]], r.get("msg") or "accepted", model[idx]))
                else:
                    ctx.cov["traces_validated_against_impl"] += 1
        inp = {"program": progs.source_of(p)}
        st = r.get("status")
        if st == "skipped":
            continue
        if st in ("crash",) or (st == "panic"):
            from . import known
            if st == "panic" and known.classify_panic(r.get("msg"), p["mods"]):
                ctx.count("known_class")
                continue
            ctx.violation("a program with cyclic definitions does not compile in finite time to a document or an error (stack overflow / hang / panic)",
                          inp, "a document or an error", r.get("msg"))
            continue
        if info is not None:
            recursion_error = st == "error" and "ill-formed recursion" in (r.get("msg") or "")
            other_error = st == "error" and not recursion_error
            if info["expect_cycle_error"] and st == "ok":
                ctx.violation("a cycle that contains no schema to cut at (functions, contents, plain aliases) is accepted", inp, "ill-formed recursion", "accepted")
            if not info["expect_cycle_error"] and recursion_error:
                ctx.violation("a program all of whose cycles go through a schema declaration is rejected as ill-formed recursion", inp, "accepted", r.get("msg"))
            ctx.count("cyclic_" + ("rejected_recursion" if recursion_error else "rejected_other" if other_error else "accepted"))
        if st == "ok":
            d = docval.dangling_refs(r["doc"])
            if d:
                ctx.violation("a recursion point is not a $ref to a component of the document", inp, "closed", d[:3])
            key = p["mods"][p["main"]]
            if key not in seen:
                seen.add(key)
                if hashes(r["doc"]):
                    ctx.count("nontrivial")
            if len(ctx.cov["samples"]) < 3 and hashes(r["doc"]):
                ctx.sample({"program": key[:300], "components": len(hashes(r["doc"]))})
    # (b) templates
    tres = progs.compile_many([{"mods": m, "main": "file:///w/main.oal"} for m, _ in TEMPLATES])
    for (m, chk), r in zip(TEMPLATES, tres):
        ctx.cov["evaluations"] += 1
        if r.get("status") != "ok":
            ctx.violation("a recursive program that must compile is not compiled", {"program": {"mods": m, "main": "file:///w/main.oal"}}, "ok", r.get("msg"))
            continue
        prob = chk(r["doc"])
        if prob:
            ctx.violation(prob, {"program": {"mods": m, "main": "file:///w/main.oal"}}, "see message", "see message")
    # (b') instantiations of one recursive schema, nested in function bodies
    ips = [inst_program(ctx.rng) for _ in range(180 if ctx.thorough else 12)]
    ires = progs.compile_many([{"mods": {"file:///w/main.oal": src}, "main": "file:///w/main.oal"} for src, _ in ips])
    for (src, exp), r in zip(ips, ires):
        ctx.cov["evaluations"] += 1
        inp = {"program": {"mods": {"file:///w/main.oal": src}, "main": "file:///w/main.oal"}}
        if r.get("status") != "ok":
            ctx.violation("a recursive program that must compile is not compiled", inp, "ok", r.get("msg"))
            continue
        prob = inst_check(r["doc"], exp)
        if prob:
            ctx.violation(prob, inp, "one component per instantiation", "see message")
        else:
            ctx.count("instantiations_distinct")
    # the evaluator tie on the recursive programs (Model/Eval.v keys implicit components by (node, innermost scope))
    from . import evaltie
    evaltie.run(ctx, [{"mods": {"file:///w/main.oal": src}, "main": "file:///w/main.oal"} for src, _ in ips]
                + [{"mods": m, "main": "file:///w/main.oal"} for m, _ in TEMPLATES] + [c[0] for c in cy[: (1800 if ctx.thorough else 150)]])
    # (c) relocation
    gp = [p for p in progs.gen_programs(ctx, 4500 if ctx.thorough else 400, multi=True)]
    r1 = progs.compile_many(gp)
    r2 = progs.compile_many([relocate(p) for p in gp])
    for p, a, b in zip(gp, r1, r2):
        ctx.cov["evaluations"] += 1
        if a.get("status") != b.get("status"):
            ctx.violation("moving modules to same-named files in different directories changes the outcome", {"program": progs.source_of(relocate(p))}, a.get("status"), b.get("status"))
        elif a.get("status") == "ok" and canon.canon_doc(a["doc"]) != canon.canon_doc(b["doc"]):
            ctx.violation("moving modules to same-named files in different directories changes the document beyond implicit names (aliasing of components)",
                          {"program": progs.source_of(relocate(p))}, "same document up to implicit names", "different")
        elif a.get("status") == "ok" and hashes(a["doc"]):
            ctx.count("relocated_with_components")
    ctx.cov["distinct_nontrivial"] = ctx.cov["distribution"].get("nontrivial", 0)
    ctx.cov["rule"] = ("random declaration graphs of 2-6 declarations (schemas, functions, aliases, contents) with random mentions, verdict compared with the "
                       "cycle criterion; corpus of recursion shapes; multi-module generated programs compiled in place and relocated to d<i>/types.oal. "
                       "distinct_nontrivial = distinct accepted cyclic programs whose document has an implicit component")
    ctx.assumptions = ["the cycle criterion is evaluated on the generator's own definition graph (an independent reference)",
                       "time bound: 20 s per case on the real code; the model cannot exhibit stack depth"]
    return core.finish(ctx)
