#!/usr/bin/env python3
"""Regenerates MANIFEST.json from the table below (kept here so that the claims per property live in one place)."""
import json, os, subprocess
V = os.path.dirname(os.path.dirname(os.path.abspath(__file__)))
props = [json.loads(l)['id'] for l in open(os.path.join(V, 'properties.jsonl'))]
hooks = subprocess.run("git -C /repo log --format=%h --grep='^verif hook'", shell=True, capture_output=True, text=True).stdout.split()
CLAIMS = {
 "C16": ("Kernel-checked theorems (12, closed under the global context) about a Gallina transcription of the four conversion scans, for all texts, offsets and positions: round trip on boundaries outside CRLF interiors, equality with an independent LSP reference (clamping), exact range selection, char index. The model is tied to the code on every run by exhaustive differential execution (extracted OCaml vs the real functions).",
         "Trusted: Coq kernel, extraction (ExtrOcamlBasic), the Rust harness and python driver; u32 counters of the code assumed not to wrap (texts < 4 GiB). K7 (offset inside CRLF) is a recorded known finding with a refutation lemma.",
         "Rocq proof by induction over the scans + exhaustive model/implementation correspondence", "DESIGN.md 7 C16"),
 "C07": ("Kernel-checked theorems about a Gallina model of unify.rs/union.rs (union-find shown to be a triangular substitution): the unifier keeps its substitution triangular/acyclic, reduce terminates on such substitutions within an explicit fuel bound, accepted systems are solved by the result, the fixed occurs check rejects self-containing property types (F2 regression lemma about the pinned occurs). Partial: termination of unify itself and completeness (order/name independence) are stated (C07_full) but not proved; they are carried by the tie: exhaustive small equation systems + random + solvable-by-construction systems, model vs implementation incl. failing-equation index, vs an independent Robinson unifier, under permutation/renaming/side swap.",
         "Trusted: Coq kernel, extraction, harness, python reference unifier. The model is the union-find read as a variable-to-tag map (justified in Model/Unify.v, validated by the tie). Hook: cfg(oal_verif) re-export of the inference module.",
         "Rocq proof (triangular-substitution invariant, soundness, reduce termination) + exhaustive/random differential unification", "DESIGN.md 7 C07"),
 "C10": ("Kernel-checked theorems about a Gallina transcription of module::load (LIFO work list, deps map, edge list, two-phase import handling) for every file system and any number of modules: on success every reachable module is loaded/parsed exactly once and compiled exactly once after all modules it imports; every error names a real defect of the reachable import graph (cycle incl. self import, missing import reported from its importer, unparsable module, failing compile); nothing is compiled on a load error; termination with an explicit fuel bound; the verdict cannot change under permutation of use statements; join is invariant under ./ and name/.. spellings. petgraph's toposort is a parameter with a stated contract. Tie: recording in-memory Loader around the real load, exhaustive 3-module graphs + random graphs, Locator::join vs the model's join.",
         "Trusted: Coq kernel, extraction, harness; toposort contract (topo_spec) and url::Url::join are validated at run time, not derived. K9 (two unqualified imports exporting one name make resolution depend on use order) belongs to name resolution and is reported under C08.",
         "Rocq proof (loop invariant over the loader state machine) + exhaustive/random differential loading", "DESIGN.md 7 C10"),
 "C14": ("Kernel-checked frame theorems about a Gallina transcription of Builder::into_openapi over abstract documents (ordered member lists, opaque member values, structured components): for every base, default base and generated paths/schemas, every top-level member other than paths/components and every component section other than schemas is the base's, paths and schemas are the program's and equal those of the base-less output; the replace-all-components mutation is refuted. Tie: the extracted merge is run on the member structure of every generated base and must rebuild exactly the document the implementation emits; monitor: field-wise frame comparison on the implementation.",
         "Trusted: Coq kernel, extraction, harness. Member values are opaque in the model (their preservation is checked on the implementation's output); what openapiv3 cannot deserialise from a base is outside the claim.",
         "Rocq frame proof over the merge function + differential merge on generated bases", "DESIGN.md 7 C14"),
 "C03": ("Kernel-checked theorems (any URI, any status value): the {variables} readable in an emitted path key are exactly the required path parameters, in order (under the lexer's character classes); every response key is default, a code 100-599 or 1XX-5XX (HttpStatus::try_from, NXX literals); uniqueness of operationIds is refuted on the faithful model (K6, two recorded known findings). Partial: $ref closure is carried by the evaluator-level checks and the validator here; YAML re-parse is checked on the implementation only. Tie: model vs emitter on generated URI shapes and status values; monitor O03: independent validator over documents of generated programs (every fourth with a base).",
         "Trusted: Coq kernel, extraction, harness, the python validator. Known findings K6a/K6b (duplicate operationIds) are keyed by the two witnesses and a narrow class predicate.",
         "Rocq proofs over URI pattern/status models + differential emission + document validator", "DESIGN.md 7 C03"),
 "C06": ("The universal part is thin by nature (Gallina functions are deterministic): the model gives the one iterated hash collection of the compile path an explicit iteration-order oracle, refutes determinism for the pinned tree (F3, fixed) and proves the fixed emitter order-preserving and lossless on examples; scope identifiers are shown to be per-evaluation. The weight is on the tie: an inventory of every HashMap/HashSet mention and hidden-state primitive (time, randomness, statics, atomics, threads) in the compile path, regenerated from /repo on every run and compared with the committed baseline, and monitor O06: byte equality of the YAML across fresh processes, repeated in-process compilations and different compilation histories.",
         "Trusted: Coq kernel, harness, the source scanner (regular expressions over rustfmt-formatted code). Process-level entropy is sampled, not enumerated.",
         "Rocq oracle model + source inventory + multi-process byte comparison", "DESIGN.md 7 C06"),
}
m = {"version": 1, "setup_cmd": "./setup.sh",
     "hooks": {"guard": "oal_verif", "enable": "RUSTFLAGS=\"--cfg oal_verif\" (set by the driver for every build of /repo's crates; a cfg flag, no cargo feature)",
               "baseline_off_cmd": "cd /repo && cargo test --workspace --no-fail-fast --offline",
               "source_commits": hooks, "add_only": True},
     "engines": [{"name": "rocq-model", "path": "coq/", "serves_properties": sorted(CLAIMS),
                  "kind_free_text": "Coq 8.16 development: executable Gallina model (Model/), proofs (Proofs/), property theorems (Properties/), extracted to OCaml (runner/) and compared with the real crates (harness/) by ./check"}],
     "checks": [], "not_applicable": [], "notes": "see DESIGN.md"}
for p in props:
    if p in CLAIMS:
        text, note, tech, ref = CLAIMS[p]
        m["checks"].append({"property_id": p, "quick_cmd": "./check %s --tier quick" % p, "thorough_cmd": "./check %s --tier thorough" % p,
                            "evidence_file": "evidence/%s.json" % p, "replay_cmd_template": "./check %s --replay {path}" % p, "engine": "rocq-model",
                            "level_claimed": {"category": "proof", "text": text, "design_ref": ref}, "level_note": note, "technique": tech})
    else:
        m["not_applicable"].append({"property_id": p, "reason": "check under construction in this session (model and theorems planned in DESIGN.md 7); not yet claimed"})
json.dump(m, open(os.path.join(V, 'MANIFEST.json'), 'w'), indent=1)
print("claimed:", sorted(CLAIMS))
