(** Property C16 — editor positions and byte offsets convert exactly in both
    directions. Statements only; proofs live in Proofs/PositionProofs.v. *)
From Oal Require Import Text Position PositionProofs.

(** a byte offset on a character boundary is [len8s pre] for a split
    [t = pre ++ suf] of the text *)

Theorem C16_roundtrip : forall pre suf,
  crlf_wf (pre ++ suf) = true ->
  inside_crlf pre suf = false ->
  let t := pre ++ suf in
  let p := utf8_to_position t (len8s pre) in
  position_to_utf8 t (fst p) (snd p) = len8s pre.
Proof. exact roundtrip. Qed.
Print Assumptions C16_roundtrip.

(** K7: the statement without [inside_crlf] is false of the code's scans *)
Theorem C16_roundtrip_crlf_refuted : exists pre suf,
  crlf_wf (pre ++ suf) = true /\ inside_crlf pre suf = true /\
  let t := pre ++ suf in
  let p := utf8_to_position t (len8s pre) in
  position_to_utf8 t (fst p) (snd p) <> len8s pre.
Proof. exact roundtrip_crlf_refuted. Qed.
Print Assumptions C16_roundtrip_crlf_refuted.

Theorem C16_position_is_reference : forall t pl pc,
  position_to_utf8 t pl pc = pos_spec t pl pc.
Proof. exact position_to_utf8_spec. Qed.
Print Assumptions C16_position_is_reference.

Theorem C16_clamp_text_end : forall t pl pc,
  count_lf t < pl -> position_to_utf8 t pl pc = len8s t.
Proof. exact clamp_text_end. Qed.
Print Assumptions C16_clamp_text_end.

Theorem C16_clamp_line_end : forall a l r pc,
  line_shape a l r -> len16s l <= pc ->
  position_to_utf8 (a ++ l ++ r) (count_lf a) pc = len8s a + len8s l.
Proof. exact clamp_line_end. Qed.
Print Assumptions C16_clamp_line_end.

Theorem C16_exact_column : forall a p q r,
  line_shape a (p ++ q) r ->
  position_to_utf8 (a ++ (p ++ q) ++ r) (count_lf a) (len16s p) = len8s a + len8s p.
Proof. exact exact_column. Qed.
Print Assumptions C16_exact_column.

Theorem C16_mid_surrogate_rounds_up : forall a p c q r,
  line_shape a (p ++ c :: q) r -> len16 c = 2 ->
  position_to_utf8 (a ++ (p ++ c :: q) ++ r) (count_lf a) (len16s p + 1)
  = len8s a + len8s (p ++ [c]).
Proof. exact mid_surrogate_rounds_up. Qed.
Print Assumptions C16_mid_surrogate_rounds_up.

Theorem C16_position_mono_in_line : forall t pl j k,
  j <= k -> position_to_utf8 t pl j <= position_to_utf8 t pl k.
Proof. exact position_mono_in_line. Qed.
Print Assumptions C16_position_mono_in_line.

Theorem C16_range_selects_span : forall a b c,
  let t := a ++ b ++ c in
  let r := utf8_range_to_position t (len8s a) (len8s (a ++ b)) in
  select16 (utf16 t) (fst r) (snd r) = utf16 b.
Proof. exact range_selects_span. Qed.
Print Assumptions C16_range_selects_span.

Theorem C16_position_inside_line : forall pre suf,
  snd (utf8_to_position (pre ++ suf) (len8s pre)) = len16s (last_line pre)
  /\ fst (utf8_to_position (pre ++ suf) (len8s pre)) = count_lf pre.
Proof. exact position_inside_line. Qed.
Print Assumptions C16_position_inside_line.

Theorem C16_char_span_exact : forall pre mid suf,
  char_span (pre ++ mid ++ suf) (len8s pre) (len8s (pre ++ mid)) = (N.of_nat (length pre), N.of_nat (length pre + length mid)).
Proof. exact char_span_exact. Qed.
Print Assumptions C16_char_span_exact.

Theorem C16_char_index_boundary : forall pre suf,
  utf8_to_char_index (pre ++ suf) (len8s pre) = N.of_nat (length pre).
Proof. exact char_index_boundary. Qed.
Print Assumptions C16_char_index_boundary.

Theorem C16_char_index_bound : forall t i, utf8_to_char_index t i <= N.of_nat (length t).
Proof. exact char_index_bound. Qed.
Print Assumptions C16_char_index_bound.

Theorem C16_char_index_mono : forall t i j,
  i <= j -> utf8_to_char_index t i <= utf8_to_char_index t j.
Proof. exact char_index_mono. Qed.
Print Assumptions C16_char_index_mono.

(** positions are monotone in the lexicographic order, across lines too *)
Theorem C16_position_mono : forall t l c l' c',
  pos_le l c l' c' -> position_to_utf8 t l c <= position_to_utf8 t l' c'.
Proof. exact position_mono. Qed.
Print Assumptions C16_position_mono.

(** non-vacuity: the hypotheses are met by a text mixing 1-4 byte characters,
    LF and CRLF *)
Example C16_hyps_inhabited :
  let pre := [97; 233; CR; LF; 128521] in let suf := [8364; CR; LF; 33] in
  crlf_wf (pre ++ suf) = true /\ inside_crlf pre suf = false /\
  line_shape [97; CR; LF] [128521; 8364] [CR; LF; 33].
Proof.
  cbv zeta. split; [reflexivity|]. split; [reflexivity|].
  split; [right; exists [97; CR]; reflexivity|].
  split; [reflexivity|]. split; [reflexivity|]. right; reflexivity.
Qed.
