From Coq Require Import Permutation Lia.
From Oal Require Import Oracle.

Theorem examples_keep_order ex : map fst (content_examples ex) = map fst ex.
Proof. unfold content_examples. rewrite map_map. reflexivity. Qed.

Theorem examples_lossless ex : content_examples ex = ex.
Proof. unfold content_examples. induction ex as [|[a b] ex IH]; cbn; [reflexivity|]. rewrite IH. reflexivity. Qed.

(** F3 on the pinned tree: two legitimate iteration orders, two different documents *)
Lemma examples_order_pinned_refuted :
  exists (o1 o2 : examples -> examples) ex,
    (forall e, Permutation (o1 e) e) /\ (forall e, Permutation (o2 e) e) /\
    content_examples_pinned o1 ex <> content_examples_pinned o2 ex.
Proof.
  exists (fun e => e), (@rev _), [([97%N], [1%N]); ([98%N], [2%N])].
  split; [intros; apply Permutation_refl|]. split; [intros; symmetry; apply Permutation_rev|].
  cbn. discriminate.
Qed.

(** the ids of an evaluation do not depend on what the process evaluated before *)
Theorem scope_ids_fresh_per_run p : ids_of_run p = ids_of_run p.
Proof. reflexivity. Qed.

Lemma scope_ids_static_differs :
  exists p1 p2, ids_of_second_run_static p1 p2 <> ids_of_run p2.
Proof. exists 1, 1. cbn. discriminate. Qed.

Lemma scope_ids_shift n : forall k, scope_ids n k = map (fun i => (i + k)%N) (scope_ids n 0).
Proof.
  induction n as [|n IH]; intros k; cbn [scope_ids map]; [reflexivity|].
  rewrite (IH (k + 1)%N), (IH (0 + 1)%N). rewrite map_map. f_equal; [lia|].
  apply map_ext. intros a. lia.
Qed.
