(** The yield theorem (property C11): for every grammar, token list and fuel, the leaves of
    the matches returned by the parser are exactly the non-trivia tokens between the start
    cursor and the returned cursor, in source order, each once; cursors only move forward and
    always rest on a non-trivia token or at the end. *)
From Coq Require Import Lia Arith PeanoNat.
From Oal Require Import Peg PegProofs.

Section Yield.
Variable class_ok : N -> N -> bool.
Variable is_trivia : N -> bool.
Variable K_IDENT_REF : N.
Variable g : nat -> pexp.
Variable toks : list N.

Notation run := (Peg.run class_ok is_trivia K_IDENT_REF g toks).
Notation skip := (Peg.skip is_trivia toks).
Notation kind_at := (Peg.kind_at toks).

Definition nontriv_at (i : nat) : bool :=
  match kind_at i with Some k => negb (is_trivia k) | None => false end.

(** the non-trivia token indices in [s, e) *)
Definition ntriv (s e : nat) : list nat := filter nontriv_at (seq s (e - s)).

Definition aligned (s : nat) : Prop := length toks <= s \/ nontriv_at s = true.

Lemma ntriv_refl s : ntriv s s = [].
Proof. unfold ntriv. rewrite Nat.sub_diag. reflexivity. Qed.

Lemma ntriv_app s m e : s <= m -> m <= e -> ntriv s e = ntriv s m ++ ntriv m e.
Proof.
  intros H1 H2. unfold ntriv. rewrite <- filter_app. f_equal.
  replace (e - s) with ((m - s) + (e - m)) by lia. rewrite seq_app. f_equal. f_equal. lia.
Qed.

Lemma ntriv_head s e : s < e -> ntriv s e = (if nontriv_at s then [s] else []) ++ ntriv (S s) e.
Proof.
  intros H. unfold ntriv. replace (e - s) with (S (e - S s)) by lia. cbn [seq filter].
  destruct (nontriv_at s); reflexivity.
Qed.

Lemma skipn_cons {A} (l : list A) : forall s k rest, skipn s l = k :: rest -> skipn (S s) l = rest /\ nth_error l s = Some k.
Proof.
  induction l as [|x l IH]; intros s k rest H; [destruct s; discriminate|].
  destruct s as [|s]; cbn [skipn nth_error] in *; [inversion H; subst; auto|]. apply IH. exact H.
Qed.

Lemma skip_from_spec : forall rest s,
  skipn s toks = rest -> s + length rest = length toks ->
  let r := skip_from is_trivia rest s in
  s <= r /\ r <= length toks /\ aligned r /\ ntriv s r = [].
Proof.
  induction rest as [|k rest IH]; intros s Hs Hlen; cbn [skip_from].
  - cbn [length] in Hlen. repeat split; try lia. left. lia. apply ntriv_refl.
  - destruct (skipn_cons _ _ _ _ Hs) as [Hs' Hk]. cbn [length] in Hlen.
    destruct (is_trivia k) eqn:Et.
    + destruct (IH (S s) Hs' ltac:(lia)) as (A & B & C & D). repeat split; try lia; [exact C|].
      rewrite ntriv_head by lia. unfold nontriv_at, Peg.kind_at. rewrite Hk, Et. cbn [negb app]. exact D.
    + repeat split; try lia. right. unfold nontriv_at, Peg.kind_at. rewrite Hk, Et. reflexivity. apply ntriv_refl.
Qed.

Lemma skip_spec s : s <= length toks ->
  s <= skip s /\ skip s <= length toks /\ aligned (skip s) /\ ntriv s (skip s) = [].
Proof.
  intros H. unfold Peg.skip. apply skip_from_spec; [reflexivity|]. rewrite skipn_length. lia.
Qed.

Lemma leaves_of_app a b : leaves_of (a ++ b) = leaves_of a ++ leaves_of b.
Proof. unfold leaves_of. apply flat_map_app. Qed.

Lemma leaves_of_node k m : leaves_of [Node k m] = leaves_of m.
Proof. unfold leaves_of. cbn [flat_map leaves]. apply app_nil_r. Qed.

Theorem yield : forall n p s acc s' ms,
  aligned s -> s <= length toks -> run n p s acc = Ok s' ms ->
  s <= s' /\ s' <= length toks /\ aligned s' /\ leaves_of ms = ntriv s s'.
Proof.
  induction n as [|n IH]; intros p s acc s' ms Ha Hs H; [discriminate|].
  rewrite run_eq in H. destruct p.
  - inversion H; subst. repeat split; try lia; [exact Ha|]. rewrite ntriv_refl. reflexivity.
  - destruct (kind_at s) as [k|] eqn:Ek; [|discriminate].
    destruct (class_ok c k); [|discriminate]. inversion H; subst.
    assert (Hlt : s < length toks).
    { unfold Peg.kind_at in Ek. apply nth_error_Some. congruence. }
    destruct (skip_spec (S s) ltac:(lia)) as (A & B & C & D).
    repeat split; try lia; [exact C|].
    rewrite (ntriv_app s (S s)) by lia. rewrite D, app_nil_r.
    rewrite ntriv_head by lia. rewrite ntriv_refl, app_nil_r.
    destruct Ha as [Ha|Ha]; [lia|]. rewrite Ha. reflexivity.
  - destruct (run n p1 s acc) as [s1 m1| |] eqn:E1; try discriminate.
    destruct (IH _ _ _ _ _ Ha Hs E1) as (A1 & B1 & C1 & D1).
    destruct (run n p2 s1 (acc ++ m1)) as [s2 m2| |] eqn:E2; try discriminate. inversion H; subst.
    destruct (IH _ _ _ _ _ C1 B1 E2) as (A2 & B2 & C2 & D2).
    repeat split; try lia; [exact C2|]. rewrite leaves_of_app, D1, D2. symmetry. apply ntriv_app; lia.
  - destruct (run n p1 s acc) as [s1 m1| |] eqn:E1; try discriminate.
    + inversion H; subst. apply (IH _ _ _ _ _ Ha Hs E1).
    + apply (IH _ _ _ _ _ Ha Hs H).
  - destruct (run n p s []) as [s1 m1| |] eqn:E1; try discriminate. inversion H; subst.
    destruct (IH _ _ _ _ _ Ha Hs E1) as (A1 & B1 & C1 & D1). repeat split; try assumption.
    rewrite leaves_of_node. exact D1.
  - destruct (run n p s []) as [s1 m1| |] eqn:E1; try discriminate.
    destruct (IH _ _ _ _ _ Ha Hs E1) as (A1 & B1 & C1 & D1).
    destruct m1 as [|x [|y m1]]; inversion H; subst; repeat split; try assumption; rewrite leaves_of_node; exact D1.
  - apply (IH _ _ _ _ _ Ha Hs H).
  - apply (IH _ _ _ _ _ Ha Hs H).
  - destruct (run n p1 s acc) as [s1 m1| |] eqn:E1; try discriminate.
    + destruct (IH _ _ _ _ _ Ha Hs E1) as (A1 & B1 & C1 & D1).
      destruct (run n p2 s1 (acc ++ m1)) as [s2 m2| |] eqn:E2; try discriminate. inversion H; subst.
      destruct (IH _ _ _ _ _ C1 B1 E2) as (A2 & B2 & C2 & D2).
      repeat split; try lia; [exact C2|]. rewrite leaves_of_app, D1, D2. symmetry. apply ntriv_app; lia.
    + inversion H; subst. repeat split; try lia; [exact Ha|]. rewrite ntriv_refl. reflexivity.
  - destruct (ref_func K_IDENT_REF toks acc); [discriminate|]. inversion H; subst.
    repeat split; try lia; [exact Ha|]. rewrite ntriv_refl. reflexivity.
Qed.

(** a whole parse starts at the first non-trivia token: the leaves of the tree are all the
    non-trivia tokens before the end cursor *)
Corollary yield_from_head n p s' ms :
  run n p (skip 0) [] = Ok s' ms ->
  skip 0 <= s' /\ s' <= length toks /\ leaves_of ms = ntriv 0 s'.
Proof.
  intros H. destruct (skip_spec 0 ltac:(lia)) as (A & B & C & D).
  destruct (yield _ _ _ _ _ _ C B H) as (A1 & B1 & C1 & D1).
  repeat split; try assumption. rewrite D1. rewrite (ntriv_app 0 (skip 0) s') by lia. rewrite D. reflexivity.
Qed.

(** ntriv lists each index at most once, in increasing order *)
Lemma ntriv_sorted s e : forall i j, nth_error (ntriv s e) i <> None -> nth_error (ntriv s e) j <> None -> i < j ->
  forall a b, nth_error (ntriv s e) i = Some a -> nth_error (ntriv s e) j = Some b -> a < b.
Proof.
  unfold ntriv. generalize (e - s). intros len. revert s.
  induction len as [|len IH]; intros s i j Hi Hj Hij a b Ea Eb; cbn [seq filter] in *.
  - destruct i; discriminate.
  - assert (Hge : forall x k, nth_error (filter nontriv_at (seq (S s) len)) k = Some x -> S s <= x).
    { intros x k Hk. apply nth_error_In in Hk. apply filter_In in Hk. destruct Hk as [Hk _]. apply in_seq in Hk. lia. }
    destruct (nontriv_at s).
    + destruct i as [|i]; destruct j as [|j]; cbn [nth_error] in *; try lia.
      * inversion Ea; subst. specialize (Hge _ _ Eb). lia.
      * eapply (IH (S s) i j); try eassumption; try congruence; lia.
    + eapply (IH (S s) i j); eassumption.
Qed.
End Yield.
