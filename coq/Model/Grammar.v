(** The grammar of oal-syntax/src/parser.rs as a value of the embedding of Peg.v.
    Token kinds and syntax kinds are numbered in declaration order (lexer.rs TokenKind,
    parser.rs syntax_nodes!). [repeat] and [intersperse] loops are auxiliary productions. *)
From Oal Require Export Peg.
Open Scope N_scope.

(** token kinds *)
Definition T_SPACE := 0.  Definition T_COMMENT_LINE := 1.  Definition T_COMMENT_BLOCK := 2.
Definition T_PRIM_URI := 5.
Definition T_ROOT := 8.  Definition T_SEGMENT := 9.
Definition T_LET := 20.  Definition T_RES := 21.  Definition T_USE := 22.  Definition T_AS := 23.
Definition T_ON := 24.  Definition T_REC := 25.
Definition T_IDENT := 26.  Definition T_IDENT_REF := 27.
Definition T_STRING := 29.  Definition T_PROPERTY := 31.
Definition T_BRACE_L := 32.  Definition T_BRACE_R := 33.  Definition T_PAREN_L := 34.  Definition T_PAREN_R := 35.
Definition T_BRACKET_L := 36.  Definition T_BRACKET_R := 37.  Definition T_CHEVRON_L := 38.  Definition T_CHEVRON_R := 39.
Definition T_SEMICOLON := 40.  Definition T_FULLSTOP := 41.  Definition T_COMMA := 42.
Definition T_EXCL := 43.  Definition T_QUEST := 44.  Definition T_AMP := 45.  Definition T_TILDE := 46.  Definition T_BAR := 47.
Definition T_EQUAL := 48.  Definition T_COLON := 49.  Definition T_DCOLON := 50.  Definition T_ARROW := 51.
Definition T_ANN_LINE := 52.  Definition T_ANN_INLINE := 53.
(** token classes: the is_literal, is_primitive, is_method, is_content predicates of TokenKind *)
Definition C_LITERAL := 100.  Definition C_PRIMITIVE := 101.  Definition C_METHOD := 102.  Definition C_CONTENT := 103.

Definition class_ok (c k : N) : bool :=
  if N.ltb c 100 then N.eqb c k
  else if N.eqb c C_LITERAL then N.leb 28 k && N.leb k 30
  else if N.eqb c C_PRIMITIVE then N.leb 3 k && N.leb k 7
  else if N.eqb c C_METHOD then N.leb 10 k && N.leb k 16
  else if N.eqb c C_CONTENT then N.leb 17 k && N.leb k 19
  else false.

Definition is_trivia (k : N) : bool := N.leb k 2.

(** syntax kinds *)
Definition K_TERMINAL := 0.  Definition K_SUBEXPR := 1.  Definition K_VARIABLE := 2.  Definition K_CONTENT_META := 3.
Definition K_CONTENT_META_LIST := 4.  Definition K_CONTENT_BODY := 5.  Definition K_CONTENT := 6.  Definition K_PROPERTY := 7.
Definition K_ARRAY := 8.  Definition K_ANNOTATIONS := 9.  Definition K_BINDINGS := 10.  Definition K_BINDING := 11.
Definition K_DECLARATION := 12.  Definition K_URI_VARIABLE := 13.  Definition K_URI_PATH := 14.  Definition K_URI_PARAMS := 15.
Definition K_URI_TEMPLATE := 16.  Definition K_PROPERTY_LIST := 17.  Definition K_OBJECT := 18.  Definition K_APPLICATION := 19.
Definition K_VARIADIC_OP := 20.  Definition K_UNARY_OP := 21.  Definition K_XFER_METHODS := 22.  Definition K_XFER_PARAMS := 23.
Definition K_XFER_DOMAIN := 24.  Definition K_TRANSFER := 25.  Definition K_IMPORT := 26.  Definition K_QUALIFIER := 27.
Definition K_RESOURCE := 28.  Definition K_XFER_LIST := 29.  Definition K_RELATION := 30.  Definition K_RECURSION := 31.
Definition K_PROGRAM := 32.

(** memo tags (ParserTag) *)
Definition TAG_TERM := 0.  Definition TAG_EXPRESSION := 1.

(** sugar *)
Fixpoint seq (ps : list pexp) : pexp := match ps with [] => Eps | p :: ps' => Seq2 p (seq ps') end.
Fixpoint alt (ps : list pexp) : pexp := match ps with [] => Eps | [p] => p | p :: ps' => Alt2 p (alt ps') end.
Definition opt (p : pexp) : pexp := Alt2 p Eps.
Definition opt_node (p : pexp) (k : N) : pexp := Alt2 p (Mk k Eps).

(** production numbers *)
Definition P_PROGRAM := 0%nat.  Definition R_STATEMENTS := 1%nat.  Definition P_STATEMENT := 2%nat.  Definition P_IMPORT := 3%nat.
Definition P_QUALIFIER := 4%nat.  Definition P_IDENTIFIER := 5%nat.  Definition P_LINE_ANN := 6%nat.  Definition R_LINE_ANN := 7%nat.
Definition P_BINDING := 8%nat.  Definition P_BINDINGS := 9%nat.  Definition R_BINDINGS := 10%nat.  Definition P_RECURSION := 11%nat.
Definition P_XFER_LIST := 12%nat.  Definition R_XFER_LIST := 13%nat.  Definition P_RELATION := 14%nat.
Definition P_PROPERTY_LIST := 18%nat.  Definition R_PROPERTY_LIST := 19%nat.  Definition P_OBJECT := 20%nat.  Definition P_URI_VAR := 21%nat.
Definition P_URI_SEGMENT := 22%nat.  Definition P_URI_PATH := 23%nat.  Definition R_URI_PATH := 24%nat.  Definition P_URI_PARAMS := 25%nat.
Definition P_URI_TEMPLATE := 26%nat.  Definition P_URI_KIND := 27%nat.  Definition P_ARRAY := 28%nat.  Definition P_PROPERTY := 29%nat.
Definition P_CONTENT_META := 30%nat.  Definition P_CONTENT_META_LIST := 31%nat.  Definition R_CONTENT_META_LIST := 32%nat.
Definition P_CONTENT_BODY := 33%nat.  Definition P_CONTENT := 34%nat.  Definition P_SUBEXPR := 35%nat.  Definition P_TERM := 36%nat.
Definition P_TERM_KIND := 37%nat.  Definition P_OPTIONAL := 38%nat.  Definition P_REQUIRED := 39%nat.  Definition P_UNARY_KIND := 40%nat.
Definition P_VARIABLE := 41%nat.  Definition P_APPLICATION := 42%nat.  Definition R_APPLICATION := 43%nat.  Definition P_APPLY_KIND := 44%nat.
Definition P_RANGE_KIND := 45%nat.  Definition R_RANGE := 46%nat.  Definition P_JOIN_KIND := 47%nat.  Definition R_JOIN := 48%nat.
Definition P_ANY_KIND := 49%nat.  Definition R_ANY := 50%nat.  Definition P_SUM_KIND := 51%nat.  Definition R_SUM := 52%nat.
Definition P_XFER_DOMAIN := 53%nat.  Definition P_XFER_PARAMS := 54%nat.  Definition P_XFER_METHODS := 55%nat.  Definition R_XFER_METHODS := 56%nat.
Definition P_TRANSFER := 57%nat.  Definition P_XFER_KIND := 58%nat.  Definition P_RELATION_KIND := 59%nat.  Definition P_EXPRESSION := 60%nat.
Definition P_DECLARATION := 61%nat.  Definition P_RESOURCE := 62%nat.

(** repeat(.., &[p]) *)
Definition rep1 (self : nat) (p : pexp) : pexp := Alt2 (Seq2 p (Call self)) Eps.
(** the tail of intersperse(.., p, infix) *)
Definition sep_tail (self : nat) (i p : pexp) : pexp := Alt2 (Seq2 i (Seq2 p (Call self))) Eps.

Definition oal_grammar (nt : nat) : pexp :=
  match nt with
  | 0 => Mk K_PROGRAM (Call R_STATEMENTS)
  | 1 => rep1 R_STATEMENTS (Call P_STATEMENT)
  | 2 => alt [Call P_IMPORT; Call P_DECLARATION; Call P_RESOURCE]
  | 3 => Mk K_IMPORT (seq [Tok T_USE; Tok T_STRING; opt_node (Call P_QUALIFIER) K_QUALIFIER; Tok T_SEMICOLON])
  | 4 => Mk K_QUALIFIER (seq [Tok T_AS; Call P_IDENTIFIER])
  | 5 => alt [Tok T_IDENT_REF; Tok T_IDENT]
  | 6 => Mk K_ANNOTATIONS (Call R_LINE_ANN)
  | 7 => rep1 R_LINE_ANN (Tok T_ANN_LINE)
  | 8 => Mk K_BINDING (Tok T_IDENT)
  | 9 => Mk K_BINDINGS (Call R_BINDINGS)
  | 10 => rep1 R_BINDINGS (Call P_BINDING)
  | 11 => Mk K_RECURSION (seq [Tok T_REC; Call P_BINDING; Call P_EXPRESSION])
  | 12 => Mk K_XFER_LIST (Seq2 (Call P_EXPRESSION) (Call R_XFER_LIST))
  | 13 => sep_tail R_XFER_LIST (Tok T_COMMA) (Call P_EXPRESSION)
  | 14 => Mk K_RELATION (seq [Call P_TERM_KIND; Tok T_ON; Call P_XFER_LIST])
  | 18 => Mk K_PROPERTY_LIST (Call R_PROPERTY_LIST)
  | 19 => Alt2 (Seq2 (Call P_EXPRESSION) (Alt2 (Seq2 (Tok T_COMMA) (Call R_PROPERTY_LIST)) Eps)) Eps
  | 20 => Mk K_OBJECT (seq [Tok T_BRACE_L; Call P_PROPERTY_LIST; Tok T_BRACE_R])
  | 21 => Mk K_URI_VARIABLE (seq [Tok T_ROOT; Tok T_BRACE_L; Call P_EXPRESSION; Tok T_BRACE_R])
  | 22 => alt [Tok T_SEGMENT; Call P_URI_VAR; Tok T_ROOT]
  | 23 => Mk K_URI_PATH (Seq2 (Call P_URI_SEGMENT) (Call R_URI_PATH))
  | 24 => rep1 R_URI_PATH (Call P_URI_SEGMENT)
  | 25 => Mk K_URI_PARAMS (seq [Tok T_QUEST; Call P_OBJECT])
  | 26 => Mk K_URI_TEMPLATE (seq [Call P_URI_PATH; opt (Call P_URI_PARAMS)])
  | 27 => alt [Tok T_PRIM_URI; Call P_URI_TEMPLATE]
  | 28 => Mk K_ARRAY (seq [Tok T_BRACKET_L; Call P_EXPRESSION; Tok T_BRACKET_R])
  | 29 => Mk K_PROPERTY (seq [Tok T_PROPERTY; opt (alt [Tok T_EXCL; Tok T_QUEST]); Call P_EXPRESSION])
  | 30 => Mk K_CONTENT_META (seq [Tok C_CONTENT; Tok T_EQUAL; Call P_EXPRESSION])
  | 31 => Mk K_CONTENT_META_LIST (Seq2 (Call P_CONTENT_META) (Call R_CONTENT_META_LIST))
  | 32 => sep_tail R_CONTENT_META_LIST (Tok T_COMMA) (Call P_CONTENT_META)
  | 33 => Mk K_CONTENT_BODY (Call P_EXPRESSION)
  | 34 => Mk K_CONTENT (seq [Tok T_CHEVRON_L;
                             opt (alt [seq [Call P_CONTENT_META_LIST; Tok T_COMMA; Call P_CONTENT_BODY];
                                       Call P_CONTENT_META_LIST;
                                       Call P_CONTENT_BODY]);
                             Tok T_CHEVRON_R])
  | 35 => Mk K_SUBEXPR (seq [Tok T_PAREN_L; Call P_EXPRESSION; Tok T_PAREN_R])
  | 36 => Mk K_TERMINAL (seq [Call P_LINE_ANN;
                              alt [Tok C_LITERAL; Tok C_PRIMITIVE; Call P_URI_KIND; Call P_ARRAY; Call P_PROPERTY;
                                   Call P_OBJECT; Call P_CONTENT; Call P_SUBEXPR; Call P_VARIABLE];
                              opt (Tok T_ANN_INLINE)])
  | 37 => Memo TAG_TERM (Call P_TERM)
  | 38 => Mk K_UNARY_OP (seq [Call P_TERM_KIND; Tok T_QUEST])
  | 39 => Mk K_UNARY_OP (seq [Call P_TERM_KIND; Tok T_EXCL])
  | 40 => alt [Call P_OPTIONAL; Call P_REQUIRED; Call P_TERM_KIND]
  | 41 => Mk K_VARIABLE (Seq2 (Call P_IDENTIFIER) (IfThen (Tok T_FULLSTOP) (Call P_IDENTIFIER)))
  | 42 => Mk K_APPLICATION (seq [Call P_VARIABLE; Call P_UNARY_KIND; Call R_APPLICATION])
  | 43 => rep1 R_APPLICATION (Call P_UNARY_KIND)
  | 44 => alt [Call P_APPLICATION; Call P_UNARY_KIND]
  | 45 => Collapse K_VARIADIC_OP (Seq2 (Call P_APPLY_KIND) (Call R_RANGE))
  | 46 => sep_tail R_RANGE (Tok T_DCOLON) (Call P_APPLY_KIND)
  | 47 => Collapse K_VARIADIC_OP (Seq2 (Call P_RANGE_KIND) (Call R_JOIN))
  | 48 => sep_tail R_JOIN (Tok T_AMP) (Call P_RANGE_KIND)
  | 49 => Collapse K_VARIADIC_OP (Seq2 (Call P_JOIN_KIND) (Call R_ANY))
  | 50 => sep_tail R_ANY (Tok T_TILDE) (Call P_JOIN_KIND)
  | 51 => Collapse K_VARIADIC_OP (Seq2 (Call P_ANY_KIND) (Call R_SUM))
  | 52 => sep_tail R_SUM (Tok T_BAR) (Call P_ANY_KIND)
  | 53 => Mk K_XFER_DOMAIN (seq [Tok T_COLON; Call P_TERM_KIND])
  | 54 => Mk K_XFER_PARAMS (Call P_OBJECT)
  | 55 => Mk K_XFER_METHODS (Seq2 (Tok C_METHOD) (Call R_XFER_METHODS))
  | 56 => sep_tail R_XFER_METHODS (Tok T_COMMA) (Tok C_METHOD)
  | 57 => Mk K_TRANSFER (seq [Call P_XFER_METHODS; opt_node (Call P_XFER_PARAMS) K_XFER_PARAMS;
                              opt_node (Call P_XFER_DOMAIN) K_XFER_DOMAIN; Tok T_ARROW; Call P_RANGE_KIND])
  | 58 => alt [Call P_TRANSFER; Call P_SUM_KIND]
  | 59 => alt [Call P_RELATION; Call P_XFER_KIND]
  | 60 => Memo TAG_EXPRESSION (alt [Call P_RECURSION; Call P_RELATION_KIND])
  | 61 => Mk K_DECLARATION (seq [Call P_LINE_ANN; Tok T_LET; Call P_IDENTIFIER; Call P_BINDINGS; NotRefFunc;
                                 Tok T_EQUAL; Call P_EXPRESSION; Tok T_SEMICOLON])
  | 62 => Mk K_RESOURCE (seq [Tok T_RES; Call P_EXPRESSION; Tok T_SEMICOLON])
  | _ => Tok 999
  end%nat.

(** oal_syntax::parse after tokenisation: parse_program from the first non-trivia token *)
Definition parse_pure (fuel : nat) (toks : list N) : res :=
  run class_ok is_trivia T_IDENT_REF oal_grammar toks fuel (Call P_PROGRAM) (skip is_trivia toks 0) [].

Definition parse_memo (fuel : nat) (toks : list N) : res * mstate :=
  runm class_ok is_trivia T_IDENT_REF oal_grammar toks fuel (Call P_PROGRAM) (skip is_trivia toks 0) [] (mk_mstate [] 0 0).
