(** The generic parser theorems instantiated for the oal grammar. *)
From Coq Require Import Lia.
From Oal Require Import Peg Grammar PegProofs PegYield.
Local Open Scope nat_scope.

Definition oal_tag_body (tag : N) : pexp :=
  if N.eqb tag TAG_TERM then Call P_TERM else alt [Call P_RECURSION; Call P_RELATION_KIND].

Lemma oal_wf : forall nt, wf_pexp oal_tag_body (oal_grammar nt).
Proof.
  intros nt.
  do 63 (destruct nt as [|nt]; [cbn; repeat split; reflexivity|]).
  cbn. exact I.
Qed.

(** whatever the memoising parser answers, the plain parser answers *)
Theorem oal_memo_transparent n toks r st :
  parse_memo n toks = (r, st) -> r <> Fuel -> exists m, parse_pure m toks = r.
Proof.
  unfold parse_memo, parse_pure. intros H Hr.
  eapply memo_transparent_top; [exact oal_wf| |exact H|exact Hr]. exact I.
Qed.

(** more fuel never changes the answer of either parser's reference *)
Theorem oal_parse_stable n m toks r : parse_pure n toks = r -> r <> Fuel -> n <= m -> parse_pure m toks = r.
Proof. unfold parse_pure. apply run_weaken. Qed.

(** the leaves of the tree are exactly the non-trivia tokens of the parsed prefix *)
Theorem oal_yield n toks s' ms :
  parse_pure n toks = Ok s' ms ->
  s' <= length toks /\ leaves_of ms = ntriv is_trivia toks 0 s'.
Proof.
  unfold parse_pure. intros H.
  destruct (yield_from_head class_ok is_trivia T_IDENT_REF oal_grammar toks _ _ _ _ H) as (_ & B & C). auto.
Qed.

(** a parse of a small program: a document with an object, its memoised parse hits the table *)
Example oal_parse_example :
  let toks := [20; 0; 26; 0; 48; 0; 32; 0; 31; 0; 3; 42; 0; 33; 0; 40]%N in
  exists t st, parse_memo 200 toks = (Ok 16 [t], st) /\ 0 < hits st /\ parse_pure 200 toks = Ok 16 [t]
               /\ leaves t = [0; 2; 4; 6; 8; 10; 11; 13; 15].
Proof. cbv zeta. eexists. eexists. vm_compute. repeat split; try reflexivity. lia. Qed.
