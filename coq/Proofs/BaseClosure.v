(** The document built on a base description (Model/BuilderBase.v): without a base it is the
    document of Model/Builder.v; with any base, every "$ref" inside the generated parts (the
    member "paths" and the member "schemas" of "components") resolves to a key of the
    document's own components.schemas, which are exactly the generated components; and the
    base is otherwise carried over: every top-level member other than "paths" and "components",
    and every member of "components" other than "schemas", unchanged and in order. *)
From Oal Require Import Eval Builder BuilderBase ClosureProofs BuilderProofs RefClosure.
From Coq Require Import Lia.
Local Open Scope N_scope.

Lemma teq_refl k : teq k k = true.
Proof. unfold teq. destruct (list_eq_dec N.eq_dec k k); [reflexivity|contradiction]. Qed.
Lemma teq_true a b : teq a b = true -> a = b.
Proof. unfold teq. destruct (list_eq_dec N.eq_dec a b); [intros _; assumption|discriminate]. Qed.
Lemma teq_false a b : a <> b -> teq a b = false.
Proof. unfold teq. destruct (list_eq_dec N.eq_dec a b); [contradiction|reflexivity]. Qed.

Lemma get_put_same {V} k (v : V) m : get k (put k v m) = Some v.
Proof.
  induction m as [|[k0 v0] m IH]; cbn [put get].
  - destruct (list_eq_dec N.eq_dec k k); [reflexivity|contradiction].
  - destruct (list_eq_dec N.eq_dec k k0) as [E|E]; cbn [get]; destruct (list_eq_dec N.eq_dec k k0); try contradiction; [reflexivity|exact IH].
Qed.

Lemma get_put_other {V} k k' (v : V) m : k <> k' -> get k (put k' v m) = get k m.
Proof.
  intros Hne. induction m as [|[k0 v0] m IH]; cbn [put get].
  - destruct (list_eq_dec N.eq_dec k k'); [contradiction|reflexivity].
  - destruct (list_eq_dec N.eq_dec k' k0) as [E|E]; cbn [get].
    + subst k0. destruct (list_eq_dec N.eq_dec k k'); [contradiction|reflexivity].
    + destruct (list_eq_dec N.eq_dec k k0); [reflexivity|exact IH].
Qed.

Lemma get_insert_after_new k0 k v m : get k m = None -> get k (insert_after k0 (k, v) m) = Some v.
Proof.
  induction m as [|[k1 v1] m IH]; cbn [insert_after get]; intros H.
  - destruct (list_eq_dec N.eq_dec k k); [reflexivity|contradiction].
  - destruct (list_eq_dec N.eq_dec k k1) as [E|E]; [discriminate H|].
    destruct (teq k0 k1); cbn [get]; destruct (list_eq_dec N.eq_dec k k1); try contradiction.
    + destruct (list_eq_dec N.eq_dec k k); [reflexivity|contradiction].
    + apply IH, H.
Qed.

Lemma get_insert_after_other k0 k k' v m : k <> k' -> get k (insert_after k0 (k', v) m) = get k m.
Proof.
  intros Hne. induction m as [|[k1 v1] m IH]; cbn [insert_after get].
  - destruct (list_eq_dec N.eq_dec k k'); [contradiction|reflexivity].
  - destruct (teq k0 k1); cbn [get]; destruct (list_eq_dec N.eq_dec k k1); try reflexivity.
    + destruct (list_eq_dec N.eq_dec k k'); [contradiction|reflexivity].
    + exact IH.
Qed.

Lemma remove_put k v m : remove_key k (put k v m) = remove_key k m.
Proof.
  induction m as [|[k0 v0] m IH]; cbn [put remove_key].
  - rewrite teq_refl. reflexivity.
  - destruct (list_eq_dec N.eq_dec k k0) as [E|E]; cbn [remove_key].
    + subst k0. rewrite teq_refl. reflexivity.
    + rewrite (teq_false k k0 E). rewrite IH. reflexivity.
Qed.

Lemma remove_insert_after k0 k v m : remove_key k (insert_after k0 (k, v) m) = remove_key k m.
Proof.
  induction m as [|[k1 v1] m IH]; cbn [insert_after remove_key].
  - rewrite teq_refl. reflexivity.
  - destruct (teq k0 k1); cbn [remove_key]; destruct (teq k k1); try rewrite teq_refl; try reflexivity; rewrite IH; reflexivity.
Qed.

Lemma remove_remove k k' m : remove_key k (remove_key k' m) = remove_key k' (remove_key k m).
Proof.
  induction m as [|[k1 v1] m IH]; [reflexivity|]. cbn [remove_key].
  destruct (teq k' k1) eqn:E1; destruct (teq k k1) eqn:E2; cbn [remove_key]; rewrite ?E1, ?E2; try exact IH. rewrite IH. reflexivity.
Qed.

Lemma paths_ne_components : T_paths <> T_components.
Proof. intros H; vm_compute in H; discriminate H. Qed.

(** * frame: what is carried over from the base *)
Theorem base_members_kept base ps cs :
  remove_key T_paths (remove_key T_components (with_base base ps cs)) = remove_key T_paths (remove_key T_components base).
Proof.
  unfold with_base.
  assert (E : remove_key T_paths (remove_key T_components (put T_paths ps base)) = remove_key T_paths (remove_key T_components base)).
  { rewrite (remove_remove T_paths T_components), remove_put, (remove_remove T_components T_paths). reflexivity. }
  destruct (get T_components (put T_paths ps base)) as [[| | | | | |cm]|]; rewrite ?remove_put, ?remove_insert_after; exact E.
Qed.

Theorem base_components_kept base ps cs cm :
  get T_components base = Some (JObj cm) ->
  exists cm', get T_components (with_base base ps cs) = Some (JObj cm') /\ remove_key T_schemas cm' = remove_key T_schemas cm.
Proof.
  intros H. unfold with_base.
  assert (H1 : get T_components (put T_paths ps base) = Some (JObj cm)).
  { rewrite get_put_other; [exact H|]. intros E. apply paths_ne_components. symmetry. exact E. }
  rewrite H1. exists (merge_components cs cm). split; [apply get_put_same|].
  unfold merge_components.
  assert (Hrr : forall m, remove_key T_schemas (remove_key T_schemas m) = remove_key T_schemas m).
  { induction m as [|[k v] m IH]; [reflexivity|]. cbn [remove_key]. destruct (teq T_schemas k) eqn:E; [exact IH|]. cbn [remove_key]. rewrite E, IH. reflexivity. }
  destruct cs; [apply Hrr|]. cbn [remove_key]. rewrite teq_refl. apply Hrr.
Qed.

(** the schema components of the result are the generated ones, whatever the base had *)
Theorem base_schemas_replaced base ps cs :
  schema_names (JObj (with_base base ps cs)) = map fst cs.
Proof.
  unfold schema_names, with_base.
  assert (Hm : forall cm, match get T_schemas (merge_components cs cm) with Some (JObj s) => map fst s | _ => [] end = map fst cs).
  { intros cm. unfold merge_components. destruct cs as [|c cs'].
    - cbn [map]. induction cm as [|[k v] cm IH]; [reflexivity|]. cbn [remove_key]. destruct (teq T_schemas k) eqn:E; [exact IH|].
      cbn [get]. destruct (list_eq_dec N.eq_dec T_schemas k) as [E'|E']; [subst k; rewrite teq_refl in E; discriminate E|exact IH].
    - cbn [get]. destruct (list_eq_dec N.eq_dec T_schemas T_schemas); [reflexivity|contradiction]. }
  destruct (get T_components (put T_paths ps base)) as [[| | | | | |cm]|] eqn:Eg; try (rewrite get_put_same; apply Hm).
  rewrite get_insert_after_new; [apply Hm|exact Eg].
Qed.

Lemma get_schemas_merge cs cm :
  get T_schemas (merge_components cs cm) = match cs with [] => None | _ => Some (JObj cs) end.
Proof.
  unfold merge_components. destruct cs as [|c cs'].
  - induction cm as [|[k v] cm IH]; [reflexivity|]. cbn [remove_key]. destruct (teq T_schemas k) eqn:E; [exact IH|].
    cbn [get]. destruct (list_eq_dec N.eq_dec T_schemas k) as [E'|E']; [subst k; rewrite teq_refl in E; discriminate E|exact IH].
  - cbn [get]. destruct (list_eq_dec N.eq_dec T_schemas T_schemas); [reflexivity|contradiction].
Qed.

Lemma with_base_components base ps cs :
  exists cm, get T_components (with_base base ps cs) = Some (JObj (merge_components cs cm)).
Proof.
  unfold with_base.
  destruct (get T_components (put T_paths ps base)) as [[| | | | | |cm]|] eqn:Eg;
    try (eexists; apply get_put_same).
  eexists. apply get_insert_after_new, Eg.
Qed.

Lemma with_base_paths base ps cs : get T_paths (with_base base ps cs) = Some ps.
Proof.
  unfold with_base.
  destruct (get T_components (put T_paths ps base)) as [[| | | | | |cm]|] eqn:Eg;
    try (rewrite get_put_other; [apply get_put_same|apply paths_ne_components]).
  rewrite get_insert_after_other; [apply get_put_same|apply paths_ne_components].
Qed.

Section Closure.
  Variable strs : N -> text.
  Variable table : list (rkey * schema).
  Variable names : list text.

  (** without a base: the document of Model/Builder.v *)
  Theorem document_default_base rels :
    document_with_base strs table names default_base rels = document strs table names rels.
  Proof.
    unfold document_with_base, document. destruct (paths_json strs table names rels) as [ps|]; [|reflexivity]. cbn [obind].
    destruct (components strs table names table 0 []) as [cs|]; [|reflexivity]. cbn [obind].
    destruct cs; reflexivity.
  Qed.

  (** the generated parts of a document: the member "paths" and the schema components *)
  Definition generated_parts (doc : json) : list json :=
    match doc with
    | JObj m =>
        (match get T_paths m with Some p => [p] | None => [] end) ++
        (match get T_components m with
         | Some (JObj c) => match get T_schemas c with Some s => [s] | None => [] end
         | _ => []
         end)
    | _ => []
    end.

  Theorem document_with_base_refs_resolve base rels doc :
    document_with_base strs table names base rels = Some doc ->
    forall part t, In part (generated_parts doc) -> jref_in t part -> resolves doc t.
  Proof.
    unfold document_with_base. destruct (paths_json strs table names rels) as [ps|] eqn:Ep; [|discriminate]. cbn [obind].
    destruct (components strs table names table 0 []) as [cs|] eqn:Ec; [|discriminate]. cbn [obind]. intros [= <-] part t Hpart Hin.
    assert (HR : R strs table names t).
    { unfold generated_parts in Hpart. rewrite with_base_paths in Hpart. cbn [app] in Hpart. destruct Hpart as [<-|Hpart].
      - exact (paths_clean strs table names rels ps Ep t Hin).
      - destruct (with_base_components base ps cs) as [cm Hc]. rewrite Hc, get_schemas_merge in Hpart.
        assert (Hcs : clean strs table names (JObj cs)) by (apply clean_obj, (components_clean strs table names table 0%nat [] cs (Forall_nil _) Ec)).
        destruct cs; [destruct Hpart|]. destruct Hpart as [<-|[]]. exact (Hcs t Hin). }
    destruct HR as (k & i & s & Hk & Hkept & ->). exists (untagged (name_at names i)). split; [reflexivity|].
    rewrite base_schemas_replaced.
    destruct (key_pos_nth k table 0 i s Hk) as (d & -> & Hd).
    exact (components_emit strs table names table 0%nat [] cs Ec d k s Hd Hkept).
  Qed.
End Closure.

(** evaluation, then the builder on any base: a document, closed in its generated parts *)
Theorem evaluated_document_with_base_closed strs names P n rs rels table base :
  eval_program false P n rs = Ok (rels, table) ->
  exists doc, document_with_base strs table names base rels = Some doc /\
              forall part t, In part (generated_parts doc) -> jref_in t part -> resolves doc t.
Proof.
  intros H. destruct (builder_never_panics strs names P n rs rels table H) as [j Hj].
  assert (Hd : exists doc, document_with_base strs table names base rels = Some doc).
  { unfold document in Hj. unfold document_with_base.
    destruct (paths_json strs table names rels) as [ps|]; [|discriminate Hj]. cbn [obind] in *.
    destruct (components strs table names table 0 []) as [cs|]; [|discriminate Hj]. cbn [obind]. eexists. reflexivity. }
  destruct Hd as [doc Hd]. exists doc. split; [exact Hd|].
  exact (document_with_base_refs_resolve strs table names base rels doc Hd).
Qed.
